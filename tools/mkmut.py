#!/usr/bin/env python3
"""Create /verif/mutations/<name>.diff from (file, old, new) edits applied to a
scratch copy of /repo. Usage: mkmut.py <spec.py>; spec defines MUTANTS =
[(name, file, old, new), ...]."""
import os, subprocess, sys, shutil, runpy
spec = runpy.run_path(sys.argv[1])
for name, path, old, new in spec["MUTANTS"]:
    d = "/tmp/mkmut-%d" % os.getpid()
    shutil.rmtree(d, ignore_errors=True)
    subprocess.check_call(["git", "clone", "-q", "/repo", d])
    p = os.path.join(d, path)
    s = open(p).read()
    if s.count(old) != 1:
        print("SKIP %s: pattern occurs %d times" % (name, s.count(old)))
        shutil.rmtree(d)
        continue
    open(p, "w").write(s.replace(old, new))
    diff = subprocess.check_output(["git", "-C", d, "diff"], text=True)
    open("/verif/mutations/%s.diff" % name, "w").write(diff)
    shutil.rmtree(d)
    print("wrote", name)
