#!/usr/bin/env python3
"""Regenerates /verif/MANIFEST.json from the table below. A property is
claimed only if its harness directory exists and it is listed in CLAIMED."""
import json
import os
import subprocess

VERIF = os.path.dirname(os.path.dirname(os.path.abspath(__file__)))

SCHED_NOTE = ("Trusted base: the harness fakes (streams, workers, CAS, authorizer, scripted size-class analyzer), the virtual clock, "
              "the quiescence detector (goroutine states) and the reference model in internal/sched/model.go. Interleavings are chosen at RPC granularity "
              "(stepped mode) plus whatever the Go scheduler produces in stress rounds; nothing is claimed about unexplored schedules.")

CHECKS = {
    "C01": dict(level="exploration", ref="DESIGN.md 4/C01",
                technique="runtime monitoring: stepped RPC histories vs executable reference model + structural invariant hook + concurrent stress under the race detector",
                text="Explores generated histories of Execute/WaitExecution/Synchronize/KillOperations/drain/terminate calls on a virtual clock against the real InMemoryBuildQueue. After every step each Synchronize response is compared with a reference model (which task, if any, the worker may be told to run) and a hook walks every queue, heap and the worker table under the scheduler's own lock asserting exactly-one-holder per live task; stress rounds add truly concurrent traffic with the hook running continuously and an at-most-one-instructed-worker monitor. Held = no divergence on the explored histories.",
                note=SCHED_NOTE),
    "C02": dict(level="exploration", ref="DESIGN.md 4/C02",
                technique="runtime monitoring: per-stream message histories checked against a reference model (stepped) and exactly-once/ordering/cause rules (stress)",
                text="Every message sent on every fake Execute/WaitExecution stream is recorded at the Send boundary. Stepped histories (Send gates, authorizer gates, cancellations, kills, timer ticks, worker loss) are compared message by message with the reference model: exactly one final message, nothing after it, faithful result or scheduler error whose cause occurred on the virtual clock, stage order. Stress rounds check the same structural rules and that the final result is a response some worker actually submitted for that action. Final messages must be proto.Equal to the ExecuteResponse the worker submitted (result, server logs, status details; recorded by token), and operator kill statuses must arrive with their details unchanged (DESIGN 9.10).",
                note=SCHED_NOTE),
    "C03": dict(level="exploration", ref="DESIGN.md 4/C03",
                technique="runtime monitoring: duplicate-heavy stepped histories vs reference model, in-flight map invariant hook, equal-finals monitor",
                text="Duplicate Execute requests are generated at every stage of a task's life (queued, handed to a parked worker, executing, during a retry on the largest size class, in the step of completion, after completion, with do_not_cache, with leavers and abandonment). The model predicts which operation each request attaches to and which tasks may be handed out; the hook checks that every live cacheable task is the registered in-flight entry of its digest. A WaitExecution attached to an operation that was already removed, and the scheduler's own cancellation reaching a still attached client, are rules owned by this property (DESIGN 9.8, seventh round).",
                note=SCHED_NOTE),
    "C04": dict(level="exploration", ref="DESIGN.md 4/C04",
                technique="runtime monitoring: every hand-out compared with the set of tasks/workers the documented policy allows (reference model on plain slices), heap-order hook",
                text="For every Synchronize that obtains work and every direct hand-off to a parked worker the reference model computes the set of acceptable outcomes under the documented policy (direct operations by priority/expected duration/age; otherwise lowest (executing+1)*2^(priority/100) with least-recently-served tie-break and per-level stickiness windows; nearest related parked worker) and the implementation's choice must be in it; after every step no work may be queued while an undrained worker is parked. Ties and float noise widen the acceptable set instead of raising alarms.",
                note=SCHED_NOTE + " Priorities are drawn so that exact score ties between different priorities cannot occur (they would make the cached first-queued priority depend on heap layout)."),
    "C05": dict(level="exploration", ref="DESIGN.md 4/C05",
                technique="runtime monitoring: registration/drain histories vs independent longest-prefix/platform/size-class resolver in the reference model",
                text="Worlds with nested instance name prefixes, several platforms, predeclared and worker-created queues and size classes, queue removal by timeout, drains by worker-id patterns and terminations. The model resolves each request independently (component-wise longest prefix, canonical platform, scripted size class) and checks which worker may receive which task, the instance name suffix, Execute error codes before/after the start-up grace period, Synchronize size-class validation and that drained/terminating workers get nothing while undrained ones become eligible again. In the concurrent stress rounds, where no model runs, every hand-out is checked against the necessary routing condition (the worker's prefix is a component-wise prefix of a requesting instance name, equal platform, matching instance name suffix).",
                note=SCHED_NOTE),
    "C06": dict(level="exploration", ref="DESIGN.md 4/C06",
                technique="runtime monitoring on a virtual clock: deadlines predicted by the reference model, bounded wake-up of blocked calls, zero-residue hook counts after all timeouts",
                text="Clients, workers and operators vanish or cancel at generated points; the virtual clock is advanced timer by timer. The model predicts when each worker, operation and dynamic queue must be reclaimed and which blocked calls must return in the same quiescence round; after the final phase (everything cancelled, all timeouts passed several times) the hook must count zero operations, tasks, invocations, workers, dynamic queues and pending clean-ups (a bounded background-learning backlog in predeclared queues is allowed).",
                note=SCHED_NOTE + " 'Eventually' is restated as: within the quiescence round after the virtual deadline has been observed by any call."),
}

CLAIMED = []  # filled from files present + explicit list below
EXPLICIT = os.environ.get("VERIF_CLAIM", "").split()


def main():
    props = [json.loads(l) for l in open(os.path.join(VERIF, "properties.jsonl"))]
    extra = {}
    ep = os.path.join(VERIF, "tools", "manifest_extra.json")
    if os.path.exists(ep):
        extra = json.load(open(ep))
    checks_meta = dict(CHECKS)
    checks_meta.update(extra.get("checks", {}))
    claimed = extra.get("claimed", [])
    hooks_commits = subprocess.check_output(["git", "-C", "/repo", "log", "--format=%H %s"], text=True).splitlines()
    source_commits = [l.split()[0] for l in hooks_commits if "verif hook" in l]
    checks = []
    not_applicable = []
    for p in props:
        pid = p["id"]
        low = pid.lower()
        if pid in claimed and pid in checks_meta and os.path.isdir(os.path.join(VERIF, "props", low)):
            m = checks_meta[pid]
            checks.append({
                "property_id": pid,
                "quick_cmd": "./check %s quick" % pid,
                "thorough_cmd": "./check %s thorough" % pid,
                "evidence_file": "evidence/%s.json" % pid,
                "replay_cmd_template": "./check %s quick --replay {path}" % pid,
                "engine": "check",
                "level_claimed": {"category": m["level"], "text": m["text"], "design_ref": m["ref"]},
                "level_note": m["note"],
                "technique": m["technique"],
            })
        else:
            not_applicable.append({"property_id": pid, "reason": extra.get("not_applicable", {}).get(pid, "monitor not finished/validated yet in this session; the planned monitor is described in DESIGN.md section 4")})
    man = {
        "version": 1,
        "setup_cmd": "./setup.sh",
        "hooks": {
            "guard": "verif",
            "enable": "Go build tag: checks build /repo through the replace in /verif/go.mod with `go test -c -race -tags verif`; hook files in /repo are add-only files whose first line is `//go:build verif`",
            "baseline_off_cmd": "cd /repo && go test -mod=mod -json -vet=off -count=1 -timeout 25m ./...",
            "source_commits": source_commits,
            "add_only": True,
        },
        "engines": [{
            "name": "check", "path": "/verif/check",
            "serves_properties": [c["property_id"] for c in checks],
            "kind_free_text": "driver: builds props/<id> with -race -tags verif against /repo's working tree, runs it as a child process under a watchdog, classifies harness verdicts, /repo panics and race reports, matches known_findings.txt, writes evidence/<id>.json",
        }],
        "checks": checks,
        "notes": "Runtime monitoring only; see DESIGN.md. Exit codes of ./check: 0 held on everything explored, 1 violation (VIOLATION line), 2 inconclusive, 3 machinery broken.",
        "not_applicable": not_applicable,
    }
    json.dump(man, open(os.path.join(VERIF, "MANIFEST.json"), "w"), indent=1)
    print("claimed:", [c["property_id"] for c in checks])


if __name__ == "__main__":
    main()
