#!/bin/sh
# Usage: tools/runmut.sh <CNN> <mutation.diff> [tier]
# Applies one mutation to a scratch copy of /repo, checks that the pinned
# baseline packages still build/pass, runs the check against the copy and
# prints DETECTED / MISSED. The scratch copy is removed afterwards.
ID=$1; DIFF=$(readlink -f "$2"); TIER=${3:-quick}
NAME=$(basename "$DIFF" .diff)
D=/tmp/mut-$NAME-$$
rm -rf "$D"; git clone -q /repo "$D" || exit 3
# Uncommitted hook files of /repo are needed by some harnesses.
(cd /repo && git ls-files --others --exclude-standard | while read f; do mkdir -p "$D/$(dirname $f)"; cp "$f" "$D/$f"; done)
if ! git -C "$D" apply "$DIFF"; then echo "$NAME: APPLY-FAILED"; rm -rf "$D"; exit 3; fi
TC=/root/go/pkg/mod/golang.org/toolchain@v0.0.1-go1.26.6.linux-amd64/bin/go
# RUNMUT_FAST=1 skips the build and baseline-test confirmation (for re-running
# mutants that were confirmed when they were written).
if [ -z "$RUNMUT_FAST" ]; then
if ! (cd "$D" && GOTOOLCHAIN=local GOSUMDB=off GOPROXY=off GOFLAGS=-mod=mod $TC build ./pkg/... ./cmd/bb_scheduler ./cmd/bb_worker ./cmd/bb_runner ./cmd/bb_noop_worker ./cmd/bb_virtual_tmp >/dev/null 2>"$D/.build.err"); then echo "$NAME: DOES-NOT-COMPILE"; head -5 "$D/.build.err"; rm -rf "$D"; exit 3; fi
if ! (cd "$D" && GOTOOLCHAIN=local GOSUMDB=off GOPROXY=off GOFLAGS=-mod=mod $TC test -vet=off -count=1 ./pkg/filesystem/access/... ./pkg/scheduler/invocation/... ./pkg/scheduler/platform/... >/dev/null 2>&1); then echo "$NAME: BASELINE-TESTS-FAIL"; rm -rf "$D"; exit 3; fi
fi
cd /verif
OUT=$(VERIF_REPO="$D" VERIF_WORK_SUFFIX="-mut-$NAME" ./check "$ID" "$TIER" 2>&1)
RC=$?
rm -rf "$D" ".work/$(echo $ID | tr A-Z a-z)-$TIER-mut-$NAME"
if [ $RC -eq 1 ]; then echo "$NAME: DETECTED by $ID $TIER: $(echo "$OUT" | grep -m1 '^VIOLATION' | cut -c1-300)"; else echo "$NAME: MISSED by $ID $TIER (rc=$RC): $(echo "$OUT" | tail -1)"; fi
