#!/bin/sh
# Usage: tools/seedcheck.sh <CNN> <seed-worktree> [name]
# Confirms a seeded change (SEED/patch.diff + SEED/demo/run.sh): demo passes
# without the patch and fails with it, module builds, pinned tests pass; then
# runs the quick check of CNN against the patched scratch clone and stores
# everything under /verif/seeded/<name>/.
ID=$1; W=$2; NAME=${3:-$(echo $ID | tr A-Z a-z)-$(basename $W)}
TC=/root/go/pkg/mod/golang.org/toolchain@v0.0.1-go1.26.6.linux-amd64/bin/go
export GOTOOLCHAIN=local GOSUMDB=off GOPROXY=off GOFLAGS=-mod=mod
GOBIN_DIR=$(dirname $TC); export PATH=$GOBIN_DIR:$PATH
D=/tmp/seedchk-$NAME-$$
rm -rf "$D"; git clone -q /repo "$D" || exit 3
(cd /repo && git ls-files --others --exclude-standard | grep verif | while read f; do mkdir -p "$D/$(dirname $f)"; cp "$f" "$D/$f"; done)
mkdir -p "$D/SEED"; cp -r "$W/SEED/demo" "$D/SEED/demo"
OUT=/verif/seeded/$NAME; mkdir -p "$OUT"; cp "$W/SEED/patch.diff" "$OUT/patch.diff"; rm -rf "$OUT/demo"; cp -r "$W/SEED/demo" "$OUT/demo"; cp "$W/SEED/meta.json" "$OUT/meta.agent.json" 2>/dev/null
(cd "$D" && sh SEED/demo/run.sh) > "$OUT/demo_without_patch.log" 2>&1; RC_CLEAN=$?
if ! git -C "$D" apply "$W/SEED/patch.diff"; then echo "$NAME: patch does not apply"; rm -rf "$D"; exit 3; fi
(cd "$D" && sh SEED/demo/run.sh) > "$OUT/demo_with_patch.log" 2>&1; RC_PATCHED=$?
(cd "$D" && $TC build ./pkg/... ./cmd/bb_scheduler ./cmd/bb_worker ./cmd/bb_runner ./cmd/bb_noop_worker ./cmd/bb_virtual_tmp) > "$OUT/build.log" 2>&1; RC_BUILD=$?
(cd "$D" && $TC test -vet=off -count=1 ./pkg/filesystem/access/... ./pkg/scheduler/invocation/... ./pkg/scheduler/platform/...) > "$OUT/baseline_tests.log" 2>&1; RC_TESTS=$?
cd ${VERIF_DIR:-/verif}
VERIF_REPO="$D" VERIF_WORK_SUFFIX="-seed-$NAME" ./check "$ID" quick > "$OUT/check_quick.log" 2>&1; RC_CHECK=$?
rm -rf "$D" ".work/$(echo $ID | tr A-Z a-z)-quick-seed-$NAME"
echo "$NAME: demo clean rc=$RC_CLEAN (want 0), demo patched rc=$RC_PATCHED (want !=0), build rc=$RC_BUILD, baseline tests rc=$RC_TESTS, check $ID quick rc=$RC_CHECK (1 = detected)"
grep -m2 "^VIOLATION" "$OUT/check_quick.log" | cut -c1-400
python3 - "$OUT" "$ID" "$RC_CLEAN" "$RC_PATCHED" "$RC_BUILD" "$RC_TESTS" "$RC_CHECK" <<'PY'
import json, sys, os
out, pid, rc_clean, rc_patched, rc_build, rc_tests, rc_check = sys.argv[1:8]
agent = {}
try:
    agent = json.load(open(os.path.join(out, "meta.agent.json")))
except Exception:
    pass
meta = {
    "property": pid,
    "summary": agent.get("summary", ""),
    "why_it_breaks": agent.get("why_it_breaks", ""),
    "needs_to_manifest": agent.get("needs_to_manifest", ""),
    "confirmed": {
        "demo_passes_without_change": rc_clean == "0",
        "demo_fails_with_change": rc_patched != "0",
        "module_builds_with_change": rc_build == "0",
        "pinned_tests_pass_with_change": rc_tests == "0",
    },
    "what_was_run": [
        "scratch clone of /repo (+ uncommitted verif hook files); sh SEED/demo/run.sh before and after `git apply patch.diff`",
        "go build ./pkg/... ./cmd/{bb_scheduler,bb_worker,bb_runner,bb_noop_worker,bb_virtual_tmp}",
        "go test -vet=off -count=1 ./pkg/filesystem/access/... ./pkg/scheduler/invocation/... ./pkg/scheduler/platform/...",
        "VERIF_REPO=<clone> ./check %s quick" % pid,
    ],
    "check_quick_exit_code": int(rc_check),
    "detected_by_quick_check": rc_check == "1",
}
json.dump(meta, open(os.path.join(out, "meta.json"), "w"), indent=1)
PY
