#!/bin/sh
# Usage: tools/reseed.sh <seeded-name>...
# Re-runs the quick check of the owning property against a scratch clone of
# /repo with seeded/<name>/patch.diff applied, refreshes check_quick.log and
# the check fields of meta.json. Prints one line per seed.
cd ${VERIF_DIR:-/verif}
for NAME in "$@"; do
  NAME=$(basename $NAME)
  OUT=/verif/seeded/$NAME
  ID=$(echo $NAME | cut -c1-3 | tr a-z A-Z)
  D=/tmp/reseed-$NAME-$$
  rm -rf "$D"; git clone -q /repo "$D" || exit 3
  (cd /repo && git ls-files --others --exclude-standard | grep verif | while read f; do mkdir -p "$D/$(dirname $f)"; cp "$f" "$D/$f"; done)
  if ! git -C "$D" apply "$OUT/patch.diff"; then echo "$NAME: patch does not apply"; rm -rf "$D"; continue; fi
  VERIF_REPO="$D" VERIF_WORK_SUFFIX="-seed-$NAME" ./check "$ID" quick > "$OUT/check_quick.log" 2>&1; RC=$?
  rm -rf "$D" ".work/$(echo $ID | tr A-Z a-z)-quick-seed-$NAME"
  python3 - "$OUT" "$RC" <<'PY'
import json, sys, os
out, rc = sys.argv[1:3]
p = os.path.join(out, "meta.json")
m = json.load(open(p)) if os.path.exists(p) else {}
m["check_quick_exit_code"] = int(rc); m["detected_by_quick_check"] = rc == "1"
json.dump(m, open(p, "w"), indent=1)
PY
  echo "$NAME: check $ID quick rc=$RC (1 = detected) $(grep -m1 '^VIOLATION' $OUT/check_quick.log | cut -c1-220)"
done
