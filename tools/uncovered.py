#!/usr/bin/env python3
"""tools/uncovered.py cover.out file-substring : prints uncovered blocks (merged profiles: a block counts as covered if any line for it has count>0)."""
import sys,collections
cov=collections.defaultdict(int)
for prof in sys.argv[2:]:
    for l in open(prof):
        if l.startswith("mode:"): continue
        loc,n,c=l.rsplit(" ",2)
        cov[loc]+=int(c)
sub=sys.argv[1]
out=[]
for loc,c in cov.items():
    if sub in loc and c==0:
        f,r=loc.split(":")
        a,b=r.split(",")
        out.append((f.split("/")[-1],int(a.split(".")[0]),int(b.split(".")[0])))
for f,a,b in sorted(out): print("%s:%d-%d"%(f,a,b))
