F = "pkg/scheduler/in_memory_build_queue.go"
MUTANTS = [
 ("C03-entry-removed-by-first-leaver", F,
  "		case remoteexecution.ExecutionStage_EXECUTING:\n			i.decrementExecutingWorkersCount(bq, t.currentWorker)\n		}\n	}\n	delete(t.operations, o.invocation)",
  "		case remoteexecution.ExecutionStage_EXECUTING:\n			i.decrementExecutingWorkersCount(bq, t.currentWorker)\n		}\n		delete(bq.inFlightDeduplicationMap, t.actionDigest)\n	}\n	delete(t.operations, o.invocation)"),
 ("C06-queue-removal-keeps-queued", F,
  "func (scq *sizeClassQueue) remove(bq *InMemoryBuildQueue) {\n	scq.rootInvocation.cancelAllQueuedOperations(\n		bq,\n		status.New(\n			codes.Unavailable,\n			\"Workers for this instance name, platform and size class disappeared while task was queued\",\n		).Proto(),\n	)\n",
  "func (scq *sizeClassQueue) remove(bq *InMemoryBuildQueue) {\n"),
]
