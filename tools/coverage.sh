#!/bin/sh
# tools/coverage.sh CNN <coverpkg pattern> [out]
# Builds the harness of a property with coverage instrumentation of the
# given /repo packages, runs the quick tier once and prints the functions
# of those packages that the workload never or only partly reaches.
# Diagnostic only (not a registered check): used to find paths the
# monitors never drive.
set -e
P=$1; PKG=$2; OUT=${3:-/tmp/cov-$P}
low=$(echo $P | tr A-Z a-z)
GO=/root/go/pkg/mod/golang.org/toolchain@v0.0.1-go1.26.6.linux-amd64/bin/go
export GOTOOLCHAIN=local GOSUMDB=off GOPROXY=off GOFLAGS=-mod=mod
mkdir -p $OUT
cd /verif
$GO test -c -race -tags verif -cover -coverpkg=$PKG -o $OUT/$low.test ./props/$low
cd props/$low
VERIF_SEED=${VERIF_SEED:-1} VERIF_TIER=quick VERIF_OUT=$OUT VERIF_REPLAY_DIR=$OUT/replays GOMAXPROCS=16 \
  GORACE="halt_on_error=0 log_path=$OUT/race" timeout 1500 $OUT/$low.test -test.run '^TestCheck$' -test.timeout 0 -test.coverprofile=$OUT/cover.out >$OUT/stdout 2>$OUT/stderr || echo "harness rc=$?"
cd /verif
$GO tool cover -func=$OUT/cover.out > $OUT/func.txt
tail -1 $OUT/func.txt
