// Package ev is the evidence/violation recorder shared by all property
// harnesses. A harness (a Go test binary under props/cNN) creates one Run,
// logs every case before executing it, counts situations and distinct
// history hashes, reports violations with a stable signature plus a replay
// file, and finally writes a result JSON that the ./check driver turns
// into evidence/<id>.json and the exit code.
//
// All methods are safe for concurrent use; monitor state must never become
// the race it is looking for.
package ev

import (
	"crypto/sha256"
	"encoding/hex"
	"encoding/json"
	"fmt"
	"math/rand/v2"
	"os"
	"path/filepath"
	"sort"
	"strconv"
	"strings"
	"sync"
	"time"
)

// Violation is one oracle hit.
type Violation struct {
	Sig    string `json:"sig"`    // stable signature (rule + identifying facts)
	Detail string `json:"detail"` // human readable description
	Replay string `json:"replay"` // path of the witness file
}

// Result is what a harness process leaves behind for the driver.
type Result struct {
	PropertyID         string         `json:"property_id"`
	Tier               string         `json:"tier"`
	Seed               uint64         `json:"seed"`
	Evaluations        int            `json:"evaluations"`
	DistinctNontrivial int            `json:"distinct_nontrivial"`
	DistinctAll        int            `json:"distinct_all"`
	Rule               string         `json:"rule"`
	Samples            []any          `json:"samples"`
	Situations         map[string]int `json:"situations"`
	Counters           map[string]int `json:"counters"`
	Violations         []Violation    `json:"violations"`
	Inconclusive       []string       `json:"inconclusive"`
	Assumptions        []string       `json:"assumptions"`
	Finished           bool           `json:"finished"`
	WallS              float64        `json:"wall_s"`
}

// Run accumulates the observations of one harness process.
type Run struct {
	mu        sync.Mutex
	res       Result
	start     time.Time
	outDir    string
	replayDir string
	casesFile *os.File
	hashes    map[string]bool
	hashesNT  map[string]bool
	floors    map[string]int
	maxSample int
	vioSigs   map[string]int
	replayOne string
}

// Start creates the Run for property id. Environment:
//
//	VERIF_SEED  integer seed (default 1)
//	VERIF_TIER  quick|thorough (default quick)
//	VERIF_OUT   directory for result/cases files (default .work)
//	VERIF_REPLAY_DIR directory for witness files (default replays/<id>)
//	VERIF_REPLAY path of a replay file: harness should only re-run that case
func Start(id string) *Run {
	seed := uint64(1)
	if s := os.Getenv("VERIF_SEED"); s != "" {
		if v, err := strconv.ParseUint(s, 10, 64); err == nil {
			seed = v
		} else if v, err := strconv.ParseInt(s, 10, 64); err == nil {
			seed = uint64(v)
		}
	}
	tier := os.Getenv("VERIF_TIER")
	if tier != "thorough" {
		tier = "quick"
	}
	out := os.Getenv("VERIF_OUT")
	if out == "" {
		out = ".work"
	}
	rd := os.Getenv("VERIF_REPLAY_DIR")
	if rd == "" {
		rd = filepath.Join("replays", strings.ToLower(id))
	}
	os.MkdirAll(out, 0o755)
	r := &Run{
		start:     time.Now(),
		outDir:    out,
		replayDir: rd,
		hashes:    map[string]bool{},
		hashesNT:  map[string]bool{},
		floors:    map[string]int{},
		maxSample: 3,
		vioSigs:   map[string]int{},
		replayOne: os.Getenv("VERIF_REPLAY"),
	}
	r.res.PropertyID = id
	r.res.Tier = tier
	r.res.Seed = seed
	r.res.Situations = map[string]int{}
	r.res.Counters = map[string]int{}
	f, err := os.Create(filepath.Join(out, strings.ToLower(id)+".cases"))
	if err == nil {
		r.casesFile = f
	}
	// Leave an unfinished result on disk at once, so that a process-fatal
	// panic is distinguishable from a run that never started.
	r.flush(false)
	return r
}

// ID returns the property id.
func (r *Run) ID() string { return r.res.PropertyID }

// Seed returns the run's seed.
func (r *Run) Seed() uint64 { return r.res.Seed }

// Thorough tells whether the thorough tier was requested.
func (r *Run) Thorough() bool { return r.res.Tier == "thorough" }

// Pick returns q for the quick tier and t for the thorough tier.
func (r *Run) Pick(q, t int) int {
	if r.Thorough() {
		return t
	}
	return q
}

// ReplayFile returns the replay file this process was asked to re-run, or "".
func (r *Run) ReplayFile() string { return r.replayOne }

// Rand returns a PRNG determined by the seed and the given stream numbers, so
// that case i of a check is the same no matter how many cases ran before it.
func (r *Run) Rand(stream ...uint64) *rand.Rand {
	a, b := r.res.Seed*0x9E3779B97F4A7C15+0x1234567, uint64(0xDEADBEEFCAFE)
	for i, s := range stream {
		a ^= (s + 1) * 0xBF58476D1CE4E5B9
		b = b*0x94D049BB133111EB + s + uint64(i)
	}
	return rand.New(rand.NewPCG(a, b))
}

// SetRule describes how cases are generated and what makes one non-trivial.
func (r *Run) SetRule(rule string) {
	r.mu.Lock()
	r.res.Rule = rule
	r.mu.Unlock()
}

// Assume records an assumption of the check.
func (r *Run) Assume(a string) {
	r.mu.Lock()
	r.res.Assumptions = append(r.res.Assumptions, a)
	r.mu.Unlock()
}

// Case logs a case descriptor to disk (before it is executed) and counts it.
func (r *Run) Case(format string, args ...any) {
	r.mu.Lock()
	r.res.Evaluations++
	if r.casesFile != nil {
		fmt.Fprintf(r.casesFile, format+"\n", args...)
	}
	r.mu.Unlock()
}

// Situation counts one occurrence of a named property-specific situation.
func (r *Run) Situation(name string) { r.SituationN(name, 1) }

// SituationN adds n occurrences.
func (r *Run) SituationN(name string, n int) {
	r.mu.Lock()
	r.res.Situations[name] += n
	r.mu.Unlock()
}

// Count adds n to a named plain counter (events, hook calls, ...).
func (r *Run) Count(name string, n int) {
	r.mu.Lock()
	r.res.Counters[name] += n
	r.mu.Unlock()
}

// Floor declares that situation name must occur at least min times, else the
// run is inconclusive.
func (r *Run) Floor(name string, min int) {
	r.mu.Lock()
	r.floors[name] = min
	r.mu.Unlock()
}

// Hash registers the hash of a case's observed history. nontrivial says
// whether the case hit at least one property-specific situation.
func (r *Run) Hash(h string, nontrivial bool) {
	r.mu.Lock()
	r.hashes[h] = true
	if nontrivial {
		r.hashesNT[h] = true
	}
	r.mu.Unlock()
}

// HashOf hashes arbitrary printable values.
func HashOf(vs ...any) string {
	h := sha256.New()
	for _, v := range vs {
		fmt.Fprintf(h, "%v\x00", v)
	}
	return hex.EncodeToString(h.Sum(nil)[:12])
}

// Sample stores a case verbatim in the evidence (first few only).
func (r *Run) Sample(v any) {
	r.mu.Lock()
	if len(r.res.Samples) < r.maxSample {
		r.res.Samples = append(r.res.Samples, v)
	}
	r.mu.Unlock()
}

// WantSample tells whether another sample is still wanted.
func (r *Run) WantSample() bool {
	r.mu.Lock()
	defer r.mu.Unlock()
	return len(r.res.Samples) < r.maxSample
}

// Inconclusive records a reason why the run cannot give a verdict.
func (r *Run) Inconclusive(format string, args ...any) {
	r.mu.Lock()
	if len(r.res.Inconclusive) < 50 {
		r.res.Inconclusive = append(r.res.Inconclusive, fmt.Sprintf(format, args...))
	}
	r.mu.Unlock()
	r.flush(false)
}

// Violation records an oracle hit. sig must be stable across runs and seeds
// (rule + call site / input shape), detail is free text, witness is written
// to a replay file. Only the first 3 witnesses per signature are kept.
func (r *Run) Violation(sig, detail string, witness any) {
	r.mu.Lock()
	n := r.vioSigs[sig]
	r.vioSigs[sig] = n + 1
	if n >= 3 {
		r.mu.Unlock()
		return
	}
	os.MkdirAll(r.replayDir, 0o755)
	name := fmt.Sprintf("%s-seed%d-%s-%d.json", strings.ToLower(r.res.PropertyID), r.res.Seed, HashOf(sig), n)
	path := filepath.Join(r.replayDir, name)
	b, err := json.MarshalIndent(map[string]any{
		"property": r.res.PropertyID, "seed": r.res.Seed, "tier": r.res.Tier,
		"sig": sig, "detail": detail, "witness": witness,
	}, "", " ")
	if err != nil {
		b = []byte(fmt.Sprintf("{\"property\":%q,\"seed\":%d,\"sig\":%q,\"detail\":%q,\"witness\":%q}", r.res.PropertyID, r.res.Seed, sig, detail, fmt.Sprint(witness)))
	}
	os.WriteFile(path, b, 0o644)
	r.res.Violations = append(r.res.Violations, Violation{Sig: sig, Detail: detail, Replay: path})
	r.mu.Unlock()
	r.flush(false)
}

// Violations returns the number of violations recorded so far.
func (r *Run) Violations() int {
	r.mu.Lock()
	defer r.mu.Unlock()
	return len(r.res.Violations)
}

func (r *Run) flush(finished bool) {
	r.mu.Lock()
	defer r.mu.Unlock()
	r.res.Finished = finished
	r.res.DistinctAll = len(r.hashes)
	r.res.DistinctNontrivial = len(r.hashesNT)
	r.res.WallS = time.Since(r.start).Seconds()
	if finished {
		names := make([]string, 0, len(r.floors))
		for n := range r.floors {
			names = append(names, n)
		}
		sort.Strings(names)
		for _, n := range names {
			if r.res.Situations[n] < r.floors[n] {
				r.res.Inconclusive = append(r.res.Inconclusive, fmt.Sprintf("situation %q observed %d times, floor %d", n, r.res.Situations[n], r.floors[n]))
			}
		}
		if r.casesFile != nil {
			r.casesFile.Close()
			r.casesFile = nil
		}
	}
	b, _ := json.MarshalIndent(&r.res, "", " ")
	tmp := filepath.Join(r.outDir, strings.ToLower(r.res.PropertyID)+".result.json.tmp")
	os.WriteFile(tmp, b, 0o644)
	os.Rename(tmp, filepath.Join(r.outDir, strings.ToLower(r.res.PropertyID)+".result.json"))
}

// Finish writes the final result. Must be called once at the end.
func (r *Run) Finish() {
	r.flush(true)
}
