package sched

import (
	"encoding/json"
	"fmt"
	"math"
	"sort"
	"strings"
	"time"
)

// This file is an executable reference model of the *documented* behaviour
// of the scheduler at RPC granularity. It is written on plain slices and
// maps (no heaps, no back-pointers), is driven with the same steps as the
// real InMemoryBuildQueue and, wherever the documented policy leaves a
// choice (ties, which of several parked workers), computes the set of
// acceptable outcomes and follows the choice the implementation made.

// ---------------------------------------------------------------------------
// Data

type MPQ struct {
	Prefix   string // instance name prefix ("" or "a/b")
	Platform string // canonical "k=v,k=v"
	Props    [][2]string
	Stick    []time.Duration
	MaxBG    int
	BGPrio   int32
	SCQs     []*MSCQ // sorted by size class
}

type MSCQ struct {
	PQ           *MPQ
	SizeClass    uint32
	MayBeRemoved bool
	Root         *MInv
	Workers      map[string]*MWorker
	Drains       map[string]map[string]string
	cleanup      *mCleanup
	removed      bool
}

type MInv struct {
	SCQ                     *MSCQ
	Keys                    []string
	Parent                  *MInv
	Children                map[string]*MInv
	QueuedOps               []*MOp
	Executing               map[*MWorker]int
	LastOperationStarted    time.Time
	LastOperationCompletion time.Time
	IdleWorkersCount        int
	Parked                  []*MWorker
	FirstPrio               int32
	removed                 bool
}

type MTask struct {
	ID         int
	Instance   string
	Hash       string
	SizeBytes  int64
	DoNotCache bool
	QueuedTS   time.Time
	Timeout    time.Duration // timeout currently sent to workers
	Suffix     string
	Ops        map[*MInv]*MOp
	Worker     *MWorker
	RetryCount int
	ExpDur     time.Duration
	Learner    string // "", "learner1", "learner2", "learnerBG"
	Chain      int
	Script     SelScript
	OnLargest  bool
	Completed  bool
	Resp       *MResp
	Gen        int // incremented on every stage change wake-up
	Background bool
	tmpWorker  bool
	// resentBeforeRetry: the task was re-sent to its first worker before it
	// failed and was retried on the largest size class.
	resentBeforeRetry bool
}

func (t *MTask) dedupKey() string { return t.Instance + "|" + t.Hash }

// MResp is the final response of a task.
type MResp struct {
	Code  string
	Text  string
	Token string
	Exit  int32
	// Dur is the virtual execution duration the worker reported (passed on
	// to the size-class learner on success).
	Dur time.Duration
	// Sched marks an error the scheduler produces itself (worker
	// disappeared, no waiting clients, retry limit, queue removed). The
	// property fixes its cause and status code, not its wording: Text
	// is the model's description and is not compared.
	Sched bool
}

type MOp struct {
	Name                   string
	Task                   *MTask
	Priority               int32
	Inv                    *MInv
	Queued                 bool
	Waiters                int
	MayExistWithoutWaiters bool
	cleanup                *mCleanup
	removed                bool
}

type MWorker struct {
	ID          map[string]string
	Key         string
	SCQ         *MSCQ
	Task        *MTask
	Terminating bool
	LastInv     *MInv
	ParkedIn    *MInv
	Stick       []time.Time
	cleanup     *mCleanup
	Sync        *MSync // outstanding Synchronize, if any
	removed     bool
}

type mCleanup struct {
	at     time.Time
	kind   string
	fn     func()
	active bool
	op     *MOp
}

// Stage names.
const (
	StQueued    = "QUEUED"
	StExecuting = "EXECUTING"
	StCompleted = "COMPLETED"
)

func (t *MTask) Stage() string {
	if t.Completed {
		return StCompleted
	}
	if t.Worker != nil {
		return StExecuting
	}
	return StQueued
}

func (t *MTask) scq() *MSCQ {
	for i := range t.Ops {
		return i.SCQ
	}
	panic("model: task without operations")
}

// ---------------------------------------------------------------------------
// Blocking calls as state machines.

// ExpMsg is a message the model expects on a stream.
type ExpMsg struct {
	Name     string
	Stage    string
	Done     bool
	Code     string
	Text     string
	Token    string
	Sched    bool // scheduler-produced error: wording not compared
	Optional bool // may or may not be present (both ready select cases)
}

type MStream struct {
	ID          int
	Op          *MOp
	State       string // "auth", "send", "parked", "returned"
	SeenGen     int
	Cancelled   bool
	SendGated   bool // next message is held at the Send gate
	pending     *ExpMsg
	SendErr     string // "" or gRPC code name every Send fails with
	DedupAttach bool   // Execute attached to an already existing task
	Expect      []ExpMsg
	RetCode     string // expected gRPC code of the return value ("OK" for nil)
	RetAlt      string // alternative acceptable return code (or "")
	TimerAt     time.Time
	WaitName    string // for WaitExecution
	parkedAt    time.Time
}

// MSync is an outstanding (blocked) Synchronize call.
type MSync struct {
	W          *MWorker
	State      string // "parked", "undrain", "returned"
	TimerAt    time.Time
	PreferIdle bool
	// Expected result once returned.
	RetCode string
	Resp    *ExpSyncResp
}

// ExpSyncResp is the expected content of a SynchronizeResponse.
type ExpSyncResp struct {
	Kind     string // "idle", "executing", "none"
	Task     *MTask
	NextSync time.Time
}

type MTerm struct {
	ID        int
	Waits     []termWait
	State     string // "waiting", "returned"
	RetCode   string
	Cancelled bool
}

type termWait struct {
	t   *MTask
	gen int
}

// ---------------------------------------------------------------------------
// Model

// Chooser resolves choices the documented policy leaves open by looking at
// what the implementation did. It returns the index of the candidate taken,
// or -1 if the implementation's outcome is not among the candidates.
type Chooser interface {
	// ChooseTask: worker w obtained a task from the queue; candidates are
	// the acceptable tasks.
	ChooseTask(w *MWorker, candidates []TaskCand) int
	// ChooseWorker: task t was handed to a parked worker; candidates are
	// the acceptable workers.
	ChooseWorker(t *MTask, candidates []*MWorker) int
}

// TaskCand is one acceptable hand-out.
type TaskCand struct {
	Task     *MTask
	Retained int
	Path     string
}

type Model struct {
	Cfg      Config
	Now      time.Time
	HardFail time.Time
	PQs      []*MPQ
	Ops      map[string]*MOp
	Dedup    map[string]*MTask
	cleanups []*mCleanup
	opSeq    uint64
	chainSeq int
	taskSeq  int
	idleSeq  int64

	ExpectedProto []ProtoEvent
	Ambiguous     string
	Violations    []ModelViolation

	Streams []*MStream
	Terms   []*MTerm
	Tasks   []*MTask

	Chooser Chooser
	Sit     func(name string)

	// Counters for evidence.
	HandOuts int
}

// ModelViolation is a divergence between the implementation's choice and the
// acceptable set, detected inside the model.
type ModelViolation struct {
	Rule   string
	Detail string
}

func NewModel(cfg Config, start time.Time) *Model {
	return &Model{
		Cfg:      cfg,
		Now:      start,
		HardFail: start.Add(cfg.PQTimeout),
		Ops:      map[string]*MOp{},
		Dedup:    map[string]*MTask{},
		Sit:      func(string) {},
	}
}

func (m *Model) violate(rule, format string, args ...any) {
	m.Violations = append(m.Violations, ModelViolation{Rule: rule, Detail: fmt.Sprintf(format, args...)})
}

func (m *Model) ambiguous(format string, args ...any) {
	if m.Ambiguous == "" {
		m.Ambiguous = fmt.Sprintf(format, args...)
	}
}

func (m *Model) proto(chain int, object, call, detail string) {
	m.ExpectedProto = append(m.ExpectedProto, ProtoEvent{Chain: chain, Object: object, Call: call, Detail: detail})
}

// --- cleanup queue ---------------------------------------------------------

func (m *Model) addCleanup(slot **mCleanup, at time.Time, kind string, fn func()) {
	if *slot != nil && (*slot).active {
		panic("model: cleanup already active: " + kind)
	}
	c := &mCleanup{at: at, kind: kind, fn: fn, active: true}
	*slot = c
	m.cleanups = append(m.cleanups, c)
}

func (m *Model) cancelCleanup(slot **mCleanup) {
	if *slot != nil && (*slot).active {
		(*slot).active = false
		for i, c := range m.cleanups {
			if c == *slot {
				m.cleanups = append(m.cleanups[:i], m.cleanups[i+1:]...)
				break
			}
		}
	}
	*slot = nil
}

func cleanupActive(c *mCleanup) bool { return c != nil && c.active }

// Enter mirrors bq.enter(): run every clean-up that is due.
func (m *Model) Enter() {
	for {
		var best *mCleanup
		bi := -1
		for i, c := range m.cleanups {
			if c.at.After(m.Now) {
				continue
			}
			if best == nil || c.at.Before(best.at) {
				best, bi = c, i
			}
		}
		if best == nil {
			return
		}
		// Clean-ups that share a timestamp run in an unspecified order.
		// That is harmless when they commute (two workers, two operations
		// of different or completed tasks); otherwise the case cannot be
		// judged any further.
		for _, c := range m.cleanups {
			if c == best || !c.at.Equal(best.at) {
				continue
			}
			if c.kind != best.kind || (c.kind == "operation" && c.op.Task == best.op.Task && !c.op.Task.Completed) || c.kind == "scq" {
				m.ambiguous("two deferred clean-ups (%s, %s) share timestamp %s; their order is unspecified", best.kind, c.kind, best.at)
			}
		}
		m.cleanups = append(m.cleanups[:bi], m.cleanups[bi+1:]...)
		best.active = false
		best.fn()
	}
}

// PendingCleanups returns the number of scheduled clean-ups.
func (m *Model) PendingCleanups() int { return len(m.cleanups) }

// --- platform queues -------------------------------------------------------

func CanonPlatform(props [][2]string) string {
	parts := make([]string, 0, len(props))
	for _, p := range props {
		parts = append(parts, p[0]+"="+p[1])
	}
	return strings.Join(parts, ",")
}

// PlatformSorted reports whether the properties are strictly sorted, as the
// platform key constructor demands.
func PlatformSorted(props [][2]string) bool {
	for i := 1; i < len(props); i++ {
		if props[i-1][0] > props[i][0] || (props[i-1][0] == props[i][0] && props[i-1][1] >= props[i][1]) {
			return false
		}
	}
	return true
}

func (m *Model) findPQExact(prefix, platform string) *MPQ {
	for _, pq := range m.PQs {
		if pq.Prefix == prefix && pq.Platform == platform {
			return pq
		}
	}
	return nil
}

func splitInstance(s string) []string {
	if s == "" {
		return nil
	}
	return strings.Split(s, "/")
}

// findPQLongestPrefix: independent longest-prefix resolution on components.
func (m *Model) findPQLongestPrefix(instance, platform string) *MPQ {
	want := splitInstance(instance)
	var best *MPQ
	bestLen := -1
	for _, pq := range m.PQs {
		if pq.Platform != platform {
			continue
		}
		have := splitInstance(pq.Prefix)
		if len(have) > len(want) {
			continue
		}
		ok := true
		for i := range have {
			if have[i] != want[i] {
				ok = false
				break
			}
		}
		if ok && len(have) > bestLen {
			best, bestLen = pq, len(have)
		}
	}
	return best
}

func instanceSuffix(instance, prefix string) string {
	want := splitInstance(instance)
	have := splitInstance(prefix)
	return strings.Join(want[len(have):], "/")
}

func (m *Model) addPQ(prefix string, props [][2]string, stick []time.Duration, maxBG int, bgPrio int32) *MPQ {
	pq := &MPQ{Prefix: prefix, Platform: CanonPlatform(props), Props: props, Stick: stick, MaxBG: maxBG, BGPrio: bgPrio}
	m.PQs = append(m.PQs, pq)
	return pq
}

func (m *Model) addSCQ(pq *MPQ, sizeClass uint32, mayBeRemoved bool) *MSCQ {
	scq := &MSCQ{PQ: pq, SizeClass: sizeClass, MayBeRemoved: mayBeRemoved, Workers: map[string]*MWorker{}, Drains: map[string]map[string]string{}}
	scq.Root = &MInv{SCQ: scq, Children: map[string]*MInv{}, Executing: map[*MWorker]int{}}
	pq.SCQs = append(pq.SCQs, scq)
	sort.SliceStable(pq.SCQs, func(i, j int) bool { return pq.SCQs[i].SizeClass < pq.SCQs[j].SizeClass })
	return scq
}

func (pq *MPQ) sizeClasses() []uint32 {
	out := make([]uint32, len(pq.SCQs))
	for i, s := range pq.SCQs {
		out[i] = s.SizeClass
	}
	return out
}

// RegisterPredeclared mirrors RegisterPredeclaredPlatformQueue (valid input only).
func (m *Model) RegisterPredeclared(prefix string, props [][2]string, stick []time.Duration, maxBG int, bgPrio int32, sizeClasses []uint32) {
	m.Enter()
	pq := m.addPQ(prefix, props, stick, maxBG, bgPrio)
	for _, sc := range sizeClasses {
		m.addSCQ(pq, sc, false)
	}
}

func (m *Model) findSCQ(prefix, platform string, sizeClass uint32) *MSCQ {
	if pq := m.findPQExact(prefix, platform); pq != nil {
		for _, s := range pq.SCQs {
			if s.SizeClass == sizeClass {
				return s
			}
		}
	}
	return nil
}

// --- invocations -----------------------------------------------------------

func (scq *MSCQ) getOrCreateInv(m *Model, keys []string) *MInv {
	i := scq.Root
	for d, k := range keys {
		c, ok := i.Children[k]
		if !ok {
			c = &MInv{SCQ: scq, Keys: append([]string(nil), keys[:d+1]...), Parent: i, Children: map[string]*MInv{}, Executing: map[*MWorker]int{}, LastOperationStarted: m.Now, LastOperationCompletion: m.Now}
			i.Children[k] = c
		}
		i = c
	}
	return i
}

func (i *MInv) isQueued() bool {
	if len(i.QueuedOps) > 0 {
		return true
	}
	for _, c := range i.Children {
		if c.isQueued() {
			return true
		}
	}
	return false
}

func (i *MInv) queuedChildren() []*MInv {
	var out []*MInv
	for _, c := range i.Children {
		if c.isQueued() {
			out = append(out, c)
		}
	}
	sort.Slice(out, func(a, b int) bool { return out[a].Keys[len(out[a].Keys)-1] < out[b].Keys[len(out[b].Keys)-1] })
	return out
}

func (i *MInv) isActive() bool { return i.isQueued() || len(i.Executing) > 0 }

func (i *MInv) removeIfEmpty() bool {
	if i.Parent != nil && !i.isActive() && i.IdleWorkersCount == 0 && !i.removed {
		delete(i.Parent.Children, i.Keys[len(i.Keys)-1])
		i.removed = true
		return true
	}
	return false
}

func (i *MInv) hasParkedInSubtree() bool {
	if len(i.Parked) > 0 {
		return true
	}
	for _, c := range i.Children {
		if c.hasParkedInSubtree() {
			return true
		}
	}
	return false
}

func (i *MInv) parkedInSubtree(out []*MWorker) []*MWorker {
	out = append(out, i.Parked...)
	keys := make([]string, 0, len(i.Children))
	for k := range i.Children {
		keys = append(keys, k)
	}
	sort.Strings(keys)
	for _, k := range keys {
		out = i.Children[k].parkedInSubtree(out)
	}
	return out
}

func (i *MInv) path() string { return strings.Join(i.Keys, "/") }

func (i *MInv) incExec(m *Model, w *MWorker) {
	for j := i; j != nil; j = j.Parent {
		j.Executing[w]++
		j.LastOperationStarted = m.Now
	}
}

func (i *MInv) decExec(m *Model, w *MWorker) {
	for j := i; j != nil; {
		if j.Executing[w] <= 0 {
			panic("model: executing count invalid")
		}
		j.Executing[w]--
		if j.Executing[w] == 0 {
			delete(j.Executing, w)
		}
		j.LastOperationCompletion = m.Now
		p := j.Parent
		j.removeIfEmpty()
		j = p
	}
}

// score comparison mirroring the documented formula
// S = (executing + 1) * 2^(priority/100); lower is better.
// Returns -1 (i better), +1 (j better), 0 (exactly equal), 2 (equal within
// floating point noise: either outcome acceptable).
func cmpScore(i, j *MInv) int {
	ei, ej := float64(len(i.Executing)+1), float64(len(j.Executing)+1)
	pi, pj := float64(i.FirstPrio), float64(j.FirstPrio)
	var si, sj float64
	base := math.Pow(2.0, 0.01)
	if pi < pj {
		si, sj = ei, ej*math.Pow(base, pj-pi)
	} else if pi > pj {
		si, sj = ei*math.Pow(base, pi-pj), ej
	} else {
		si, sj = ei, ej
	}
	if si == sj {
		return 0
	}
	if !math.IsInf(si, 0) && !math.IsInf(sj, 0) && math.Abs(si-sj) <= 1e-9*math.Max(si, sj) {
		return 2
	}
	if si < sj {
		return -1
	}
	return 1
}

// strictlyPreferred: i must be served before j (score, then least recently
// started). unsure => false.
func strictlyPreferred(i, j *MInv) bool {
	switch cmpScore(i, j) {
	case -1:
		return true
	case 0:
		return i.LastOperationStarted.Before(j.LastOperationStarted)
	}
	return false
}

// bestChildren returns the queued children no other queued child is strictly
// preferred to.
func (i *MInv) bestChildren() []*MInv {
	qc := i.queuedChildren()
	var out []*MInv
	for _, c := range qc {
		dominated := false
		for _, d := range qc {
			if d != c && strictlyPreferred(d, c) {
				dominated = true
				break
			}
		}
		if !dominated {
			out = append(out, c)
		}
	}
	return out
}

func opLess(a, b *MOp) bool {
	if a.Priority != b.Priority {
		return a.Priority < b.Priority
	}
	if a.Task.ExpDur != b.Task.ExpDur {
		return a.Task.ExpDur > b.Task.ExpDur
	}
	return a.Task.QueuedTS.Before(b.Task.QueuedTS)
}

func (i *MInv) bestOps() []*MOp {
	var out []*MOp
	for _, o := range i.QueuedOps {
		dominated := false
		for _, p := range i.QueuedOps {
			if p != o && opLess(p, o) {
				dominated = true
				break
			}
		}
		if !dominated {
			out = append(out, o)
		}
	}
	return out
}

func (m *Model) updateFirstPrio(i *MInv) {
	if len(i.QueuedOps) > 0 {
		i.FirstPrio = i.bestOps()[0].Priority
		return
	}
	best := i.bestChildren()
	if len(best) > 0 {
		p := best[0].FirstPrio
		for _, b := range best[1:] {
			if b.FirstPrio != p {
				m.ambiguous("tied child invocations with different priorities while caching the first queued priority of %q", i.path())
			}
		}
		i.FirstPrio = p
	}
}

// --- operations ------------------------------------------------------------

func (m *Model) newOperation(t *MTask, prio int32, i *MInv, mayExist bool) *MOp {
	m.opSeq++
	o := &MOp{Name: OperationName(m.opSeq), Task: t, Priority: prio, Inv: i, MayExistWithoutWaiters: mayExist}
	if _, ok := t.Ops[i]; ok {
		panic("model: task already associated with invocation")
	}
	t.Ops[i] = o
	m.Ops[o.Name] = o
	return o
}

func (m *Model) enqueue(o *MOp) {
	i := o.Inv
	i.QueuedOps = append(i.QueuedOps, o)
	o.Queued = true
	for ; i.Parent != nil; i = i.Parent {
		m.updateFirstPrio(i)
	}
}

func (m *Model) removeQueued(o *MOp) {
	i := o.Inv
	for k, p := range i.QueuedOps {
		if p == o {
			i.QueuedOps = append(i.QueuedOps[:k], i.QueuedOps[k+1:]...)
			break
		}
	}
	o.Queued = false
	for ; i.Parent != nil; i = i.Parent {
		m.updateFirstPrio(i)
	}
}

func (m *Model) maybeStartCleanup(o *MOp) {
	if o.Waiters == 0 && !o.MayExistWithoutWaiters && !o.removed {
		m.addCleanup(&o.cleanup, m.Now.Add(m.Cfg.NoWaiterTimeout), "operation", func() { m.removeOperation(o) })
		o.cleanup.op = o
	}
}

func (m *Model) removeOperation(o *MOp) {
	m.Sit("timeout:operation-without-waiters")
	delete(m.Ops, o.Name)
	o.removed = true
	t := o.Task
	if len(t.Ops) == 1 {
		if !t.Completed {
			m.Sit("last-operation-abandoned:task-cancelled")
		}
		m.complete(t, &MResp{Code: "Canceled", Text: "Task no longer has any waiting clients", Sched: true}, false)
	} else {
		i := o.Inv
		switch t.Stage() {
		case StQueued:
			m.Sit("leaver:queued-task-keeps-other-operations")
			m.removeQueued(o)
			for i.removeIfEmpty() {
				i = i.Parent
			}
		case StExecuting:
			m.Sit("leaver:executing-task-keeps-other-operations")
			i.decExec(m, t.Worker)
		}
	}
	delete(t.Ops, o.Inv)
}

// --- workers ---------------------------------------------------------------

func workerKey(id map[string]string) string {
	b, _ := json.Marshal(id)
	return string(b)
}

func matchesPattern(id, pattern map[string]string) bool {
	for k, v := range pattern {
		if id[k] != v {
			return false
		}
	}
	return true
}

func (w *MWorker) isDrained() bool {
	if w.Terminating {
		return true
	}
	for _, p := range w.SCQ.Drains {
		if matchesPattern(w.ID, p) {
			return true
		}
	}
	return false
}

func (w *MWorker) clearLastInvocation() {
	if w.ParkedIn != nil {
		panic("model: clearing last invocation of a parked worker")
	}
	if w.LastInv != nil {
		for i := w.LastInv; i != nil; {
			i.IdleWorkersCount--
			p := i.Parent
			i.removeIfEmpty()
			i = p
		}
		w.LastInv = nil
	}
}

func (w *MWorker) setLastInvocation(i *MInv) {
	w.LastInv = i
	for j := i; j != nil; j = j.Parent {
		j.IdleWorkersCount++
	}
}

func (w *MWorker) dequeue() {
	i := w.ParkedIn
	for k, p := range i.Parked {
		if p == w {
			i.Parked = append(i.Parked[:k], i.Parked[k+1:]...)
			break
		}
	}
	w.ParkedIn = nil
}

func (m *Model) assignUnqueued(w *MWorker, t *MTask, retained int) {
	if w.Task != nil || t.Worker != nil {
		panic("model: double assignment")
	}
	w.Task = t
	t.Worker = w
	t.RetryCount = 0
	for i := range t.Ops {
		i.incExec(m, w)
	}
	w.clearLastInvocation()
	for k := retained; k < len(w.Stick); k++ {
		w.Stick[k] = m.Now
	}
}

func (m *Model) assignQueued(w *MWorker, t *MTask, retained int) {
	m.assignUnqueued(w, t, retained)
	for _, o := range t.Ops {
		m.removeQueued(o)
	}
	t.Gen++
}

// taskCandidates enumerates the acceptable hand-outs for worker w per the
// documented policy (see DESIGN.md C04).
func (m *Model) taskCandidates(w *MWorker) []TaskCand {
	var out []TaskCand
	var lastKeys []string
	if w.LastInv != nil {
		lastKeys = w.LastInv.Keys
	}
	var walk func(i *MInv, lastKeys []string, level, retained int)
	walk = func(i *MInv, lastKeys []string, level, retained int) {
		if len(i.QueuedOps) > 0 {
			if len(i.QueuedOps) > 1 {
				m.Sit("handout:choice-between-several-queued-operations")
			}
			for _, o := range i.bestOps() {
				out = append(out, TaskCand{Task: o.Task, Retained: retained, Path: i.path()})
			}
			return
		}
		best := i.bestChildren()
		if len(best) == 0 {
			return
		}
		if nq := len(i.queuedChildren()); nq > 1 {
			m.Sit("handout:choice-between-several-queued-invocations")
			for _, b := range i.queuedChildren() {
				if b != best[0] && cmpScore(b, best[0]) == 0 {
					m.Sit("handout:score-tie-decided-by-least-recently-served")
					break
				}
			}
		}
		limits := w.SCQ.PQ.Stick
		if len(lastKeys) > 0 && level < len(limits) {
			sticky := i.Children[lastKeys[0]]
			if sticky == nil {
				panic("model: sticky invocation does not exist")
			}
			windowActive := w.Stick[level].Add(limits[level]).After(m.Now)
			nonSticky := false
			stickyPossible := false
			if sticky.isQueued() {
				for _, b := range best {
					if b == sticky {
						stickyPossible = true
						continue
					}
					switch cmpScore(sticky, b) {
					case -1:
						stickyPossible = true
					case 0:
						if level > 0 {
							m.Sit("stickiness:score-tie-at-deeper-level")
							if !w.Stick[level].Equal(w.Stick[0]) {
								m.Sit("stickiness:score-tie-at-deeper-level-with-own-start-time")
								if w.Stick[0].Add(limits[level]).After(m.Now) != windowActive {
									m.Sit("stickiness:deeper-level-window-differs-from-level-0-start")
								}
							}
						}
						if windowActive {
							stickyPossible = true
							m.Sit(fmt.Sprintf("stickiness:tie-turned-at-level-%d", minInt(level, 1)))
						} else {
							nonSticky = true
							if level > 0 {
								m.Sit("stickiness:expired-at-deeper-level")
							}
						}
					case 2:
						stickyPossible = true
						nonSticky = true
					default:
						nonSticky = true
					}
				}
			} else {
				nonSticky = true
			}
			if stickyPossible {
				walk(sticky, lastKeys[1:], level+1, retained+1)
			}
			if nonSticky {
				for _, b := range best {
					if b != sticky {
						walk(b, nil, level, retained)
					}
				}
			}
			return
		}
		if len(best) > 1 {
			m.Sit("fairness:tie-between-invocations")
		}
		for _, b := range best {
			walk(b, nil, level, retained)
		}
	}
	walk(w.SCQ.Root, lastKeys, 0, 0)
	return out
}

func minInt(a, b int) int {
	if a < b {
		return a
	}
	return b
}

// assignNext mirrors worker.assignNextQueuedTask; returns the task taken.
func (m *Model) assignNext(w *MWorker) *MTask {
	cands := m.taskCandidates(w)
	if len(cands) == 0 {
		return nil
	}
	idx := m.Chooser.ChooseTask(w, cands)
	if idx < 0 {
		return nil // violation already recorded by the chooser
	}
	m.HandOuts++
	c := cands[idx]
	if c.Retained > 0 {
		m.Sit("stickiness:retained")
	}
	m.assignQueued(w, c.Task, c.Retained)
	return c.Task
}

// schedule mirrors task.schedule: direct hand-off to a parked worker of the
// most closely related invocation, else enqueue.
func (m *Model) schedule(t *MTask) {
	scq := t.scq()
	invs := make([]*MInv, 0, len(t.Ops))
	for i := range t.Ops {
		invs = append(invs, i)
	}
	if !scq.Root.hasParkedInSubtree() {
		for _, o := range t.Ops {
			m.enqueue(o)
		}
		return
	}
	for round := 0; ; round++ {
		var cands []*MWorker
		seen := map[*MWorker]bool{}
		for idx, i := range invs {
			if i.hasParkedInSubtree() {
				var ws []*MWorker
				if len(i.Parked) > 0 {
					ws = i.Parked
				} else {
					ws = i.parkedInSubtree(nil)
				}
				for _, w := range ws {
					if !seen[w] {
						seen[w] = true
						cands = append(cands, w)
					}
				}
			}
			if i.Parent != nil {
				invs[idx] = i.Parent
			}
		}
		if len(cands) > 0 {
			idx := m.Chooser.ChooseWorker(t, cands)
			if idx < 0 {
				return
			}
			w := cands[idx]
			if round == 0 {
				m.Sit("handoff:worker-parked-in-same-invocation")
			} else {
				m.Sit("handoff:worker-parked-in-related-invocation")
			}
			m.HandOuts++
			w.dequeue()
			m.assignUnqueued(w, t, 0)
			m.wakeSync(w)
			return
		}
	}
}

// complete mirrors task.complete.
func (m *Model) complete(t *MTask, resp *MResp, byWorker bool) {
	scq := t.scq()
	switch t.Stage() {
	case StQueued:
		tmp := &MWorker{Key: "(temporary)", SCQ: scq}
		m.assignQueued(tmp, t, 0)
	case StExecuting:
		w := t.Worker
		if byWorker {
			var low *MInv
			for i := range t.Ops {
				if low == nil {
					low = i
					continue
				}
				a, b := low, i
				for len(a.Keys) > len(b.Keys) {
					a = a.Parent
				}
				for len(b.Keys) > len(a.Keys) {
					b = b.Parent
				}
				for a != b {
					a, b = a.Parent, b.Parent
				}
				low = a
			}
			w.setLastInvocation(low)
		} else {
			w.setLastInvocation(scq.Root)
		}
	case StCompleted:
		return
	}
	for i := range t.Ops {
		i.decExec(m, t.Worker)
	}
	t.Worker.Task = nil
	t.Worker = nil

	pq := scq.PQ
	var expDur, timeout time.Duration
	if resp.Code == "OK" && resp.Exit == 0 {
		learner := t.Learner
		m.proto(t.Chain, learner, "Succeeded", fmt.Sprintf("dur=%s", resp.Dur))
		t.Learner = ""
		if learner == "learner1" && t.Script.Background {
			if pq.MaxBG == 0 {
				m.proto(t.Chain, "learnerBG", "Abandoned", "")
				m.Sit("background:refused-disabled")
			} else {
				bgSCQ := pq.SCQs[ResolveIndex(t.Script.BGIndex, len(pq.SCQs))]
				bgInv := bgSCQ.getOrCreateInv(m, []string{BackgroundKey})
				if len(bgInv.QueuedOps) >= pq.MaxBG {
					m.proto(t.Chain, "learnerBG", "Abandoned", "")
					m.Sit("background:refused-by-limit")
				} else {
					m.Sit("background:scheduled")
					m.taskSeq++
					bg := &MTask{ID: m.taskSeq, Instance: t.Instance, Hash: t.Hash, SizeBytes: t.SizeBytes, DoNotCache: true, QueuedTS: t.QueuedTS, Timeout: t.Script.BGTimeout, Suffix: t.Suffix, Ops: map[*MInv]*MOp{}, ExpDur: t.Script.BGExpDur, Learner: "learnerBG", Chain: t.Chain, Script: t.Script, OnLargest: true, Background: true}
					m.Tasks = append(m.Tasks, bg)
					m.newOperation(bg, pq.BGPrio, bgInv, true)
					m.schedule(bg)
				}
			}
		}
	} else if byWorker {
		learner := t.Learner
		m.proto(t.Chain, learner, "Failed", fmt.Sprintf("timedOut=%v", resp.Code == "DeadlineExceeded"))
		t.Learner = ""
		if learner == "learner1" && !t.OnLargest && t.Script.RetryOnFail {
			t.Learner = "learner2"
			expDur, timeout = t.Script.RetryExpDur, t.Script.RetryTO
		}
	} else {
		m.proto(t.Chain, t.Learner, "Abandoned", "")
		t.Learner = ""
	}

	if t.Learner != "" {
		m.Sit("retry:on-largest-size-class")
		if t.RetryCount > 0 {
			t.resentBeforeRetry = true
			m.Sit("retry:after-task-had-been-resent")
		}
		if len(t.Ops) > 1 {
			m.Sit("retry:on-largest-with-several-operations")
		}
		t.ExpDur = expDur
		t.Timeout = timeout
		t.OnLargest = true
		largest := pq.SCQs[len(pq.SCQs)-1]
		old := t.Ops
		t.Ops = map[*MInv]*MOp{}
		for oldI, o := range old {
			i := largest.getOrCreateInv(m, oldI.Keys)
			t.Ops[i] = o
			o.Inv = i
		}
		m.schedule(t)
		t.Gen++
	} else {
		// The documented behaviour: the in-flight entry of *this* task
		// disappears; entries of other tasks are untouched.
		if m.Dedup[t.dedupKey()] == t {
			delete(m.Dedup, t.dedupKey())
		}
		t.Completed = true
		t.Resp = resp
		t.Gen++
		for _, o := range t.Ops {
			if o.MayExistWithoutWaiters {
				o.MayExistWithoutWaiters = false
				m.maybeStartCleanup(o)
			}
		}
	}
}

// BackgroundKey is the model's name for the background learning invocation.
const BackgroundKey = "\x00background-learning"

// --- removal of workers and queues -----------------------------------------

func (m *Model) removeStaleWorker(w *MWorker, removalTime time.Time) {
	scq := w.SCQ
	w.Terminating = true
	if t := w.Task; t != nil {
		m.Sit("timeout:worker-while-executing")
		m.complete(t, &MResp{Code: "Unavailable", Text: fmt.Sprintf("Worker %s disappeared while task was executing", w.Key), Sched: true}, false)
	} else {
		m.Sit("timeout:worker-while-idle")
	}
	w.clearLastInvocation()
	delete(scq.Workers, w.Key)
	w.removed = true
	if len(scq.Workers) == 0 && scq.MayBeRemoved {
		m.addCleanup(&scq.cleanup, removalTime.Add(m.Cfg.PQTimeout), "scq", func() { m.removeSCQ(scq) })
	}
}

func (m *Model) cancelAllQueued(i *MInv, resp *MResp) {
	for {
		qc := i.queuedChildren()
		if len(qc) == 0 {
			break
		}
		m.cancelAllQueued(qc[0], resp)
	}
	for len(i.QueuedOps) > 0 {
		m.complete(i.QueuedOps[len(i.QueuedOps)-1].Task, resp, false)
	}
}

func (m *Model) removeSCQ(scq *MSCQ) {
	m.Sit("timeout:size-class-queue-without-workers")
	if scq.Root.isQueued() {
		m.Sit("timeout:size-class-queue-removed-with-queued-tasks")
	}
	m.cancelAllQueued(scq.Root, &MResp{Code: "Unavailable", Text: "Workers for this instance name, platform and size class disappeared while task was queued", Sched: true})
	scq.removed = true
	pq := scq.PQ
	for k, s := range pq.SCQs {
		if s == scq {
			pq.SCQs = append(pq.SCQs[:k], pq.SCQs[k+1:]...)
			break
		}
	}
	if len(pq.SCQs) == 0 {
		for k, p := range m.PQs {
			if p == pq {
				m.PQs = append(m.PQs[:k], m.PQs[k+1:]...)
				break
			}
		}
	}
}

// ---------------------------------------------------------------------------
// Streams (Execute / WaitExecution)

// ExecReq describes an Execute request for the model.
type ExecReq struct {
	Instance   string
	Hash       string
	SizeBytes  int64
	Props      [][2]string
	DoNotCache bool
	InCAS      bool
	Path       string // invocation path "a/b"
	Priority   int32
	Script     SelScript
}

func pathKeys(path string) []string {
	if path == "" {
		return nil
	}
	return strings.Split(path, "/")
}

func (m *Model) msgFor(o *MOp) ExpMsg {
	t := o.Task
	e := ExpMsg{Name: o.Name, Stage: t.Stage()}
	if t.Completed {
		e.Done = true
		e.Code = t.Resp.Code
		e.Text = t.Resp.Text
		e.Token = t.Resp.Token
		e.Sched = t.Resp.Sched
	}
	return e
}

// streamIterate mirrors one iteration of operation.waitExecution: build the
// message, send it, then park or return.
func (m *Model) streamIterate(s *MStream) {
	msg := m.msgFor(s.Op)
	s.SeenGen = s.Op.Task.Gen
	if s.SendGated {
		s.State = "send"
		s.pending = &msg
		return
	}
	m.streamDeliver(s, msg)
}

func (m *Model) streamDeliver(s *MStream, msg ExpMsg) {
	s.Expect = append(s.Expect, msg)
	if s.SendErr != "" {
		m.streamReturn(s, s.SendErr)
		return
	}
	if msg.Done {
		m.streamReturn(s, "OK")
		return
	}
	s.State = "parked"
	s.TimerAt = m.Now.Add(m.Cfg.UpdateInterval)
}

func (m *Model) streamReturn(s *MStream, code string) {
	s.State = "returned"
	s.RetCode = code
	if s.Op != nil {
		o := s.Op
		o.Waiters--
		m.maybeStartCleanup(o)
	}
}

func (m *Model) attach(s *MStream, o *MOp) {
	m.cancelCleanup(&o.cleanup)
	o.Waiters++
	s.Op = o
	m.streamIterate(s)
}

// ExecuteBegin mirrors Execute() up to the point where the stream parks,
// blocks in Send or returns. authGated: the call is held in the authorizer.
func (m *Model) ExecuteBegin(s *MStream, req *ExecReq) {
	s.State = "running"
	if !req.InCAS {
		s.State, s.RetCode = "returned", "NotFound"
		return
	}
	if !PlatformSorted(req.Props) {
		s.State, s.RetCode = "returned", "InvalidArgument"
		return
	}
	m.chainSeq++
	chain := m.chainSeq
	m.Enter()
	key := req.Instance + "|" + req.Hash
	keys := pathKeys(req.Path)
	if t, ok := m.Dedup[key]; ok {
		m.proto(chain, "selector", "Abandoned", "")
		s.DedupAttach = true
		scq := t.scq()
		i := scq.getOrCreateInv(m, keys)
		if o, ok := t.Ops[i]; ok {
			m.Sit("dedup:same-invocation")
			m.attach(s, o)
			return
		}
		o := m.newOperation(t, req.Priority, i, false)
		switch t.Stage() {
		case StQueued:
			m.Sit("dedup:attach-while-queued")
			m.enqueue(o)
		case StExecuting:
			m.Sit("dedup:attach-while-executing")
			i.incExec(m, t.Worker)
		default:
			panic("model: dedup against completed task")
		}
		if t.Learner == "learner2" {
			m.Sit("dedup:attach-during-retry-on-largest")
		}
		m.attach(s, o)
		return
	}
	platform := CanonPlatform(req.Props)
	pq := m.findPQLongestPrefix(req.Instance, platform)
	if pq == nil {
		m.proto(chain, "selector", "Abandoned", "")
		code := "FailedPrecondition"
		if m.Now.Before(m.HardFail) {
			code = "Unavailable"
			m.Sit("routing:no-queue-during-grace-period")
		} else {
			m.Sit("routing:no-queue-after-grace-period")
		}
		s.State, s.RetCode = "returned", code
		return
	}
	if pq.Prefix != req.Instance {
		m.Sit("routing:shorter-prefix-matched")
	}
	idx := ResolveIndex(req.Script.Index, len(pq.SCQs))
	m.proto(chain, "selector", "Select", fmt.Sprintf("n=%d idx=%d", len(pq.SCQs), idx))
	scq := pq.SCQs[idx]
	m.taskSeq++
	t := &MTask{ID: m.taskSeq, Instance: req.Instance, Hash: req.Hash, SizeBytes: req.SizeBytes, DoNotCache: req.DoNotCache, QueuedTS: m.Now, Timeout: req.Script.Timeout, Suffix: instanceSuffix(req.Instance, pq.Prefix), Ops: map[*MInv]*MOp{}, ExpDur: req.Script.ExpDur, Learner: "learner1", Chain: chain, Script: req.Script, OnLargest: idx == len(pq.SCQs)-1}
	m.Tasks = append(m.Tasks, t)
	if !req.DoNotCache {
		m.Dedup[key] = t
	} else {
		m.Sit("dedup:do-not-cache-never-merged")
	}
	i := scq.getOrCreateInv(m, keys)
	o := m.newOperation(t, req.Priority, i, false)
	m.schedule(t)
	m.attach(s, o)
}

// WaitExecutionBegin mirrors the first phase of WaitExecution (before the
// authorizer).
func (m *Model) WaitExecutionBegin(s *MStream, name string, gated bool) {
	m.Enter()
	s.WaitName = name
	if _, ok := m.Ops[name]; !ok {
		s.State, s.RetCode = "returned", "NotFound"
		m.Sit("reattach:unknown-or-cleaned-up-operation")
		return
	}
	if gated {
		s.State = "auth"
		return
	}
	m.WaitExecutionAuthorized(s)
}

// WaitExecutionAuthorized mirrors the re-validation after authorization.
func (m *Model) WaitExecutionAuthorized(s *MStream) {
	m.Enter()
	o, ok := m.Ops[s.WaitName]
	if !ok {
		s.State, s.RetCode = "returned", "NotFound"
		m.Sit("reattach:operation-removed-during-authorization")
		return
	}
	if o.Task.Completed {
		m.Sit("reattach:after-completion-before-cleanup")
	} else {
		m.Sit("reattach:while-live")
	}
	m.attach(s, o)
}

// StreamSendReleased: the Send gate of a stream was opened.
func (m *Model) StreamSendReleased(s *MStream) {
	if s.State != "send" {
		s.SendGated = false
		return
	}
	s.SendGated = false
	msg := *s.pending
	s.pending = nil
	m.Sit("send-blocked:released")
	if s.Op.Task.Gen != s.SeenGen {
		m.Sit("send-blocked:stage-changed-meanwhile")
		if s.Op.Task.Completed {
			m.Sit("send-blocked:completed-meanwhile")
		}
	}
	m.streamDeliver(s, msg)
}

// Propagate wakes every parked stream / terminate call whose wake-up
// condition holds, until nothing changes. It mirrors what the woken
// goroutines do once they reacquire the lock.
func (m *Model) Propagate() {
	for changed := true; changed; {
		changed = false
		for _, s := range m.Streams {
			if s.State != "parked" {
				continue
			}
			genChanged := s.Op.Task.Gen != s.SeenGen
			if s.Cancelled && genChanged {
				// Both select cases are ready: the runtime picks
				// one at random. Either the call returns
				// CANCELED at once, or it first sends one more
				// message.
				m.Enter()
				msg := m.msgFor(s.Op)
				msg.Optional = true
				s.Expect = append(s.Expect, msg)
				if msg.Done {
					// If it looped, it returns nil after the final message.
					s.RetAlt = "OK"
				}
				m.streamReturn(s, "Canceled")
				m.Sit("cancel:raced-with-stage-change")
				changed = true
			} else if s.Cancelled {
				m.Enter()
				m.streamReturn(s, "Canceled")
				m.Sit("wakeup:stream-by-cancellation")
				changed = true
			} else if genChanged {
				m.Enter()
				if s.Op.Task.Completed {
					m.Sit("wakeup:stream-by-completion")
				} else {
					m.Sit("wakeup:stream-by-stage-change")
				}
				m.streamIterate(s)
				changed = true
			}
		}
		for _, tc := range m.Terms {
			if tc.State != "waiting" {
				continue
			}
			for len(tc.Waits) > 0 && tc.Waits[0].t.Gen != tc.Waits[0].gen {
				if len(tc.Waits) == 1 {
					if tc.Waits[0].t.Completed {
						m.Sit("wakeup:terminate-by-task-completion")
					} else {
						m.Sit("wakeup:terminate-by-task-leaving-its-worker")
					}
				}
				tc.Waits = tc.Waits[1:]
				changed = true
			}
			if len(tc.Waits) == 0 {
				tc.State, tc.RetCode = "returned", "OK"
				changed = true
			} else if tc.Cancelled {
				tc.State, tc.RetCode = "returned", "Canceled"
				m.Sit("wakeup:terminate-by-cancellation")
				changed = true
			}
		}
	}
}

// FireTimers mirrors the expiry of every timer whose deadline is m.Now.
func (m *Model) FireTimers() int {
	n := 0
	for _, s := range m.Streams {
		if s.State == "parked" && s.TimerAt.Equal(m.Now) {
			n++
			m.Enter()
			if s.Op.Task.Gen == s.SeenGen {
				m.Sit("update-timer:tick-without-change")
			}
			m.streamIterate(s)
		}
	}
	for _, pq := range m.PQs {
		for _, scq := range pq.SCQs {
			for _, w := range sortedWorkers(scq) {
				sy := w.Sync
				if sy == nil || sy.State == "returned" || !sy.TimerAt.Equal(m.Now) {
					continue
				}
				n++
				m.Enter()
				if w.removed {
					continue
				}
				m.Sit("synchronize:idle-timeout")
				switch {
				case sy.State == "undrain":
					m.Sit("wakeup:drained-synchronize-by-idle-timeout")
				default:
					m.Sit("wakeup:parked-synchronize-by-idle-timeout")
				}
				if sy.State == "parked" {
					if w.ParkedIn != nil {
						w.dequeue()
					}
				}
				if w.Task != nil {
					m.syncReturnExecuting(sy)
				} else {
					m.syncReturnIdle(sy)
				}
			}
		}
	}
	return n
}

func sortedWorkers(scq *MSCQ) []*MWorker {
	keys := make([]string, 0, len(scq.Workers))
	for k := range scq.Workers {
		keys = append(keys, k)
	}
	sort.Strings(keys)
	out := make([]*MWorker, 0, len(keys))
	for _, k := range keys {
		out = append(out, scq.Workers[k])
	}
	return out
}

// ---------------------------------------------------------------------------
// Synchronize

// SyncReq describes a Synchronize request for the model.
type SyncReq struct {
	Prefix     string
	Props      [][2]string
	SizeClass  uint32
	WorkerID   map[string]string
	State      string // "idle", "executing", "completed", "none", "nodigest"
	Hash       string // digest reported by the worker
	SizeBytes  int64
	Resp       *MResp // for completed
	PreferIdle bool
}

func (m *Model) syncFinish(sy *MSync) {
	// The deferred clean-up registration of Synchronize().
	w := sy.W
	sy.State = "returned"
	removalTime := m.Now.Add(m.Cfg.WorkerTimeout)
	m.addCleanup(&w.cleanup, removalTime, "worker", func() { m.removeStaleWorker(w, removalTime) })
	w.Sync = nil
}

func (m *Model) syncReturnIdle(sy *MSync) {
	sy.RetCode = "OK"
	sy.Resp = &ExpSyncResp{Kind: "idle", NextSync: m.Now}
	m.syncFinish(sy)
}

func (m *Model) syncReturnExecuting(sy *MSync) {
	sy.RetCode = "OK"
	sy.Resp = &ExpSyncResp{Kind: "executing", Task: sy.W.Task, NextSync: m.Now.Add(m.Cfg.BusyInterval)}
	m.syncFinish(sy)
}

func (m *Model) syncReturnErr(sy *MSync, code string) {
	sy.RetCode = code
	m.syncFinish(sy)
}

// wakeSync: a parked worker got a task assigned (direct hand-off).
func (m *Model) wakeSync(w *MWorker) {
	sy := w.Sync
	if sy == nil || sy.State != "parked" {
		panic("model: waking a worker that is not parked")
	}
	m.syncReturnExecuting(sy)
}

// SynchronizeBegin mirrors Synchronize() until it returns or blocks.
// It returns the MSync describing the call (State "returned", "parked" or
// "undrain"); for rejected calls W may be nil.
func (m *Model) SynchronizeBegin(req *SyncReq) *MSync {
	sy := &MSync{PreferIdle: req.PreferIdle}
	if !PlatformSorted(req.Props) {
		sy.State, sy.RetCode = "returned", "InvalidArgument"
		return sy
	}
	m.Enter()
	platform := CanonPlatform(req.Props)
	scq := m.findSCQ(req.Prefix, platform, req.SizeClass)
	if scq != nil {
		m.cancelCleanup(&scq.cleanup)
	} else {
		pq := m.findPQExact(req.Prefix, platform)
		if pq != nil {
			last := pq.SCQs[len(pq.SCQs)-1]
			if last.MayBeRemoved {
				sy.State, sy.RetCode = "returned", "InvalidArgument"
				m.Sit("synchronize:second-size-class-on-dynamic-queue-rejected")
				return sy
			} else if req.SizeClass > last.SizeClass {
				sy.State, sy.RetCode = "returned", "InvalidArgument"
				m.Sit("synchronize:size-class-above-maximum-rejected")
				return sy
			} else if last.SizeClass > 0 && req.SizeClass < 1 {
				sy.State, sy.RetCode = "returned", "InvalidArgument"
				m.Sit("synchronize:missing-size-class-rejected")
				return sy
			}
			m.Sit("synchronize:worker-created-size-class")
		} else {
			pq = m.addPQ(req.Prefix, req.Props, nil, 0, 0)
			m.Sit("synchronize:worker-created-platform-queue")
		}
		scq = m.addSCQ(pq, req.SizeClass, true)
	}
	key := workerKey(req.WorkerID)
	w, ok := scq.Workers[key]
	if ok {
		if !cleanupActive(w.cleanup) {
			sy.State, sy.RetCode = "returned", "ResourceExhausted"
			m.Sit("synchronize:concurrent-call-rejected")
			return sy
		}
		m.cancelCleanup(&w.cleanup)
	} else {
		w = &MWorker{ID: req.WorkerID, Key: key, SCQ: scq, Stick: make([]time.Time, len(scq.PQ.Stick))}
		w.setLastInvocation(scq.Root)
		scq.Workers[key] = w
	}
	sy.W = w
	w.Sync = sy

	switch req.State {
	case "none":
		m.syncReturnErr(sy, "InvalidArgument")
	case "idle":
		m.getCurrentOrNextTask(sy, true)
	case "nodigest":
		m.syncReturnErr(sy, "InvalidArgument")
	case "completed":
		if w.Task != nil && w.Task.Hash == req.Hash && w.Task.SizeBytes == req.SizeBytes {
			if req.Resp.Code == "OK" && req.Resp.Exit == 0 {
				m.Sit("completion:success")
			} else {
				m.Sit("completion:failure-reported-by-worker")
			}
			if len(w.Task.Ops) > 1 {
				m.Sit("completion:task-with-several-operations")
			}
			m.complete(w.Task, req.Resp, true)
			m.getNextTask(sy, true)
		} else {
			m.Sit("completion:wrong-digest")
			m.getCurrentOrNextTask(sy, true)
		}
	case "executing":
		if w.Task != nil && w.Task.Hash == req.Hash && w.Task.SizeBytes == req.SizeBytes {
			sy.RetCode = "OK"
			sy.Resp = &ExpSyncResp{Kind: "none", NextSync: m.Now.Add(m.Cfg.BusyInterval)}
			m.syncFinish(sy)
		} else {
			m.Sit("update:wrong-digest")
			m.getCurrentOrNextTask(sy, false)
		}
	default:
		panic("model: unknown worker state " + req.State)
	}
	return sy
}

func (m *Model) getCurrentOrNextTask(sy *MSync, blocking bool) {
	w := sy.W
	if t := w.Task; t != nil {
		if t.RetryCount < m.Cfg.RetryCount {
			t.RetryCount++
			m.Sit("resend:task-sent-to-its-worker-again")
			if t.Learner == "learner2" {
				m.Sit("resend:during-retry-on-largest-size-class")
				if t.resentBeforeRetry {
					m.Sit("resend:on-both-size-classes-of-one-task")
				}
			}
			m.syncReturnExecuting(sy)
			return
		}
		m.Sit("retry-limit:task-failed-after-too-many-attempts")
		if m.Cfg.RetryCount == 0 {
			m.Sit("retry-limit:with-zero-retries-configured")
		}
		m.complete(t, &MResp{Code: "Internal", Text: fmt.Sprintf("Attempted to execute task %d times, but it never completed. This task may cause worker %s to crash.", t.RetryCount+1, w.Key), Sched: true}, false)
	}
	m.getNextTask(sy, blocking)
}

func (m *Model) getNextTask(sy *MSync, blocking bool) {
	w := sy.W
	if sy.PreferIdle {
		m.syncReturnIdle(sy)
		return
	}
	drained := w.isDrained()
	if !drained {
		if t := m.assignNext(w); t != nil {
			m.syncReturnExecuting(sy)
			return
		}
	} else if w.SCQ.Root.isQueued() {
		m.Sit("drain:drained-worker-skips-queued-work")
	}
	if !blocking {
		m.syncReturnIdle(sy)
		return
	}
	m.idleSeq++
	sy.TimerAt = m.Now.Add(m.Cfg.IdleInterval + time.Duration(m.idleSeq)*32*time.Microsecond)
	m.syncLoop(sy, drained, true)
}

// syncLoop mirrors the for-loop of getNextTask from the top, with the
// drained flag already computed. first: the queue was already consulted.
func (m *Model) syncLoop(sy *MSync, drained, first bool) {
	w := sy.W
	if drained {
		sy.State = "undrain"
		return
	}
	if !first {
		if t := m.assignNext(w); t != nil {
			m.syncReturnExecuting(sy)
			return
		}
	}
	sy.State = "parked"
	w.ParkedIn = w.LastInv
	w.LastInv.Parked = append(w.LastInv.Parked, w)
}

// SyncCancelled: the worker cancelled its blocked Synchronize.
func (m *Model) SyncCancelled(sy *MSync) {
	m.Enter()
	if sy.State == "returned" {
		return
	}
	w := sy.W
	if w.ParkedIn != nil {
		w.dequeue()
	}
	m.Sit("synchronize:cancelled-while-blocked")
	if sy.State == "undrain" {
		m.Sit("wakeup:drained-synchronize-by-cancellation")
	} else {
		m.Sit("wakeup:parked-synchronize-by-cancellation")
	}
	m.syncReturnErr(sy, "Canceled")
}

// --- operator calls ----------------------------------------------------------

// KillOperation mirrors KillOperations with an operation name filter.
func (m *Model) KillOperation(name string, code, text string) string {
	m.Enter()
	o, ok := m.Ops[name]
	if !ok {
		return "NotFound"
	}
	switch o.Task.Stage() {
	case StQueued:
		m.Sit("kill:while-queued")
	case StExecuting:
		m.Sit("kill:while-executing")
	default:
		m.Sit("kill:already-completed")
	}
	m.complete(o.Task, &MResp{Code: code, Text: text}, false)
	return "OK"
}

// KillLookup mirrors the first half of KillOperations by name: the lookup
// under the lock, before the unlocked authorization step.
func (m *Model) KillLookup(name string) (*MOp, bool) {
	m.Enter()
	o, ok := m.Ops[name]
	return o, ok
}

// KillAuthorized mirrors the second half: after authorization the operation
// is killed if the name still refers to the same operation; otherwise the
// call retries and finds nothing (names are never reused).
func (m *Model) KillAuthorized(o *MOp, name, code, text string) string {
	m.Enter()
	if cur, ok := m.Ops[name]; !ok || cur != o {
		m.Sit("kill:operation-gone-during-authorization")
		return "NotFound"
	}
	m.Sit("kill:authorized-after-gate")
	m.complete(o.Task, &MResp{Code: code, Text: text}, false)
	return "OK"
}

// KillQueue mirrors KillOperations with a size-class-queue-without-workers filter.
func (m *Model) KillQueue(prefix string, props [][2]string, sizeClass uint32, code, text string) string {
	if !PlatformSorted(props) {
		return "InvalidArgument"
	}
	m.Enter()
	scq := m.findSCQ(prefix, CanonPlatform(props), sizeClass)
	if scq == nil {
		return "NotFound"
	}
	if len(scq.Workers) > 0 {
		return "FailedPrecondition"
	}
	m.Sit("kill:queue-without-workers")
	m.cancelAllQueued(scq.Root, &MResp{Code: code, Text: text})
	return "OK"
}

// AddDrain mirrors AddDrain.
func (m *Model) AddDrain(prefix string, props [][2]string, sizeClass uint32, pattern map[string]string) string {
	if !PlatformSorted(props) {
		return "InvalidArgument"
	}
	m.Enter()
	scq := m.findSCQ(prefix, CanonPlatform(props), sizeClass)
	if scq == nil {
		return "NotFound"
	}
	scq.Drains[workerKey(pattern)] = pattern
	for _, w := range sortedWorkers(scq) {
		if w.ParkedIn != nil && matchesPattern(w.ID, pattern) {
			m.Sit("drain:added-while-worker-parked")
			w.dequeue()
			// The worker loops: it is drained now and waits for an undrain.
			m.syncLoop(w.Sync, w.isDrained(), false)
		}
	}
	return "OK"
}

// RemoveDrain mirrors RemoveDrain.
func (m *Model) RemoveDrain(prefix string, props [][2]string, sizeClass uint32, pattern map[string]string) string {
	if !PlatformSorted(props) {
		return "InvalidArgument"
	}
	m.Enter()
	scq := m.findSCQ(prefix, CanonPlatform(props), sizeClass)
	if scq == nil {
		return "NotFound"
	}
	delete(scq.Drains, workerKey(pattern))
	for _, w := range sortedWorkers(scq) {
		if sy := w.Sync; sy != nil && sy.State == "undrain" {
			d := w.isDrained()
			if !d {
				m.Sit("drain:removed-while-worker-waiting")
			} else {
				m.Sit("wakeup:drained-synchronize-by-undrain-while-still-drained")
			}
			m.syncLoop(sy, d, false)
		}
	}
	return "OK"
}

// RemoveDrainRaces reports whether a RemoveDrain of this pattern would let
// more than one waiting worker compete for queued work (an order the
// harness cannot observe); the generator avoids such steps in stepped mode.
func (m *Model) RemoveDrainRaces(prefix string, props [][2]string, sizeClass uint32, pattern map[string]string) bool {
	scq := m.findSCQ(prefix, CanonPlatform(props), sizeClass)
	if scq == nil || !scq.Root.isQueued() {
		return false
	}
	n := 0
	for _, w := range scq.Workers {
		if sy := w.Sync; sy != nil && sy.State == "undrain" && !w.Terminating {
			still := false
			for k, p := range scq.Drains {
				if k != workerKey(pattern) && matchesPattern(w.ID, p) {
					still = true
				}
			}
			if !still {
				n++
			}
		}
	}
	return n > 1
}

// TerminateBegin mirrors TerminateWorkers.
func (m *Model) TerminateBegin(tc *MTerm, pattern map[string]string) {
	m.Enter()
	for _, pq := range m.PQs {
		for _, scq := range pq.SCQs {
			for _, w := range sortedWorkers(scq) {
				if !matchesPattern(w.ID, pattern) {
					continue
				}
				w.Terminating = true
				if t := w.Task; t != nil {
					tc.Waits = append(tc.Waits, termWait{t: t, gen: t.Gen})
					m.Sit("terminate:waits-for-executing-task")
				} else if w.ParkedIn != nil {
					m.Sit("terminate:parked-worker-woken")
					w.dequeue()
					m.syncLoop(w.Sync, true, false)
				}
			}
		}
	}
	tc.State = "waiting"
}

// ---------------------------------------------------------------------------
// Views used for cross-checks and leak checks.

// Counts summarises the objects the model retains.
type Counts struct {
	PlatformQueues, SizeClassQueues, RemovableSCQs, Operations, InFlight, LiveTasks, NonRootInvocations, Workers, Parked, Executing, QueuedOps, PendingCleanups, Drains int
}

func (m *Model) Counts() Counts {
	var c Counts
	c.PlatformQueues = len(m.PQs)
	c.Operations = len(m.Ops)
	c.InFlight = len(m.Dedup)
	c.PendingCleanups = len(m.cleanups)
	for _, t := range m.Tasks {
		if !t.Completed && len(t.Ops) > 0 {
			c.LiveTasks++
		}
	}
	var walk func(i *MInv)
	walk = func(i *MInv) {
		if i.Parent != nil {
			c.NonRootInvocations++
		}
		c.QueuedOps += len(i.QueuedOps)
		c.Parked += len(i.Parked)
		for _, ch := range i.Children {
			walk(ch)
		}
	}
	for _, pq := range m.PQs {
		for _, scq := range pq.SCQs {
			c.SizeClassQueues++
			if scq.MayBeRemoved {
				c.RemovableSCQs++
			}
			c.Drains += len(scq.Drains)
			c.Workers += len(scq.Workers)
			for _, w := range scq.Workers {
				if w.Task != nil {
					c.Executing++
				}
			}
			walk(scq.Root)
		}
	}
	return c
}

// QueuedAndParked reports, per size class queue, whether there is queued
// work while an undrained worker is parked (must never be the case).
func (m *Model) QueuedAndParked() []string {
	var out []string
	for _, pq := range m.PQs {
		for _, scq := range pq.SCQs {
			if !scq.Root.isQueued() {
				continue
			}
			for _, w := range scq.Root.parkedInSubtree(nil) {
				if !w.isDrained() {
					out = append(out, fmt.Sprintf("%s/%s/%d worker %s", pq.Prefix, pq.Platform, scq.SizeClass, w.Key))
				}
			}
		}
	}
	return out
}
