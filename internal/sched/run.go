package sched

import (
	"encoding/json"
	"fmt"
	"os"
	"sort"
	"strings"

	"verif/internal/ev"
)

// BaseWeights is the default mix of step kinds.
func BaseWeights() map[string]int {
	return map[string]int{
		"exec": 22, "wait": 5, "auth": 4, "gate": 2, "ungate": 4, "cancel": 6,
		"sync": 34, "csync": 3, "kill": 3, "killq": 1, "drain+": 2, "drain-": 3,
		"term": 1, "cterm": 1, "adv": 10, "poke": 2, "list": 2,
		"gkill": 1, "gkillopen": 2,
	}
}

// ProfileFor returns the generator profile of a property.
func ProfileFor(prop string) Profile {
	w := BaseWeights()
	p := Profile{Name: prop, Steps: 70, HookEvery: 5, Weights: w, MaxWorkers: 6}
	switch prop {
	case "C01":
		p.HookEvery = 1
		p.RetryHeavy = true
		w["sync"] = 45
	case "C02":
		p.RetryHeavy = true
		w["wait"], w["auth"], w["gate"], w["ungate"], w["cancel"], w["adv"], w["kill"] = 10, 8, 6, 8, 9, 14, 5
		w["gkill"], w["gkillopen"] = 3, 3
	case "C03":
		p.DedupHeavy = true
		w["exec"], w["cancel"], w["adv"] = 32, 9, 12
	case "C04":
		p.Stickiness, p.Nested = true, true
		p.MaxWorkers = 3
		p.Steps = 120
		p.QuietTimers = true
		w["exec"], w["sync"], w["adv"], w["wait"], w["kill"], w["term"], w["killq"] = 45, 40, 12, 1, 1, 0, 0
		w["cterm"], w["cancel"], w["drain+"], w["gate"], w["csync"] = 0, 2, 1, 0, 1
		w["gkill"], w["gkillopen"] = 0, 0
	case "C05":
		p.Routing = true
		p.LongAdvances = true
		w["drain+"], w["drain-"], w["term"], w["killq"], w["adv"] = 6, 7, 3, 3, 12
	case "C06":
		p.LeakPhase = true
		p.LongAdvances = true
		p.RetryHeavy = true
		w["adv"], w["cancel"], w["csync"], w["term"], w["cterm"] = 16, 9, 5, 3, 2
		w["gkill"], w["gkillopen"] = 3, 2
	case "C07":
		p.LeakPhase = true
		p.RetryHeavy = true
		w["exec"], w["sync"], w["kill"], w["cancel"] = 26, 40, 5, 8
	case "C14":
		// Lock discipline of the scheduler: blocking calls, error
		// returns and the unlocked authorization windows.
		p.LeakPhase = true
		p.LongAdvances = true
		p.HookEvery = 1
		w["wait"], w["auth"], w["cancel"], w["csync"], w["kill"], w["killq"] = 8, 6, 9, 5, 4, 2
		w["gkill"], w["gkillopen"], w["term"], w["cterm"], w["adv"] = 6, 4, 3, 2, 14
	}
	return p
}

// replayFile is the witness written for a violated case.
type replayFile struct {
	Property    string       `json:"property"`
	Seed        uint64       `json:"seed"`
	CaseIndex   int          `json:"case_index"`
	World       *World       `json:"world"`
	Steps       []Step       `json:"steps"`
	Divergences []Divergence `json:"divergences"`
	Trace       []string     `json:"trace"`
	Hang        string       `json:"hang,omitempty"`
}

// RunStepped executes n generated cases for property prop and reports
// divergences owned by prop as violations.
func RunStepped(r *ev.Run, prop string, n int) {
	if os.Getenv("VERIF_SKIP_STEPPED") != "" && r.ReplayFile() == "" {
		return
	}
	p := ProfileFor(prop)
	foreign := map[string]int{}
	ambiguous := 0
	if rf := r.ReplayFile(); rf != "" {
		runReplay(r, prop, p, rf)
		return
	}
	hangs := 0
	only := -1
	if v := os.Getenv("VERIF_ONLY_CASE"); v != "" {
		fmt.Sscanf(v, "%d", &only)
	}
	for i := 0; i < n; i++ {
		if only >= 0 && i != only {
			continue
		}
		rng := r.Rand(uint64(i), 0x5ced)
		w := GenWorld(rng, p)
		r.Case("stepped case %d profile %s: %d queues %d workers %d actions", i, p.Name, len(w.PQs), len(w.Workers), len(w.Actions))
		scenario := 0
		if p.RetryHeavy {
			scenario = i % 5
		}
		if p.LongAdvances && scenario == 0 && (i%10 == 5 || (!p.RetryHeavy && i%6 == 1)) {
			scenario = 5
			AddDynamicQueueScenario(w)
		}
		c := NewCase(w, p, rng)
		c.Scenario = scenario
		res := c.Run(nil)
		reportCase(r, prop, i, res, foreign)
		if res.Ambiguous != "" {
			ambiguous++
		}
		if res.Hang != "" && hangIsDeadlock(res.Hang) {
			// Each deadlocked case costs the full grace period;
			// three witnesses are enough.
			if hangs++; hangs >= 3 {
				r.Count("cases-skipped-after-three-deadlocks", n-i-1)
				break
			}
		}
	}
	for k, v := range foreign {
		r.Count("foreign-divergence:"+k, v)
	}
	r.Count("cases-abandoned-as-ambiguous", ambiguous)
}

func reportCase(r *ev.Run, prop string, idx int, res *CaseResult, foreign map[string]int) {
	names := make([]string, 0, len(res.Situations))
	for k, v := range res.Situations {
		r.SituationN(k, v)
		names = append(names, k)
	}
	sort.Strings(names)
	r.Count("steps", len(res.Steps))
	r.Count("stream-messages", res.Events)
	r.Count("hand-outs-compared-with-policy", res.HandOuts)
	r.Count("hook-invariant-walks", res.HookCalls)
	r.Count("scheduler-lock-free-probes-at-quiescence", res.LockProbes)
	r.Hash(ev.HashOf(res.HistoryHash), len(names) > 0)
	if r.WantSample() && len(res.Steps) > 10 {
		steps := res.Steps
		if len(steps) > 25 {
			steps = steps[:25]
		}
		r.Sample(map[string]any{"case": idx, "world": res.World, "first_steps": steps, "situations": names})
	}
	witness := replayFile{Property: prop, Seed: r.Seed(), CaseIndex: idx, World: res.World, Steps: res.Steps, Divergences: res.Divergences, Trace: tail(res.Trace, 40), Hang: res.Hang}
	if res.Hang != "" {
		// Hang policy: a call that should have progressed is still not
		// parked nor returned after 2 x 30 s.
		if hangIsDeadlock(res.Hang) {
			if prop == "C06" || prop == "C01" || prop == "C14" {
				r.Violation("hang:scheduler-goroutines-blocked", "calls did not reach quiescence: "+firstLine(res.Hang), witness)
			}
		} else {
			r.Inconclusive("case %d: no quiescence within the grace period (machine load?): %s", idx, firstLine(res.Hang))
		}
	}
	if os.Getenv("VERIF_DEBUG") != "" && (len(res.Divergences) > 0 || res.Ambiguous != "" || res.Hang != "") {
		fmt.Printf("=== case %d: ambiguous=%q hang=%q\n", idx, res.Ambiguous, firstLine(res.Hang))
		for _, d := range res.Divergences {
			fmt.Printf("  DIVERGENCE %s %v step %d: %s\n", d.Rule, d.Owners, d.Step, d.Detail)
		}
		if len(res.Divergences) > 0 {
			nTrace := 14
			if os.Getenv("VERIF_ONLY_CASE") != "" {
				nTrace = 400
			}
			for _, l := range tail(res.Trace, nTrace) {
				fmt.Printf("    %s\n", l)
			}
		}
	}
	for _, d := range res.Divergences {
		owned := false
		for _, o := range d.Owners {
			if o == prop {
				owned = true
			}
		}
		if owned {
			r.Violation(d.Rule, fmt.Sprintf("case %d step %d: %s", idx, d.Step, d.Detail), witness)
		} else {
			foreign[d.Rule+"("+strings.Join(d.Owners, ",")+")"]++
		}
	}
}

func tail(s []string, n int) []string {
	if len(s) > n {
		return s[len(s)-n:]
	}
	return s
}

func firstLine(s string) string {
	if i := strings.IndexByte(s, '\n'); i >= 0 {
		return s[:i]
	}
	return s
}

// hangIsDeadlock: every stuck goroutine waits on a mutex/semaphore (nothing
// is runnable that could release it).
func hangIsDeadlock(h string) bool {
	first := firstLine(h)
	return first != "" && !strings.Contains(first, "\"running\"") && !strings.Contains(first, "\"runnable\"") && !strings.Contains(first, "state \"\"")
}

func runReplay(r *ev.Run, prop string, p Profile, path string) {
	b, err := os.ReadFile(path)
	if err != nil {
		r.Inconclusive("cannot read replay file: %v", err)
		return
	}
	var outer struct {
		Witness replayFile `json:"witness"`
	}
	if err := json.Unmarshal(b, &outer); err != nil || outer.Witness.World == nil {
		r.Inconclusive("cannot parse replay file: %v", err)
		return
	}
	rf := outer.Witness
	r.Case("replay of case %d (seed %d)", rf.CaseIndex, rf.Seed)
	c := NewCase(rf.World, p, r.Rand(uint64(rf.CaseIndex), 0x5ced))
	res := c.Run(rf.Steps)
	reportCase(r, prop, rf.CaseIndex, res, map[string]int{})
	r.Hash("replay-a", true)
	r.Hash("replay-b", true)
}

// floors: situations that make a run of a property's check non-trivial, with
// the minimum number of occurrences below which the run is inconclusive.
// The values are about a quarter of the smallest count observed over seeds
// 1, 2, 3 and 7 in the quick tier.
var floors = map[string]map[string]int{
	"C14": {
		"kill:operation-gone-during-authorization": 5, "kill:authorized-after-gate": 5,
		"reattach:operation-removed-during-authorization": 1, "synchronize:cancelled-while-blocked": 10,
	},
	"C01": {
		"dedup:attach-while-queued": 50, "dedup:attach-while-executing": 50,
		"handoff:worker-parked-in-related-invocation": 50, "handoff:worker-parked-in-same-invocation": 15,
		"completion:wrong-digest": 20, "kill:while-queued": 20, "kill:while-executing": 8,
		"timeout:worker-while-executing": 25, "retry:on-largest-with-several-operations": 8,
		"synchronize:cancelled-while-blocked": 40, "resend:task-sent-to-its-worker-again": 50, "stress-round": 6,
	},
	"C02": {
		"send-blocked:completed-meanwhile": 15, "cancel:raced-with-stage-change": 5,
		"reattach:after-completion-before-cleanup": 40, "reattach:unknown-or-cleaned-up-operation": 20,
		"reattach:operation-removed-during-authorization": 4, "update-timer:tick-without-change": 1000,
		"kill:while-queued": 30, "timeout:worker-while-executing": 30, "retry:on-largest-size-class": 20,
		"scenario:retry-budget-after-size-class-fall-back": 3, "stress-round": 6,
	},
	"C03": {
		"dedup:attach-while-queued": 80, "dedup:attach-while-executing": 80, "dedup:attach-during-retry-on-largest": 4,
		"dedup:same-invocation": 200, "dedup:do-not-cache-never-merged": 40,
		"last-operation-abandoned:task-cancelled": 10, "leaver:executing-task-keeps-other-operations": 8,
		"leaver:queued-task-keeps-other-operations": 8, "completion:task-with-several-operations": 30, "stress-round": 6,
	},
	"C04": {
		"handout:choice-between-several-queued-invocations": 200, "handout:choice-between-several-queued-operations": 50,
		"handout:score-tie-decided-by-least-recently-served": 80, "stickiness:tie-turned-at-level-0": 10,
		"stickiness:tie-turned-at-level-1": 7, "stickiness:retained": 60, "stickiness:score-tie-at-deeper-level": 8,
		"handoff:worker-parked-in-related-invocation": 100, "handoff:worker-parked-in-same-invocation": 15, "stress-round": 6,
	},
	"C05": {
		"routing:no-queue-after-grace-period": 40, "routing:no-queue-during-grace-period": 40,
		"routing:shorter-prefix-matched": 30, "drain:added-while-worker-parked": 15,
		"drain:removed-while-worker-waiting": 10, "drain:drained-worker-skips-queued-work": 25,
		"terminate:parked-worker-woken": 20, "synchronize:worker-created-platform-queue": 15,
		"timeout:size-class-queue-without-workers": 10, "stress-round": 6,
	},
	"C06": {
		"timeout:worker-while-executing": 40, "timeout:worker-while-idle": 200, "timeout:operation-without-waiters": 400,
		"timeout:size-class-queue-without-workers": 20, "retry-limit:task-failed-after-too-many-attempts": 3,
		"retry-limit:with-zero-retries-configured":           3,
		"timeout:size-class-queue-removed-with-queued-tasks": 8, "kill:operation-gone-during-authorization": 20,
		"leak-check:executed": 100, "synchronize:idle-timeout": 100, "synchronize:cancelled-while-blocked": 80,
		"terminate:waits-for-executing-task": 12, "last-operation-abandoned:task-cancelled": 100, "stress-round": 6,
	},
	"C07": {
		"background:scheduled": 10, "background:refused-disabled": 3, "background:refused-by-limit": 3,
		"retry:on-largest-size-class": 15, "kill:while-queued": 20, "dedup:attach-while-queued": 60,
		"completion:success": 30, "completion:failure-reported-by-worker": 30, "leak-check:executed": 50, "stress-round": 3,
	},
}

// DeclareFloors registers the situation floors of a property (not in replay mode).
func DeclareFloors(r *ev.Run, prop string) {
	if r.ReplayFile() != "" {
		return
	}
	for name, n := range floors[prop] {
		r.Floor(name, n)
	}
}
