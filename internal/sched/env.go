// Package sched is the scheduler harness shared by properties C01-C07: an
// InMemoryBuildQueue driven in-process through its RPC methods with fake
// clients (streams), fake workers and operators on a virtual clock, plus an
// executable reference model of the documented behaviour.
package sched

import (
	"bytes"
	"context"
	"crypto/sha256"
	"encoding/hex"
	"fmt"
	"runtime"
	"strconv"
	"strings"
	"sync"
	"sync/atomic"
	"time"

	remoteexecution "github.com/bazelbuild/remote-apis/build/bazel/remote/execution/v2"
	"github.com/buildbarn/bb-remote-execution/pkg/proto/buildqueuestate"
	"github.com/buildbarn/bb-remote-execution/pkg/scheduler"
	"github.com/buildbarn/bb-remote-execution/pkg/scheduler/initialsizeclass"
	"github.com/buildbarn/bb-remote-execution/pkg/scheduler/invocation"
	"github.com/buildbarn/bb-remote-execution/pkg/scheduler/platform"
	"github.com/buildbarn/bb-storage/pkg/blobstore"
	"github.com/buildbarn/bb-storage/pkg/blobstore/buffer"
	"github.com/buildbarn/bb-storage/pkg/blobstore/slicing"
	"github.com/buildbarn/bb-storage/pkg/digest"
	"github.com/google/uuid"
	"google.golang.org/grpc/codes"
	"google.golang.org/grpc/metadata"
	"google.golang.org/grpc/status"
	"google.golang.org/protobuf/proto"
	"google.golang.org/protobuf/types/known/anypb"
	"google.golang.org/protobuf/types/known/durationpb"
	"google.golang.org/protobuf/types/known/wrapperspb"

	"cloud.google.com/go/longrunning/autogen/longrunningpb"

	"verif/internal/vclock"
)

// Config holds the timing configuration of one scheduler instance. The
// sub-millisecond residues make it practically impossible for two deferred
// clean-ups of different kinds to share a timestamp (steps advance the clock
// by whole milliseconds), which keeps the order of lazy clean-ups unique.
type Config struct {
	UpdateInterval  time.Duration
	NoWaiterTimeout time.Duration
	PQTimeout       time.Duration
	BusyInterval    time.Duration
	IdleInterval    time.Duration // base; every call adds a unique number of microseconds
	RetryCount      int
	WorkerTimeout   time.Duration
}

// DefaultConfig returns the configuration used by most cases.
func DefaultConfig() Config {
	return Config{
		UpdateInterval:  10*time.Second + 8*time.Microsecond,
		NoWaiterTimeout: 30*time.Second + 2*time.Microsecond,
		PQTimeout:       300*time.Second + 4*time.Microsecond,
		BusyInterval:    5 * time.Second,
		IdleInterval:    40*time.Second + 16*time.Microsecond,
		RetryCount:      2,
		WorkerTimeout:   60*time.Second + 1*time.Microsecond,
	}
}

// ---------------------------------------------------------------------------
// Fake CAS: only Get of Action messages is needed by the scheduler.

type fakeCAS struct {
	mu      sync.Mutex
	actions map[string]*remoteexecution.Action // key: instance|hash
}

func (c *fakeCAS) key(d digest.Digest) string {
	return d.GetInstanceName().String() + "|" + d.GetHashString()
}

func (c *fakeCAS) Get(ctx context.Context, d digest.Digest) buffer.Buffer {
	c.mu.Lock()
	a, ok := c.actions[c.key(d)]
	c.mu.Unlock()
	if !ok {
		return buffer.NewBufferFromError(status.Error(codes.NotFound, "Action not found in fake CAS"))
	}
	return buffer.NewProtoBufferFromProto(proto.Clone(a), buffer.UserProvided)
}

func (c *fakeCAS) GetFromComposite(ctx context.Context, parentDigest, childDigest digest.Digest, slicer slicing.BlobSlicer) buffer.Buffer {
	return buffer.NewBufferFromError(status.Error(codes.Unimplemented, "fake"))
}

func (c *fakeCAS) Put(ctx context.Context, d digest.Digest, b buffer.Buffer) error {
	b.Discard()
	return status.Error(codes.Unimplemented, "fake")
}

func (c *fakeCAS) FindMissing(ctx context.Context, digests digest.Set) (digest.Set, error) {
	return digest.EmptySet, status.Error(codes.Unimplemented, "fake")
}

func (c *fakeCAS) GetCapabilities(ctx context.Context, instanceName digest.InstanceName) (*remoteexecution.ServerCapabilities, error) {
	return nil, status.Error(codes.Unimplemented, "fake")
}

var _ blobstore.BlobAccess = (*fakeCAS)(nil)

// ---------------------------------------------------------------------------
// Authorizers: allow everything, optionally after waiting at a gate.

type gateAuthorizer struct {
	env *Env
}

type gateKeyType struct{}

// Authorize implements auth.Authorizer. Calls whose context carries a gate
// block until the gate is opened.
func (a *gateAuthorizer) Authorize(ctx context.Context, instanceNames []digest.InstanceName) []error {
	if g, ok := ctx.Value(gateKeyType{}).(*Gate); ok && g != nil {
		g.Wait()
	}
	return make([]error, len(instanceNames))
}

// Gate is a one-shot barrier a tracked goroutine can be parked at.
type Gate struct {
	ch      chan struct{}
	once    sync.Once
	reached atomic.Int32
}

// NewGate creates a closed gate.
func NewGate() *Gate { return &Gate{ch: make(chan struct{})} }

// Wait blocks until the gate is opened.
func (g *Gate) Wait() {
	g.reached.Add(1)
	<-g.ch
}

// Open releases everything waiting at the gate, now and in the future.
func (g *Gate) Open() { g.once.Do(func() { close(g.ch) }) }

// Reached reports how many times Wait was entered.
func (g *Gate) Reached() int { return int(g.reached.Load()) }

// ---------------------------------------------------------------------------
// Selector scripts: the harness decides what the size-class analyzer answers
// so that the reference model can predict it. Wrappers log every call for the
// linear-protocol monitor (C07).

// SelScript is the scripted behaviour of the selector/learner chain of one
// request.
type SelScript struct {
	// Index of the size class to pick initially: 0 = smallest,
	// -1 = largest, clamped to the number of size classes.
	Index       int
	ExpDur      time.Duration
	Timeout     time.Duration
	RetryOnFail bool // failure on a non-largest size class => retry on largest
	RetryExpDur time.Duration
	RetryTO     time.Duration
	// Background learning after success (only from a first-run learner).
	Background bool
	BGIndex    int
	BGExpDur   time.Duration
	BGTimeout  time.Duration
}

// ResolveIndex maps a scripted index to an index into sizeClasses.
func ResolveIndex(idx, n int) int {
	if idx < 0 || idx >= n {
		return n - 1
	}
	return idx
}

// ProtoEvent is one call on a selector or learner.
type ProtoEvent struct {
	Seq    int64  `json:"seq"`
	Chain  int    `json:"chain"`  // one per Execute request
	Object string `json:"object"` // "selector", "learner1" (first run), "learner2" (retry on largest), "learnerBG"
	Call   string `json:"call"`   // Select, Abandoned, Succeeded, Failed(timedOut)
	Detail string `json:"detail,omitempty"`
}

type protoLog struct {
	mu     sync.Mutex
	seq    int64
	events []ProtoEvent
	chains int
}

func (l *protoLog) add(chain int, object, call, detail string) {
	l.mu.Lock()
	l.seq++
	l.events = append(l.events, ProtoEvent{Seq: l.seq, Chain: chain, Object: object, Call: call, Detail: detail})
	l.mu.Unlock()
}

func (l *protoLog) newChain() int {
	l.mu.Lock()
	defer l.mu.Unlock()
	l.chains++
	return l.chains
}

func (l *protoLog) snapshot() []ProtoEvent {
	l.mu.Lock()
	defer l.mu.Unlock()
	return append([]ProtoEvent(nil), l.events...)
}

type scriptedSelector struct {
	log    *protoLog
	chain  int
	script SelScript
}

func (s *scriptedSelector) Select(sizeClasses []uint32) (int, time.Duration, time.Duration, initialsizeclass.Learner) {
	idx := ResolveIndex(s.script.Index, len(sizeClasses))
	s.log.add(s.chain, "selector", "Select", fmt.Sprintf("n=%d idx=%d", len(sizeClasses), idx))
	return idx, s.script.ExpDur, s.script.Timeout, &scriptedLearner{log: s.log, chain: s.chain, script: s.script, object: "learner1", onLargest: idx == len(sizeClasses)-1}
}

func (s *scriptedSelector) Abandoned() {
	s.log.add(s.chain, "selector", "Abandoned", "")
}

type scriptedLearner struct {
	log       *protoLog
	chain     int
	script    SelScript
	object    string
	onLargest bool
}

func (l *scriptedLearner) Succeeded(duration time.Duration, sizeClasses []uint32) (int, time.Duration, time.Duration, initialsizeclass.Learner) {
	l.log.add(l.chain, l.object, "Succeeded", fmt.Sprintf("dur=%s", duration))
	if l.object == "learner1" && l.script.Background {
		return ResolveIndex(l.script.BGIndex, len(sizeClasses)), l.script.BGExpDur, l.script.BGTimeout, &scriptedLearner{log: l.log, chain: l.chain, script: l.script, object: "learnerBG", onLargest: true}
	}
	return 0, 0, 0, nil
}

func (l *scriptedLearner) Failed(timedOut bool) (time.Duration, time.Duration, initialsizeclass.Learner) {
	l.log.add(l.chain, l.object, "Failed", fmt.Sprintf("timedOut=%v", timedOut))
	if l.object == "learner1" && !l.onLargest && l.script.RetryOnFail {
		return l.script.RetryExpDur, l.script.RetryTO, &scriptedLearner{log: l.log, chain: l.chain, script: l.script, object: "learner2", onLargest: true}
	}
	return 0, 0, nil
}

func (l *scriptedLearner) Abandoned() {
	l.log.add(l.chain, l.object, "Abandoned", "")
}

// ---------------------------------------------------------------------------
// Action router of the harness.

type scriptKeyType struct{}

type routeInfo struct {
	script SelScript
}

type harnessRouter struct {
	env *Env
}

// InvocationKeysFromPath turns "a/b" into the invocation keys the router
// produces for that path.
func InvocationKeysFromPath(path string) []invocation.Key {
	if path == "" {
		return nil
	}
	parts := strings.Split(path, "/")
	keys := make([]invocation.Key, 0, len(parts))
	for _, p := range parts {
		any, err := anypb.New(wrapperspb.String(p))
		if err != nil {
			panic(err)
		}
		k, err := invocation.NewKey(any)
		if err != nil {
			panic(err)
		}
		keys = append(keys, k)
	}
	return keys
}

// InvocationAny returns the Any message identifying one path component.
func InvocationAny(component string) *anypb.Any {
	any, err := anypb.New(wrapperspb.String(component))
	if err != nil {
		panic(err)
	}
	return any
}

func (ar *harnessRouter) RouteAction(ctx context.Context, digestFunction digest.Function, action *remoteexecution.Action, requestMetadata *remoteexecution.RequestMetadata) (*remoteexecution.Action, platform.Key, []invocation.Key, initialsizeclass.Selector, error) {
	key, err := platform.NewKey(digestFunction.GetInstanceName(), action.Platform)
	if err != nil {
		return nil, platform.Key{}, nil, nil, err
	}
	info, _ := ctx.Value(scriptKeyType{}).(*routeInfo)
	if info == nil {
		panic("harness: Execute without a route script in its context")
	}
	chain := ar.env.Proto.newChain()
	keys := InvocationKeysFromPath(requestMetadata.GetToolInvocationId())
	return action, key, keys, &scriptedSelector{log: ar.env.Proto, chain: chain, script: info.script}, nil
}

// ---------------------------------------------------------------------------
// Environment.

// Env is one scheduler instance with its fakes.
type Env struct {
	Cfg   Config
	Clock *vclock.Clock
	BQ    *scheduler.InMemoryBuildQueue
	CAS   *fakeCAS
	Proto *protoLog

	uuidCounter atomic.Uint64
	idleSeq     atomic.Int64

	trackMu sync.Mutex
	calls   map[int64]*Call // by goroutine id
	callSeq int
}

// NewEnv builds a scheduler at virtual time `start`.
func NewEnv(cfg Config, startUnix int64) *Env {
	e := &Env{
		Cfg:   cfg,
		Clock: vclock.New(startUnix),
		CAS:   &fakeCAS{actions: map[string]*remoteexecution.Action{}},
		Proto: &protoLog{},
		calls: map[int64]*Call{},
	}
	authz := &gateAuthorizer{env: e}
	qcfg := &scheduler.InMemoryBuildQueueConfiguration{
		ExecutionUpdateInterval:           cfg.UpdateInterval,
		OperationWithNoWaitersTimeout:     cfg.NoWaiterTimeout,
		PlatformQueueWithNoWorkersTimeout: cfg.PQTimeout,
		BusyWorkerSynchronizationInterval: cfg.BusyInterval,
		GetIdleWorkerSynchronizationInterval: func() time.Duration {
			return e.NextIdleInterval()
		},
		WorkerTaskRetryCount:                cfg.RetryCount,
		WorkerWithNoSynchronizationsTimeout: cfg.WorkerTimeout,
	}
	e.BQ = scheduler.NewInMemoryBuildQueue(e.CAS, e.Clock, e.nextUUID, qcfg, 1<<20, &harnessRouter{env: e}, authz, authz, authz, authz)
	return e
}

// NextIdleInterval hands out the idle synchronization interval of the next
// blocking Synchronize call; each call gets a distinct value.
func (e *Env) NextIdleInterval() time.Duration {
	n := e.idleSeq.Add(1)
	return e.Cfg.IdleInterval + time.Duration(n)*32*time.Microsecond
}

// IdleIntervalsIssued returns how many blocking Synchronize calls obtained an interval.
func (e *Env) IdleIntervalsIssued() int64 { return e.idleSeq.Load() }

func (e *Env) nextUUID() (uuid.UUID, error) {
	n := e.uuidCounter.Add(1)
	var u uuid.UUID
	u[0] = 0xbb
	for i := 0; i < 8; i++ {
		u[15-i] = byte(n >> (8 * i))
	}
	u[6] = (u[6] & 0x0f) | 0x40
	u[8] = (u[8] & 0x3f) | 0x80
	return u, nil
}

// OperationName predicts the name of the n-th (1-based) operation created.
func OperationName(n uint64) string {
	var u uuid.UUID
	u[0] = 0xbb
	for i := 0; i < 8; i++ {
		u[15-i] = byte(n >> (8 * i))
	}
	u[6] = (u[6] & 0x0f) | 0x40
	u[8] = (u[8] & 0x3f) | 0x80
	return u.String()
}

// AddAction stores an action in the fake CAS and returns its digest.
func (e *Env) AddAction(instanceName string, a *remoteexecution.Action) *remoteexecution.Digest {
	data, err := proto.MarshalOptions{Deterministic: true}.Marshal(a)
	if err != nil {
		panic(err)
	}
	sum := sha256.Sum256(data)
	d := &remoteexecution.Digest{Hash: hex.EncodeToString(sum[:]), SizeBytes: int64(len(data))}
	e.CAS.mu.Lock()
	e.CAS.actions[instanceName+"|"+d.Hash] = a
	e.CAS.mu.Unlock()
	return d
}

// MakeAction builds an Action whose digest is unique for (tag).
func MakeAction(tag string, platformProps [][2]string, doNotCache bool, timeout time.Duration) *remoteexecution.Action {
	a := &remoteexecution.Action{
		CommandDigest:   &remoteexecution.Digest{Hash: fmt.Sprintf("%064x", sha256.Sum256([]byte("cmd-"+tag))), SizeBytes: 11},
		InputRootDigest: &remoteexecution.Digest{Hash: fmt.Sprintf("%064x", sha256.Sum256([]byte("root-"+tag))), SizeBytes: 13},
		DoNotCache:      doNotCache,
		Salt:            []byte(tag),
	}
	if timeout > 0 {
		a.Timeout = durationpb.New(timeout)
	}
	if platformProps != nil {
		a.Platform = &remoteexecution.Platform{}
		for _, p := range platformProps {
			a.Platform.Properties = append(a.Platform.Properties, &remoteexecution.Platform_Property{Name: p[0], Value: p[1]})
		}
	}
	return a
}

// ---------------------------------------------------------------------------
// Tracked calls and quiescence detection.

// Call is one RPC issued by the harness in its own goroutine.
type Call struct {
	ID     int
	Kind   string
	goid   int64
	done   atomic.Bool
	doneCh chan struct{}
	cancel context.CancelFunc

	// Results (valid after done).
	Err  error
	Resp proto.Message

	// For streams.
	Stream *Stream
}

// Done reports whether the call has returned.
func (c *Call) Done() bool { return c.done.Load() }

// Cancel cancels the call's context.
func (c *Call) Cancel() { c.cancel() }

func curGoid() int64 {
	var buf [64]byte
	n := runtime.Stack(buf[:], false)
	// "goroutine 123 [running]:..."
	s := buf[:n]
	s = s[len("goroutine "):]
	i := bytes.IndexByte(s, ' ')
	id, _ := strconv.ParseInt(string(s[:i]), 10, 64)
	return id
}

// Go runs fn in a tracked goroutine and returns once the goroutine is
// registered, so that Settle never misses it.
func (e *Env) Go(kind string, parent context.Context, setup func(ctx context.Context, c *Call), fn func(ctx context.Context, c *Call)) *Call {
	ctx, cancel := context.WithCancel(parent)
	c := &Call{Kind: kind, cancel: cancel, doneCh: make(chan struct{})}
	if setup != nil {
		setup(ctx, c)
	}
	e.trackMu.Lock()
	e.callSeq++
	c.ID = e.callSeq
	e.trackMu.Unlock()
	registered := make(chan struct{})
	go func() {
		c.goid = curGoid()
		e.trackMu.Lock()
		e.calls[c.goid] = c
		e.trackMu.Unlock()
		close(registered)
		defer func() {
			// Publish completion before the call disappears from the
			// tracker, so that Settle never sees "gone but not done".
			c.done.Store(true)
			close(c.doneCh)
			e.trackMu.Lock()
			delete(e.calls, c.goid)
			e.trackMu.Unlock()
		}()
		fn(ctx, c)
	}()
	<-registered
	return c
}

// goroutineStates parses "goroutine N [state...]" headers of a full dump.
func goroutineStates(buf []byte) map[int64]string {
	out := map[int64]string{}
	for len(buf) > 0 {
		nl := bytes.IndexByte(buf, '\n')
		var line []byte
		if nl < 0 {
			line, buf = buf, nil
		} else {
			line, buf = buf[:nl], buf[nl+1:]
		}
		if !bytes.HasPrefix(line, []byte("goroutine ")) {
			continue
		}
		rest := line[len("goroutine "):]
		sp := bytes.IndexByte(rest, ' ')
		if sp < 0 {
			continue
		}
		id, err := strconv.ParseInt(string(rest[:sp]), 10, 64)
		if err != nil {
			continue
		}
		ob := bytes.IndexByte(rest, '[')
		cb := bytes.IndexByte(rest, ']')
		if ob < 0 || cb < ob {
			continue
		}
		st := string(rest[ob+1 : cb])
		if c := strings.IndexByte(st, ','); c >= 0 {
			st = st[:c]
		}
		out[id] = st
	}
	return out
}

var dumpBuf = make([]byte, 1<<20)
var dumpMu sync.Mutex

func fullDump() []byte {
	dumpMu.Lock()
	defer dumpMu.Unlock()
	for {
		n := runtime.Stack(dumpBuf, true)
		if n < len(dumpBuf) {
			return append([]byte(nil), dumpBuf[:n]...)
		}
		dumpBuf = make([]byte, 2*len(dumpBuf))
	}
}

func parkedState(st string) bool {
	switch st {
	case "select", "chan receive", "chan receive (nil chan)", "select (no cases)", "chan send":
		return true
	}
	return false
}

// SettleResult describes why Settle returned.
type SettleResult struct {
	Quiet bool
	Dump  string // goroutine dump when not quiet
	Stuck []string
}

// Settle waits until every tracked call has either returned or is parked in
// a channel operation (select / receive), i.e. nothing can make progress
// without another action of the driver. It returns Quiet=false after
// `grace` of wall time, with a goroutine dump as witness; the caller decides
// what that means (hang policy).
func (e *Env) Settle(grace time.Duration) SettleResult {
	start := time.Now()
	quietRounds := 0
	for iter := 0; ; iter++ {
		if iter < 3 {
			runtime.Gosched()
		} else if iter < 50 {
			time.Sleep(20 * time.Microsecond)
		} else {
			time.Sleep(time.Millisecond)
		}
		e.trackMu.Lock()
		live := make([]*Call, 0, len(e.calls))
		for _, c := range e.calls {
			live = append(live, c)
		}
		e.trackMu.Unlock()
		quiet := true
		var stuck []string
		if len(live) > 0 {
			states := goroutineStates(fullDump())
			for _, c := range live {
				if c.Done() {
					continue
				}
				st, ok := states[c.goid]
				if !ok || !parkedState(st) {
					quiet = false
					stuck = append(stuck, fmt.Sprintf("call %d (%s) goroutine %d state %q", c.ID, c.Kind, c.goid, st))
				}
			}
		}
		if quiet {
			quietRounds++
			if quietRounds >= 2 {
				return SettleResult{Quiet: true}
			}
			continue
		}
		quietRounds = 0
		if time.Since(start) > grace {
			return SettleResult{Quiet: false, Dump: string(fullDump()), Stuck: stuck}
		}
	}
}

// LiveCalls returns the number of tracked calls that have not returned.
func (e *Env) LiveCalls() int {
	e.trackMu.Lock()
	defer e.trackMu.Unlock()
	return len(e.calls)
}

// ---------------------------------------------------------------------------
// Fake Execute / WaitExecution stream.

// Msg is the harness' view of one longrunning.Operation message.
type Msg struct {
	Name   string                           `json:"name"`
	Stage  string                           `json:"stage"`
	Done   bool                             `json:"done"`
	Code   string                           `json:"code,omitempty"`   // gRPC code of the ExecuteResponse status
	Text   string                           `json:"text,omitempty"`   // message of the ExecuteResponse status
	Token  string                           `json:"token,omitempty"`  // unique token of a worker-provided response
	Digest string                           `json:"digest,omitempty"` // action digest hash in the metadata
	Raw    []byte                           `json:"-"`                // marshalled message, as gRPC would have produced
	Seq    int64                            `json:"seq"`              // global logical time of the Send
	RespPB *remoteexecution.ExecuteResponse `json:"-"`
}

// Stream is a fake server stream.
type Stream struct {
	ctx context.Context

	mu       sync.Mutex
	msgs     []Msg
	sendGate *Gate // when set, the next Send blocks here before recording
	sendErr  error // when set, Send returns it (after recording)
	seq      *atomic.Int64
}

func (s *Stream) Context() context.Context     { return s.ctx }
func (s *Stream) SetHeader(metadata.MD) error  { return nil }
func (s *Stream) SendHeader(metadata.MD) error { return nil }
func (s *Stream) SetTrailer(metadata.MD)       {}
func (s *Stream) SendMsg(m any) error          { return s.Send(m.(*longrunningpb.Operation)) }
func (s *Stream) RecvMsg(m any) error          { return status.Error(codes.Unimplemented, "fake") }

// Send records the message exactly as gRPC would serialise it at this point.
func (s *Stream) Send(op *longrunningpb.Operation) error {
	s.mu.Lock()
	g := s.sendGate
	s.sendGate = nil
	s.mu.Unlock()
	if g != nil {
		g.Wait()
	}
	raw, err := proto.Marshal(op)
	if err != nil {
		return err
	}
	m := Msg{Name: op.Name, Done: op.Done, Raw: raw, Seq: s.seq.Add(1)}
	var md remoteexecution.ExecuteOperationMetadata
	if op.Metadata != nil {
		if err := op.Metadata.UnmarshalTo(&md); err == nil {
			m.Stage = md.Stage.String()
			m.Digest = md.ActionDigest.GetHash()
		}
	}
	if r := op.GetResponse(); r != nil {
		var resp remoteexecution.ExecuteResponse
		if err := r.UnmarshalTo(&resp); err == nil {
			m.RespPB = &resp
			m.Code = codes.Code(resp.Status.GetCode()).String()
			m.Text = resp.Status.GetMessage()
			m.Token = resp.Message
		}
	}
	s.mu.Lock()
	s.msgs = append(s.msgs, m)
	e := s.sendErr
	s.mu.Unlock()
	return e
}

// Messages returns a copy of everything sent so far.
func (s *Stream) Messages() []Msg {
	s.mu.Lock()
	defer s.mu.Unlock()
	return append([]Msg(nil), s.msgs...)
}

// GateNextSend makes the next Send block at the returned gate.
func (s *Stream) GateNextSend() *Gate {
	g := NewGate()
	s.mu.Lock()
	s.sendGate = g
	s.mu.Unlock()
	return g
}

// FailSends makes every subsequent Send return err.
func (s *Stream) FailSends(err error) {
	s.mu.Lock()
	s.sendErr = err
	s.mu.Unlock()
}

// Seq is the global logical clock for boundary events.
var Seq atomic.Int64

// RequestContext builds the context of an Execute request: request metadata
// header (invocation path), route script and optional authorizer gate.
func RequestContext(parent context.Context, invocationPath, targetID string, script SelScript, authGate *Gate) context.Context {
	rmd := &remoteexecution.RequestMetadata{ToolInvocationId: invocationPath, TargetId: targetID}
	bin, err := proto.Marshal(rmd)
	if err != nil {
		panic(err)
	}
	ctx := metadata.NewIncomingContext(parent, metadata.Pairs("build.bazel.remote.execution.v2.requestmetadata-bin", string(bin)))
	ctx = context.WithValue(ctx, scriptKeyType{}, &routeInfo{script: script})
	if authGate != nil {
		ctx = context.WithValue(ctx, gateKeyType{}, authGate)
	}
	return ctx
}

// Execute starts an Execute RPC in a tracked goroutine.
func (e *Env) Execute(req *remoteexecution.ExecuteRequest, invocationPath string, script SelScript, authGate *Gate, sendGate *Gate, sendErr error) *Call {
	return e.ExecuteOpt(req, invocationPath, script, authGate, sendGate, sendErr, false)
}

// ExecuteOpt is Execute with the option of leaving the RequestMetadata
// header out of the request (only meaningful for the empty invocation path).
func (e *Env) ExecuteOpt(req *remoteexecution.ExecuteRequest, invocationPath string, script SelScript, authGate *Gate, sendGate *Gate, sendErr error, noMetadata bool) *Call {
	call := e.Go("Execute", context.Background(), func(ctx context.Context, c *Call) {
		rctx := RequestContext(ctx, invocationPath, "", script, authGate)
		if noMetadata {
			rctx = RequestContextWithoutMetadata(ctx, script, authGate)
		}
		c.Stream = &Stream{ctx: rctx, seq: &Seq, sendGate: sendGate, sendErr: sendErr}
	}, func(ctx context.Context, c *Call) {
		c.Err = e.BQ.Execute(req, c.Stream)
	})
	return call
}

// RequestContextWithoutMetadata builds the context of an Execute request
// that carries no RequestMetadata header at all (clients need not send one).
func RequestContextWithoutMetadata(parent context.Context, script SelScript, authGate *Gate) context.Context {
	ctx := context.WithValue(parent, scriptKeyType{}, &routeInfo{script: script})
	if authGate != nil {
		ctx = context.WithValue(ctx, gateKeyType{}, authGate)
	}
	return ctx
}

// WorkerResult builds the ActionResult part of a worker's response: every
// part a client reads (exit code, outputs, logs, execution metadata) is
// filled in and unique for the token.
func WorkerResult(token string, exitCode int32) *remoteexecution.ActionResult {
	sum := sha256.Sum256([]byte("out-" + token))
	return &remoteexecution.ActionResult{
		ExitCode:     exitCode,
		StdoutRaw:    []byte("stdout of " + token),
		StderrDigest: &remoteexecution.Digest{Hash: hex.EncodeToString(sum[:]), SizeBytes: 17},
		OutputFiles: []*remoteexecution.OutputFile{
			{Path: "out/" + token, Digest: &remoteexecution.Digest{Hash: hex.EncodeToString(sum[:]), SizeBytes: 42}, IsExecutable: true},
		},
		ExecutionMetadata: &remoteexecution.ExecutedActionMetadata{
			Worker:                   "worker-of-" + token,
			VirtualExecutionDuration: durationpb.New(3*time.Second + time.Duration(len(token))*time.Millisecond),
		},
	}
}

// DecorateWorkerResponse fills in the parts of an ExecuteResponse outside
// the ActionResult.
func DecorateWorkerResponse(resp *remoteexecution.ExecuteResponse, token string) {
	sum := sha256.Sum256([]byte("log-" + token))
	resp.ServerLogs = map[string]*remoteexecution.LogFile{
		"log-" + token: {Digest: &remoteexecution.Digest{Hash: hex.EncodeToString(sum[:]), SizeBytes: 5}, HumanReadable: true},
	}
}

// KillDetails are the status details operators attach to KillOperations.
func KillDetails() []*anypb.Any {
	return []*anypb.Any{InvocationAny("operator-detail")}
}

// KillOperationGated starts a KillOperations RPC (operation name filter)
// in a tracked goroutine; its authorization step parks at the gate.
func (e *Env) KillOperationGated(req *buildqueuestate.KillOperationsRequest, authGate *Gate) *Call {
	return e.Go("KillOperations", context.Background(), nil, func(ctx context.Context, c *Call) {
		_, c.Err = e.BQ.KillOperations(context.WithValue(ctx, gateKeyType{}, authGate), req)
	})
}

// WaitExecution starts a WaitExecution RPC in a tracked goroutine.
func (e *Env) WaitExecution(name string, authGate *Gate) *Call {
	return e.Go("WaitExecution", context.Background(), func(ctx context.Context, c *Call) {
		if authGate != nil {
			ctx = context.WithValue(ctx, gateKeyType{}, authGate)
		}
		c.Stream = &Stream{ctx: ctx, seq: &Seq}
	}, func(ctx context.Context, c *Call) {
		c.Err = e.BQ.WaitExecution(&remoteexecution.WaitExecutionRequest{Name: name}, c.Stream)
	})
}
