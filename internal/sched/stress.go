package sched

import (
	"context"
	"fmt"
	"math/rand/v2"
	"os"
	"runtime"
	"sort"
	"strings"
	"sync"
	"sync/atomic"
	"time"

	remoteexecution "github.com/bazelbuild/remote-apis/build/bazel/remote/execution/v2"
	"github.com/buildbarn/bb-remote-execution/pkg/proto/buildqueuestate"
	"github.com/buildbarn/bb-remote-execution/pkg/proto/remoteworker"
	"github.com/buildbarn/bb-storage/pkg/digest"
	"google.golang.org/protobuf/proto"
	"google.golang.org/protobuf/types/known/emptypb"

	"verif/internal/ev"
)

// Stress mode: truly concurrent clients, workers, operators and a clock
// advancer against one scheduler, under the race detector. No exact model is
// possible here; the oracles are history rules that hold for every
// interleaving, the structural hook (valid whenever the scheduler's lock is
// free, so it is called continuously) and a leak check after the round.

type stressEvent struct {
	Seq    int64  `json:"seq"`
	Actor  string `json:"actor"`
	What   string `json:"what"`
	Detail string `json:"detail,omitempty"`
}

type stressLog struct {
	mu     sync.Mutex
	events []stressEvent
}

func (l *stressLog) add(actor, what, detail string) int64 {
	seq := Seq.Add(1)
	l.mu.Lock()
	if len(l.events) < 4000 {
		l.events = append(l.events, stressEvent{seq, actor, what, detail})
	}
	l.mu.Unlock()
	return seq
}

type stressViolation struct {
	rule   string
	owners []string
	detail string
}

type stressRound struct {
	env   *Env
	world *World
	log   *stressLog
	stop  atomic.Bool

	vmu  sync.Mutex
	vios []stressViolation

	// token -> digest hash of the task it was submitted for.
	tokMu     sync.Mutex
	tokens    map[string]string
	submitted map[string]*remoteexecution.ExecuteResponse // token -> response as handed in

	// holders: task identity -> worker currently instructed to run it.
	holdMu  sync.Mutex
	holders map[string]string

	finalMu sync.Mutex
	finals  map[string]string // operation name -> final (code|text|token)

	streams   atomic.Int64
	finished  atomic.Int64
	handouts  atomic.Int64
	routed    atomic.Int64
	hookCalls atomic.Int64
	syncs     atomic.Int64
}

func (s *stressRound) violate(rule string, owners []string, format string, args ...any) {
	s.vmu.Lock()
	if len(s.vios) < 20 {
		s.vios = append(s.vios, stressViolation{rule, owners, fmt.Sprintf(format, args...)})
	}
	s.vmu.Unlock()
}

// schedulerCodes are the status codes of the errors the scheduler produces
// itself (worker disappeared / queue removed, no waiting clients, retry
// limit). Their wording is not part of the property; an operator's kill
// carries the status the harness supplied ("killed by operator").
var schedulerCodes = map[string]bool{"Unavailable": true, "Canceled": true, "Internal": true}

// checkStream applies the per-stream rules of C02 to a finished stream.
func (s *stressRound) checkStream(id string, msgs []Msg, err error, cancelled bool, retryAllowed bool) {
	doneAt := -1
	lastStage := ""
	for i, m := range msgs {
		if doneAt >= 0 {
			s.violate("message-after-final", []string{"C02"}, "stream %s sent %+v after its final message", id, brief(m))
			return
		}
		if m.Done {
			doneAt = i
			if m.Stage != StCompleted {
				s.violate("final-message-not-completed-stage", []string{"C02"}, "stream %s: final message with stage %s", id, m.Stage)
			}
		}
		// Stages only advance, except EXECUTING -> QUEUED on a retry.
		if lastStage == StExecuting && m.Stage == StQueued && !retryAllowed {
			s.violate("stage-regression", []string{"C02"}, "stream %s fell back from EXECUTING to QUEUED although its action is never retried on another size class", id)
		}
		if lastStage == StCompleted {
			s.violate("stage-regression", []string{"C02"}, "stream %s left the COMPLETED stage", id)
		}
		lastStage = m.Stage
	}
	if err == nil && doneAt < 0 {
		s.violate("stream-ended-without-final-message", []string{"C02"}, "stream %s returned nil without a final message (%d messages)", id, len(msgs))
		return
	}
	if err != nil && !cancelled && errCode(err) != "NotFound" && errCode(err) != "Unavailable" && errCode(err) != "FailedPrecondition" {
		s.violate("stream-failed-without-cancellation", []string{"C02"}, "stream %s returned %v although its client did not cancel", id, err)
	}
	if doneAt >= 0 {
		f := msgs[doneAt]
		// The final result is a worker-provided response or a scheduler error with a known cause.
		if f.Token != "" {
			s.tokMu.Lock()
			h, ok := s.tokens[f.Token]
			s.tokMu.Unlock()
			if !ok {
				s.violate("final-result-from-nowhere", []string{"C02"}, "stream %s: final response carries token %q that no worker submitted", id, f.Token)
			} else if h != f.Digest {
				s.violate("final-result-of-other-action", []string{"C02"}, "stream %s for digest %s got the response a worker submitted for digest %s", id, f.Digest, h)
			} else {
				s.tokMu.Lock()
				want := s.submitted[f.Token]
				s.tokMu.Unlock()
				if want != nil && f.RespPB != nil && !proto.Equal(want, f.RespPB) {
					s.violate("final-response-altered", []string{"C02"}, "stream %s: worker submitted %v, the client received %v", id, want, f.RespPB)
				}
			}
		} else {
			known := (f.Code == "Aborted" && f.Text == "killed by operator") || (schedulerCodes[f.Code] && f.Text != "")
			if f.Code == "Canceled" && len(f.RespPB.GetStatus().GetDetails()) == 0 {
				// Nobody in a stress round supplies CANCELED (workers'
				// responses carry tokens, the operator kills with
				// ABORTED plus details), so this is the scheduler's
				// own cancellation. Its only cause is an operation
				// without waiting clients for the whole time-out, and
				// removal takes the operation out of the name map
				// before the task completes: no stream can be handed
				// it while attached.
				s.violate("task-cancelled-while-client-still-attached", []string{"C03", "C02"}, "stream %s received the scheduler's own cancellation %q while it was attached to the operation (%d messages, client cancelled=%v)", id, f.Text, len(msgs), cancelled)
			} else if !known {
				s.violate("final-error-without-stated-cause", []string{"C02"}, "stream %s: final status %s %q is neither a worker response nor a scheduler error with a stated cause", id, f.Code, f.Text)
			} else if f.Code == "Aborted" && f.RespPB != nil {
				if want := (&remoteexecution.ExecuteResponse{Status: killStatus("Aborted", "killed by operator")}); !proto.Equal(want, f.RespPB) {
					s.violate("final-response-altered", []string{"C02"}, "stream %s: the operator supplied status %v, the client received %v", id, want.Status, f.RespPB)
				}
			}
		}
		key := f.Code + "|" + f.Text + "|" + f.Token
		s.finalMu.Lock()
		if prev, ok := s.finals[f.Name]; ok && prev != key {
			s.violate("attached-clients-got-different-finals", []string{"C02", "C03"}, "operation %s delivered two different final results: %q and %q", f.Name, prev, key)
		}
		s.finals[f.Name] = key
		s.finalMu.Unlock()
	}
}

func (s *stressRound) client(id int, rng *rand.Rand, wg *sync.WaitGroup) {
	defer wg.Done()
	actor := fmt.Sprintf("client%d", id)
	for !s.stop.Load() {
		a := &s.world.Actions[rng.IntN(len(s.world.Actions))]
		path := pick(rng, s.world.Paths)
		ctx, cancel := context.WithCancel(context.Background())
		st := &Stream{ctx: RequestContext(ctx, path, "", a.Script, nil), seq: &Seq}
		req := &remoteexecution.ExecuteRequest{InstanceName: a.Instance, ActionDigest: &remoteexecution.Digest{Hash: a.Hash, SizeBytes: a.Size}, ExecutionPolicy: &remoteexecution.ExecutionPolicy{Priority: pick(rng, s.world.Prios)}}
		if req.ExecutionPolicy.Priority == 0 && s.streams.Load()%2 == 0 {
			req.ExecutionPolicy = nil // optional in REv2
		}
		s.log.add(actor, "Execute", a.Tag+"@"+path)
		s.streams.Add(1)
		cancelled := atomic.Bool{}
		done := make(chan struct{})
		var err error
		go func() {
			err = s.env.BQ.Execute(req, st)
			close(done)
		}()
		// Wait for completion; sometimes cancel, sometimes re-attach.
		patience := 1 + rng.IntN(400)
		for i := 0; ; i++ {
			select {
			case <-done:
			default:
				if s.stop.Load() || i > patience {
					cancelled.Store(true)
					cancel()
					<-done
				} else {
					runtime.Gosched()
					time.Sleep(50 * time.Microsecond)
					continue
				}
			}
			break
		}
		cancel()
		msgs := st.Messages()
		s.log.add(actor, "ExecuteReturned", fmt.Sprintf("%v msgs=%d", errCode(err), len(msgs)))
		s.finished.Add(1)
		s.checkStream(fmt.Sprintf("%s/%s", actor, a.Tag), msgs, err, cancelled.Load(), a.Script.RetryOnFail)
		// Re-attach by name now and then.
		if len(msgs) > 0 && rng.IntN(3) == 0 && !s.stop.Load() {
			name := msgs[0].Name
			ctx2, cancel2 := context.WithCancel(context.Background())
			st2 := &Stream{ctx: ctx2, seq: &Seq}
			done2 := make(chan struct{})
			var err2 error
			go func() {
				err2 = s.env.BQ.WaitExecution(&remoteexecution.WaitExecutionRequest{Name: name}, st2)
				close(done2)
			}()
			c2 := false
			for i := 0; ; i++ {
				select {
				case <-done2:
				default:
					if s.stop.Load() || i > patience {
						c2 = true
						cancel2()
						<-done2
					} else {
						time.Sleep(50 * time.Microsecond)
						continue
					}
				}
				break
			}
			cancel2()
			s.checkStream(fmt.Sprintf("%s/wait/%s", actor, name[len(name)-6:]), st2.Messages(), err2, c2, a.Script.RetryOnFail)
		}
	}
}

func (s *stressRound) worker(id int, rng *rand.Rand, wg *sync.WaitGroup) {
	defer wg.Done()
	wd := s.world.Workers[id]
	actor := workerKey(wd.ID)
	var current *syncObs // task the scheduler told us to run
	remaining := 0
	for !s.stop.Load() {
		req := &remoteworker.SynchronizeRequest{WorkerId: wd.ID, InstanceNamePrefix: wd.Prefix, Platform: platformMsg(wd.Props), SizeClass: wd.SizeClass}
		var completing *syncObs
		switch {
		case current == nil:
			req.CurrentState = &remoteworker.CurrentState{WorkerState: &remoteworker.CurrentState_Idle{Idle: &emptypb.Empty{}}}
		case remaining > 0:
			remaining--
			req.CurrentState = &remoteworker.CurrentState{WorkerState: &remoteworker.CurrentState_Executing_{Executing: &remoteworker.CurrentState_Executing{
				ActionDigest: &remoteexecution.Digest{Hash: current.Hash, SizeBytes: current.Size}, ExecutionState: &remoteworker.CurrentState_Executing_Running{Running: &emptypb.Empty{}}}}}
		default:
			tok := fmt.Sprintf("tok-%s-%d", actor, Seq.Add(1))
			resp := &remoteexecution.ExecuteResponse{Message: tok}
			switch rng.IntN(5) {
			case 0:
				resp.Result = WorkerResult(tok, 1)
			case 1:
				resp.Status = statusFor("DeadlineExceeded", "Failed to run command: timeout")
				resp.Result = WorkerResult(tok, 0)
			default:
				resp.Result = WorkerResult(tok, 0)
			}
			DecorateWorkerResponse(resp, tok)
			s.tokMu.Lock()
			s.tokens[tok] = current.Hash
			s.submitted[tok] = proto.Clone(resp).(*remoteexecution.ExecuteResponse)
			s.tokMu.Unlock()
			completing = current
			req.CurrentState = &remoteworker.CurrentState{WorkerState: &remoteworker.CurrentState_Executing_{Executing: &remoteworker.CurrentState_Executing{
				ActionDigest: &remoteexecution.Digest{Hash: current.Hash, SizeBytes: current.Size}, ExecutionState: &remoteworker.CurrentState_Executing_Completed{Completed: resp}}}}
		}
		if completing != nil {
			// From here on the scheduler may hand the task to
			// nobody else, or (after a retry) to anybody: release.
			s.release(completing, actor)
		}
		ctx, cancel := context.WithCancel(context.Background())
		done := make(chan struct{})
		var resp *remoteworker.SynchronizeResponse
		var err error
		go func() {
			resp, err = s.env.BQ.Synchronize(ctx, req)
			close(done)
		}()
		patience := 200 + rng.IntN(2000)
		for i := 0; ; i++ {
			select {
			case <-done:
			default:
				if s.stop.Load() || i > patience {
					cancel()
					<-done
				} else {
					time.Sleep(20 * time.Microsecond)
					continue
				}
			}
			break
		}
		cancel()
		s.syncs.Add(1)
		if err != nil {
			// Without a model only error codes that no documented
			// validation produces are judged (a worker of a dynamic
			// queue may legitimately be refused a second size class,
			// a cancelled call returns CANCELED, ...).
			if code := errCode(err); code != "Canceled" && code != "InvalidArgument" && code != "ResourceExhausted" {
				s.violate("synchronize-failed", []string{"C05"}, "Synchronize of %s failed: %v", actor, err)
			}
			if errCode(err) == "InvalidArgument" {
				// This worker can never register; stop trying.
				return
			}
			continue
		}
		obs := parseSyncResp(resp)
		switch obs.Kind {
		case "executing":
			if current != nil && completing == nil && (current.Hash != obs.Hash || !current.QueuedTS.Equal(obs.QueuedTS)) {
				// Told to run something else while still holding a task.
				s.release(current, actor)
			}
			if current == nil || completing != nil || current.Hash != obs.Hash || !current.QueuedTS.Equal(obs.QueuedTS) {
				s.handouts.Add(1)
				s.log.add(actor, "handed", obs.String())
				s.acquire(obs, actor, wd)
				remaining = rng.IntN(4)
			}
			current = obs
		case "idle":
			if current != nil && completing == nil {
				s.release(current, actor)
			}
			current = nil
		case "none":
			if completing != nil {
				current = nil
			}
		}
	}
}

func taskIdentity(o *syncObs) string {
	return fmt.Sprintf("%s@%d", o.Hash, o.QueuedTS.UnixNano())
}

// acquire: worker `actor` was instructed to run task o. At most one worker
// may be instructed to run a cacheable task at a time (do_not_cache tasks may
// share digest and queue time, so they carry no usable identity here).
func (s *stressRound) acquire(o *syncObs, actor string, wd WorkerDef) {
	s.checkRouting(o, actor, wd)
	if o.DNC {
		return
	}
	id := taskIdentity(o)
	s.holdMu.Lock()
	if other, ok := s.holders[id]; ok && other != actor {
		s.holdMu.Unlock()
		s.violate("task-handed-to-second-worker", []string{"C01"}, "task %s was handed to %s while %s is still instructed to run it", id, actor, other)
		return
	}
	s.holders[id] = actor
	s.holdMu.Unlock()
}

// checkRouting is the necessary condition of C05 that needs no model: a task
// handed to a worker stems from a request whose instance name starts with the
// worker's instance name prefix (component-wise), whose platform equals the
// worker's platform, and the instance name suffix in the instruction is the
// rest of that instance name. Which of several matching queues is the right
// one (longest prefix) depends on the queues that exist at that instant and
// is judged in stepped mode only.
func (s *stressRound) checkRouting(o *syncObs, actor string, wd WorkerDef) {
	known := false
	for _, a := range s.world.Actions {
		if a.Hash != o.Hash {
			continue
		}
		known = true
		want, have := splitInstance(a.Instance), splitInstance(wd.Prefix)
		if len(have) > len(want) || fmt.Sprint(a.Props) != fmt.Sprint(wd.Props) {
			continue
		}
		ok := true
		for i := range have {
			if have[i] != want[i] {
				ok = false
			}
		}
		if ok && o.Suffix == strings.Join(want[len(have):], "/") {
			s.routed.Add(1)
			return
		}
	}
	if !known {
		s.violate("handed-unknown-action", []string{"C01", "C05"}, "%s was told to execute %s, which no client requested", actor, o)
		return
	}
	s.violate("task-from-other-queue", []string{"C05"}, "%s (prefix %q, platform %v, size class %d) was told to execute %s, but no request for that digest has an instance name below that prefix with suffix %q and that platform", actor, wd.Prefix, wd.Props, wd.SizeClass, o, o.Suffix)
}

func (s *stressRound) release(o *syncObs, actor string) {
	if o.DNC {
		return
	}
	id := taskIdentity(o)
	s.holdMu.Lock()
	if s.holders[id] == actor {
		delete(s.holders, id)
	}
	s.holdMu.Unlock()
}

func (s *stressRound) operator(rng *rand.Rand, wg *sync.WaitGroup, knownSCQ []scqRef) {
	defer wg.Done()
	ctx := context.Background()
	for !s.stop.Load() {
		switch rng.IntN(7) {
		case 0:
			q := pick(rng, knownSCQ)
			pat := map[string]string{"host": fmt.Sprintf("h%d", rng.IntN(2))}
			s.env.BQ.AddDrain(ctx, &buildqueuestate.AddOrRemoveDrainRequest{SizeClassQueueName: scqName(q), WorkerIdPattern: pat})
			time.Sleep(time.Duration(rng.IntN(300)) * time.Microsecond)
			s.env.BQ.RemoveDrain(ctx, &buildqueuestate.AddOrRemoveDrainRequest{SizeClassQueueName: scqName(q), WorkerIdPattern: pat})
		case 1:
			r, err := s.env.BQ.ListOperations(ctx, &buildqueuestate.ListOperationsRequest{PageSize: 50})
			if err == nil && len(r.Operations) > 0 && rng.IntN(2) == 0 {
				o := r.Operations[rng.IntN(len(r.Operations))]
				s.env.BQ.KillOperations(ctx, &buildqueuestate.KillOperationsRequest{
					Filter: &buildqueuestate.KillOperationsRequest_Filter{Type: &buildqueuestate.KillOperationsRequest_Filter_OperationName{OperationName: o.Name}},
					Status: killStatus("Aborted", "killed by operator"),
				})
			}
		case 2:
			s.env.BQ.ListPlatformQueues(ctx, &emptypb.Empty{})
		case 3:
			q := pick(rng, knownSCQ)
			s.env.BQ.ListWorkers(ctx, &buildqueuestate.ListWorkersRequest{Filter: &buildqueuestate.ListWorkersRequest_Filter{Type: &buildqueuestate.ListWorkersRequest_Filter_All{All: scqName(q)}}, PageSize: 100})
			s.env.BQ.ListInvocationChildren(ctx, &buildqueuestate.ListInvocationChildrenRequest{InvocationName: &buildqueuestate.InvocationName{SizeClassQueueName: scqName(q)}, Filter: buildqueuestate.ListInvocationChildrenRequest_QUEUED})
			s.env.BQ.ListQueuedOperations(ctx, &buildqueuestate.ListQueuedOperationsRequest{InvocationName: &buildqueuestate.InvocationName{SizeClassQueueName: scqName(q)}, PageSize: 100})
		case 4:
			if rng.IntN(6) == 0 {
				tctx, cancel := context.WithCancel(ctx)
				done := make(chan struct{})
				go func() {
					s.env.BQ.TerminateWorkers(tctx, &buildqueuestate.TerminateWorkersRequest{WorkerIdPattern: map[string]string{"host": "h9"}})
					close(done)
				}()
				time.Sleep(200 * time.Microsecond)
				cancel()
				<-done
			}
		default:
			time.Sleep(100 * time.Microsecond)
		}
	}
}

func (s *stressRound) hookLoop(wg *sync.WaitGroup) {
	defer wg.Done()
	for !s.stop.Load() {
		_, problems := s.env.BQ.VerifCheckInvariants()
		s.hookCalls.Add(1)
		for _, p := range problems {
			s.violate("structural-invariant:"+hookRule(p), hookOwners(p), "%s", p)
		}
		time.Sleep(200 * time.Microsecond)
	}
}

func (s *stressRound) clockLoop(rng *rand.Rand, wg *sync.WaitGroup) {
	defer wg.Done()
	for !s.stop.Load() {
		// Small advances: update timers fire now and then, worker and
		// operation timeouts only rarely.
		s.env.Clock.Advance(time.Duration(50+rng.IntN(400))*time.Millisecond, nil)
		time.Sleep(150 * time.Microsecond)
	}
}

// StressResult summarises one round.
type StressResult struct {
	Streams, Finished, Handouts, HookCalls, Syncs int64
	Routed                                        int64
	Violations                                    []stressViolation
	Events                                        []stressEvent
	Hang                                          string
}

// RunStressRound runs one concurrent round and the final leak check.
func RunStressRound(rng *rand.Rand, p Profile, procs int, dur int) *StressResult {
	old := runtime.GOMAXPROCS(procs)
	defer runtime.GOMAXPROCS(old)
	w := GenWorld(rng, p)
	// Keep only workers that serve predeclared queues so that clients
	// always find a queue; timeouts long enough not to expire by accident.
	w.Cfg.WorkerTimeout = 3600 * time.Second
	w.Cfg.NoWaiterTimeout = 20*time.Second + 2*time.Microsecond
	c := NewCase(w, p, rng) // builds env + registers queues and actions
	// Every observation of the clock is a distinct instant, so that a
	// queued timestamp identifies a task.
	c.Env.Clock.AutoTick = time.Nanosecond
	s := &stressRound{env: c.Env, world: w, log: &stressLog{}, tokens: map[string]string{}, submitted: map[string]*remoteexecution.ExecuteResponse{}, holders: map[string]string{}, finals: map[string]string{}}
	var wg sync.WaitGroup
	nClients := 4 + rng.IntN(8)
	for i := 0; i < nClients; i++ {
		wg.Add(1)
		go s.client(i, rand.New(rand.NewPCG(rng.Uint64(), uint64(i))), &wg)
	}
	for i := range w.Workers {
		wg.Add(1)
		go s.worker(i, rand.New(rand.NewPCG(rng.Uint64(), uint64(100+i))), &wg)
	}
	wg.Add(3)
	go s.operator(rand.New(rand.NewPCG(rng.Uint64(), 7)), &wg, c.knownSCQ)
	go s.hookLoop(&wg)
	go s.clockLoop(rand.New(rand.NewPCG(rng.Uint64(), 9)), &wg)

	// The round is bounded by work done, not by wall time.
	deadline := time.Now().Add(60 * time.Second)
	for s.finished.Load() < int64(dur) && time.Now().Before(deadline) {
		time.Sleep(2 * time.Millisecond)
	}
	s.stop.Store(true)
	finished := make(chan struct{})
	go func() { wg.Wait(); close(finished) }()
	res := &StressResult{}
	select {
	case <-finished:
	case <-time.After(60 * time.Second):
		res.Hang = string(fullDump())
	}
	if res.Hang == "" {
		// Everybody is gone: after all timeouts nothing may remain.
		for i := 0; i < 4; i++ {
			c.Env.Clock.Advance(w.Cfg.WorkerTimeout+w.Cfg.PQTimeout+time.Second, nil)
			c.Env.BQ.ListPlatformQueues(context.Background(), &emptypb.Empty{})
		}
		counts, problems := c.Env.BQ.VerifCheckInvariants()
		for _, p := range problems {
			s.violate("structural-invariant:"+hookRule(p), hookOwners(p), "%s (after the round)", p)
		}
		backlogMax := 0
		for _, pq := range w.PQs {
			backlogMax += pq.MaxBG * len(pq.SizeClasses)
		}
		if counts.Workers != 0 || counts.InFlightTasks != 0 || counts.RemovableSizeClassQueues != 0 || counts.Operations > backlogMax || counts.LiveTasks > backlogMax || counts.NonRootInvocations > counts.SizeClassQueues || counts.PendingCleanups != 0 {
			s.violate("residue-after-all-timeouts:stress", []string{"C06"}, "objects remain after every client and worker is gone and all timeouts have passed: %+v (background backlog allowance %d)", counts, backlogMax)
		}
		// Linear protocol: every selector exactly one call, every
		// learner exactly one terminal call.
		type key struct {
			chain  int
			object string
		}
		n := map[key]int{}
		for _, e := range c.Env.Proto.snapshot() {
			n[key{e.Chain, e.Object}]++
		}
		for k, v := range n {
			if v != 1 {
				s.violate("selector-learner-not-called-exactly-once", []string{"C07"}, "request %d: %s received %d calls", k.chain, k.object, v)
			}
		}
		for ch := 1; ch <= c.Env.Proto.chains; ch++ {
			if n[key{ch, "selector"}] != 1 {
				s.violate("selector-not-called-exactly-once", []string{"C07"}, "request %d: selector received %d calls", ch, n[key{ch, "selector"}])
			}
		}
		for _, e := range c.Env.Proto.snapshot() {
			if e.Object == "selector" && e.Call == "Select" && n[key{e.Chain, "learner1"}] != 1 {
				s.violate("learner-never-terminated", []string{"C07"}, "request %d: the learner returned by Select received %d terminal calls", e.Chain, n[key{e.Chain, "learner1"}])
			}
		}
	}
	res.Streams, res.Finished, res.Handouts, res.HookCalls, res.Syncs = s.streams.Load(), s.finished.Load(), s.handouts.Load(), s.hookCalls.Load(), s.syncs.Load()
	res.Routed = s.routed.Load()
	res.Violations = s.vios
	if res.Hang == "" {
		res.Events = s.log.events
	}
	return res
}

// RunStress executes n stress rounds for property prop.
func RunStress(r *ev.Run, prop string, n int) {
	if v := os.Getenv("VERIF_STRESS_ROUNDS"); v != "" {
		fmt.Sscanf(v, "%d", &n)
	}
	p := ProfileFor(prop)
	if v := os.Getenv("VERIF_STRESS_PROFILE"); v != "" {
		p = ProfileFor(v) // debugging aid: another property's world generator
	}
	p.Routing = false
	for i := 0; i < n; i++ {
		rng := r.Rand(uint64(i), 0x57e55)
		procs := []int{2, 4, 16}[i%3]
		r.Case("stress round %d GOMAXPROCS=%d", i, procs)
		res := RunStressRound(rng, p, procs, 150)
		r.Count("stress-streams", int(res.Streams))
		r.Count("stress-hand-outs", int(res.Handouts))
		r.Count("stress-hand-outs-routing-checked", int(res.Routed))
		r.Count("stress-hook-walks-during-traffic", int(res.HookCalls))
		r.Count("stress-synchronize-calls", int(res.Syncs))
		r.Situation("stress-round")
		// Distinct interleavings: hash of the order of logged events.
		var order []string
		for _, e := range res.Events {
			order = append(order, e.Actor+":"+e.What)
		}
		r.Hash("stress:"+ev.HashOf(strings.Join(order, ",")), true)
		tailEv := res.Events
		if len(tailEv) > 200 {
			tailEv = tailEv[len(tailEv)-200:]
		}
		if res.Hang != "" {
			if prop == "C06" || prop == "C01" {
				r.Violation("hang:stress-round-did-not-terminate", "actors did not return within 60 s after being told to stop", map[string]any{"seed": r.Seed(), "round": i, "dump": res.Hang})
			} else {
				r.Inconclusive("stress round %d did not terminate", i)
			}
			continue
		}
		sort.Slice(res.Violations, func(a, b int) bool { return res.Violations[a].rule < res.Violations[b].rule })
		for _, v := range res.Violations {
			owned := false
			for _, o := range v.owners {
				if o == prop {
					owned = true
				}
			}
			if owned {
				r.Violation("stress:"+v.rule, fmt.Sprintf("stress round %d: %s", i, v.detail), map[string]any{"seed": r.Seed(), "round": i, "gomaxprocs": procs, "last_events": tailEv})
			} else {
				r.Count("foreign-divergence:stress:"+v.rule, 1)
			}
		}
	}
}

var _ = digest.EmptyInstanceName
