package sched

import (
	"context"
	"encoding/json"
	"fmt"
	"math"
	"math/rand/v2"
	"os"
	"sort"
	"strings"
	"time"

	remoteexecution "github.com/bazelbuild/remote-apis/build/bazel/remote/execution/v2"
	"github.com/buildbarn/bb-remote-execution/pkg/proto/buildqueuestate"
	"github.com/buildbarn/bb-remote-execution/pkg/proto/remoteworker"
	"github.com/buildbarn/bb-storage/pkg/digest"
	"google.golang.org/genproto/googleapis/rpc/status"
	"google.golang.org/grpc/codes"
	grpcstatus "google.golang.org/grpc/status"
	"google.golang.org/protobuf/proto"
	"google.golang.org/protobuf/types/known/anypb"
	"google.golang.org/protobuf/types/known/emptypb"
)

// ---------------------------------------------------------------------------
// World description (generated from the seed, serialisable for replay).

type PQDef struct {
	Prefix      string          `json:"prefix"`
	Props       [][2]string     `json:"props"`
	Stick       []time.Duration `json:"stick"`
	MaxBG       int             `json:"max_bg"`
	BGPrio      int32           `json:"bg_prio"`
	SizeClasses []uint32        `json:"size_classes"`
}

type WorkerDef struct {
	ID        map[string]string `json:"id"`
	Prefix    string            `json:"prefix"`
	Props     [][2]string       `json:"props"`
	SizeClass uint32            `json:"size_class"`
}

type ActionDef struct {
	Tag        string      `json:"tag"`
	Instance   string      `json:"instance"`
	Props      [][2]string `json:"props"`
	DoNotCache bool        `json:"do_not_cache"`
	InCAS      bool        `json:"in_cas"`
	Script     SelScript   `json:"script"`
	// Filled in when the world is instantiated.
	Hash string `json:"hash"`
	Size int64  `json:"size"`
}

type World struct {
	Cfg     Config      `json:"cfg"`
	PQs     []PQDef     `json:"pqs"`
	Workers []WorkerDef `json:"workers"`
	Actions []ActionDef `json:"actions"`
	Paths   []string    `json:"paths"`
	Prios   []int32     `json:"prios"`
}

// Step is one action of the driver.
type Step struct {
	K     string            `json:"k"`
	A     int               `json:"a,omitempty"`     // action index
	Path  string            `json:"path,omitempty"`  // invocation path
	Prio  int32             `json:"prio,omitempty"`  // priority
	W     int               `json:"w,omitempty"`     // worker index
	S     int               `json:"s,omitempty"`     // stream index
	T     int               `json:"t,omitempty"`     // terminate call index
	State string            `json:"state,omitempty"` // worker state
	Hash  string            `json:"hash,omitempty"`  // digest reported by the worker
	Size  int64             `json:"size,omitempty"`
	Out   string            `json:"out,omitempty"` // completion outcome
	PI    bool              `json:"pi,omitempty"`  // prefer being idle
	D     time.Duration     `json:"d,omitempty"`
	Name  string            `json:"name,omitempty"`
	Pat   map[string]string `json:"pat,omitempty"`
	Gate  bool              `json:"gate,omitempty"`
	Q     int               `json:"q,omitempty"` // index into the list of known size class queues
	Code  string            `json:"code,omitempty"`
	Pre   time.Duration     `json:"pre,omitempty"` // clock advance before the step
	NP    bool              `json:"np,omitempty"`  // Execute without an execution_policy
	NM    bool              `json:"nm,omitempty"`  // Execute without a RequestMetadata header
}

// Divergence is one difference between implementation and model/oracle.
type Divergence struct {
	Rule   string   `json:"rule"`   // stable rule name (used in signatures)
	Owners []string `json:"owners"` // property ids that own the rule
	Detail string   `json:"detail"`
	Step   int      `json:"step"`
}

// Profile tunes the generator towards a property.
type Profile struct {
	Name         string
	Steps        int
	HookEvery    int // run the structural hook every N steps (0 = only at the end)
	Weights      map[string]int
	MaxWorkers   int
	DedupHeavy   bool
	Stickiness   bool
	Routing      bool
	LeakPhase    bool
	Nested       bool
	FewSteps     bool
	QuietTimers  bool
	RetryHeavy   bool
	LongAdvances bool
}

type streamPair struct {
	call *Call
	m    *MStream
	gate *Gate // open Send gate, if any
	auth *Gate
	seen int // messages compared so far
}

type syncPair struct {
	call       *Call
	m          *MSync
	w          int
	req        *SyncReq
	wasUndrain bool // the model last saw this call waiting for an undrain
}

type termPair struct {
	call *Call
	m    *MTerm
}

// killPair is a KillOperations call whose authorization step is gated.
type killPair struct {
	call       *Call
	gate       *Gate
	op         *MOp
	name, code string
	returned   bool
	want       string
}

// CaseResult is what one executed case reports.
type CaseResult struct {
	Steps       []Step
	World       *World
	Divergences []Divergence
	Ambiguous   string
	Hang        string
	LockProbes  int
	Situations  map[string]int
	Events      int
	HandOuts    int
	HookCalls   int
	HistoryHash string
	Trace       []string
}

// Case is one stepped execution.
type Case struct {
	W     *World
	P     Profile
	Env   *Env
	M     *Model
	rng   *rand.Rand
	steps []Step
	res   *CaseResult
	step  int

	streams  []*streamPair
	syncs    map[int]*syncPair // outstanding, by worker index
	realSync map[string]*syncPair
	terms    []*termPair
	gkills   []*killPair
	lastResp map[int]*syncObs // last response per worker index
	knownSCQ []scqRef
	trace    []string
	stop     bool
	// Scenario selects a scripted prelude (0 = none).
	Scenario int
	// submitted: the ExecuteResponse each worker handed in, by its token.
	submitted map[string]*remoteexecution.ExecuteResponse
}

type scqRef struct {
	Prefix    string
	Props     [][2]string
	SizeClass uint32
}

type syncObs struct {
	Kind     string // idle, executing, none
	Hash     string
	Size     int64
	QueuedTS time.Time
	Timeout  time.Duration
	DNC      bool
	Suffix   string
	NextSync time.Time
	HasTO    bool
}

func (c *Case) sit(name string) { c.res.Situations[name]++ }

func (c *Case) tracef(format string, args ...any) {
	c.trace = append(c.trace, fmt.Sprintf("[%d] ", c.step)+fmt.Sprintf(format, args...))
}

func (c *Case) diverge(rule string, owners []string, format string, args ...any) {
	c.res.Divergences = append(c.res.Divergences, Divergence{Rule: rule, Owners: owners, Detail: fmt.Sprintf(format, args...), Step: c.step})
	c.stop = true
	if rule == "blocked-call-not-woken" || rule == "timer-count-differs" {
		c.trace = append(c.trace, "goroutine dump at divergence:\n"+string(fullDump()))
	}
}

// ---------------------------------------------------------------------------
// World generation

var propSets = [][][2]string{
	nil,
	{{"os", "linux"}},
	{{"arch", "x86"}, {"os", "linux"}},
}

func pick[T any](rng *rand.Rand, xs []T) T { return xs[rng.IntN(len(xs))] }

// GenWorld generates a world for a profile.
func GenWorld(rng *rand.Rand, p Profile) *World {
	w := &World{Cfg: DefaultConfig()}
	w.Cfg.RetryCount = 1 + rng.IntN(3)
	if p.QuietTimers {
		// Periodic updates and idle re-synchronisations add nothing to
		// what this profile looks at; keep them out of the way.
		w.Cfg.UpdateInterval += time.Hour
		w.Cfg.IdleInterval += time.Hour
	}
	stickSets := [][]time.Duration{nil, {5 * time.Second}, {5 * time.Second, 20 * time.Second}, {30 * time.Second, 4 * time.Second, 4 * time.Second}, {3 * time.Second, 40 * time.Second}}
	scSets := [][]uint32{{0}, {1, 4}, {1, 2, 8}, {3}}
	prefixes := []string{"", "a", "a/b"}
	nPQ := 1 + rng.IntN(2)
	used := map[string]bool{}
	for len(w.PQs) < nPQ {
		pq := PQDef{Prefix: pick(rng, prefixes), Props: pick(rng, propSets[:2]), SizeClasses: pick(rng, scSets), MaxBG: rng.IntN(3), BGPrio: int32(rng.IntN(3)-1) * 100}
		if p.Routing {
			pq.Props = pick(rng, propSets)
		}
		if p.Stickiness {
			pq.Stick = pick(rng, [][]time.Duration{{5 * time.Second, 20 * time.Second}, {3 * time.Second, 40 * time.Second}, {30 * time.Second, 4 * time.Second, 4 * time.Second}, {2 * time.Second, 60 * time.Second, 60 * time.Second}, {8 * time.Second}})
			pq.SizeClasses = pick(rng, [][]uint32{{0}, {0}, {1, 4}})
		} else if rng.IntN(3) == 0 {
			pq.Stick = pick(rng, stickSets)
		}
		if p.RetryHeavy && len(w.PQs) == 0 {
			pq.SizeClasses = pick(rng, [][]uint32{{1, 4}, {1, 2, 8}, {2, 5}})
			pq.MaxBG = pick(rng, []int{0, 1, 1, 2})
		}
		k := pq.Prefix + "|" + CanonPlatform(pq.Props)
		if used[k] {
			continue
		}
		used[k] = true
		w.PQs = append(w.PQs, pq)
	}
	// Workers: most serve predeclared queues; some create their own.
	maxW := p.MaxWorkers
	if maxW == 0 {
		maxW = 5
	}
	nW := 2 + rng.IntN(maxW-1)
	// First make sure that (most) size classes of predeclared queues have
	// a worker, so that retries on the largest size class actually run.
	type slot struct {
		pq PQDef
		sc uint32
	}
	var slots []slot
	for _, pq := range w.PQs {
		for _, sc := range pq.SizeClasses {
			slots = append(slots, slot{pq, sc})
		}
	}
	rng.Shuffle(len(slots), func(a, b int) { slots[a], slots[b] = slots[b], slots[a] })
	for i := 0; i < nW; i++ {
		wd := WorkerDef{ID: map[string]string{"host": fmt.Sprintf("h%d", i/2), "thread": fmt.Sprintf("%d", i%2)}}
		if i < len(slots) && rng.IntN(6) > 0 {
			wd.Prefix, wd.Props, wd.SizeClass = slots[i].pq.Prefix, slots[i].pq.Props, slots[i].sc
		} else if (p.Routing && rng.IntN(5) > 0) || (!p.Routing && rng.IntN(6) > 0) {
			pq := pick(rng, w.PQs)
			wd.Prefix, wd.Props = pq.Prefix, pq.Props
			wd.SizeClass = pick(rng, pq.SizeClasses)
			if rng.IntN(8) == 0 && len(pq.SizeClasses) > 1 {
				// A size class the queue was not predeclared with (but below the maximum).
				wd.SizeClass = pq.SizeClasses[len(pq.SizeClasses)-1] - 1
			}
		} else {
			wd.Prefix = pick(rng, []string{"b", "a/b/c", "a"})
			wd.Props = pick(rng, propSets)
			wd.SizeClass = uint32(rng.IntN(2))
		}
		w.Workers = append(w.Workers, wd)
	}
	// Actions.
	nA := 2 + rng.IntN(4)
	if p.DedupHeavy {
		nA = 1 + rng.IntN(3)
	}
	instances := []string{"", "a", "a/b", "a/b/c", "b"}
	for i := 0; i < nA; i++ {
		pq := pick(rng, w.PQs)
		inst := pq.Prefix
		props := pq.Props
		if p.Routing {
			if rng.IntN(2) == 0 {
				inst = pick(rng, instances)
			}
			if rng.IntN(4) == 0 {
				props = pick(rng, propSets)
			}
		} else if rng.IntN(3) == 0 {
			// A longer instance name that still resolves to pq (or a longer prefix).
			if inst == "" {
				inst = pick(rng, []string{"zz", "zz/y"})
			} else {
				inst = inst + "/" + pick(rng, []string{"zz", "c"})
			}
		}
		if rng.IntN(4) == 0 {
			// Target the queue of some worker (possibly one that only
			// exists because that worker created it).
			wd := pick(rng, w.Workers)
			inst, props = wd.Prefix, wd.Props
		}
		ad := ActionDef{Tag: fmt.Sprintf("act%d", i), Instance: inst, Props: props, DoNotCache: rng.IntN(6) == 0, InCAS: rng.IntN(25) != 0}
		if p.DedupHeavy {
			ad.DoNotCache = rng.IntN(10) == 0
		}
		ad.Script = SelScript{
			Index:       pick(rng, []int{0, 0, -1, 1}),
			ExpDur:      pick(rng, []time.Duration{time.Second, 10 * time.Second, 10 * time.Second, 60 * time.Second}),
			Timeout:     pick(rng, []time.Duration{30 * time.Second, 60 * time.Second}),
			RetryOnFail: rng.IntN(3) > 0,
			RetryExpDur: pick(rng, []time.Duration{2 * time.Second, 20 * time.Second}),
			RetryTO:     90 * time.Second,
			Background:  rng.IntN(3) == 0,
			BGIndex:     pick(rng, []int{0, -1, 1}),
			BGExpDur:    5 * time.Second,
			BGTimeout:   45 * time.Second,
		}
		if p.RetryHeavy && rng.IntN(10) < 6 {
			ad.Script.Index, ad.Script.RetryOnFail = 0, true
		}
		if p.RetryHeavy && rng.IntN(2) == 0 {
			ad.Script.Background = true
		}
		w.Actions = append(w.Actions, ad)
	}
	w.Paths = []string{"", "x", "y", "x/p", "x/q", "y/p"}
	// Priority differences that are multiples of 100 are avoided: only
	// those can produce exact score ties between different priorities
	// (2^(d/100) is irrational otherwise), and such ties make the cached
	// "first queued priority" of the parent depend on heap layout.
	w.Prios = []int32{-150, -40, 0, 0, 0, 30, 70, 120}
	if p.Nested {
		w.Paths = []string{"x/p", "x/q", "x/p", "x/q", "x/p/m", "x/p/n", "x/q/m", "y/p", "y/q", "y"}
		w.Prios = []int32{0, 0, 0, 0, 0, 0, 30, -40}
	}
	// REv2 priorities are arbitrary int32 values: some worlds use the
	// extremes of the range (differences beyond 2^31).
	if (p.Nested && rng.IntN(4) == 0) || (!p.Nested && rng.IntN(10) == 0) {
		w.Prios = []int32{math.MinInt32, -1500000000, 0, 0, 30, 1500000000, math.MaxInt32}
	}
	if p.DedupHeavy {
		w.Paths = []string{"", "x", "y", "x/p"}
	}
	// About one world in nine allows no redundant request at all: the first
	// Synchronize of a worker that does not mention its task fails the task.
	// Derived from the world instead of drawn, so that the random streams of
	// all other worlds stay what they were.
	if (len(w.Actions)*7+len(w.Workers)*3+w.Cfg.RetryCount)%9 == 0 {
		w.Cfg.RetryCount = 0
	}
	return w
}

// ---------------------------------------------------------------------------
// Case construction

// NewCase instantiates a world: real scheduler + model.
func NewCase(w *World, p Profile, rng *rand.Rand) *Case {
	env := NewEnv(w.Cfg, 1_700_000_000)
	c := &Case{W: w, P: p, Env: env, rng: rng, syncs: map[int]*syncPair{}, realSync: map[string]*syncPair{}, lastResp: map[int]*syncObs{}, submitted: map[string]*remoteexecution.ExecuteResponse{}}
	c.res = &CaseResult{World: w, Situations: map[string]int{}}
	c.M = NewModel(w.Cfg, env.Clock.Now())
	c.M.Chooser = c
	c.M.Sit = c.sit
	for _, pq := range w.PQs {
		var platform *remoteexecution.Platform
		if pq.Props != nil {
			platform = &remoteexecution.Platform{}
			for _, kv := range pq.Props {
				platform.Properties = append(platform.Properties, &remoteexecution.Platform_Property{Name: kv[0], Value: kv[1]})
			}
		}
		inst, err := digest.NewInstanceName(pq.Prefix)
		if err != nil {
			panic(err)
		}
		if err := env.BQ.RegisterPredeclaredPlatformQueue(inst, platform, pq.Stick, pq.MaxBG, pq.BGPrio, pq.SizeClasses); err != nil {
			panic(fmt.Sprintf("harness: RegisterPredeclaredPlatformQueue: %v", err))
		}
		c.M.RegisterPredeclared(pq.Prefix, pq.Props, pq.Stick, pq.MaxBG, pq.BGPrio, pq.SizeClasses)
		for _, sc := range pq.SizeClasses {
			c.knownSCQ = append(c.knownSCQ, scqRef{pq.Prefix, pq.Props, sc})
		}
	}
	for i := range w.Actions {
		a := &w.Actions[i]
		msg := MakeAction(a.Tag, a.Props, a.DoNotCache, a.Script.Timeout+time.Hour)
		if a.Props == nil {
			msg.Platform = nil
		}
		data, _ := proto.MarshalOptions{Deterministic: true}.Marshal(msg)
		a.Size = int64(len(data))
		if a.InCAS {
			d := env.AddAction(a.Instance, msg)
			a.Hash = d.Hash
		} else {
			a.Hash = fmt.Sprintf("%064x", i+1)
		}
	}
	for _, wd := range w.Workers {
		found := false
		for _, k := range c.knownSCQ {
			if k.Prefix == wd.Prefix && CanonPlatform(k.Props) == CanonPlatform(wd.Props) && k.SizeClass == wd.SizeClass {
				found = true
			}
		}
		if !found {
			c.knownSCQ = append(c.knownSCQ, scqRef{wd.Prefix, wd.Props, wd.SizeClass})
		}
	}
	return c
}

func platformMsg(props [][2]string) *remoteexecution.Platform {
	if props == nil {
		return nil
	}
	p := &remoteexecution.Platform{}
	for _, kv := range props {
		p.Properties = append(p.Properties, &remoteexecution.Platform_Property{Name: kv[0], Value: kv[1]})
	}
	return p
}

func scqName(q scqRef) *buildqueuestate.SizeClassQueueName {
	p := platformMsg(q.Props)
	if p == nil {
		p = &remoteexecution.Platform{}
	}
	return &buildqueuestate.SizeClassQueueName{
		PlatformQueueName: &buildqueuestate.PlatformQueueName{InstanceNamePrefix: q.Prefix, Platform: p},
		SizeClass:         q.SizeClass,
	}
}

func errCode(err error) string {
	if err == nil {
		return "OK"
	}
	return grpcstatus.Code(err).String()
}

// ---------------------------------------------------------------------------
// Chooser: resolve open choices from what the implementation did.

func parseSyncResp(resp *remoteworker.SynchronizeResponse) *syncObs {
	o := &syncObs{Kind: "none"}
	if resp == nil {
		return o
	}
	if resp.NextSynchronizationAt != nil {
		o.NextSync = resp.NextSynchronizationAt.AsTime()
	}
	if ds := resp.DesiredState; ds != nil {
		switch s := ds.WorkerState.(type) {
		case *remoteworker.DesiredState_Idle:
			o.Kind = "idle"
		case *remoteworker.DesiredState_Executing_:
			o.Kind = "executing"
			e := s.Executing
			o.Hash = e.ActionDigest.GetHash()
			o.Size = e.ActionDigest.GetSizeBytes()
			o.QueuedTS = e.QueuedTimestamp.AsTime()
			if e.Action != nil {
				o.DNC = e.Action.DoNotCache
				if e.Action.Timeout != nil {
					o.Timeout = e.Action.Timeout.AsDuration()
					o.HasTO = true
				}
			}
			o.Suffix = e.InstanceNameSuffix
		}
	}
	return o
}

func (o *syncObs) matches(t *MTask) bool {
	return o.Kind == "executing" && o.Hash == t.Hash && o.Size == t.SizeBytes && o.QueuedTS.Equal(t.QueuedTS) && o.DNC == (t.DoNotCache || t.Background) && o.Timeout == t.Timeout
}

func (o *syncObs) String() string {
	if o == nil {
		return "<call has not returned>"
	}
	if o.Kind != "executing" {
		return o.Kind
	}
	return fmt.Sprintf("executing{hash=%s.. queued=%s timeout=%s dnc=%v suffix=%q}", o.Hash[:8], o.QueuedTS.Format("15:04:05.000"), o.Timeout, o.DNC, o.Suffix)
}

func taskStr(t *MTask) string {
	if t == nil {
		return "<none>"
	}
	var invs []string
	for i := range t.Ops {
		invs = append(invs, i.path())
	}
	sort.Strings(invs)
	return fmt.Sprintf("task#%d{hash=%s.. queued=%s stage=%s invocations=%v}", t.ID, t.Hash[:8], t.QueuedTS.Format("15:04:05.000"), t.Stage(), invs)
}

func (c *Case) realObs(sp *syncPair) *syncObs {
	if sp == nil || !sp.call.Done() {
		return nil
	}
	if sp.call.Err != nil {
		return &syncObs{Kind: "error:" + errCode(sp.call.Err)}
	}
	return parseSyncResp(sp.call.Resp.(*remoteworker.SynchronizeResponse))
}

// classifyUnexpectedTask says which property is violated when the
// implementation told worker w to execute something the model does not allow.
func (c *Case) classifyUnexpectedTask(w *MWorker, obs *syncObs) (string, []string, string) {
	for _, t := range c.M.Tasks {
		if obs.Hash == t.Hash && obs.QueuedTS.Equal(t.QueuedTS) && !t.Completed && (t.Worker == nil || t.Worker == w) && t.scq() == w.SCQ {
			if obs.DNC != (t.DoNotCache || t.Background) && obs.Timeout == t.Timeout {
				if t.Background {
					return "background-learning-task-is-cacheable", []string{"C07"}, "a background learning task was handed out without do_not_cache"
				}
				return "do-not-cache-flag-differs", []string{"C03"}, fmt.Sprintf("%s was handed out with do_not_cache=%v", taskStr(t), obs.DNC)
			}
			if obs.DNC == (t.DoNotCache || t.Background) && obs.Timeout != t.Timeout {
				return "action-timeout-differs", []string{"C07"}, fmt.Sprintf("%s was handed out with timeout %s, the size-class analyzer chose %s", taskStr(t), obs.Timeout, t.Timeout)
			}
		}
	}
	var match *MTask
	sameDigestLive := false
	for _, t := range c.M.Tasks {
		if obs.Hash == t.Hash && obs.QueuedTS.Equal(t.QueuedTS) && (match == nil || !t.Completed) {
			match = t
		}
		if obs.Hash == t.Hash && !t.Completed && !t.DoNotCache && !t.Background {
			sameDigestLive = true
		}
	}
	switch {
	case match == nil && sameDigestLive:
		return "second-execution-of-in-flight-action", []string{"C03"}, "a task unknown to the model was handed out for the digest of a live cacheable task"
	case match == nil:
		return "unknown-task-handed-out", []string{"C01"}, "a task unknown to the model was handed out"
	case match.Completed:
		return "completed-task-handed-out", []string{"C01"}, "worker was told to execute " + taskStr(match) + " after it completed"
	case match.Worker != nil && match.Worker != w:
		return "task-handed-to-second-worker", []string{"C01"}, "worker was told to execute " + taskStr(match) + ", which is assigned to worker " + match.Worker.Key
	case match.scq() != w.SCQ:
		return "task-from-other-queue", []string{"C05"}, fmt.Sprintf("worker of queue %s/%s/%d was told to execute %s, which belongs to %s/%s/%d", w.SCQ.PQ.Prefix, w.SCQ.PQ.Platform, w.SCQ.SizeClass, taskStr(match), match.scq().PQ.Prefix, match.scq().PQ.Platform, match.scq().SizeClass)
	case w.isDrained():
		return "drained-worker-got-task", []string{"C05"}, "drained or terminating worker was told to execute " + taskStr(match)
	}
	return "handout-outside-documented-order", []string{"C04"}, "worker was told to execute " + taskStr(match) + ", which the documented policy does not select"
}

// ChooseTask implements Chooser.
func (c *Case) ChooseTask(w *MWorker, cands []TaskCand) int {
	sp := c.realSync[w.Key]
	obs := c.realObs(sp)
	if obs != nil && obs.Kind == "executing" {
		for i, cand := range cands {
			if obs.matches(cand.Task) {
				return i
			}
		}
		rule, owners, detail := c.classifyUnexpectedTask(w, obs)
		var cs []string
		for _, cand := range cands {
			cs = append(cs, taskStr(cand.Task)+"@"+cand.Path)
		}
		c.diverge(rule, owners, "worker %s: %s; acceptable hand-outs: %v; got %s", w.Key, detail, cs, obs)
		return -1
	}
	var cs []string
	for _, cand := range cands {
		cs = append(cs, taskStr(cand.Task))
	}
	c.diverge("queued-work-not-handed-to-asking-worker", []string{"C04", "C05"}, "worker %s asked for work while %v is queued and it is not drained, but got %s", w.Key, cs, obs)
	return -1
}

// ChooseWorker implements Chooser.
func (c *Case) ChooseWorker(t *MTask, cands []*MWorker) int {
	// Which blocked worker returned with this task?
	var got *MWorker
	for _, pq := range c.M.PQs {
		for _, scq := range pq.SCQs {
			for _, w := range sortedWorkers(scq) {
				if w.Sync == nil || w.Sync.State == "returned" {
					continue
				}
				if obs := c.realObs(c.realSync[w.Key]); obs != nil && obs.matches(t) {
					got = w
				}
			}
		}
	}
	var cs []string
	for _, w := range cands {
		cs = append(cs, w.Key)
	}
	if got == nil {
		_, problems := c.Env.BQ.VerifCheckInvariants()
		var seen []string
		for _, w := range cands {
			seen = append(seen, w.Key+" => "+c.realObs(c.realSync[w.Key]).String())
		}
		if n := len(c.streams); n > 0 {
			seen = append(seen, fmt.Sprintf("last stream: %v", briefs(c.streams[n-1].call.Stream.Messages())))
		}
		for k, sp := range c.realSync {
			seen = append(seen, fmt.Sprintf("realSync[%s] done=%v obs=%s modelState=%s", k, sp.call.Done(), c.realObs(sp), func() string {
				if sp.m == nil {
					return "<nil>"
				}
				return sp.m.State
			}()))
		}
		if lo, err := c.Env.BQ.ListOperations(context.Background(), &buildqueuestate.ListOperationsRequest{PageSize: 100}); err == nil {
			for _, o := range lo.Operations {
				seen = append(seen, fmt.Sprintf("op %s %T inv=%v sc=%d", o.Name[len(o.Name)-4:], o.Stage, len(o.InvocationName.GetIds()), o.InvocationName.GetSizeClassQueueName().GetSizeClass()))
			}
		}
		c.diverge("task-queued-while-worker-parked", []string{"C04"}, "%s was not handed to any of the parked workers %v (their Synchronize calls: %v; structural problems reported by the hook: %v)", taskStr(t), cs, seen, problems)
		return -1
	}
	for i, w := range cands {
		if w == got {
			return i
		}
	}
	if got.SCQ != t.scq() {
		c.diverge("task-from-other-queue", []string{"C05"}, "%s was handed to worker %s of another queue", taskStr(t), got.Key)
	} else if got.isDrained() {
		c.diverge("drained-worker-got-task", []string{"C05"}, "%s was handed to drained worker %s", taskStr(t), got.Key)
	} else {
		c.diverge("handoff-to-less-related-worker", []string{"C04"}, "%s was handed to parked worker %s, but workers %v last served a more closely related invocation", taskStr(t), got.Key, cs)
	}
	return -1
}

// ---------------------------------------------------------------------------
// Comparison of observations with the model.

func (c *Case) compareStream(sp *streamPair) {
	msgs := sp.call.Stream.Messages()
	exp := sp.m.Expect
	// The routing decision of Execute comes first: was the request
	// accepted into a queue or rejected?
	if sp.call.Kind == "Execute" && sp.m.State != "running" && sp.m.State != "" {
		modelAccepted := sp.m.Op != nil
		realRejected := sp.call.Done() && len(msgs) == 0 && sp.call.Err != nil
		if modelAccepted && realRejected && len(exp) > 0 && sp.m.SendErr == "" {
			c.diverge("request-rejected-although-a-queue-matches", []string{"C05"}, "stream %d: Execute returned %v, but a platform queue matches the request (longest instance name prefix, equal platform)", sp.m.ID, sp.call.Err)
			return
		}
		if !modelAccepted && len(msgs) > 0 {
			c.diverge("request-accepted-although-no-queue-matches", []string{"C05"}, "stream %d: Execute was accepted (first message %+v), but no platform queue matches the request; expected %s", sp.m.ID, brief(msgs[0]), sp.m.RetCode)
			return
		}
	}
	// Structural rules first (they do not need the model).
	doneAt := -1
	for i, mm := range msgs {
		if doneAt >= 0 {
			c.diverge("message-after-final", []string{"C02"}, "stream %d sent a message after its final one: %+v", sp.m.ID, brief(mm))
			return
		}
		if mm.Done {
			doneAt = i
			if why := c.unfaithful(mm); why != "" {
				c.diverge("final-response-altered", []string{"C02"}, "stream %d: the final message %+v does not carry the response as it was supplied: %s", sp.m.ID, brief(mm), why)
				return
			}
		}
	}
	// Align with expectation, skipping optional messages that are absent.
	ri := 0
	for ei := 0; ei < len(exp); ei++ {
		e := exp[ei]
		if ri < len(msgs) && msgEq(msgs[ri], e) {
			ri++
			continue
		}
		if e.Optional {
			continue
		}
		// Mismatch.
		if ri >= len(msgs) {
			if e.Done {
				owners := []string{"C02"}
				if isTimeoutCause(e) {
					owners = []string{"C06"}
				}
				c.diverge("final-message-missing", owners, "stream %d (op %s): expected final message %+v, but nothing was sent; messages so far %v", sp.m.ID, e.Name, e, briefs(msgs))
			} else {
				c.diverge("update-message-missing", []string{"C02"}, "stream %d: expected message %+v, but nothing was sent; messages so far %v", sp.m.ID, e, briefs(msgs))
			}
			return
		}
		got := msgs[ri]
		switch {
		case ri == 0 && !sp.m.DedupAttach && got.Stage == StExecuting && e.Stage == StQueued && got.Name == e.Name:
			c.diverge("new-task-handed-to-ineligible-worker", []string{"C05", "C01"}, "stream %d: a new task was handed to a worker at once, although no undrained worker of its queue was waiting for work (the model expected it to be queued)", sp.m.ID)
		case ri == 0 && sp.m.DedupAttach && (got.Stage != e.Stage || got.Name != e.Name):
			c.diverge("duplicate-request-not-attached-to-in-flight-task", []string{"C03"}, "stream %d: request for the digest of a live cacheable task should attach to it (expected first message %+v), got %+v", sp.m.ID, e, brief(got))
		case got.Done && !e.Done:
			rule, owners := c.classifyUnexpectedFinal(sp, got)
			c.diverge(rule, owners, "stream %d: got final message %+v where %+v was expected", sp.m.ID, brief(got), e)
		case got.Done && e.Done:
			owners := []string{"C02"}
			if c.isDedupOp(sp.m) {
				owners = append(owners, "C03")
			}
			c.diverge("final-result-differs", owners, "stream %d: final message %+v differs from expected %+v", sp.m.ID, brief(got), e)
		case !got.Done && e.Done && isTimeoutCause(e):
			// A time-out of the scheduler should have failed the task;
			// the stream was sent an ordinary update instead.
			c.diverge("timeout-failure-not-delivered", []string{"C06", "C02"}, "stream %d (op %s): expected final message %+v after a scheduler time-out, got the update %+v", sp.m.ID, e.Name, e, brief(got))
		case got.Stage != e.Stage:
			c.diverge("stage-differs", []string{"C02"}, "stream %d: got stage %s, expected %s (messages %v)", sp.m.ID, got.Stage, e.Stage, briefs(msgs))
		case got.Name != e.Name:
			c.diverge("operation-name-differs", []string{"C03"}, "stream %d: attached to operation %s, expected %s", sp.m.ID, got.Name, e.Name)
		default:
			c.diverge("message-differs", []string{"C02"}, "stream %d: got %+v expected %+v", sp.m.ID, brief(got), e)
		}
		return
	}
	if ri < len(msgs) {
		got := msgs[ri]
		if sp.m.WaitName != "" && sp.m.Op == nil && sp.m.State == "returned" && sp.m.RetCode == "NotFound" {
			// A WaitExecution for an operation that no longer exists
			// (the no-waiters clean-up removed it, possibly during this
			// very call's authorization) was attached to something and
			// sent messages. An operation that has been taken off its
			// task but can still collect waiters breaks the per-task
			// accounting of operations that "cancelled only when its last
			// operation is abandoned" rests on (when that waiter leaves,
			// the second clean-up cancels the task under the clients
			// still attached), so C03 owns the rule together with C02.
			c.diverge("wait-execution-attached-to-removed-operation", []string{"C02", "C03"}, "stream %d: WaitExecution(%s) should have returned NotFound, but was sent %+v", sp.m.ID, sp.m.WaitName, brief(got))
			return
		}
		if got.Done {
			rule, owners := c.classifyUnexpectedFinal(sp, got)
			c.diverge(rule, owners, "stream %d: unexpected final message %+v", sp.m.ID, brief(got))
		} else {
			c.diverge("unexpected-message", []string{"C02"}, "stream %d: unexpected message %+v (all: %v)", sp.m.ID, brief(got), briefs(msgs))
		}
		return
	}
	// Return value.
	if sp.m.State == "returned" {
		if !sp.call.Done() {
			c.diverge("blocked-call-not-woken", []string{"C06"}, "stream %d should have returned %s but is still blocked", sp.m.ID, sp.m.RetCode)
			return
		}
		got := errCode(sp.call.Err)
		if got != sp.m.RetCode && (sp.m.RetAlt == "" || got != sp.m.RetAlt) {
			owners := []string{"C02"}
			if sp.m.Op == nil {
				owners = []string{"C05"}
			}
			c.diverge("stream-return-code-differs", owners, "stream %d returned %s (%v), expected %s", sp.m.ID, got, sp.call.Err, sp.m.RetCode)
			return
		}
		if got == "OK" && doneAt < 0 {
			c.diverge("stream-ended-without-final-message", []string{"C02"}, "stream %d returned nil without a final message", sp.m.ID)
		}
	} else if sp.call.Done() {
		c.diverge("stream-returned-unexpectedly", []string{"C02"}, "stream %d returned %v, but should still be waiting (state %s)", sp.m.ID, sp.call.Err, sp.m.State)
	}
}

// classifyUnexpectedFinal names the rule broken by a final message the model
// did not expect. One shape belongs to C03 as well as C02: the scheduler's
// own cancellation (status CANCELED that neither a worker nor an operator
// supplied: no worker token, none of the status details every KillOperations
// step of the harness attaches, no kill issued in this step) delivered to a
// stream that is attached to a task the model says is still live. The only
// cause the scheduler may state with that code is "no client waits any
// more", and this client does. Wording plays no part.
func (c *Case) classifyUnexpectedFinal(sp *streamPair, got Msg) (string, []string) {
	killStep := false
	if n := len(c.steps); n > 0 {
		switch c.steps[n-1].K {
		case "kill", "gkill", "gkillopen", "killq":
			killStep = true
		}
	}
	attachedToLiveTask := sp.m.Op != nil && !sp.m.Op.removed && !sp.m.Op.Task.Completed && sp.m.State != "returned" && sp.m.State != "auth"
	if got.Code == "Canceled" && got.Token == "" && len(got.RespPB.GetStatus().GetDetails()) == 0 && !killStep && attachedToLiveTask {
		return "task-cancelled-while-client-still-attached", []string{"C03", "C02"}
	}
	return "unexpected-final-message", []string{"C02"}
}

// unfaithful judges the body of a final message without the model: a
// response that carries a worker's token must be exactly the ExecuteResponse
// that worker handed in (result, status with details, server logs, message);
// an operator's kill must carry exactly the status the operator supplied and
// nothing else.
func (c *Case) unfaithful(m Msg) string {
	if m.RespPB == nil {
		return ""
	}
	if m.Token != "" {
		want, ok := c.submitted[m.Token]
		if !ok {
			return "no worker submitted a response with token " + m.Token
		}
		if !proto.Equal(m.RespPB, want) {
			return fmt.Sprintf("worker submitted %v, the client received %v", want, m.RespPB)
		}
		return ""
	}
	if strings.Contains(m.Text, "killed by operator") {
		want := &remoteexecution.ExecuteResponse{Status: statusFor(m.Code, m.Text)}
		want.Status.Details = KillDetails()
		if !proto.Equal(m.RespPB, want) {
			return fmt.Sprintf("the operator supplied status %v, the client received %v", want.Status, m.RespPB)
		}
	}
	return ""
}

func (c *Case) isDedupOp(s *MStream) bool {
	return s.Op != nil && len(s.Op.Task.Ops) > 1
}

func isTimeoutCause(e ExpMsg) bool {
	return strings.Contains(e.Text, "disappeared") || strings.Contains(e.Text, "no longer has any waiting clients") || strings.Contains(e.Text, "Attempted to execute task")
}

func msgEq(m Msg, e ExpMsg) bool {
	if m.Name != e.Name || m.Stage != e.Stage || m.Done != e.Done {
		return false
	}
	if e.Done {
		if e.Sched {
			// The scheduler's own errors: the cause is the model's, the
			// status code must match, the message must state something;
			// its wording is free.
			return m.Code == e.Code && m.Token == "" && m.Text != ""
		}
		return m.Code == e.Code && m.Text == e.Text && m.Token == e.Token
	}
	return true
}

type briefMsg struct {
	Name, Stage string
	Done        bool
	Code, Text  string
	Token       string
}

func brief(m Msg) briefMsg {
	n := m.Name
	if len(n) > 8 {
		n = n[len(n)-8:]
	}
	return briefMsg{n, m.Stage, m.Done, m.Code, m.Text, m.Token}
}

func briefs(ms []Msg) []briefMsg {
	out := make([]briefMsg, len(ms))
	for i, m := range ms {
		out[i] = brief(m)
	}
	return out
}

func (c *Case) compareSync(sp *syncPair) {
	obs := c.realObs(sp)
	m := sp.m
	if os.Getenv("VERIF_ONLY_CASE") != "" {
		c.tracef("  sync worker %d: model %s/%s %s, real %s", sp.w, m.State, m.RetCode, respStr(m.Resp), obs)
	}
	if m.State != "returned" {
		if obs != nil {
			if obs.Kind == "executing" && m.W != nil {
				rule, owners, detail := c.classifyUnexpectedTask(m.W, obs)
				c.diverge(rule, owners, "worker %s (expected to stay blocked: %s): %s; got %s", m.W.Key, m.State, detail, obs)
			} else {
				c.diverge("synchronize-returned-unexpectedly", []string{"C05"}, "Synchronize of worker %d returned %s, expected it to block (%s)", sp.w, obs, m.State)
			}
		}
		return
	}
	if obs == nil {
		owners := []string{"C06"}
		if sp.wasUndrain {
			// Removing the drain must make the worker eligible again.
			owners = []string{"C05", "C06"}
		}
		c.diverge("blocked-call-not-woken", owners, "Synchronize of worker %d should have returned (%s %v) but is still blocked", sp.w, m.RetCode, respStr(m.Resp))
		return
	}
	if m.RetCode != "OK" {
		if obs.Kind != "error:"+m.RetCode {
			c.diverge("synchronize-error-differs", []string{"C05"}, "Synchronize of worker %d: got %s, expected error %s", sp.w, obs, m.RetCode)
		}
		return
	}
	if strings.HasPrefix(obs.Kind, "error:") {
		c.diverge("synchronize-error-differs", []string{"C05"}, "Synchronize of worker %d failed with %s (%v), expected %v", sp.w, obs.Kind, sp.call.Err, respStr(m.Resp))
		return
	}
	exp := m.Resp
	switch {
	case exp.Kind == "executing" && obs.Kind == "executing":
		if !obs.matches(exp.Task) {
			rule, owners, detail := c.classifyUnexpectedTask(m.W, obs)
			c.diverge(rule, owners, "worker %s: %s; expected %s got %s", m.W.Key, detail, taskStr(exp.Task), obs)
			return
		}
		if obs.Suffix != exp.Task.Suffix {
			c.diverge("instance-name-suffix-differs", []string{"C05"}, "worker %s: instance name suffix %q, expected %q", m.W.Key, obs.Suffix, exp.Task.Suffix)
			return
		}
		if !obs.HasTO || obs.Timeout < 0 || obs.Timeout > exp.Task.Script.Timeout+time.Hour {
			c.diverge("action-timeout-out-of-range", []string{"C07"}, "worker %s: action timeout %s", m.W.Key, obs.Timeout)
			return
		}
	case exp.Kind == "executing":
		owners := []string{"C04"}
		if exp.Task.RetryCount > 0 || exp.Task.Worker == m.W && exp.Task.Gen == 0 {
			owners = []string{"C01", "C04"}
		}
		c.diverge("expected-task-not-handed-out", owners, "worker %s: expected to be told to execute %s, got %s", m.W.Key, taskStr(exp.Task), obs)
		return
	case obs.Kind == "executing":
		rule, owners, detail := c.classifyUnexpectedTask(m.W, obs)
		c.diverge(rule, owners, "worker %s (expected %s): %s; got %s", m.W.Key, exp.Kind, detail, obs)
		return
	case exp.Kind != obs.Kind:
		c.diverge("synchronize-response-differs", []string{"C01"}, "worker %s: got %s, expected %s", m.W.Key, obs, exp.Kind)
		return
	}
	if !obs.NextSync.Equal(exp.NextSync) {
		c.diverge("next-synchronization-differs", []string{"C06"}, "worker %s: next synchronization at %s, expected %s", m.W.Key, obs.NextSync, exp.NextSync)
	}
}

func respStr(r *ExpSyncResp) string {
	if r == nil {
		return "<nil>"
	}
	if r.Kind == "executing" {
		return "executing " + taskStr(r.Task)
	}
	return r.Kind
}

// compareAll compares every tracked call with the model after a step.
func (c *Case) compareAll() {
	for _, mv := range c.M.Violations {
		c.diverge(mv.Rule, []string{"C04"}, "%s", mv.Detail)
	}
	c.M.Violations = nil
	if c.stop {
		return
	}
	if c.P.Name == "C07" {
		// For the property that owns the size-class protocol, compare
		// the analyzer calls before anything they may cause downstream.
		c.checkProtoLog(false)
		if c.stop {
			return
		}
	}
	for _, sp := range c.streams {
		c.compareStream(sp)
		if c.stop {
			return
		}
	}
	// Outstanding and just-finished Synchronize calls.
	idx := make([]int, 0, len(c.syncs))
	for w := range c.syncs {
		idx = append(idx, w)
	}
	sort.Ints(idx)
	for _, w := range idx {
		sp := c.syncs[w]
		c.compareSync(sp)
		if c.stop {
			return
		}
		sp.wasUndrain = sp.m.State == "undrain"
		if sp.m.State == "returned" && sp.call.Done() {
			c.lastResp[w] = c.realObs(sp)
			delete(c.syncs, w)
			if sp.m.W != nil && c.realSync[sp.m.W.Key] == sp {
				delete(c.realSync, sp.m.W.Key)
			}
		}
	}
	for _, tp := range c.terms {
		if tp.m.State == "returned" {
			if !tp.call.Done() {
				c.diverge("blocked-call-not-woken", []string{"C06"}, "TerminateWorkers %d should have returned %s but is still blocked", tp.m.ID, tp.m.RetCode)
				return
			}
			if got := errCode(tp.call.Err); got != tp.m.RetCode {
				c.diverge("terminate-return-differs", []string{"C06"}, "TerminateWorkers %d returned %s, expected %s", tp.m.ID, got, tp.m.RetCode)
				return
			}
		} else if tp.call.Done() {
			c.diverge("terminate-returned-early", []string{"C06"}, "TerminateWorkers %d returned %v while a matching worker still executes", tp.m.ID, tp.call.Err)
			return
		}
	}
	for i, kp := range c.gkills {
		if kp.returned {
			if !kp.call.Done() {
				c.diverge("blocked-call-not-woken", []string{"C06"}, "KillOperations %d (%s) should have returned %s after its authorization, but is still blocked", i, kp.name, kp.want)
				return
			}
			if got := errCode(kp.call.Err); got != kp.want {
				c.diverge("kill-return-differs", []string{"C02"}, "KillOperations %d (%s) returned %v, expected %s", i, kp.name, kp.call.Err, kp.want)
				return
			}
		} else if kp.call.Done() {
			c.diverge("kill-returned-before-authorization", []string{"C02"}, "KillOperations %d (%s) returned %v while its authorization is still pending", i, kp.name, kp.call.Err)
			return
		}
	}
	if qp := c.M.QueuedAndParked(); len(qp) > 0 {
		c.diverge("model-queued-while-parked", []string{"C04"}, "work is queued while undrained workers are parked: %v", qp)
	}
}

// openKillGate lets a gated KillOperations finish its authorization.
func (c *Case) openKillGate(kp *killPair) {
	if kp.returned {
		return
	}
	kp.gate.Open()
	if !c.settle() {
		return
	}
	kp.want = c.M.KillAuthorized(kp.op, kp.name, kp.code, "killed by operator "+kp.name)
	kp.returned = true
}

// settle waits for quiescence; a hang ends the case.
func (c *Case) settle() bool {
	r := c.Env.Settle(30 * time.Second)
	if !r.Quiet {
		// Recheck once more with a long grace before calling it a hang.
		r = c.Env.Settle(30 * time.Second)
	}
	if !r.Quiet {
		c.res.Hang = strings.Join(r.Stuck, "; ") + "\n" + r.Dump
		c.stop = true
		return false
	}
	return true
}

// ---------------------------------------------------------------------------
// Time

// advanceTo moves virtual time forward, firing timers deadline by deadline.
func (c *Case) advanceTo(target time.Time) {
	for !c.stop {
		t, ok := c.Env.Clock.NextDeadline()
		if !ok || t.After(target) {
			break
		}
		fired := 0
		for {
			t2, ok := c.Env.Clock.NextDeadline()
			if !ok || !t2.Equal(t) {
				break
			}
			if !c.Env.Clock.FireNext(t) {
				break
			}
			fired++
		}
		c.M.Now = t
		if !c.settle() {
			return
		}
		n := c.M.FireTimers()
		c.M.Propagate()
		c.tracef("timers at %s: fired %d (model %d)", t.Format("15:04:05.000000"), fired, n)
		// The number of timers the clock delivered may be smaller than the
		// number of calls the model wakes at this instant: a call woken by
		// the first timer's side effects (a stage change) stops its own
		// timer before it is delivered. Outcomes are identical, so only the
		// observable results are compared.
		_ = fired
		c.compareAll()
	}
	if !c.stop {
		c.Env.Clock.Set(target)
		c.M.Now = target
	}
}

// poke makes the scheduler observe the current time (lazy clean-ups run).
func (c *Case) poke() {
	_, err := c.Env.BQ.ListPlatformQueues(context.Background(), &emptypb.Empty{})
	if err != nil {
		c.diverge("list-platform-queues-failed", []string{"C06"}, "%v", err)
		return
	}
	if !c.settle() {
		return
	}
	c.M.Enter()
	c.M.Propagate()
	c.compareAll()
}

// ---------------------------------------------------------------------------
// Steps

func statusFor(code, text string) *status.Status {
	var cc codes.Code
	for i := codes.OK; i <= codes.Unauthenticated; i++ {
		if i.String() == code {
			cc = i
		}
	}
	return &status.Status{Code: int32(cc), Message: text}
}

// killStatus is the status an operator passes to KillOperations: code,
// message and a detail that must reach the clients unchanged.
func killStatus(code, text string) *status.Status {
	st := statusFor(code, text)
	st.Details = KillDetails()
	return st
}

var tokenSeq int

func (c *Case) doStep(s Step) {
	c.tracef("%s", stepStr(s))
	switch s.K {
	case "exec":
		a := &c.W.Actions[s.A]
		req := &remoteexecution.ExecuteRequest{
			InstanceName:    a.Instance,
			ActionDigest:    &remoteexecution.Digest{Hash: a.Hash, SizeBytes: a.Size},
			ExecutionPolicy: &remoteexecution.ExecutionPolicy{Priority: s.Prio},
		}
		if s.NP && s.Prio == 0 {
			// REv2 clients may leave the policy out: priority 0.
			req.ExecutionPolicy = nil
			c.sit("request:without-execution-policy")
		}
		if s.NM && s.Path == "" {
			c.sit("request:without-request-metadata")
		}
		var sendGate *Gate
		var sendErr error
		if s.Gate {
			sendGate = NewGate()
		}
		if s.Code != "" {
			sendErr = grpcstatus.Error(codeByName(s.Code), "client went away")
		}
		call := c.Env.ExecuteOpt(req, s.Path, a.Script, nil, sendGate, sendErr, s.NM && s.Path == "")
		sp := &streamPair{call: call, m: &MStream{ID: len(c.streams)}, gate: sendGate}
		sp.m.SendGated = s.Gate
		sp.m.SendErr = s.Code
		c.streams = append(c.streams, sp)
		c.M.Streams = append(c.M.Streams, sp.m)
		if !c.settle() {
			return
		}
		c.M.ExecuteBegin(sp.m, &ExecReq{Instance: a.Instance, Hash: a.Hash, SizeBytes: a.Size, Props: a.Props, DoNotCache: a.DoNotCache, InCAS: a.InCAS, Path: s.Path, Priority: s.Prio, Script: a.Script})
		if s.NP && s.Prio == 0 && sp.m.DedupAttach {
			c.sit("request:without-execution-policy-attached-to-in-flight-task")
		}
	case "wait":
		var gate *Gate
		if s.Gate {
			gate = NewGate()
		}
		call := c.Env.WaitExecution(s.Name, gate)
		sp := &streamPair{call: call, m: &MStream{ID: len(c.streams)}, auth: gate}
		c.streams = append(c.streams, sp)
		c.M.Streams = append(c.M.Streams, sp.m)
		if !c.settle() {
			return
		}
		c.M.WaitExecutionBegin(sp.m, s.Name, s.Gate)
	case "auth":
		sp := c.streams[s.S]
		sp.auth.Open()
		sp.auth = nil
		if !c.settle() {
			return
		}
		c.M.WaitExecutionAuthorized(sp.m)
	case "gate":
		sp := c.streams[s.S]
		sp.gate = sp.call.Stream.GateNextSend()
		sp.m.SendGated = true
	case "ungate":
		sp := c.streams[s.S]
		sp.gate.Open()
		sp.gate = nil
		if !c.settle() {
			return
		}
		c.M.StreamSendReleased(sp.m)
	case "cancel":
		sp := c.streams[s.S]
		sp.call.Cancel()
		sp.m.Cancelled = true
		if !c.settle() {
			return
		}
	case "sync", "dupsync":
		wd := c.W.Workers[s.W]
		req := &remoteworker.SynchronizeRequest{
			WorkerId:           wd.ID,
			InstanceNamePrefix: wd.Prefix,
			Platform:           platformMsg(wd.Props),
			SizeClass:          wd.SizeClass,
			PreferBeingIdle:    s.PI,
		}
		mreq := &SyncReq{Prefix: wd.Prefix, Props: wd.Props, SizeClass: wd.SizeClass, WorkerID: wd.ID, State: s.State, Hash: s.Hash, SizeBytes: s.Size, PreferIdle: s.PI}
		switch s.State {
		case "idle":
			req.CurrentState = &remoteworker.CurrentState{WorkerState: &remoteworker.CurrentState_Idle{Idle: &emptypb.Empty{}}}
		case "none":
		case "nodigest":
			req.CurrentState = &remoteworker.CurrentState{WorkerState: &remoteworker.CurrentState_Executing_{Executing: &remoteworker.CurrentState_Executing{ExecutionState: &remoteworker.CurrentState_Executing_Started{Started: &emptypb.Empty{}}}}}
		case "executing":
			req.CurrentState = &remoteworker.CurrentState{WorkerState: &remoteworker.CurrentState_Executing_{Executing: &remoteworker.CurrentState_Executing{
				ActionDigest:   &remoteexecution.Digest{Hash: s.Hash, SizeBytes: s.Size},
				ExecutionState: &remoteworker.CurrentState_Executing_Running{Running: &emptypb.Empty{}},
			}}}
		case "completed":
			tokenSeq++
			token := fmt.Sprintf("token-%d-%d", c.step, tokenSeq)
			resp := &remoteexecution.ExecuteResponse{Message: token}
			mresp := &MResp{Token: token, Code: "OK"}
			switch s.Out {
			case "ok":
				resp.Result = WorkerResult(token, 0)
			case "exit1":
				resp.Result = WorkerResult(token, 1)
				mresp.Exit = 1
			case "deadline":
				resp.Status = statusFor("DeadlineExceeded", "Failed to run command: timeout")
				// Workers report what was produced until the time-out.
				resp.Result = WorkerResult(token, 0)
				mresp.Code, mresp.Text = "DeadlineExceeded", "Failed to run command: timeout"
			default:
				resp.Status = statusFor("Internal", "Failed to run command: boom")
				resp.Status.Details = []*anypb.Any{InvocationAny("detail-of-" + token)}
				mresp.Code, mresp.Text = "Internal", "Failed to run command: boom"
			}
			DecorateWorkerResponse(resp, token)
			mresp.Dur = resp.Result.GetExecutionMetadata().GetVirtualExecutionDuration().AsDuration()
			c.submitted[token] = proto.Clone(resp).(*remoteexecution.ExecuteResponse)
			mreq.Resp = mresp
			req.CurrentState = &remoteworker.CurrentState{WorkerState: &remoteworker.CurrentState_Executing_{Executing: &remoteworker.CurrentState_Executing{
				ActionDigest:   &remoteexecution.Digest{Hash: s.Hash, SizeBytes: s.Size},
				ExecutionState: &remoteworker.CurrentState_Executing_Completed{Completed: resp},
			}}}
		}
		call := c.Env.Go("Synchronize", context.Background(), nil, func(ctx context.Context, cl *Call) {
			resp, err := c.Env.BQ.Synchronize(ctx, req)
			cl.Err = err
			if resp != nil {
				// Marshal at once, as the gRPC layer would.
				cl.Resp = proto.Clone(resp)
			} else {
				cl.Resp = (*remoteworker.SynchronizeResponse)(nil)
			}
		})
		sp := &syncPair{call: call, w: s.W, req: mreq}
		key := workerKey(wd.ID)
		prevReal, hadPrev := c.realSync[key]
		if s.K == "sync" {
			c.realSync[key] = sp
		}
		if !c.settle() {
			return
		}
		sp.m = c.M.SynchronizeBegin(mreq)
		if s.K == "dupsync" {
			// Must be rejected without touching the outstanding call.
			if !call.Done() || errCode(call.Err) != sp.m.RetCode {
				c.diverge("concurrent-synchronize-not-rejected", []string{"C01"}, "second concurrent Synchronize of worker %d: got %v, expected %s", s.W, call.Err, sp.m.RetCode)
			}
			if hadPrev {
				c.realSync[key] = prevReal
			}
			return
		}
		c.syncs[s.W] = sp
		if sp.m.W == nil {
			delete(c.realSync, key)
		}
	case "csync":
		sp := c.syncs[s.W]
		sp.call.Cancel()
		if !c.settle() {
			return
		}
		c.M.SyncCancelled(sp.m)
	case "kill":
		_, err := c.Env.BQ.KillOperations(context.Background(), &buildqueuestate.KillOperationsRequest{
			Filter: &buildqueuestate.KillOperationsRequest_Filter{Type: &buildqueuestate.KillOperationsRequest_Filter_OperationName{OperationName: s.Name}},
			Status: killStatus(s.Code, "killed by operator "+s.Name),
		})
		if !c.settle() {
			return
		}
		want := c.M.KillOperation(s.Name, s.Code, "killed by operator "+s.Name)
		if errCode(err) != want {
			c.diverge("kill-return-differs", []string{"C02"}, "KillOperations(%s) returned %v, expected %s", s.Name, err, want)
		}
	case "gkill":
		gate := NewGate()
		kp := &killPair{gate: gate, name: s.Name, code: s.Code}
		kp.call = c.Env.KillOperationGated(&buildqueuestate.KillOperationsRequest{
			Filter: &buildqueuestate.KillOperationsRequest_Filter{Type: &buildqueuestate.KillOperationsRequest_Filter_OperationName{OperationName: s.Name}},
			Status: killStatus(s.Code, "killed by operator "+s.Name),
		}, gate)
		c.gkills = append(c.gkills, kp)
		if !c.settle() {
			return
		}
		if o, ok := c.M.KillLookup(s.Name); ok {
			kp.op = o
		} else {
			kp.returned, kp.want = true, "NotFound"
		}
	case "gkillopen":
		c.openKillGate(c.gkills[s.T])
		if c.stop {
			return
		}
	case "killq":
		q := c.knownSCQ[s.Q]
		_, err := c.Env.BQ.KillOperations(context.Background(), &buildqueuestate.KillOperationsRequest{
			Filter: &buildqueuestate.KillOperationsRequest_Filter{Type: &buildqueuestate.KillOperationsRequest_Filter_SizeClassQueueWithoutWorkers{SizeClassQueueWithoutWorkers: scqName(q)}},
			Status: killStatus(s.Code, "queue killed by operator"),
		})
		if !c.settle() {
			return
		}
		want := c.M.KillQueue(q.Prefix, q.Props, q.SizeClass, s.Code, "queue killed by operator")
		if errCode(err) != want {
			c.diverge("kill-queue-return-differs", []string{"C05"}, "KillOperations(queue %v) returned %v, expected %s", q, err, want)
		}
	case "drain+", "drain-":
		q := c.knownSCQ[s.Q]
		req := &buildqueuestate.AddOrRemoveDrainRequest{SizeClassQueueName: scqName(q), WorkerIdPattern: s.Pat}
		var err error
		if s.K == "drain+" {
			_, err = c.Env.BQ.AddDrain(context.Background(), req)
		} else {
			_, err = c.Env.BQ.RemoveDrain(context.Background(), req)
		}
		if !c.settle() {
			return
		}
		var want string
		if s.K == "drain+" {
			want = c.M.AddDrain(q.Prefix, q.Props, q.SizeClass, s.Pat)
		} else {
			want = c.M.RemoveDrain(q.Prefix, q.Props, q.SizeClass, s.Pat)
		}
		if errCode(err) != want {
			c.diverge("drain-return-differs", []string{"C05"}, "%s(%v,%v) returned %v, expected %s", s.K, q, s.Pat, err, want)
		}
	case "term":
		pat := s.Pat
		call := c.Env.Go("TerminateWorkers", context.Background(), nil, func(ctx context.Context, cl *Call) {
			_, cl.Err = c.Env.BQ.TerminateWorkers(ctx, &buildqueuestate.TerminateWorkersRequest{WorkerIdPattern: pat})
		})
		tp := &termPair{call: call, m: &MTerm{ID: len(c.terms)}}
		c.terms = append(c.terms, tp)
		c.M.Terms = append(c.M.Terms, tp.m)
		if !c.settle() {
			return
		}
		c.M.TerminateBegin(tp.m, pat)
	case "cterm":
		tp := c.terms[s.T]
		tp.call.Cancel()
		tp.m.Cancelled = true
		if !c.settle() {
			return
		}
	case "adv":
		c.advanceTo(c.Env.Clock.Now().Add(s.D))
		if c.stop {
			return
		}
		c.poke()
		return
	case "poke":
		c.poke()
		return
	case "list":
		c.crossCheckLists()
		return
	default:
		panic("unknown step " + s.K)
	}
	if c.stop {
		return
	}
	c.M.Propagate()
	c.compareAll()
}

func codeByName(name string) codes.Code {
	for i := codes.OK; i <= codes.Unauthenticated; i++ {
		if i.String() == name {
			return i
		}
	}
	return codes.Unknown
}

func stepStr(s Step) string {
	b, _ := json.Marshal(s)
	return string(b)
}

// ---------------------------------------------------------------------------
// Step generation (uses the model's state to make meaningful choices).

func (c *Case) liveStreams(pred func(sp *streamPair) bool) []int {
	var out []int
	for i, sp := range c.streams {
		if pred(sp) {
			out = append(out, i)
		}
	}
	return out
}

func (c *Case) modelWorker(w int) *MWorker {
	wd := c.W.Workers[w]
	scq := c.M.findSCQ(wd.Prefix, CanonPlatform(wd.Props), wd.SizeClass)
	if scq == nil {
		return nil
	}
	return scq.Workers[workerKey(wd.ID)]
}

func (c *Case) genStep() (Step, bool) {
	rng := c.rng
	weights := c.P.Weights
	kinds := make([]string, 0, len(weights))
	for k := range weights {
		kinds = append(kinds, k)
	}
	sort.Strings(kinds)
	total := 0
	for _, k := range kinds {
		total += weights[k]
	}
	for attempt := 0; attempt < 40; attempt++ {
		x := rng.IntN(total)
		var kind string
		for _, k := range kinds {
			if x < weights[k] {
				kind = k
				break
			}
			x -= weights[k]
		}
		switch kind {
		case "exec":
			s := Step{K: "exec", A: rng.IntN(len(c.W.Actions)), Path: pick(rng, c.W.Paths), Prio: pick(rng, c.W.Prios)}
			if c.P.DedupHeavy && rng.IntN(2) == 0 {
				// Prefer a digest that is in flight.
				var live []int
				for i, a := range c.W.Actions {
					if _, ok := c.M.Dedup[a.Instance+"|"+a.Hash]; ok {
						live = append(live, i)
					}
				}
				if len(live) > 0 {
					s.A = pick(rng, live)
				}
			}
			if rng.IntN(12) == 0 {
				s.Gate = true
			}
			if rng.IntN(40) == 0 {
				s.Code = "Unavailable"
			}
			// Optional parts of the request left out (derived from the
			// step index, so that the PRNG stream is not disturbed).
			s.NP = s.Prio == 0 && c.step%2 == 0
			s.NM = s.Path == "" && c.step%3 == 0
			return s, true
		case "wait":
			names := make([]string, 0, len(c.M.Ops))
			for n := range c.M.Ops {
				names = append(names, n)
			}
			sort.Strings(names)
			s := Step{K: "wait"}
			if len(names) > 0 && rng.IntN(8) > 0 {
				s.Name = pick(rng, names)
			} else if c.M.opSeq > 0 && rng.IntN(2) == 0 {
				// A name that existed once (probably cleaned up).
				s.Name = OperationName(1 + uint64(rng.IntN(int(c.M.opSeq))))
			} else {
				s.Name = "no-such-operation"
			}
			s.Gate = rng.IntN(4) == 0
			return s, true
		case "auth":
			l := c.liveStreams(func(sp *streamPair) bool { return sp.auth != nil && sp.m.State == "auth" })
			if len(l) == 0 {
				continue
			}
			return Step{K: "auth", S: pick(rng, l)}, true
		case "gate":
			l := c.liveStreams(func(sp *streamPair) bool { return sp.m.State == "parked" && sp.gate == nil && !sp.m.SendGated })
			if len(l) == 0 {
				continue
			}
			return Step{K: "gate", S: pick(rng, l)}, true
		case "ungate":
			l := c.liveStreams(func(sp *streamPair) bool { return sp.gate != nil && sp.m.State == "send" })
			if len(l) == 0 {
				continue
			}
			return Step{K: "ungate", S: pick(rng, l)}, true
		case "cancel":
			l := c.liveStreams(func(sp *streamPair) bool {
				return !sp.m.Cancelled && (sp.m.State == "parked" || sp.m.State == "send" || sp.m.State == "auth")
			})
			if len(l) == 0 {
				continue
			}
			return Step{K: "cancel", S: pick(rng, l)}, true
		case "sync":
			w := rng.IntN(len(c.W.Workers))
			if rng.IntN(10) < 4 {
				// Prefer a worker whose task is on a rare path: being
				// retried on the largest size class, or already re-sent.
				var rare []int
				for wi := range c.W.Workers {
					if _, busy := c.syncs[wi]; busy {
						continue
					}
					if mw := c.modelWorker(wi); mw != nil && mw.Task != nil && (mw.Task.Learner == "learner2" || mw.Task.RetryCount > 0 || len(mw.Task.Ops) > 1) {
						rare = append(rare, wi)
					}
				}
				if len(rare) > 0 {
					w = pick(rng, rare)
				}
			}
			if _, busy := c.syncs[w]; busy {
				if rng.IntN(10) == 0 {
					return Step{K: "dupsync", W: w, State: "idle"}, true
				}
				continue
			}
			s := Step{K: "sync", W: w, PI: rng.IntN(12) == 0}
			mw := c.modelWorker(w)
			var assigned *MTask
			if mw != nil {
				assigned = mw.Task
			}
			r := rng.IntN(100)
			switch {
			case assigned != nil && r < 45:
				s.State, s.Hash, s.Size = "completed", assigned.Hash, assigned.SizeBytes
				s.Out = pick(rng, []string{"ok", "ok", "ok", "exit1", "deadline", "internal"})
			case assigned != nil && r < 70:
				s.State, s.Hash, s.Size = "executing", assigned.Hash, assigned.SizeBytes
			case assigned != nil && r < 85:
				s.State = "idle" // crashed and restarted
			case assigned == nil && r < 86:
				s.State = "idle"
			case r < 94:
				a := pick(rng, c.W.Actions)
				s.State, s.Hash, s.Size = pick(rng, []string{"executing", "completed"}), a.Hash, a.Size
				s.Out = "ok"
				if assigned != nil && assigned.Hash == a.Hash {
					s.Size++ // make sure it is a wrong digest
				}
			case r < 96:
				s.State = pick(rng, []string{"none", "nodigest"})
			default:
				s.State = "idle"
			}
			return s, true
		case "csync":
			var l []int
			for w, sp := range c.syncs {
				if sp.m != nil && sp.m.State != "returned" {
					l = append(l, w)
				}
			}
			if len(l) == 0 {
				continue
			}
			sort.Ints(l)
			return Step{K: "csync", W: pick(rng, l)}, true
		case "kill":
			names := make([]string, 0, len(c.M.Ops))
			for n := range c.M.Ops {
				names = append(names, n)
			}
			sort.Strings(names)
			s := Step{K: "kill", Code: pick(rng, []string{"Cancelled", "Aborted", "ResourceExhausted"})}
			if s.Code == "Cancelled" {
				s.Code = "Canceled"
			}
			if len(names) > 0 && rng.IntN(6) > 0 {
				s.Name = pick(rng, names)
			} else {
				s.Name = "no-such-operation"
			}
			return s, true
		case "gkill":
			// Prefer an operation nobody waits for: it may expire
			// while the call is parked in its authorization step.
			var names, abandoned []string
			for n, o := range c.M.Ops {
				names = append(names, n)
				if o.Waiters == 0 {
					abandoned = append(abandoned, n)
				}
			}
			sort.Strings(names)
			sort.Strings(abandoned)
			pending := 0
			for _, kp := range c.gkills {
				if !kp.returned {
					pending++
				}
			}
			if len(names) == 0 || pending >= 2 {
				continue
			}
			s := Step{K: "gkill", Code: pick(rng, []string{"Aborted", "ResourceExhausted"})}
			if len(abandoned) > 0 && rng.IntN(3) > 0 {
				s.Name = pick(rng, abandoned)
			} else {
				s.Name = pick(rng, names)
			}
			return s, true
		case "gkillopen":
			var l []int
			for i, kp := range c.gkills {
				if !kp.returned {
					l = append(l, i)
				}
			}
			if len(l) == 0 {
				continue
			}
			return Step{K: "gkillopen", T: pick(rng, l)}, true
		case "killq":
			return Step{K: "killq", Q: rng.IntN(len(c.knownSCQ)), Code: "Aborted"}, true
		case "drain+":
			q := rng.IntN(len(c.knownSCQ))
			return Step{K: "drain+", Q: q, Pat: c.genPattern()}, true
		case "drain-":
			// Prefer an existing drain.
			type dk struct {
				q   int
				pat map[string]string
			}
			var l []dk
			for qi, q := range c.knownSCQ {
				if scq := c.M.findSCQ(q.Prefix, CanonPlatform(q.Props), q.SizeClass); scq != nil {
					keys := make([]string, 0, len(scq.Drains))
					for k := range scq.Drains {
						keys = append(keys, k)
					}
					sort.Strings(keys)
					for _, k := range keys {
						l = append(l, dk{qi, scq.Drains[k]})
					}
				}
			}
			var s Step
			if len(l) > 0 && rng.IntN(8) > 0 {
				d := pick(rng, l)
				s = Step{K: "drain-", Q: d.q, Pat: d.pat}
			} else {
				s = Step{K: "drain-", Q: rng.IntN(len(c.knownSCQ)), Pat: c.genPattern()}
			}
			q := c.knownSCQ[s.Q]
			if c.M.RemoveDrainRaces(q.Prefix, q.Props, q.SizeClass, s.Pat) {
				continue
			}
			return s, true
		case "term":
			return Step{K: "term", Pat: c.genPattern()}, true
		case "cterm":
			var l []int
			for i, tp := range c.terms {
				if tp.m.State == "waiting" && !tp.m.Cancelled {
					l = append(l, i)
				}
			}
			if len(l) == 0 {
				continue
			}
			return Step{K: "cterm", T: pick(rng, l)}, true
		case "adv":
			d := pick(rng, []time.Duration{time.Second, 3 * time.Second, 7 * time.Second, 11 * time.Second, 25 * time.Second, 35 * time.Second, 70 * time.Second})
			if c.P.Stickiness {
				d = pick(rng, []time.Duration{time.Second, time.Second, 2 * time.Second, 3 * time.Second, 5 * time.Second, 9 * time.Second, 20 * time.Second})
			}
			if rng.IntN(30) == 0 || (c.P.LongAdvances && rng.IntN(5) == 0) {
				d = pick(rng, []time.Duration{100 * time.Second, 400 * time.Second, 400 * time.Second})
			}
			return Step{K: "adv", D: d}, true
		case "poke":
			return Step{K: "poke"}, true
		case "list":
			return Step{K: "list"}, true
		}
	}
	return Step{}, false
}

func (c *Case) genPattern() map[string]string {
	switch c.rng.IntN(4) {
	case 0:
		return map[string]string{}
	case 1:
		return map[string]string{"host": fmt.Sprintf("h%d", c.rng.IntN(3))}
	default:
		wd := pick(c.rng, c.W.Workers)
		return map[string]string{"host": wd.ID["host"], "thread": wd.ID["thread"]}
	}
}

// ---------------------------------------------------------------------------
// Running a case

// Run executes the case: generated steps (or the given replay steps).
func (c *Case) Run(replay []Step) *CaseResult {
	n := c.P.Steps
	if replay != nil {
		n = len(replay)
	}
	var prelude []Step
	if replay == nil {
		prelude = c.scenarioPrelude()
	}
	for k := 0; k < n && !c.stop; k++ {
		c.step = k
		var s Step
		if replay != nil {
			s = replay[k]
		} else {
			var ok bool
			if k < len(prelude) {
				s, ok = prelude[k], true
				if _, busy := c.syncs[s.W]; busy && s.K == "sync" {
					// The worker is still blocked in its previous call.
					ok = false
				}
			} else {
				s, ok = c.genStep()
			}
			if !ok {
				continue
			}
			// Time always moves between steps, so that timestamps are unique.
			s.Pre = time.Duration(1+c.rng.IntN(3)) * time.Millisecond
		}
		c.advanceTo(c.Env.Clock.Now().Add(s.Pre))
		if c.stop {
			break
		}
		c.steps = append(c.steps, s)
		c.doStep(s)
		if c.M.Ambiguous != "" {
			c.res.Ambiguous = c.M.Ambiguous
			break
		}
		if !c.stop && c.P.HookEvery > 0 && k%c.P.HookEvery == 0 {
			c.checkHook(false)
		}
	}
	if !c.stop && c.res.Ambiguous == "" {
		c.checkHook(false)
		c.crossCheckLists()
	}
	if !c.stop && c.res.Ambiguous == "" {
		c.checkProtoLog(false)
	}
	if !c.stop && c.res.Ambiguous == "" && c.P.LeakPhase {
		c.leakPhase()
	}
	c.finish()
	return c.res
}

// finish releases every goroutine of the case.
func (c *Case) finish() {
	for _, sp := range c.streams {
		if sp.gate != nil {
			sp.gate.Open()
		}
		if sp.auth != nil {
			sp.auth.Open()
		}
		sp.call.Cancel()
	}
	for _, sp := range c.syncs {
		sp.call.Cancel()
	}
	for _, tp := range c.terms {
		tp.call.Cancel()
	}
	for _, kp := range c.gkills {
		kp.gate.Open()
		kp.call.Cancel()
	}
	if c.res.Hang == "" {
		c.Env.Settle(5 * time.Second)
	}
	c.res.Steps = c.steps
	c.res.Trace = c.trace
	c.res.HandOuts = c.M.HandOuts
	for _, sp := range c.streams {
		c.res.Events += len(sp.call.Stream.Messages())
	}
	// History hash: the step kinds plus the outcomes observed.
	var parts []string
	for _, s := range c.steps {
		parts = append(parts, s.K+":"+s.State+":"+s.Out)
	}
	for _, sp := range c.streams {
		for _, m := range sp.call.Stream.Messages() {
			parts = append(parts, m.Stage+fmt.Sprint(m.Done)+m.Code)
		}
	}
	c.res.HistoryHash = strings.Join(parts, "|")
}

// checkHook runs the structural invariant walk of the implementation and
// compares its object counts with the model.
func (c *Case) checkHook(final bool) {
	// All tracked calls are parked or have returned: nobody may hold the
	// scheduler's lock now (a leaked lock would also block the hook).
	free := false
	for i := 0; i < 200 && !free; i++ {
		if free = c.Env.BQ.VerifLockIsFree(); !free {
			time.Sleep(time.Millisecond)
		}
	}
	if !free {
		c.diverge("scheduler-lock-held-at-quiescence", []string{"C14", "C06"}, "every call is parked or has returned, but the scheduler's lock is still held")
		c.stop = true
		return
	}
	c.res.LockProbes++
	counts, problems := c.Env.BQ.VerifCheckInvariants()
	c.res.HookCalls++
	for _, p := range problems {
		owners := hookOwners(p)
		c.diverge("structural-invariant:"+hookRule(p), owners, "%s", p)
	}
	if c.stop {
		return
	}
	mc := c.M.Counts()
	type pair struct {
		name      string
		real, mod int
		owners    []string
	}
	pairs := []pair{
		{"platform-queues", counts.PlatformQueues, mc.PlatformQueues, []string{"C05", "C06"}},
		{"size-class-queues", counts.SizeClassQueues, mc.SizeClassQueues, []string{"C05", "C06"}},
		{"operations", counts.Operations, mc.Operations, []string{"C06"}},
		{"in-flight-tasks", counts.InFlightTasks, mc.InFlight, []string{"C03"}},
		{"live-tasks", counts.LiveTasks, mc.LiveTasks, []string{"C01", "C06"}},
		{"invocations", counts.NonRootInvocations, mc.NonRootInvocations, []string{"C06"}},
		{"workers", counts.Workers, mc.Workers, []string{"C06"}},
		{"parked-workers", counts.ParkedWorkers, mc.Parked, []string{"C04"}},
		{"executing-workers", counts.ExecutingWorkers, mc.Executing, []string{"C01"}},
		{"queued-operations", counts.QueuedOperations, mc.QueuedOps, []string{"C01"}},
		{"pending-cleanups", counts.PendingCleanups, mc.PendingCleanups, []string{"C06"}},
		{"drains", counts.Drains, mc.Drains, []string{"C05"}},
	}
	for _, p := range pairs {
		if p.real != p.mod {
			c.diverge("object-count-differs:"+p.name, p.owners, "implementation retains %d %s, the model %d", p.real, p.name, p.mod)
			return
		}
	}
}

func hookRule(p string) string {
	switch {
	case strings.Contains(p, "drained or terminating"):
		return "drained-worker-parked"
	case strings.Contains(p, "heap order"):
		return "heap-order"
	case strings.Contains(p, "deduplication"):
		return "in-flight-map"
	case strings.Contains(p, "cleanup"):
		return "cleanup"
	case strings.Contains(p, "empty invocation"):
		return "invocation-leak"
	case strings.Contains(p, "idleWorkersCount"):
		return "idle-workers-count"
	case strings.Contains(p, "executingWorkers"):
		return "executing-workers"
	case strings.Contains(p, "task"):
		return "task-holder"
	case strings.Contains(p, "worker"):
		return "worker-bookkeeping"
	case strings.Contains(p, "operation"):
		return "operation-bookkeeping"
	case strings.Contains(p, "queue"):
		return "queue-registry"
	}
	return "other"
}

func hookOwners(p string) []string {
	switch hookRule(p) {
	case "heap-order":
		return []string{"C04"}
	case "in-flight-map":
		return []string{"C03"}
	case "cleanup", "invocation-leak", "idle-workers-count":
		return []string{"C06"}
	case "queue-registry", "drained-worker-parked":
		return []string{"C05"}
	}
	return []string{"C01"}
}

// checkProtoLog compares the selector/learner calls with the model's
// prediction (C07, monitor 1).
func (c *Case) checkProtoLog(final bool) {
	got := c.Env.Proto.snapshot()
	// The order of calls on *different* chains (requests) carries no
	// meaning (e.g. the order in which a removed queue cancels its tasks is
	// unspecified): compare per chain.
	perChain := func(evs []ProtoEvent) map[int][]ProtoEvent {
		out := map[int][]ProtoEvent{}
		for _, e := range evs {
			out[e.Chain] = append(out[e.Chain], e)
		}
		return out
	}
	gm, em := perChain(got), perChain(c.M.ExpectedProto)
	chains := map[int]bool{}
	for k := range gm {
		chains[k] = true
	}
	for k := range em {
		chains[k] = true
	}
	ids := make([]int, 0, len(chains))
	for k := range chains {
		ids = append(ids, k)
	}
	sort.Ints(ids)
	for _, id := range ids {
		g, e := gm[id], em[id]
		n := len(g)
		if len(e) < n {
			n = len(e)
		}
		for i := 0; i < n; i++ {
			detailOK := g[i].Detail == e[i].Detail
			if g[i].Object != e[i].Object || g[i].Call != e[i].Call || !detailOK {
				c.diverge("selector-learner-call-differs", []string{"C07"}, "request %d, call %d on the size-class analyzer: got %s.%s(%s), expected %s.%s(%s)", id, i, g[i].Object, g[i].Call, g[i].Detail, e[i].Object, e[i].Call, e[i].Detail)
				return
			}
		}
		if len(g) > len(e) {
			c.diverge("selector-learner-extra-call", []string{"C07"}, "request %d: unexpected call %s.%s(%s) (expected %d calls: %v)", id, g[n].Object, g[n].Call, g[n].Detail, len(e), e)
			return
		} else if len(e) > len(g) {
			c.diverge("selector-learner-missing-call", []string{"C07"}, "request %d: missing call %s.%s(%s) (got %v)", id, e[n].Object, e[n].Call, e[n].Detail, g)
			return
		}
	}
	if c.stop {
		return
	}
	// Linearity, independent of the model: every object gets at most one
	// terminal call; at the end (final) exactly one.
	type key struct {
		chain  int
		object string
	}
	terminal := map[key]int{}
	created := map[key]bool{}
	for _, e := range got {
		k := key{e.Chain, e.Object}
		terminal[k]++
		created[k] = true
		if terminal[k] > 1 {
			c.diverge("selector-learner-called-twice", []string{"C07"}, "chain %d %s received a second terminal call (%s)", e.Chain, e.Object, e.Call)
			return
		}
	}
}

// crossCheckLists compares the BuildQueueState views with the model.
func (c *Case) crossCheckLists() {
	ctx := context.Background()
	resp, err := c.Env.BQ.ListOperations(ctx, &buildqueuestate.ListOperationsRequest{PageSize: 1000})
	if err != nil {
		c.diverge("list-operations-failed", []string{"C06"}, "%v", err)
		return
	}
	if !c.settle() {
		return
	}
	c.M.Enter()
	c.M.Propagate()
	c.compareAll()
	if c.stop {
		return
	}
	if len(resp.Operations) != len(c.M.Ops) {
		c.diverge("list-operations-count-differs", []string{"C06", "C03"}, "ListOperations shows %d operations, the model %d", len(resp.Operations), len(c.M.Ops))
		return
	}
	for _, o := range resp.Operations {
		mo, ok := c.M.Ops[o.Name]
		if !ok {
			c.diverge("list-operations-unknown-operation", []string{"C03"}, "operation %s is unknown to the model", o.Name)
			return
		}
		var stage string
		switch o.Stage.(type) {
		case *buildqueuestate.OperationState_Queued:
			stage = StQueued
		case *buildqueuestate.OperationState_Executing:
			stage = StExecuting
		case *buildqueuestate.OperationState_Completed:
			stage = StCompleted
		}
		if stage != mo.Task.Stage() {
			c.diverge("list-operations-stage-differs", []string{"C01"}, "operation %s is %s, the model says %s", o.Name, stage, mo.Task.Stage())
			return
		}
		if o.Priority != mo.Priority || o.ActionDigest.GetHash() != mo.Task.Hash {
			c.diverge("list-operations-fields-differ", []string{"C03"}, "operation %s priority/digest differ", o.Name)
			return
		}
		// The time at which an operation without waiters is removed.
		if cleanupActive(mo.cleanup) != (o.Timeout != nil) || (o.Timeout != nil && !o.Timeout.AsTime().Equal(mo.cleanup.at)) {
			c.diverge("operation-removal-deadline-differs", []string{"C06"}, "operation %s: removal scheduled at %v, the model says active=%v at %v (waiters %d)", o.Name, o.Timeout.AsTime(), cleanupActive(mo.cleanup), cleanupAt(mo.cleanup), mo.Waiters)
			return
		}
	}
	// Platform queues: names, size classes, worker counts, removal deadlines.
	pqr, err := c.Env.BQ.ListPlatformQueues(ctx, &emptypb.Empty{})
	if err != nil {
		c.diverge("list-platform-queues-failed", []string{"C05"}, "%v", err)
		return
	}
	if len(pqr.PlatformQueues) != len(c.M.PQs) {
		c.diverge("list-platform-queues-count-differs", []string{"C05", "C06"}, "%d platform queues listed, the model has %d", len(pqr.PlatformQueues), len(c.M.PQs))
		return
	}
	for _, pqs := range pqr.PlatformQueues {
		var props [][2]string
		for _, pr := range pqs.Name.GetPlatform().GetProperties() {
			props = append(props, [2]string{pr.Name, pr.Value})
		}
		mpq := c.M.findPQExact(pqs.Name.GetInstanceNamePrefix(), CanonPlatform(props))
		if mpq == nil {
			c.diverge("list-platform-queues-unknown-queue", []string{"C05"}, "platform queue %q %s is unknown to the model", pqs.Name.GetInstanceNamePrefix(), CanonPlatform(props))
			return
		}
		if len(pqs.SizeClassQueues) != len(mpq.SCQs) {
			c.diverge("list-platform-queues-size-classes-differ", []string{"C05", "C06"}, "platform queue %q %s lists %d size classes, the model %d", mpq.Prefix, mpq.Platform, len(pqs.SizeClassQueues), len(mpq.SCQs))
			return
		}
		for k, sq := range pqs.SizeClassQueues {
			ms := mpq.SCQs[k]
			if sq.SizeClass != ms.SizeClass || int(sq.WorkersCount) != len(ms.Workers) || int(sq.DrainsCount) != len(ms.Drains) {
				c.diverge("list-platform-queues-fields-differ", []string{"C05"}, "size class queue %q %s/%d: listed size class %d workers %d drains %d, model workers %d drains %d", mpq.Prefix, mpq.Platform, ms.SizeClass, sq.SizeClass, sq.WorkersCount, sq.DrainsCount, len(ms.Workers), len(ms.Drains))
				return
			}
			if cleanupActive(ms.cleanup) != (sq.Timeout != nil) || (sq.Timeout != nil && !sq.Timeout.AsTime().Equal(ms.cleanup.at)) {
				c.diverge("queue-removal-deadline-differs", []string{"C06"}, "size class queue %q %s/%d: removal scheduled at %v, the model says active=%v at %v", mpq.Prefix, mpq.Platform, ms.SizeClass, sq.Timeout.AsTime(), cleanupActive(ms.cleanup), cleanupAt(ms.cleanup))
				return
			}
		}
	}
	// Queue order views (C04): ListQueuedOperations and
	// ListInvocationChildren(QUEUED) for every invocation that has them.
	for _, q := range c.knownSCQ {
		scq := c.M.findSCQ(q.Prefix, CanonPlatform(q.Props), q.SizeClass)
		if scq == nil {
			continue
		}
		var walk func(i *MInv)
		walk = func(i *MInv) {
			if c.stop {
				return
			}
			name := &buildqueuestate.InvocationName{SizeClassQueueName: scqName(q)}
			for _, k := range i.Keys {
				if k == BackgroundKey {
					return
				}
				name.Ids = append(name.Ids, InvocationAny(k))
			}
			if len(i.QueuedOps) > 0 {
				r, err := c.Env.BQ.ListQueuedOperations(ctx, &buildqueuestate.ListQueuedOperationsRequest{InvocationName: name, PageSize: 1000})
				if err != nil {
					c.diverge("list-queued-operations-failed", []string{"C04"}, "%v", err)
					return
				}
				if len(r.QueuedOperations) != len(i.QueuedOps) {
					c.diverge("list-queued-operations-count-differs", []string{"C01"}, "invocation %q lists %d queued operations, the model %d", i.path(), len(r.QueuedOperations), len(i.QueuedOps))
					return
				}
				for k := 1; k < len(r.QueuedOperations); k++ {
					a, b := c.M.Ops[r.QueuedOperations[k-1].Name], c.M.Ops[r.QueuedOperations[k].Name]
					if a == nil || b == nil {
						c.diverge("list-queued-operations-unknown", []string{"C01"}, "unknown queued operation")
						return
					}
					if opLess(b, a) {
						c.diverge("list-queued-operations-order", []string{"C04"}, "invocation %q lists %s before %s, against (priority, expected duration, age)", i.path(), a.Name, b.Name)
						return
					}
				}
			}
			if qc := i.queuedChildren(); len(qc) > 0 {
				r, err := c.Env.BQ.ListInvocationChildren(ctx, &buildqueuestate.ListInvocationChildrenRequest{InvocationName: name, Filter: buildqueuestate.ListInvocationChildrenRequest_QUEUED})
				if err != nil {
					c.diverge("list-invocation-children-failed", []string{"C04"}, "%v", err)
					return
				}
				if len(r.Children) != len(qc) {
					c.diverge("list-invocation-children-count-differs", []string{"C04"}, "invocation %q lists %d queued children, the model %d", i.path(), len(r.Children), len(qc))
					return
				}
			}
			keys := make([]string, 0, len(i.Children))
			for k := range i.Children {
				keys = append(keys, k)
			}
			sort.Strings(keys)
			for _, k := range keys {
				walk(i.Children[k])
			}
		}
		walk(scq.Root)
		if c.stop {
			return
		}
		// Drains.
		dr, err := c.Env.BQ.ListDrains(ctx, &buildqueuestate.ListDrainsRequest{SizeClassQueueName: scqName(q)})
		if err != nil {
			c.diverge("list-drains-failed", []string{"C05"}, "%v", err)
			return
		}
		if len(dr.Drains) != len(scq.Drains) {
			c.diverge("list-drains-count-differs", []string{"C05"}, "queue %v lists %d drains, the model %d", q, len(dr.Drains), len(scq.Drains))
			return
		}
		for _, d := range dr.Drains {
			if _, ok := scq.Drains[workerKey(d.WorkerIdPattern)]; !ok {
				c.diverge("list-drains-unknown-drain", []string{"C05"}, "queue %v lists drain %v, unknown to the model", q, d.WorkerIdPattern)
				return
			}
		}
		// Workers.
		wr, err := c.Env.BQ.ListWorkers(ctx, &buildqueuestate.ListWorkersRequest{Filter: &buildqueuestate.ListWorkersRequest_Filter{Type: &buildqueuestate.ListWorkersRequest_Filter_All{All: scqName(q)}}, PageSize: 1000})
		if err != nil {
			c.diverge("list-workers-failed", []string{"C05"}, "%v", err)
			return
		}
		if len(wr.Workers) != len(scq.Workers) {
			c.diverge("list-workers-count-differs", []string{"C06"}, "queue %v lists %d workers, the model %d", q, len(wr.Workers), len(scq.Workers))
			return
		}
		for _, ws := range wr.Workers {
			mw := scq.Workers[workerKey(ws.Id)]
			if mw == nil {
				c.diverge("list-workers-unknown", []string{"C06"}, "worker %v unknown to the model", ws.Id)
				return
			}
			if cleanupActive(mw.cleanup) != (ws.Timeout != nil) || (ws.Timeout != nil && !ws.Timeout.AsTime().Equal(mw.cleanup.at)) {
				c.diverge("worker-removal-deadline-differs", []string{"C06"}, "worker %s: removal scheduled at %v, the model says active=%v at %v", mw.Key, ws.Timeout.AsTime(), cleanupActive(mw.cleanup), cleanupAt(mw.cleanup))
				return
			}
			if ws.Drained != mw.isDrained() {
				c.diverge("list-workers-drained-differs", []string{"C05"}, "worker %s drained=%v, the model says %v", mw.Key, ws.Drained, mw.isDrained())
				return
			}
			if (ws.CurrentOperation != nil) != (mw.Task != nil) {
				c.diverge("list-workers-task-differs", []string{"C01"}, "worker %s executing=%v, the model says %v", mw.Key, ws.CurrentOperation != nil, mw.Task != nil)
				return
			}
		}
	}
}

// leakPhase: everybody goes away; after all timeouts nothing may remain.
func (c *Case) leakPhase() {
	for _, kp := range c.gkills {
		if !kp.returned {
			c.openKillGate(kp)
			if c.stop {
				return
			}
			c.M.Propagate()
			c.compareAll()
			if c.stop {
				return
			}
		}
	}
	for _, sp := range c.streams {
		if sp.gate != nil {
			sp.gate.Open()
			sp.gate = nil
			if !c.settle() {
				return
			}
			c.M.StreamSendReleased(sp.m)
		}
		if sp.auth != nil {
			sp.auth.Open()
			sp.auth = nil
			if !c.settle() {
				return
			}
			c.M.WaitExecutionAuthorized(sp.m)
		}
		if sp.m.State != "returned" {
			sp.call.Cancel()
			sp.m.Cancelled = true
		}
	}
	for _, tp := range c.terms {
		if tp.m.State != "returned" {
			tp.call.Cancel()
			tp.m.Cancelled = true
		}
	}
	idx := make([]int, 0, len(c.syncs))
	for w := range c.syncs {
		idx = append(idx, w)
	}
	sort.Ints(idx)
	for _, w := range idx {
		sp := c.syncs[w]
		if sp.m.State != "returned" {
			sp.call.Cancel()
			if !c.settle() {
				return
			}
			c.M.SyncCancelled(sp.m)
		}
	}
	if !c.settle() {
		return
	}
	c.M.Propagate()
	c.compareAll()
	if c.stop {
		return
	}
	for round := 0; round < 6 && !c.stop; round++ {
		c.advanceTo(c.Env.Clock.Now().Add(c.W.Cfg.PQTimeout + c.W.Cfg.WorkerTimeout + time.Second))
		if c.stop {
			return
		}
		c.poke()
	}
	if c.stop {
		return
	}
	c.sit("leak-check:executed")
	counts, problems := c.Env.BQ.VerifCheckInvariants()
	c.res.HookCalls++
	for _, p := range problems {
		c.diverge("structural-invariant:"+hookRule(p), hookOwners(p), "%s (after everything timed out)", p)
	}
	if c.stop {
		return
	}
	predeclared := 0
	maxBacklog := 0
	for _, pq := range c.W.PQs {
		predeclared += len(pq.SizeClasses)
		maxBacklog += pq.MaxBG * len(pq.SizeClasses)
	}
	// The only thing that may remain is the bounded backlog of background
	// learning tasks queued in predeclared queues (nobody is left to run them).
	backlog := 0
	backlogInvs := map[*MInv]bool{}
	for _, t := range c.M.Tasks {
		if t.Background && !t.Completed && len(t.Ops) > 0 {
			backlog++
			for i := range t.Ops {
				backlogInvs[i] = true
			}
		}
	}
	if backlog > 0 {
		c.sit("leak-check:background-backlog-remains")
	}
	if backlog > maxBacklog {
		c.diverge("background-backlog-exceeds-limit", []string{"C06", "C07"}, "%d background learning tasks remain queued, the configured maximum is %d", backlog, maxBacklog)
		return
	}
	residue := []struct {
		name string
		n    int
	}{
		{"operations", counts.Operations - backlog}, {"in-flight tasks", counts.InFlightTasks}, {"live tasks", counts.LiveTasks - backlog},
		{"invocations", counts.NonRootInvocations - len(backlogInvs)}, {"workers", counts.Workers}, {"removable size class queues", counts.RemovableSizeClassQueues},
		{"pending clean-ups", counts.PendingCleanups}, {"queued operations", counts.QueuedOperations - backlog},
	}
	for _, r := range residue {
		if r.n != 0 {
			c.diverge("residue-after-all-timeouts:"+strings.ReplaceAll(r.name, " ", "-"), []string{"C06"}, "%d %s remain after all clients and workers are gone and all timeouts have passed (counts %+v)", r.n, r.name, counts)
			return
		}
	}
	if counts.SizeClassQueues != predeclared || counts.PlatformQueues != len(c.W.PQs) {
		c.diverge("residue-after-all-timeouts:queues", []string{"C06"}, "%d platform queues / %d size class queues remain, %d / %d are predeclared", counts.PlatformQueues, counts.SizeClassQueues, len(c.W.PQs), predeclared)
	}
	c.checkProtoLog(true)
	if c.stop {
		return
	}
	// After the leak phase every selector and learner must have received
	// exactly one terminal call.
	got := c.Env.Proto.snapshot()
	type key struct {
		chain  int
		object string
	}
	term := map[key]bool{}
	for _, e := range got {
		term[key{e.Chain, e.Object}] = true
	}
	for _, e := range got {
		// A Select yields learner1; Failed with retry yields learner2;
		// Succeeded with background yields learnerBG: all predicted by the
		// model, whose log matched. Here: every yielded learner terminated.
		if e.Object == "selector" && e.Call == "Select" && !term[key{e.Chain, "learner1"}] {
			c.diverge("learner-never-terminated", []string{"C07"}, "chain %d: the learner returned by Select never received Succeeded, Failed or Abandoned", e.Chain)
			return
		}
	}
}

// ---------------------------------------------------------------------------
// dynPrefix is the instance name prefix of the worker-created queue that
// AddDynamicQueueScenario adds to a world.
const dynPrefix = "dyn"

// AddDynamicQueueScenario extends a world with one worker that creates its
// own queue (a platform no predeclared queue has) and two cacheable actions
// that target it, for scenario 5.
func AddDynamicQueueScenario(w *World) {
	props := [][2]string{{"os", "verif-dyn"}}
	w.Workers = append(w.Workers, WorkerDef{ID: map[string]string{"host": "hdyn", "thread": "0"}, Prefix: dynPrefix, Props: props})
	for i := 0; i < 2; i++ {
		w.Actions = append(w.Actions, ActionDef{
			Tag: fmt.Sprintf("dyn%d", i), Instance: dynPrefix, Props: props, InCAS: true,
			Script: SelScript{ExpDur: 10 * time.Second, Timeout: 60 * time.Second, RetryExpDur: 20 * time.Second, RetryTO: 90 * time.Second, BGExpDur: 5 * time.Second, BGTimeout: 45 * time.Second},
		})
	}
}

// Scenario preludes: multi-step sequences that random generation reaches too
// rarely. A prelude is a fixed list of steps computed from the world; the
// reference model judges it like any other step, and random steps follow.

// Scenario selects the prelude of a case (0 = none).
func (c *Case) scenarioPrelude() []Step {
	if c.Scenario == 0 {
		return nil
	}
	if c.Scenario == 5 {
		// A worker-created queue loses its only worker while it still
		// holds queued tasks with attached clients; after the queue's
		// own timeout it is removed and must fail what it holds.
		wi, a1, a2 := -1, -1, -1
		for i, wd := range c.W.Workers {
			if wd.Prefix == dynPrefix {
				wi = i
			}
		}
		for i, a := range c.W.Actions {
			if a.Instance == dynPrefix {
				if a1 < 0 {
					a1 = i
				} else if a2 < 0 {
					a2 = i
				}
			}
		}
		if wi < 0 || a2 < 0 {
			return nil
		}
		c.sit("scenario:worker-created-queue-removed-with-queued-tasks")
		ms := time.Millisecond
		return []Step{
			{K: "sync", W: wi, State: "idle", Pre: 2 * ms},
			{K: "exec", A: a1, Path: "x", Pre: 2 * ms},
			{K: "exec", A: a2, Path: "y", Pre: 2 * ms},
			{K: "exec", A: a2, Path: "x/p", Pre: 2 * ms},
			{K: "adv", D: c.W.Cfg.WorkerTimeout + time.Second},
			{K: "adv", D: c.W.Cfg.PQTimeout + time.Second},
		}
	}
	// Find a predeclared queue with at least two size classes, a worker
	// on its smallest and one on its largest class, and an action that
	// starts on the smallest class and is retried on failure.
	for _, pq := range c.W.PQs {
		if len(pq.SizeClasses) < 2 {
			continue
		}
		small, large := -1, -1
		for wi, wd := range c.W.Workers {
			if wd.Prefix != pq.Prefix || CanonPlatform(wd.Props) != CanonPlatform(pq.Props) {
				continue
			}
			if wd.SizeClass == pq.SizeClasses[0] && small < 0 {
				small = wi
			}
			if wd.SizeClass == pq.SizeClasses[len(pq.SizeClasses)-1] && large < 0 {
				large = wi
			}
		}
		act := -1
		for ai, a := range c.W.Actions {
			if a.InCAS && !a.DoNotCache && a.Instance == pq.Prefix && CanonPlatform(a.Props) == CanonPlatform(pq.Props) && a.Script.Index == 0 && a.Script.RetryOnFail {
				act = ai
			}
		}
		if small < 0 || large < 0 || act < 0 {
			continue
		}
		a := c.W.Actions[act]
		ms := time.Millisecond
		idle := func(w int) Step { return Step{K: "sync", W: w, State: "idle", Pre: 2 * ms} }
		done := func(w int, out string) Step {
			return Step{K: "sync", W: w, State: "completed", Hash: a.Hash, Size: a.Size, Out: out, Pre: 2 * ms}
		}
		exec := func(path string) Step { return Step{K: "exec", A: act, Path: path, Pre: 2 * ms} }
		switch c.Scenario {
		case 1:
			// Retry budget is per assignment: the first worker uses
			// its whole budget of redundant requests, fails, and the
			// worker on the largest size class asks redundantly once.
			c.sit("scenario:retry-budget-after-size-class-fall-back")
			st := []Step{idle(small), exec("x")}
			for k := 0; k < c.W.Cfg.RetryCount; k++ {
				st = append(st, idle(small))
			}
			return append(st, done(small, "exit1"), idle(large), idle(large), done(large, "ok"))
		case 2:
			// A duplicate arrives while the task waits for its retry
			// on the largest size class.
			c.sit("scenario:duplicate-during-retry-on-largest")
			return []Step{idle(small), exec("x"), done(small, "deadline"), exec("y"), exec("x"), idle(large), exec("y/p"), done(large, "ok"), idle(large)}
		case 4:
			// Background learning backlog: successes that each ask
			// for a background run while nobody serves the
			// background size class (or the worker prefers idling).
			if !a.Script.Background || pq.MaxBG == 0 {
				return nil
			}
			c.sit("scenario:background-learning-backlog-limit")
			pi := func(w int) Step {
				st := done(w, "ok")
				st.PI = true
				return st
			}
			st := []Step{idle(small), exec("x"), pi(small)}
			for k := 0; k <= pq.MaxBG; k++ {
				st = append(st, exec(fmt.Sprintf("y%d", k)), idle(small), pi(small))
			}
			return st
		case 3:
			// Foreground task, background learning task for the same
			// digest, a second foreground task, completion of the
			// background task, a third request.
			if !a.Script.Background || pq.MaxBG == 0 {
				return nil
			}
			c.sit("scenario:background-task-completes-while-foreground-task-is-live")
			bgw := small
			if ResolveIndex(a.Script.BGIndex, len(pq.SizeClasses)) == len(pq.SizeClasses)-1 {
				bgw = large
			}
			return []Step{idle(small), exec("x"), done(small, "ok"), exec("y"), idle(bgw), exec("x"), done(bgw, "ok"), exec("y/p"), idle(small), idle(large)}
		}
	}
	return nil
}

func cleanupAt(c *mCleanup) time.Time {
	if c == nil {
		return time.Time{}
	}
	return c.at
}
