// Package wexec holds hand-written fakes shared by the worker-side
// harnesses (C11, C12): an in-memory Content Addressable Storage, directory
// and file fetchers on top of it, a scriptable runner client and helpers to
// build a naive build directory in a temporary directory, as
// cmd/bb_worker/main.go wires them.
package wexec

import (
	"context"
	"os"
	"sync"

	remoteexecution "github.com/bazelbuild/remote-apis/build/bazel/remote/execution/v2"
	"github.com/buildbarn/bb-remote-execution/pkg/builder"
	runner_pb "github.com/buildbarn/bb-remote-execution/pkg/proto/runner"
	"github.com/buildbarn/bb-storage/pkg/blobstore/buffer"
	"github.com/buildbarn/bb-storage/pkg/blobstore/slicing"
	"github.com/buildbarn/bb-storage/pkg/digest"
	"github.com/buildbarn/bb-storage/pkg/filesystem"
	"github.com/buildbarn/bb-storage/pkg/filesystem/path"

	"golang.org/x/sync/semaphore"
	"google.golang.org/grpc"
	"google.golang.org/grpc/codes"
	"google.golang.org/grpc/status"
	"google.golang.org/protobuf/proto"
	"google.golang.org/protobuf/types/known/emptypb"
)

// DigestFunction used by all worker-side harnesses.
var DigestFunction = digest.MustNewFunction("prefix/suffix", remoteexecution.DigestFunction_SHA256)

// CAS is a thread-safe in-memory blobstore.BlobAccess.
type CAS struct {
	mu    sync.Mutex
	blobs map[string][]byte
	// Hook, if set, is called at the start of every call; a non-nil
	// result makes the call fail with it.
	Hook func(op string, d digest.Digest) error
}

// NewCAS creates an empty CAS.
func NewCAS() *CAS { return &CAS{blobs: map[string][]byte{}} }

// DigestOf computes the digest of data.
func DigestOf(data []byte) digest.Digest {
	g := DigestFunction.NewGenerator(int64(len(data)))
	g.Write(data)
	return g.Sum()
}

// PutBytes stores data and returns its digest.
func (c *CAS) PutBytes(data []byte) digest.Digest {
	d := DigestOf(data)
	c.mu.Lock()
	c.blobs[d.GetKey(digest.KeyWithoutInstance)] = append([]byte(nil), data...)
	c.mu.Unlock()
	return d
}

// PutProto stores a marshalled message and returns its digest.
func (c *CAS) PutProto(m proto.Message) digest.Digest {
	b, err := proto.MarshalOptions{Deterministic: true}.Marshal(m)
	if err != nil {
		panic(err)
	}
	return c.PutBytes(b)
}

// Has tells whether a blob is stored.
func (c *CAS) Has(d digest.Digest) bool {
	c.mu.Lock()
	defer c.mu.Unlock()
	_, ok := c.blobs[d.GetKey(digest.KeyWithoutInstance)]
	return ok
}

func (c *CAS) hook(op string, d digest.Digest) error {
	if c.Hook != nil {
		return c.Hook(op, d)
	}
	return nil
}

// Get implements blobstore.BlobAccess.
func (c *CAS) Get(ctx context.Context, d digest.Digest) buffer.Buffer {
	if err := c.hook("Get", d); err != nil {
		return buffer.NewBufferFromError(err)
	}
	c.mu.Lock()
	data, ok := c.blobs[d.GetKey(digest.KeyWithoutInstance)]
	c.mu.Unlock()
	if !ok {
		return buffer.NewBufferFromError(status.Errorf(codes.NotFound, "Blob %s not found", d))
	}
	return buffer.NewCASBufferFromByteSlice(d, data, buffer.UserProvided)
}

// GetFromComposite implements blobstore.BlobAccess.
func (c *CAS) GetFromComposite(ctx context.Context, parentDigest, childDigest digest.Digest, slicer slicing.BlobSlicer) buffer.Buffer {
	return buffer.NewBufferFromError(status.Error(codes.Unimplemented, "GetFromComposite"))
}

// Put implements blobstore.BlobAccess.
func (c *CAS) Put(ctx context.Context, d digest.Digest, b buffer.Buffer) error {
	if err := c.hook("Put", d); err != nil {
		b.Discard()
		return err
	}
	data, err := b.ToByteSlice(1 << 24)
	if err != nil {
		return err
	}
	c.mu.Lock()
	c.blobs[d.GetKey(digest.KeyWithoutInstance)] = data
	c.mu.Unlock()
	return nil
}

// FindMissing implements blobstore.BlobAccess.
func (c *CAS) FindMissing(ctx context.Context, digests digest.Set) (digest.Set, error) {
	if err := c.hook("FindMissing", digest.BadDigest); err != nil {
		return digest.EmptySet, err
	}
	b := digest.NewSetBuilder(digests.Length())
	for _, d := range digests.Items() {
		if !c.Has(d) {
			b.Add(d)
		}
	}
	return b.Build(), nil
}

// GetCapabilities implements blobstore.BlobAccess.
func (c *CAS) GetCapabilities(ctx context.Context, instanceName digest.InstanceName) (*remoteexecution.ServerCapabilities, error) {
	if err := c.hook("GetCapabilities", digest.BadDigest); err != nil {
		return nil, err
	}
	return &remoteexecution.ServerCapabilities{}, nil
}

// DirectoryFetcher is a cas.DirectoryFetcher on top of CAS.
type DirectoryFetcher struct{ CAS *CAS }

// GetDirectory implements cas.DirectoryFetcher.
func (f DirectoryFetcher) GetDirectory(ctx context.Context, d digest.Digest) (*remoteexecution.Directory, error) {
	m, err := f.CAS.Get(ctx, d).ToProto(&remoteexecution.Directory{}, 1<<20)
	if err != nil {
		return nil, err
	}
	return m.(*remoteexecution.Directory), nil
}

// GetTreeRootDirectory implements cas.DirectoryFetcher.
func (f DirectoryFetcher) GetTreeRootDirectory(ctx context.Context, d digest.Digest) (*remoteexecution.Directory, error) {
	return nil, status.Error(codes.Unimplemented, "GetTreeRootDirectory")
}

// GetTreeChildDirectory implements cas.DirectoryFetcher.
func (f DirectoryFetcher) GetTreeChildDirectory(ctx context.Context, treeDigest, childDigest digest.Digest) (*remoteexecution.Directory, error) {
	return nil, status.Error(codes.Unimplemented, "GetTreeChildDirectory")
}

// FileFetcher is a cas.FileFetcher that copies blobs out of CAS.
type FileFetcher struct{ CAS *CAS }

// GetFile implements cas.FileFetcher.
func (f FileFetcher) GetFile(ctx context.Context, d digest.Digest, directory filesystem.Directory, name path.Component, isExecutable bool) error {
	data, err := f.CAS.Get(ctx, d).ToByteSlice(1 << 24)
	if err != nil {
		return err
	}
	mode := os.FileMode(0o444)
	if isExecutable {
		mode = 0o555
	}
	w, err := directory.OpenWrite(name, filesystem.CreateExcl(mode))
	if err != nil {
		return err
	}
	defer w.Close()
	_, err = w.WriteAt(data, 0)
	return err
}

// NewNaiveRoot opens dir (which must exist) as a naive build directory. The
// returned closer releases the directory handle.
func NewNaiveRoot(dir string, c *CAS) (builder.BuildDirectory, filesystem.DirectoryCloser, error) {
	d, err := filesystem.NewLocalDirectory(path.LocalFormat.NewParser(dir))
	if err != nil {
		return nil, nil, err
	}
	return builder.NewNaiveBuildDirectory(d, DirectoryFetcher{c}, FileFetcher{c}, semaphore.NewWeighted(4), c), d, nil
}

// Runner is a scriptable runner_pb.RunnerClient.
type Runner struct {
	RunFunc   func(ctx context.Context, request *runner_pb.RunRequest) (*runner_pb.RunResponse, error)
	ReadyFunc func(ctx context.Context, request *runner_pb.CheckReadinessRequest) error
}

// CheckReadiness implements runner_pb.RunnerClient.
func (r *Runner) CheckReadiness(ctx context.Context, in *runner_pb.CheckReadinessRequest, opts ...grpc.CallOption) (*emptypb.Empty, error) {
	if r.ReadyFunc != nil {
		if err := r.ReadyFunc(ctx, in); err != nil {
			return nil, err
		}
	}
	return &emptypb.Empty{}, nil
}

// Run implements runner_pb.RunnerClient.
func (r *Runner) Run(ctx context.Context, in *runner_pb.RunRequest, opts ...grpc.CallOption) (*runner_pb.RunResponse, error) {
	return r.RunFunc(ctx, in)
}

// ContextError converts a context error the way a gRPC client call does.
func ContextError(ctx context.Context) error {
	return status.FromContextError(ctx.Err()).Err()
}
