package outkit

import (
	"context"
	"fmt"
	"net/url"
	"os"
	"sync"
	"sync/atomic"
	"time"

	remoteexecution "github.com/bazelbuild/remote-apis/build/bazel/remote/execution/v2"
	re_blobstore "github.com/buildbarn/bb-remote-execution/pkg/blobstore"
	"github.com/buildbarn/bb-remote-execution/pkg/builder"
	"github.com/buildbarn/bb-remote-execution/pkg/cleaner"
	"github.com/buildbarn/bb-remote-execution/pkg/filesystem/access"
	"github.com/buildbarn/bb-remote-execution/pkg/filesystem/pool"
	"github.com/buildbarn/bb-remote-execution/pkg/proto/remoteworker"
	runner_pb "github.com/buildbarn/bb-remote-execution/pkg/proto/runner"
	"github.com/buildbarn/bb-storage/pkg/blobstore"
	"github.com/buildbarn/bb-storage/pkg/blobstore/buffer"
	"github.com/buildbarn/bb-storage/pkg/clock"
	"github.com/buildbarn/bb-storage/pkg/digest"
	"github.com/buildbarn/bb-storage/pkg/filesystem"
	"github.com/buildbarn/bb-storage/pkg/filesystem/path"

	"golang.org/x/sync/semaphore"
	"google.golang.org/grpc"
	"google.golang.org/grpc/codes"
	"google.golang.org/grpc/status"
	"google.golang.org/protobuf/proto"
	"google.golang.org/protobuf/types/known/emptypb"
)

// --- runner -------------------------------------------------------------------

// Runner is a runner_pb.RunnerClient whose Run is a harness callback.
type Runner struct {
	OnRun func(ctx context.Context, req *runner_pb.RunRequest) (*runner_pb.RunResponse, error)
	Calls atomic.Int64
}

var _ runner_pb.RunnerClient = (*Runner)(nil)

// CheckReadiness implements RunnerClient.
func (r *Runner) CheckReadiness(ctx context.Context, in *runner_pb.CheckReadinessRequest, opts ...grpc.CallOption) (*emptypb.Empty, error) {
	return &emptypb.Empty{}, nil
}

// Run implements RunnerClient.
func (r *Runner) Run(ctx context.Context, in *runner_pb.RunRequest, opts ...grpc.CallOption) (*runner_pb.RunResponse, error) {
	r.Calls.Add(1)
	return r.OnRun(ctx, in)
}

// --- fetchers -----------------------------------------------------------------

// DirectoryFetcher serves Directory messages of input roots from a map.
type DirectoryFetcher struct {
	mu   sync.Mutex
	dirs map[string]*remoteexecution.Directory
}

// NewDirectoryFetcher creates an empty fetcher.
func NewDirectoryFetcher() *DirectoryFetcher {
	return &DirectoryFetcher{dirs: map[string]*remoteexecution.Directory{}}
}

// Add registers a directory and returns its digest message.
func (f *DirectoryFetcher) Add(df digest.Function, d *remoteexecution.Directory) *remoteexecution.Digest {
	raw, err := proto.MarshalOptions{Deterministic: true}.Marshal(d)
	if err != nil {
		panic(err)
	}
	dg := ProtoDigest(df.GetEnumValue(), raw)
	f.mu.Lock()
	f.dirs[digestKey(dg)] = d
	f.mu.Unlock()
	return dg
}

// GetDirectory implements cas.DirectoryFetcher.
func (f *DirectoryFetcher) GetDirectory(ctx context.Context, d digest.Digest) (*remoteexecution.Directory, error) {
	f.mu.Lock()
	defer f.mu.Unlock()
	if m, ok := f.dirs[digestKey(d.GetProto())]; ok {
		return m, nil
	}
	return nil, status.Errorf(codes.NotFound, "verif: input directory %s not found", d)
}

// GetTreeRootDirectory implements cas.DirectoryFetcher.
func (f *DirectoryFetcher) GetTreeRootDirectory(ctx context.Context, d digest.Digest) (*remoteexecution.Directory, error) {
	return nil, status.Error(codes.Unimplemented, "verif: GetTreeRootDirectory")
}

// GetTreeChildDirectory implements cas.DirectoryFetcher.
func (f *DirectoryFetcher) GetTreeChildDirectory(ctx context.Context, t, c digest.Digest) (*remoteexecution.Directory, error) {
	return nil, status.Error(codes.Unimplemented, "verif: GetTreeChildDirectory")
}

// AddInputRoot registers the Directory messages describing dir node n
// (files are preloaded into cas) and returns the root digest message.
func (f *DirectoryFetcher) AddInputRoot(df digest.Function, n *Node, cas *Store) *remoteexecution.Digest {
	d := &remoteexecution.Directory{}
	for _, name := range n.Names() {
		c := n.Children[name]
		switch c.Kind {
		case KindFile:
			dg := ProtoDigest(df.GetEnumValue(), c.Data)
			cas.Preload(MustDigest(df, dg), c.Data)
			d.Files = append(d.Files, &remoteexecution.FileNode{Name: name, Digest: dg, IsExecutable: c.Exec})
		case KindDir:
			d.Directories = append(d.Directories, &remoteexecution.DirectoryNode{Name: name, Digest: f.AddInputRoot(df, c, cas)})
		case KindSymlink:
			d.Symlinks = append(d.Symlinks, &remoteexecution.SymlinkNode{Name: name, Target: c.Target})
		}
	}
	return f.Add(df, d)
}

// FileFetcher copies blobs from a store into the build directory.
type FileFetcher struct{ CAS *Store }

// GetFile implements cas.FileFetcher.
func (f FileFetcher) GetFile(ctx context.Context, d digest.Digest, directory filesystem.Directory, name path.Component, isExecutable bool) error {
	data, ok := f.CAS.Bytes(d)
	if !ok {
		return status.Errorf(codes.NotFound, "verif: input file %s not found", d)
	}
	mode := os.FileMode(0o444)
	if isExecutable {
		mode = 0o555
	}
	w, err := directory.OpenWrite(name, filesystem.CreateExcl(mode))
	if err != nil {
		return err
	}
	if _, err := w.WriteAt(data, 0); err != nil {
		w.Close()
		return err
	}
	return w.Close()
}

// --- file handle accounting ------------------------------------------------------

// HandleStats counts file readers opened through a CountingDirectory.
type HandleStats struct {
	mu          sync.Mutex
	opened      int
	closes      map[int]int
	names       map[int]string
	DirsEntered atomic.Int64
	DirsClosed  atomic.Int64
}

// NewHandleStats creates an empty counter set.
func NewHandleStats() *HandleStats {
	return &HandleStats{closes: map[int]int{}, names: map[int]string{}}
}

// Opened returns the number of files opened for reading.
func (h *HandleStats) Opened() int {
	h.mu.Lock()
	defer h.mu.Unlock()
	return h.opened
}

// Problems lists files that were not closed exactly once.
func (h *HandleStats) Problems() (never, twice []string) {
	h.mu.Lock()
	defer h.mu.Unlock()
	for id := 0; id < h.opened; id++ {
		switch c := h.closes[id]; {
		case c == 0:
			never = append(never, h.names[id])
		case c > 1:
			twice = append(twice, h.names[id])
		}
	}
	return
}

type countingReader struct {
	filesystem.FileReader
	h  *HandleStats
	id int
}

func (r *countingReader) Close() error {
	r.h.mu.Lock()
	r.h.closes[r.id]++
	n := r.h.closes[r.id]
	r.h.mu.Unlock()
	if n > 1 {
		// Do not close the descriptor a second time: it may have
		// been reused.
		return nil
	}
	return r.FileReader.Close()
}

// CountingDirectory wraps a DirectoryCloser so that every file opened for
// reading below it is accounted for.
type CountingDirectory struct {
	filesystem.DirectoryCloser
	h *HandleStats
	// plan, if set, makes OpenRead and the reads of opened files numbered
	// fault positions.
	plan *Plan
}

// WithFaults makes file opens and reads below d positions of plan.
func (d *CountingDirectory) WithFaults(plan *Plan) *CountingDirectory {
	d.plan = plan
	return d
}

// NewCountingDirectory wraps d.
func NewCountingDirectory(d filesystem.DirectoryCloser, h *HandleStats) *CountingDirectory {
	return &CountingDirectory{DirectoryCloser: d, h: h}
}

// EnterDirectory wraps the child as well.
func (d *CountingDirectory) EnterDirectory(name path.Component) (filesystem.DirectoryCloser, error) {
	c, err := d.DirectoryCloser.EnterDirectory(name)
	if err != nil {
		return nil, err
	}
	d.h.DirsEntered.Add(1)
	return &countingChild{CountingDirectory{DirectoryCloser: c, h: d.h, plan: d.plan}}, nil
}

// OpenRead counts the reader.
func (d *CountingDirectory) OpenRead(name path.Component) (filesystem.FileReader, error) {
	if d.plan != nil {
		if err := d.plan.Op("file", "OpenRead", name.String()); err != nil {
			return nil, err
		}
	}
	r, err := d.DirectoryCloser.OpenRead(name)
	if err != nil {
		return nil, err
	}
	if d.plan != nil {
		r = &faultyReader{FileReader: r, plan: d.plan, name: name.String()}
	}
	d.h.mu.Lock()
	id := d.h.opened
	d.h.opened++
	d.h.names[id] = name.String()
	d.h.mu.Unlock()
	return &countingReader{FileReader: r, h: d.h, id: id}, nil
}

type countingChild struct{ CountingDirectory }

func (d *countingChild) Close() error {
	d.h.DirsClosed.Add(1)
	return d.DirectoryCloser.Close()
}

// --- taps -----------------------------------------------------------------------

// ResponseTap is a transparent BuildExecutor decorator that records the
// response exactly as it is handed to the next decorator.
type ResponseTap struct {
	builder.BuildExecutor
	mu   sync.Mutex
	seen []*remoteexecution.ExecuteResponse
}

// Execute implements BuildExecutor.
func (t *ResponseTap) Execute(ctx context.Context, filePool pool.FilePool, monitor access.UnreadDirectoryMonitor, digestFunction digest.Function, request *remoteworker.DesiredState_Executing, updates chan<- *remoteworker.CurrentState_Executing) *remoteexecution.ExecuteResponse {
	resp := t.BuildExecutor.Execute(ctx, filePool, monitor, digestFunction, request, updates)
	t.mu.Lock()
	t.seen = append(t.seen, proto.Clone(resp).(*remoteexecution.ExecuteResponse))
	t.mu.Unlock()
	return resp
}

// Last returns the most recent response seen (a clone), or nil.
func (t *ResponseTap) Last() *remoteexecution.ExecuteResponse {
	t.mu.Lock()
	defer t.mu.Unlock()
	if len(t.seen) == 0 {
		return nil
	}
	return t.seen[len(t.seen)-1]
}

// AckRecord is one Put as seen by the caller of the batching layer.
type AckRecord struct {
	Digest digest.Digest
	Err    error
}

// WriterTap sits in front of the batching BlobAccess and records which
// Puts were acknowledged.
type WriterTap struct {
	blobstore.BlobAccess
	mu   sync.Mutex
	acks []AckRecord
}

// Put records the outcome.
func (w *WriterTap) Put(ctx context.Context, d digest.Digest, b buffer.Buffer) error {
	err := w.BlobAccess.Put(ctx, d, b)
	w.mu.Lock()
	w.acks = append(w.acks, AckRecord{Digest: d, Err: err})
	w.mu.Unlock()
	return err
}

// Acks returns the records so far.
func (w *WriterTap) Acks() []AckRecord {
	w.mu.Lock()
	defer w.mu.Unlock()
	return append([]AckRecord(nil), w.acks...)
}

// FlushRecord is one invocation of the flusher.
type FlushRecord struct {
	Err         error
	CallsBefore int // counted storage calls before the flush started
	CallsAfter  int
	AcksBefore  int // number of acks recorded before the flush started
}

// --- the composed stack ------------------------------------------------------------

// StackConfig parameterises NewStack.
type StackConfig struct {
	BuildRoot      string // absolute path of an existing, empty directory
	Plan           *Plan
	CAS, AC        *Store
	BatchSize      int
	PutConcurrency int64
	Runner         runner_pb.RunnerClient
	Clock          clock.Clock
	Fetcher        *DirectoryFetcher
	ForceTrees     bool
	WorkerName     string
	// Virtual selects the virtual build directory branch of main.go
	// (InMemoryPrepopulatedDirectory) instead of the native one.
	Virtual bool
	// DirectoryFaults makes every build directory operation of the
	// worker code (and, for the native branch, file opens and reads) a
	// numbered position of Plan.
	DirectoryFaults bool
}

// Stack is the executor pipeline of cmd/bb_worker/main.go over a naive
// build directory, with harness-owned observation points.
type Stack struct {
	Executor builder.BuildExecutor
	Tap      *ResponseTap
	Writer   *WriterTap
	Handles  *HandleStats
	Virtual  *VirtualRoot // nil for the native branch
	DirStats *FaultyDirStats
	root     filesystem.DirectoryCloser

	mu      sync.Mutex
	flushes []FlushRecord
}

// Flushes returns the flush records.
func (s *Stack) Flushes() []FlushRecord {
	s.mu.Lock()
	defer s.mu.Unlock()
	return append([]FlushRecord(nil), s.flushes...)
}

// Close releases the build root handle.
func (s *Stack) Close() {
	if s.root != nil {
		s.root.Close()
	}
}

// FilePool returns the file pool to pass to Execute (nil for the native
// branch, which ignores it).
func (s *Stack) FilePool() pool.FilePool {
	if s.Virtual != nil {
		return s.Virtual.FilePool
	}
	return nil
}

// NewStack composes
//
//	Caching(tap(Timestamped(StorageFlushing(Local(Shared(Clean(Root(naive))))))))
//
// as cmd/bb_worker/main.go does for a native build directory: the local
// executor and the naive directory write through NewBatchedStoreBlobAccess,
// the caching executor writes to the global CAS and the AC directly.
func NewStack(cfg StackConfig) (*Stack, error) {
	s := &Stack{Handles: NewHandleStats()}

	batched, realFlush := re_blobstore.NewBatchedStoreBlobAccess(cfg.CAS, digest.KeyWithoutInstance, cfg.BatchSize, semaphore.NewWeighted(cfg.PutConcurrency))
	s.Writer = &WriterTap{BlobAccess: batched}
	flush := func(ctx context.Context) error {
		rec := FlushRecord{CallsBefore: cfg.Plan.Count(), AcksBefore: len(s.Writer.Acks())}
		cfg.Plan.SetPhase("final-flush")
		rec.Err = realFlush(ctx)
		cfg.Plan.SetPhase("after-flush")
		rec.CallsAfter = cfg.Plan.Count()
		s.mu.Lock()
		s.flushes = append(s.flushes, rec)
		s.mu.Unlock()
		return rec.Err
	}

	var buildDirectory builder.BuildDirectory
	var buildDirectoryCleaner cleaner.Cleaner
	if cfg.Virtual {
		s.Virtual = NewVirtualRoot(cfg.Fetcher, s.Writer, cfg.Clock, false)
		buildDirectory = s.Virtual.BuildDirectory
		root := s.Virtual.Root
		buildDirectoryCleaner = func(ctx context.Context) error { return root.RemoveAllChildren(false) }
	} else {
		local, err := filesystem.NewLocalDirectory(path.LocalFormat.NewParser(cfg.BuildRoot))
		if err != nil {
			return nil, fmt.Errorf("open build root: %w", err)
		}
		s.root = local
		counting := NewCountingDirectory(local, s.Handles)
		if cfg.DirectoryFaults {
			counting.WithFaults(cfg.Plan)
		}
		buildDirectory = builder.NewNaiveBuildDirectory(counting, cfg.Fetcher, FileFetcher{CAS: cfg.CAS}, semaphore.NewWeighted(1), s.Writer)
		buildDirectoryCleaner = cleaner.NewDirectoryCleaner(local, cfg.BuildRoot)
	}
	if cfg.DirectoryFaults {
		s.DirStats = &FaultyDirStats{}
		buildDirectory = NewFaultyBuildDirectory(buildDirectory, cfg.Plan, s.DirStats)
	}
	var nextParallelActionID atomic.Uint64
	creator := builder.NewSharedBuildDirectoryCreator(
		builder.NewCleanBuildDirectoryCreator(
			builder.NewRootBuildDirectoryCreator(buildDirectory),
			cleaner.NewIdleInvoker(buildDirectoryCleaner),
		),
		&nextParallelActionID,
	)
	var be builder.BuildExecutor = builder.NewLocalBuildExecutor(
		s.Writer,
		creator,
		cfg.Runner,
		cfg.Clock,
		/* maximumWritableFileUploadDelay = */ time.Minute,
		/* inputRootCharacterDevices = */ nil,
		/* maximumMessageSizeBytes = */ 1<<24,
		/* environmentVariables = */ map[string]string{"VERIF": "1"},
		cfg.ForceTrees,
	)
	be = builder.NewTimestampedBuildExecutor(
		builder.NewStorageFlushingBuildExecutor(be, flush),
		cfg.Clock,
		cfg.WorkerName,
	)
	s.Tap = &ResponseTap{BuildExecutor: be}
	browserURL, _ := url.Parse("http://bb-browser.example.com/")
	s.Executor = builder.NewCachingBuildExecutor(s.Tap, cfg.CAS, cfg.AC, browserURL)
	return s, nil
}
