package outkit

import (
	"fmt"
	"strings"

	remoteexecution "github.com/bazelbuild/remote-apis/build/bazel/remote/execution/v2"

	"google.golang.org/protobuf/encoding/protowire"
	"google.golang.org/protobuf/proto"
)

// TreeDir is one directory found in a Tree blob.
type TreeDir struct {
	Raw    []byte
	Digest *remoteexecution.Digest
	Msg    *remoteexecution.Directory
}

// TreeInfo is what CheckTree learned about a Tree blob.
type TreeInfo struct {
	Dirs        []TreeDir // root first, then children in blob order
	FileDigests []*remoteexecution.Digest
	MaxDepth    int
}

// TreeProblem is one defect found in a Tree blob; Rule is a stable
// identifier of the violated well-formedness rule.
type TreeProblem struct {
	Rule   string
	Detail string
}

// BlobLookup returns the bytes stored for an REv2 digest.
type BlobLookup func(d *remoteexecution.Digest) ([]byte, bool)

func digestKey(d *remoteexecution.Digest) string {
	if d == nil {
		return "<nil>"
	}
	return fmt.Sprintf("%s-%d", d.Hash, d.SizeBytes)
}

func validName(s string) bool {
	return s != "" && s != "." && s != ".." && !strings.ContainsAny(s, "/\x00")
}

// CheckTree decodes a serialized REv2 Tree without trusting any /repo code
// and checks that it is well formed in the sense of
// OutputDirectory.is_topologically_sorted: the root is the first message in
// the blob; every directory occurs exactly once (by binary representation);
// every child is referenced by a directory stored before it; every
// referenced digest resolves to a directory in the blob; every Directory is
// in canonical form. It returns the re-expanded hierarchy (file contents
// taken from lookup) and the list of problems found.
func CheckTree(blob []byte, fn remoteexecution.DigestFunction_Value, lookup BlobLookup) (*Node, TreeInfo, []TreeProblem) {
	var problems []TreeProblem
	var info TreeInfo
	bad := func(rule, format string, args ...any) {
		if len(problems) < 30 {
			problems = append(problems, TreeProblem{Rule: rule, Detail: fmt.Sprintf(format, args...)})
		}
	}

	// Raw field scan: we need the exact bytes of every directory and
	// the order of root vs. children in the blob.
	type rawField struct {
		num protowire.Number
		val []byte
	}
	var fields []rawField
	for b := blob; len(b) > 0; {
		num, typ, n := protowire.ConsumeTag(b)
		if n < 0 {
			bad("malformed", "tree: malformed tag")
			return nil, info, problems
		}
		b = b[n:]
		if typ != protowire.BytesType {
			m := protowire.ConsumeFieldValue(num, typ, b)
			if m < 0 {
				bad("malformed", "tree: malformed field %d", num)
				return nil, info, problems
			}
			bad("unknown-field", "tree: unexpected field %d of wire type %d", num, typ)
			b = b[m:]
			continue
		}
		v, m := protowire.ConsumeBytes(b)
		if m < 0 {
			bad("malformed", "tree: malformed length-delimited field %d", num)
			return nil, info, problems
		}
		b = b[m:]
		fields = append(fields, rawField{num, v})
	}
	if len(fields) == 0 {
		bad("no-root", "tree: no root directory")
		return nil, info, problems
	}
	if fields[0].num != 1 {
		bad("root-not-first", "tree: first message in the blob is field %d, not the root", fields[0].num)
	}
	rootSeen := 0
	var rootRaw []byte
	var childrenRaw [][]byte
	for _, f := range fields {
		switch f.num {
		case 1:
			rootSeen++
			rootRaw = f.val
		case 2:
			childrenRaw = append(childrenRaw, f.val)
		default:
			bad("unknown-field", "tree: unknown field %d", f.num)
		}
	}
	if rootSeen != 1 {
		bad("root-count", "tree: %d root fields", rootSeen)
		if rootSeen == 0 {
			return nil, info, problems
		}
	}

	parse := func(raw []byte) TreeDir {
		td := TreeDir{Raw: raw, Digest: ProtoDigest(fn, raw), Msg: &remoteexecution.Directory{}}
		if err := proto.Unmarshal(raw, td.Msg); err != nil {
			bad("malformed", "tree: directory %s does not parse: %v", digestKey(td.Digest), err)
		}
		return td
	}
	info.Dirs = append(info.Dirs, parse(rootRaw))
	position := map[string]int{} // digest key -> index in info.Dirs (children only)
	for _, raw := range childrenRaw {
		td := parse(raw)
		k := digestKey(td.Digest)
		if _, dup := position[k]; dup {
			bad("child-stored-twice", "tree: child directory %s stored more than once", k)
			continue
		}
		position[k] = len(info.Dirs)
		info.Dirs = append(info.Dirs, td)
	}
	if _, ok := position[digestKey(info.Dirs[0].Digest)]; ok {
		bad("child-stored-twice", "tree: root directory also stored as a child")
	}

	// Canonical form, references and order.
	referenced := map[string]bool{}
	for idx, td := range info.Dirs {
		names := map[string]bool{}
		check := func(kind string, list []string) {
			for i, nm := range list {
				if !validName(nm) {
					bad("invalid-name", "tree: directory #%d has invalid %s name %q", idx, kind, nm)
				}
				if i > 0 && list[i-1] >= nm {
					bad("not-canonical", "tree: directory #%d %s names not strictly sorted (%q before %q)", idx, kind, list[i-1], nm)
				}
				if names[nm] {
					bad("duplicate-name", "tree: directory #%d has duplicate name %q", idx, nm)
				}
				names[nm] = true
			}
		}
		var fs, ds, ls []string
		for _, f := range td.Msg.Files {
			fs = append(fs, f.Name)
			if f.Digest == nil {
				bad("file-without-digest", "tree: directory #%d file %q without digest", idx, f.Name)
			}
		}
		for _, d := range td.Msg.Directories {
			ds = append(ds, d.Name)
		}
		for _, l := range td.Msg.Symlinks {
			ls = append(ls, l.Name)
		}
		check("file", fs)
		check("directory", ds)
		check("symlink", ls)
		for _, d := range td.Msg.Directories {
			k := digestKey(d.Digest)
			pos, ok := position[k]
			if !ok {
				bad("child-missing", "tree: directory #%d references child %q (%s) that is not in the tree", idx, d.Name, k)
				continue
			}
			referenced[k] = true
			if pos <= idx {
				bad("child-before-parent", "tree: child %q (%s) stored at #%d, not after its parent #%d", d.Name, k, pos, idx)
			}
		}
	}
	for k, pos := range position {
		if !referenced[k] {
			bad("child-unreferenced", "tree: child #%d (%s) is not referenced by any directory", pos, k)
		}
	}

	// Re-expansion.
	byKey := map[string]TreeDir{}
	for _, td := range info.Dirs[1:] {
		byKey[digestKey(td.Digest)] = td
	}
	var expand func(td TreeDir, depth int) *Node
	expand = func(td TreeDir, depth int) *Node {
		if depth > info.MaxDepth {
			info.MaxDepth = depth
		}
		n := NewDir()
		if depth > 200 {
			bad("too-deep", "tree: nesting deeper than 200")
			return n
		}
		for _, f := range td.Msg.Files {
			fnode := &Node{Kind: KindFile, Exec: f.IsExecutable}
			if f.Digest != nil {
				info.FileDigests = append(info.FileDigests, f.Digest)
				if data, ok := lookup(f.Digest); ok {
					if h, _ := HashOf(fn, data); h != f.Digest.Hash || int64(len(data)) != f.Digest.SizeBytes {
						bad("file-digest-mismatch", "tree: CAS bytes of file %q do not hash to its digest %s", f.Name, digestKey(f.Digest))
					}
					fnode.Data = data
				} else {
					bad("file-blob-absent", "tree: file %q digest %s absent from the CAS", f.Name, digestKey(f.Digest))
				}
			}
			n.Children[f.Name] = fnode
		}
		for _, l := range td.Msg.Symlinks {
			n.Children[l.Name] = &Node{Kind: KindSymlink, Target: l.Target}
		}
		for _, d := range td.Msg.Directories {
			if c, ok := byKey[digestKey(d.Digest)]; ok {
				n.Children[d.Name] = expand(c, depth+1)
			} else {
				n.Children[d.Name] = NewDir()
			}
		}
		return n
	}
	root := expand(info.Dirs[0], 0)
	return root, info, problems
}
