// Package outkit holds the hand-written fakes and reference models shared by
// the worker-output harnesses (C09: integrity of the composed upload/caching
// pipeline, C10: fidelity of reported outputs): an in-memory BlobAccess with
// a global call counter and scripted faults, an independent digest
// calculator, a file-tree model with generator / materialiser / snapshotter,
// an independent path normaliser, a decoder + checker for REv2 Tree blobs and
// a callback based runner client.
package outkit

import (
	"context"
	"crypto/md5"
	"crypto/sha1"
	"crypto/sha256"
	"crypto/sha512"
	"encoding/hex"
	"fmt"
	"sync"

	remoteexecution "github.com/bazelbuild/remote-apis/build/bazel/remote/execution/v2"
	"github.com/buildbarn/bb-storage/pkg/blobstore"
	"github.com/buildbarn/bb-storage/pkg/blobstore/buffer"
	"github.com/buildbarn/bb-storage/pkg/blobstore/slicing"
	"github.com/buildbarn/bb-storage/pkg/digest"
	"github.com/buildbarn/bb-storage/pkg/util"

	"google.golang.org/grpc/codes"
	"google.golang.org/grpc/status"
)

// FaultKind says what happens at the faulted position.
type FaultKind int

const (
	// FaultNone: no fault.
	FaultNone FaultKind = iota
	// FaultErrDiscard: the call fails; a Put releases the buffer without
	// reading it.
	FaultErrDiscard
	// FaultErrAfterRead: a Put consumes the buffer, then reports failure
	// (nothing is stored). Same as FaultErrDiscard for other calls.
	FaultErrAfterRead
	// FaultSticky: this call and every later one fail (storage outage).
	FaultSticky
	// FaultCancel: the run's context is cancelled right before the call;
	// stores that honour contexts fail from then on.
	FaultCancel
	// FaultCancelAfter: the call itself completes successfully; the run's
	// context is cancelled at the moment it returns (a client that goes
	// away between two storage calls).
	FaultCancelAfter
)

func (k FaultKind) String() string {
	return [...]string{"none", "err-discard", "err-after-read", "sticky", "cancel", "cancel-after"}[k]
}

// Call is one logged storage call.
type Call struct {
	Seq    int    `json:"seq"` // 1-based position among counted calls; 0 for uncounted (Get)
	Store  string `json:"store"`
	Op     string `json:"op"`
	Digest string `json:"digest,omitempty"`
	N      int    `json:"n,omitempty"` // FindMissing: number of digests asked
	// Missing is the number of digests a successful FindMissing reported
	// as absent.
	Missing int    `json:"missing,omitempty"`
	Fault   string `json:"fault,omitempty"`
	Err     string `json:"err,omitempty"`
	Phase   string `json:"phase,omitempty"`
}

// Plan is shared by all stores of one run: it numbers the counted calls
// (FindMissing and Put on any store) and decides which one is faulted.
type Plan struct {
	mu        sync.Mutex
	seq       int
	faultAt   int
	kind      FaultKind
	cancel    context.CancelFunc
	triggered bool
	hitCall   Call
	phase     string
	log       []Call
	// OnOp, if set before the run starts, observes every non-storage
	// operation counted through Op (done=false, before the fault decision
	// and before the operation is carried out, in the goroutine of the
	// caller) and every completion reported through OpDone (done=true).
	// It is called without the plan's lock.
	OnOp func(component, op, detail string, done bool)
}

// NewPlan creates a plan that faults the faultAt-th counted call (0 = never).
// cancel is invoked for FaultCancel.
func NewPlan(faultAt int, kind FaultKind, cancel context.CancelFunc) *Plan {
	return &Plan{faultAt: faultAt, kind: kind, cancel: cancel}
}

// SetPhase labels the calls logged from now on (e.g. "final-flush").
func (p *Plan) SetPhase(s string) {
	p.mu.Lock()
	p.phase = s
	p.mu.Unlock()
}

// Count returns the number of counted calls so far.
func (p *Plan) Count() int {
	p.mu.Lock()
	defer p.mu.Unlock()
	return p.seq
}

// Triggered tells whether the fault position was reached, and the call hit.
func (p *Plan) Triggered() (bool, Call) {
	p.mu.Lock()
	defer p.mu.Unlock()
	return p.triggered, p.hitCall
}

// Log returns a copy of the call log.
func (p *Plan) Log() []Call {
	p.mu.Lock()
	defer p.mu.Unlock()
	return append([]Call(nil), p.log...)
}

func (p *Plan) next(store, op, dg string, n int, counted bool) (int, FaultKind) {
	p.mu.Lock()
	defer p.mu.Unlock()
	c := Call{Store: store, Op: op, Digest: dg, N: n, Phase: p.phase}
	f := FaultNone
	if counted {
		p.seq++
		c.Seq = p.seq
		if p.faultAt > 0 {
			if p.seq == p.faultAt {
				f = p.kind
				p.triggered = true
				c.Fault = f.String()
				p.hitCall = c
			} else if p.seq > p.faultAt && p.kind == FaultSticky {
				f = FaultSticky
				c.Fault = f.String()
			}
		}
	}
	p.log = append(p.log, c)
	return len(p.log) - 1, f
}

// seqOf returns the position (Seq) of the call logged at index idx.
func (p *Plan) seqOf(idx int) int {
	p.mu.Lock()
	defer p.mu.Unlock()
	if idx < len(p.log) {
		return p.log[idx].Seq
	}
	return 0
}

func (p *Plan) setMissing(idx, n int) {
	p.mu.Lock()
	if idx < len(p.log) {
		p.log[idx].Missing = n
		if p.triggered && p.hitCall.Seq == p.log[idx].Seq {
			p.hitCall.Missing = n
		}
	}
	p.mu.Unlock()
}

func (p *Plan) setErr(idx int, err error) {
	if err == nil {
		return
	}
	p.mu.Lock()
	if idx < len(p.log) {
		p.log[idx].Err = err.Error()
	}
	p.mu.Unlock()
}

// ErrInjected is the error returned by faulted calls.
var ErrInjected = status.Error(codes.Internal, "verif: injected storage fault")

// PutRecord describes one Put that reached a store.
type PutRecord struct {
	Digest digest.Digest
	Size   int
	Stored bool
	Err    error
}

// Store is an in-memory BlobAccess.
type Store struct {
	Name string
	plan *Plan
	// VerifyCAS: blobs are content addressed; the store re-hashes what it
	// receives (independently of the buffer layer) and records mismatches.
	VerifyCAS bool
	// IgnoreCtx: the store does not look at the context (allowed: a
	// backend is not obliged to).
	IgnoreCtx bool
	// BeforePut is invoked with the received bytes before they are stored
	// (and before an after-read fault is applied).
	BeforePut func(d digest.Digest, data []byte)
	// OnCall, if set, is invoked at the start of every counted call
	// (FindMissing, Put) with its operation name and position, before any
	// fault is applied and before the buffer is read. The caller of the
	// store is blocked meanwhile.
	OnCall func(op string, seq int)

	mu         sync.Mutex
	blobs      map[string][]byte
	puts       []PutRecord
	integrity  []string
	skippedAny bool
}

var _ blobstore.BlobAccess = (*Store)(nil)

// NewStore creates an empty store attached to a plan.
func NewStore(name string, plan *Plan, verifyCAS bool) *Store {
	return &Store{Name: name, plan: plan, VerifyCAS: verifyCAS, blobs: map[string][]byte{}}
}

// Key is the storage key of a digest (instance name ignored).
func Key(d digest.Digest) string { return d.GetKey(digest.KeyWithoutInstance) }

// Preload stores a blob without going through the call counter.
func (s *Store) Preload(d digest.Digest, data []byte) {
	s.mu.Lock()
	s.blobs[Key(d)] = append([]byte(nil), data...)
	s.mu.Unlock()
}

// Has tells whether a blob is present.
func (s *Store) Has(d digest.Digest) bool {
	s.mu.Lock()
	defer s.mu.Unlock()
	_, ok := s.blobs[Key(d)]
	return ok
}

// Bytes returns the stored bytes.
func (s *Store) Bytes(d digest.Digest) ([]byte, bool) {
	s.mu.Lock()
	defer s.mu.Unlock()
	b, ok := s.blobs[Key(d)]
	return b, ok
}

// Len returns the number of blobs.
func (s *Store) Len() int {
	s.mu.Lock()
	defer s.mu.Unlock()
	return len(s.blobs)
}

// Puts returns the Put records.
func (s *Store) Puts() []PutRecord {
	s.mu.Lock()
	defer s.mu.Unlock()
	return append([]PutRecord(nil), s.puts...)
}

// IntegrityProblems lists blobs that were stored under a digest that does
// not match their contents.
func (s *Store) IntegrityProblems() []string {
	s.mu.Lock()
	defer s.mu.Unlock()
	return append([]string(nil), s.integrity...)
}

// SkippedAny tells whether a FindMissing call ever reported a requested
// blob as already present.
func (s *Store) SkippedAny() bool {
	s.mu.Lock()
	defer s.mu.Unlock()
	return s.skippedAny
}

func (s *Store) ctxErr(ctx context.Context) error {
	if s.IgnoreCtx {
		return nil
	}
	return util.StatusFromContext(ctx)
}

// GetCapabilities implements capabilities.Provider.
func (s *Store) GetCapabilities(ctx context.Context, instanceName digest.InstanceName) (*remoteexecution.ServerCapabilities, error) {
	return nil, status.Error(codes.Unimplemented, "verif: no capabilities")
}

// Get implements BlobAccess.
func (s *Store) Get(ctx context.Context, d digest.Digest) buffer.Buffer {
	idx, _ := s.plan.next(s.Name, "Get", d.String(), 0, false)
	s.mu.Lock()
	b, ok := s.blobs[Key(d)]
	s.mu.Unlock()
	if !ok {
		err := status.Errorf(codes.NotFound, "verif: blob %s not found", d)
		s.plan.setErr(idx, err)
		return buffer.NewBufferFromError(err)
	}
	return buffer.NewValidatedBufferFromByteSlice(append([]byte(nil), b...))
}

// GetFromComposite implements BlobAccess.
func (s *Store) GetFromComposite(ctx context.Context, parentDigest, childDigest digest.Digest, slicer slicing.BlobSlicer) buffer.Buffer {
	return buffer.NewBufferFromError(status.Error(codes.Unimplemented, "verif: GetFromComposite"))
}

// Put implements BlobAccess.
func (s *Store) Put(ctx context.Context, d digest.Digest, b buffer.Buffer) (err error) {
	idx, f := s.plan.next(s.Name, "Put", d.String(), 0, true)
	if s.OnCall != nil {
		s.OnCall("Put", s.plan.seqOf(idx))
	}
	rec := PutRecord{Digest: d}
	defer func() {
		rec.Err = err
		s.plan.setErr(idx, err)
		s.mu.Lock()
		s.puts = append(s.puts, rec)
		s.mu.Unlock()
	}()
	switch f {
	case FaultErrDiscard, FaultSticky:
		b.Discard()
		return ErrInjected
	case FaultCancel:
		if s.plan.cancel != nil {
			s.plan.cancel()
		}
	}
	if err := s.ctxErr(ctx); err != nil {
		b.Discard()
		return err
	}
	data, err := b.ToByteSlice(1 << 26)
	if err != nil {
		return err
	}
	rec.Size = len(data)
	if s.BeforePut != nil {
		s.BeforePut(d, data)
	}
	if f == FaultErrAfterRead {
		return ErrInjected
	}
	if s.VerifyCAS {
		if h, ok := HashOf(d.GetDigestFunction().GetEnumValue(), data); !ok || h != d.GetHashString() || int64(len(data)) != d.GetSizeBytes() {
			s.mu.Lock()
			s.integrity = append(s.integrity, fmt.Sprintf("blob stored as %s has hash %s size %d", d, h, len(data)))
			s.mu.Unlock()
		}
	}
	s.mu.Lock()
	s.blobs[Key(d)] = append([]byte(nil), data...)
	s.mu.Unlock()
	rec.Stored = true
	if f == FaultCancelAfter && s.plan.cancel != nil {
		s.plan.cancel()
	}
	return nil
}

// FindMissing implements BlobAccess.
func (s *Store) FindMissing(ctx context.Context, digests digest.Set) (digest.Set, error) {
	idx, f := s.plan.next(s.Name, "FindMissing", "", digests.Length(), true)
	if s.OnCall != nil {
		s.OnCall("FindMissing", s.plan.seqOf(idx))
	}
	switch f {
	case FaultErrDiscard, FaultErrAfterRead, FaultSticky:
		s.plan.setErr(idx, ErrInjected)
		return digest.EmptySet, ErrInjected
	case FaultCancel:
		if s.plan.cancel != nil {
			s.plan.cancel()
		}
	}
	if err := s.ctxErr(ctx); err != nil {
		s.plan.setErr(idx, err)
		return digest.EmptySet, err
	}
	sb := digest.NewSetBuilder(digests.Length())
	s.mu.Lock()
	for _, d := range digests.Items() {
		if _, ok := s.blobs[Key(d)]; !ok {
			sb.Add(d)
		} else {
			s.skippedAny = true
		}
	}
	s.mu.Unlock()
	s.plan.setMissing(idx, sb.Length())
	if f == FaultCancelAfter && s.plan.cancel != nil {
		s.plan.cancel()
	}
	return sb.Build(), nil
}

// HashOf computes the hex hash of data for an REv2 digest function with
// the Go standard library (independent of bb-storage's digest.Generator).
func HashOf(fn remoteexecution.DigestFunction_Value, data []byte) (string, bool) {
	switch fn {
	case remoteexecution.DigestFunction_MD5:
		h := md5.Sum(data)
		return hex.EncodeToString(h[:]), true
	case remoteexecution.DigestFunction_SHA1:
		h := sha1.Sum(data)
		return hex.EncodeToString(h[:]), true
	case remoteexecution.DigestFunction_SHA256:
		h := sha256.Sum256(data)
		return hex.EncodeToString(h[:]), true
	case remoteexecution.DigestFunction_SHA384:
		h := sha512.Sum384(data)
		return hex.EncodeToString(h[:]), true
	case remoteexecution.DigestFunction_SHA512:
		h := sha512.Sum512(data)
		return hex.EncodeToString(h[:]), true
	}
	return "", false
}

// ProtoDigest computes the REv2 digest message of data.
func ProtoDigest(fn remoteexecution.DigestFunction_Value, data []byte) *remoteexecution.Digest {
	h, ok := HashOf(fn, data)
	if !ok {
		panic("outkit: unsupported digest function")
	}
	return &remoteexecution.Digest{Hash: h, SizeBytes: int64(len(data))}
}

// MustDigest converts an REv2 digest message to a digest.Digest.
func MustDigest(f digest.Function, p *remoteexecution.Digest) digest.Digest {
	d, err := f.NewDigestFromProto(p)
	if err != nil {
		panic(fmt.Sprintf("outkit: bad digest %v: %v", p, err))
	}
	return d
}

// DigestOf computes the digest.Digest of data with the standard library.
func DigestOf(f digest.Function, data []byte) digest.Digest {
	return MustDigest(f, ProtoDigest(f.GetEnumValue(), data))
}
