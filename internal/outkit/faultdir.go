package outkit

import (
	"context"
	"os"
	"sync/atomic"

	"github.com/buildbarn/bb-remote-execution/pkg/builder"
	"github.com/buildbarn/bb-remote-execution/pkg/filesystem/access"
	"github.com/buildbarn/bb-storage/pkg/digest"
	"github.com/buildbarn/bb-storage/pkg/filesystem"
	"github.com/buildbarn/bb-storage/pkg/filesystem/path"
	"github.com/buildbarn/bb-storage/pkg/util"

	"google.golang.org/grpc/codes"
	"google.golang.org/grpc/status"
)

// ErrInjectedIO is what faulted directory / file operations return. It is
// deliberately not an ENOENT/EEXIST style error: the operation failed, it
// says nothing about existence.
var ErrInjectedIO = status.Error(codes.Internal, "verif: injected I/O fault")

// Op counts one non-storage operation (a directory or file call made by
// /repo code through a harness wrapper) in the plan's global numbering and
// returns the error to inject, if this is the faulted position. Cancel kinds
// cancel the run's context and let the operation proceed.
func (p *Plan) Op(component, op, detail string) error {
	if p.OnOp != nil {
		p.OnOp(component, op, detail, false)
	}
	_, f := p.next(component, op, detail, 0, true)
	switch f {
	case FaultErrDiscard, FaultErrAfterRead, FaultSticky:
		return ErrInjectedIO
	case FaultCancel, FaultCancelAfter:
		if p.cancel != nil {
			p.cancel()
		}
	}
	return nil
}

// OpDone tells the plan's observer (OnOp) that an operation announced
// through Op has returned to the worker code. It is neither counted nor a
// fault position.
func (p *Plan) OpDone(component, op, detail string) {
	if p.OnOp != nil {
		p.OnOp(component, op, detail, true)
	}
}

// FaultyBuildDirectory wraps a builder.BuildDirectory: every operation the
// worker code performs on it (and on the directories entered through it) is
// a numbered position of the plan and can be made to fail.
type FaultyBuildDirectory struct {
	builder.BuildDirectory
	plan  *Plan
	stats *FaultyDirStats
	at    string
}

// FaultyDirStats counts directory handles handed out and closed.
type FaultyDirStats struct {
	Entered atomic.Int64
	Closed  atomic.Int64
}

// NewFaultyBuildDirectory wraps d.
func NewFaultyBuildDirectory(d builder.BuildDirectory, plan *Plan, stats *FaultyDirStats) *FaultyBuildDirectory {
	return &FaultyBuildDirectory{BuildDirectory: d, plan: plan, stats: stats, at: "."}
}

func (d *FaultyBuildDirectory) child(c builder.BuildDirectory, name path.Component) *FaultyBuildDirectory {
	d.stats.Entered.Add(1)
	return &FaultyBuildDirectory{BuildDirectory: c, plan: d.plan, stats: d.stats, at: d.at + "/" + name.String()}
}

// Close counts the release of an entered directory.
func (d *FaultyBuildDirectory) Close() error {
	d.stats.Closed.Add(1)
	return d.BuildDirectory.Close()
}

// EnterBuildDirectory implements BuildDirectory.
func (d *FaultyBuildDirectory) EnterBuildDirectory(name path.Component) (builder.BuildDirectory, error) {
	if err := d.plan.Op("dir", "EnterBuildDirectory", d.at+"/"+name.String()); err != nil {
		return nil, err
	}
	c, err := d.BuildDirectory.EnterBuildDirectory(name)
	if err != nil {
		return nil, err
	}
	return d.child(c, name), nil
}

// EnterParentPopulatableDirectory implements ParentPopulatableDirectory.
func (d *FaultyBuildDirectory) EnterParentPopulatableDirectory(name path.Component) (builder.ParentPopulatableDirectory, error) {
	if err := d.plan.Op("dir", "EnterParentPopulatableDirectory", d.at+"/"+name.String()); err != nil {
		return nil, err
	}
	c, err := d.BuildDirectory.EnterParentPopulatableDirectory(name)
	if err != nil {
		return nil, err
	}
	if bd, ok := c.(builder.BuildDirectory); ok {
		return d.child(bd, name), nil
	}
	return c, nil
}

// EnterUploadableDirectory implements UploadableDirectory.
func (d *FaultyBuildDirectory) EnterUploadableDirectory(name path.Component) (builder.UploadableDirectory, error) {
	if err := d.plan.Op("dir", "EnterUploadableDirectory", d.at+"/"+name.String()); err != nil {
		return nil, err
	}
	c, err := d.BuildDirectory.EnterUploadableDirectory(name)
	if err != nil {
		return nil, err
	}
	if bd, ok := c.(builder.BuildDirectory); ok {
		return d.child(bd, name), nil
	}
	return c, nil
}

// Mkdir implements BuildDirectory.
func (d *FaultyBuildDirectory) Mkdir(name path.Component, perm os.FileMode) error {
	if err := d.plan.Op("dir", "Mkdir", d.at+"/"+name.String()); err != nil {
		return err
	}
	return d.BuildDirectory.Mkdir(name, perm)
}

// Mknod implements BuildDirectory.
func (d *FaultyBuildDirectory) Mknod(name path.Component, perm os.FileMode, deviceNumber filesystem.DeviceNumber) error {
	if err := d.plan.Op("dir", "Mknod", d.at+"/"+name.String()); err != nil {
		return err
	}
	return d.BuildDirectory.Mknod(name, perm, deviceNumber)
}

// Lstat implements UploadableDirectory.
func (d *FaultyBuildDirectory) Lstat(name path.Component) (filesystem.FileInfo, error) {
	if err := d.plan.Op("dir", "Lstat", d.at+"/"+name.String()); err != nil {
		return filesystem.FileInfo{}, err
	}
	return d.BuildDirectory.Lstat(name)
}

// ReadDir implements UploadableDirectory.
func (d *FaultyBuildDirectory) ReadDir() ([]filesystem.FileInfo, error) {
	if err := d.plan.Op("dir", "ReadDir", d.at); err != nil {
		return nil, err
	}
	return d.BuildDirectory.ReadDir()
}

// Readlink implements UploadableDirectory.
func (d *FaultyBuildDirectory) Readlink(name path.Component) (path.Parser, error) {
	if err := d.plan.Op("dir", "Readlink", d.at+"/"+name.String()); err != nil {
		return nil, err
	}
	return d.BuildDirectory.Readlink(name)
}

// UploadFile implements UploadableDirectory.
func (d *FaultyBuildDirectory) UploadFile(ctx context.Context, name path.Component, digestFunction digest.Function, writableFileUploadDelay <-chan struct{}) (digest.Digest, error) {
	defer d.plan.OpDone("dir", "UploadFile", d.at+"/"+name.String())
	if err := d.plan.Op("dir", "UploadFile", d.at+"/"+name.String()); err != nil {
		return digest.BadDigest, err
	}
	return d.BuildDirectory.UploadFile(ctx, name, digestFunction, writableFileUploadDelay)
}

// MergeDirectoryContents implements BuildDirectory.
func (d *FaultyBuildDirectory) MergeDirectoryContents(ctx context.Context, errorLogger util.ErrorLogger, digest digest.Digest, monitor access.UnreadDirectoryMonitor) error {
	if err := d.plan.Op("dir", "MergeDirectoryContents", d.at); err != nil {
		return err
	}
	return d.BuildDirectory.MergeDirectoryContents(ctx, errorLogger, digest, monitor)
}

// RemoveAll implements BuildDirectory. The removal is carried out even when
// the fault is injected, so that the harness' scratch space stays clean.
func (d *FaultyBuildDirectory) RemoveAll(name path.Component) error {
	ferr := d.plan.Op("dir", "RemoveAll", d.at+"/"+name.String())
	err := d.BuildDirectory.RemoveAll(name)
	if ferr != nil {
		return ferr
	}
	return err
}

// faultyReader injects faults into the reads of a file opened for upload.
type faultyReader struct {
	filesystem.FileReader
	plan *Plan
	name string
}

func (r *faultyReader) ReadAt(p []byte, off int64) (int, error) {
	if err := r.plan.Op("file", "ReadAt", r.name); err != nil {
		return 0, err
	}
	return r.FileReader.ReadAt(p, off)
}

func (r *faultyReader) Len() (int64, error) {
	if err := r.plan.Op("file", "Len", r.name); err != nil {
		return 0, err
	}
	return r.FileReader.Len()
}
