package outkit

import (
	"context"
	"fmt"
	"io"
	"sort"
	"strings"
	"sync"

	"github.com/buildbarn/bb-remote-execution/pkg/builder"
	"github.com/buildbarn/bb-remote-execution/pkg/filesystem/pool"
	"github.com/buildbarn/bb-remote-execution/pkg/filesystem/virtual"
	"github.com/buildbarn/bb-storage/pkg/filesystem"
	"github.com/buildbarn/bb-storage/pkg/filesystem/path"
	"github.com/buildbarn/bb-storage/pkg/random"

	"github.com/buildbarn/bb-remote-execution/pkg/cas"
	"github.com/buildbarn/bb-storage/pkg/blobstore"
	"github.com/buildbarn/bb-storage/pkg/clock"
)

// MemPool is a trivial in-memory pool.FilePool (one byte slice per file).
type MemPool struct {
	mu     sync.Mutex
	opened int
	closed int
}

// Counts returns the number of files created and closed.
func (p *MemPool) Counts() (opened, closed int) {
	p.mu.Lock()
	defer p.mu.Unlock()
	return p.opened, p.closed
}

type memFile struct {
	p    *MemPool
	mu   sync.Mutex
	data []byte
	hole pool.HoleSource
}

// NewFile implements pool.FilePool.
func (p *MemPool) NewFile(holeSource pool.HoleSource, size uint64) (filesystem.FileReadWriter, error) {
	p.mu.Lock()
	p.opened++
	p.mu.Unlock()
	f := &memFile{p: p, hole: holeSource, data: make([]byte, size)}
	if size > 0 {
		if _, err := holeSource.ReadAt(f.data, 0); err != nil && err != io.EOF {
			return nil, err
		}
	}
	return f, nil
}

func (f *memFile) Close() error {
	f.p.mu.Lock()
	f.p.closed++
	f.p.mu.Unlock()
	return f.hole.Close()
}

func (f *memFile) ReadAt(p []byte, off int64) (int, error) {
	f.mu.Lock()
	defer f.mu.Unlock()
	if off >= int64(len(f.data)) {
		return 0, io.EOF
	}
	n := copy(p, f.data[off:])
	if n < len(p) {
		return n, io.EOF
	}
	return n, nil
}

func (f *memFile) WriteAt(p []byte, off int64) (int, error) {
	f.mu.Lock()
	defer f.mu.Unlock()
	if end := off + int64(len(p)); end > int64(len(f.data)) {
		f.data = append(f.data, make([]byte, end-int64(len(f.data)))...)
	}
	return copy(f.data[off:], p), nil
}

func (f *memFile) Truncate(size int64) error {
	f.mu.Lock()
	defer f.mu.Unlock()
	if size <= int64(len(f.data)) {
		f.data = f.data[:size]
	} else {
		f.data = append(f.data, make([]byte, size-int64(len(f.data)))...)
	}
	return nil
}

func (f *memFile) Sync() error { return nil }

func (f *memFile) Len() (int64, error) {
	f.mu.Lock()
	defer f.mu.Unlock()
	return int64(len(f.data)), nil
}

func (f *memFile) GetNextRegionOffset(offset int64, regionType filesystem.RegionType) (int64, error) {
	f.mu.Lock()
	defer f.mu.Unlock()
	if offset >= int64(len(f.data)) {
		return 0, io.EOF
	}
	if regionType == filesystem.Data {
		return offset, nil
	}
	return int64(len(f.data)), nil
}

// ErrorCollector is the util.ErrorLogger of the virtual file system.
type ErrorCollector struct {
	mu   sync.Mutex
	errs []error
}

// Log implements util.ErrorLogger.
func (e *ErrorCollector) Log(err error) {
	e.mu.Lock()
	e.errs = append(e.errs, err)
	e.mu.Unlock()
}

// Errors returns what was logged.
func (e *ErrorCollector) Errors() []error {
	e.mu.Lock()
	defer e.mu.Unlock()
	return append([]error(nil), e.errs...)
}

// VirtualRoot is an InMemoryPrepopulatedDirectory wired like the virtual
// build directory of cmd/bb_worker/main.go (FUSE handle allocator,
// pool-backed files), wrapped in a builder.BuildDirectory.
type VirtualRoot struct {
	Root           virtual.PrepopulatedDirectory
	BuildDirectory builder.BuildDirectory
	FilePool       *MemPool
	Errors         *ErrorCollector
}

// NewVirtualRoot creates an empty virtual build directory. When
// installHooks is set, the file pool is installed right away (the local
// executor does that itself for every action).
func NewVirtualRoot(directoryFetcher cas.DirectoryFetcher, contentAddressableStorage blobstore.BlobAccess, clk clock.Clock, installHooks bool) *VirtualRoot {
	errs := &ErrorCollector{}
	handleAllocator := virtual.NewFUSEHandleAllocator(random.FastThreadSafeGenerator)
	setter := func(requested virtual.AttributesMask, attributes *virtual.Attributes) {}
	symlinkFactory := virtual.NewHandleAllocatingSymlinkFactory(
		virtual.NewBaseSymlinkFactory(setter),
		handleAllocator.New(),
		path.LocalFormat,
	)
	characterDeviceFactory := virtual.NewHandleAllocatingCharacterDeviceFactory(virtual.BaseCharacterDeviceFactory, handleAllocator.New())
	root := virtual.NewInMemoryPrepopulatedDirectory(
		virtual.NewHandleAllocatingFileAllocator(
			virtual.NewPoolBackedFileAllocator(pool.EmptyFilePool, errs, setter, virtual.NoNamedAttributesFactory),
			handleAllocator,
		),
		symlinkFactory,
		errs,
		handleAllocator,
		sort.Sort,
		func(string) bool { return false },
		clk,
		virtual.CaseSensitiveComponentNormalizer,
		setter,
		virtual.NoNamedAttributesFactory,
	)
	v := &VirtualRoot{
		Root:           root,
		BuildDirectory: builder.NewVirtualBuildDirectory(root, directoryFetcher, contentAddressableStorage, symlinkFactory, characterDeviceFactory, handleAllocator, setter, clk),
		FilePool:       &MemPool{},
		Errors:         errs,
	}
	if installHooks {
		v.BuildDirectory.InstallHooks(v.FilePool, errs)
	}
	return v
}

// Lookup walks a "/" separated relative path below the root.
func (v *VirtualRoot) Lookup(rel string) (virtual.PrepopulatedDirectory, error) {
	d := v.Root
	for _, c := range strings.Split(rel, "/") {
		if c == "" || c == "." {
			continue
		}
		child, err := d.LookupChild(path.MustNewComponent(c))
		if err != nil {
			return nil, fmt.Errorf("lookup %q in %q: %w", c, rel, err)
		}
		dir, _ := child.GetPair()
		if dir == nil {
			return nil, fmt.Errorf("%q in %q is not a directory", c, rel)
		}
		d = dir
	}
	return d, nil
}

// MaterializeVirtual acts as the build action: it goes through the
// virtual.Directory operations the FUSE/NFS servers would call.
func MaterializeVirtual(d virtual.Directory, n *Node) error {
	ctx := context.Background()
	for _, name := range n.Names() {
		c := n.Children[name]
		component := path.MustNewComponent(name)
		var out virtual.Attributes
		switch c.Kind {
		case KindDir:
			var child virtual.Directory
			if existing, s := d.VirtualLookup(ctx, component, 0, &out); s == virtual.StatusOK {
				dir, _ := existing.GetPair()
				if dir == nil {
					return fmt.Errorf("%q exists and is not a directory", name)
				}
				child = dir
			} else if s == virtual.StatusErrNoEnt {
				var attr virtual.Attributes
				attr.SetPermissions(virtual.PermissionsRead | virtual.PermissionsWrite | virtual.PermissionsExecute)
				created, _, s := d.VirtualMkdir(ctx, component, &attr, 0, &out)
				if s != virtual.StatusOK {
					return fmt.Errorf("mkdir %q: status %v", name, s)
				}
				child = created
			} else {
				return fmt.Errorf("lookup %q: status %v", name, s)
			}
			if err := MaterializeVirtual(child, c); err != nil {
				return fmt.Errorf("%s/%w", name, err)
			}
		case KindFile:
			var attr virtual.Attributes
			perm := virtual.PermissionsRead | virtual.PermissionsWrite
			if c.Exec {
				perm |= virtual.PermissionsExecute
			}
			attr.SetPermissions(perm)
			leaf, _, _, s := d.VirtualOpenChild(ctx, component, virtual.ShareMaskWrite, &attr, &virtual.OpenExistingOptions{Truncate: true}, 0, &out)
			if s == virtual.StatusErrAccess || s == virtual.StatusErrROFS {
				// Read-only input file: leave as is (the model holds
				// the same contents).
				continue
			}
			if s != virtual.StatusOK {
				return fmt.Errorf("create %q: status %v", name, s)
			}
			for off := 0; off < len(c.Data); {
				nw, s := leaf.VirtualWrite(ctx, c.Data[off:], uint64(off))
				if s != virtual.StatusOK || nw == 0 {
					leaf.VirtualClose(virtual.ShareMaskWrite)
					return fmt.Errorf("write %q: status %v", name, s)
				}
				off += nw
			}
			leaf.VirtualClose(virtual.ShareMaskWrite)
		case KindSymlink:
			var attr virtual.Attributes
			attr.SetFileType(filesystem.FileTypeSymlink)
			attr.SetSymlinkTarget(path.UNIXFormat.NewParser(c.Target))
			if _, _, s := d.VirtualMknod(ctx, component, &attr, 0, &out); s != virtual.StatusOK && s != virtual.StatusErrExist {
				return fmt.Errorf("symlink %q: status %v", name, s)
			}
		case KindFifo:
			var attr virtual.Attributes
			attr.SetFileType(filesystem.FileTypeFIFO)
			attr.SetPermissions(virtual.PermissionsRead | virtual.PermissionsWrite)
			if _, _, s := d.VirtualMknod(ctx, component, &attr, 0, &out); s != virtual.StatusOK && s != virtual.StatusErrExist {
				return fmt.Errorf("mkfifo %q: status %v", name, s)
			}
		default:
			return fmt.Errorf("cannot materialise %s", c.Kind)
		}
	}
	return nil
}

// SnapshotVirtual reads the hierarchy back through the virtual node
// interface (lookup of all children, attributes, reads), not through the
// upload code.
func SnapshotVirtual(d virtual.PrepopulatedDirectory) (*Node, error) {
	ctx := context.Background()
	n := NewDir()
	dirs, leaves, err := d.LookupAllChildren()
	if err != nil {
		return nil, err
	}
	for _, e := range dirs {
		c, err := SnapshotVirtual(e.Child)
		if err != nil {
			return nil, err
		}
		n.Children[e.Name.String()] = c
	}
	for _, e := range leaves {
		var attr virtual.Attributes
		e.Child.VirtualGetAttributes(ctx, virtual.AttributesMaskFileType|virtual.AttributesMaskPermissions|virtual.AttributesMaskSizeBytes|virtual.AttributesMaskSymlinkTarget, &attr)
		switch attr.GetFileType() {
		case filesystem.FileTypeRegularFile:
			perm, _ := attr.GetPermissions()
			size, _ := attr.GetSizeBytes()
			var openAttr virtual.Attributes
			if s := e.Child.VirtualOpenSelf(ctx, virtual.ShareMaskRead, &virtual.OpenExistingOptions{}, 0, &openAttr); s != virtual.StatusOK {
				return nil, fmt.Errorf("open %q: status %v", e.Name, s)
			}
			data := make([]byte, size)
			for off := uint64(0); off < size; {
				nr, eof, s := e.Child.VirtualRead(ctx, data[off:], off)
				if s != virtual.StatusOK {
					e.Child.VirtualClose(virtual.ShareMaskRead)
					return nil, fmt.Errorf("read %q: status %v", e.Name, s)
				}
				off += uint64(nr)
				if eof || nr == 0 {
					break
				}
			}
			e.Child.VirtualClose(virtual.ShareMaskRead)
			n.Children[e.Name.String()] = &Node{Kind: KindFile, Data: data, Exec: perm&virtual.PermissionsExecute != 0}
		case filesystem.FileTypeSymlink:
			target, ok := attr.GetSymlinkTarget()
			if !ok {
				return nil, fmt.Errorf("symlink %q without target", e.Name)
			}
			b, sw := path.EmptyBuilder.Join(path.VoidScopeWalker)
			if err := path.Resolve(target, sw); err != nil {
				return nil, err
			}
			n.Children[e.Name.String()] = &Node{Kind: KindSymlink, Target: b.GetUNIXString()}
		case filesystem.FileTypeFIFO:
			n.Children[e.Name.String()] = &Node{Kind: KindFifo}
		case filesystem.FileTypeSocket:
			n.Children[e.Name.String()] = &Node{Kind: KindSocket}
		default:
			n.Children[e.Name.String()] = &Node{Kind: KindOther}
		}
	}
	return n, nil
}

// RemoveVirtual deletes the node at loc (a list of components below root)
// recursively, the way the action's "rm -rf" would.
func RemoveVirtual(root virtual.PrepopulatedDirectory, loc []string) error {
	d := root
	for _, c := range loc[:len(loc)-1] {
		child, err := d.LookupChild(path.MustNewComponent(c))
		if err != nil {
			return err
		}
		dir, _ := child.GetPair()
		if dir == nil {
			return fmt.Errorf("%q is not a directory", c)
		}
		d = dir
	}
	return d.RemoveAll(path.MustNewComponent(loc[len(loc)-1]))
}
