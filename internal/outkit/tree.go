package outkit

import (
	"fmt"
	"math/rand/v2"
	"os"
	"path/filepath"
	"sort"
	"strings"
	"sync"
	"sync/atomic"
	"syscall"

	remoteexecution "github.com/bazelbuild/remote-apis/build/bazel/remote/execution/v2"
)

// Kind of a node in the file-tree model.
type Kind int

const (
	// KindFile is a regular file.
	KindFile Kind = iota
	// KindDir is a directory.
	KindDir
	// KindSymlink is a symbolic link.
	KindSymlink
	// KindFifo is a named pipe (a "special file").
	KindFifo
	// KindSocket is a UNIX domain socket node (only snapshots produce it).
	KindSocket
	// KindOther is anything else.
	KindOther
)

func (k Kind) String() string {
	return [...]string{"file", "dir", "symlink", "fifo", "socket", "other"}[k]
}

// Node is the harness' own model of a file hierarchy: what the "action"
// produces, independent of any /repo type.
type Node struct {
	Kind     Kind
	Data     []byte
	Exec     bool
	Target   string
	Children map[string]*Node
}

// NewDir creates an empty directory node.
func NewDir() *Node { return &Node{Kind: KindDir, Children: map[string]*Node{}} }

// Names returns the child names in byte order.
func (n *Node) Names() []string {
	names := make([]string, 0, len(n.Children))
	for k := range n.Children {
		names = append(names, k)
	}
	sort.Strings(names)
	return names
}

// Clone deep-copies a node.
func (n *Node) Clone() *Node {
	if n == nil {
		return nil
	}
	c := &Node{Kind: n.Kind, Data: append([]byte(nil), n.Data...), Exec: n.Exec, Target: n.Target}
	if n.Kind == KindDir {
		c.Children = map[string]*Node{}
		for k, v := range n.Children {
			c.Children[k] = v.Clone()
		}
	}
	return c
}

// Lookup walks a list of components; nil if absent or a non-directory is
// in the way.
func (n *Node) Lookup(components []string) *Node {
	cur := n
	for _, c := range components {
		if cur == nil || cur.Kind != KindDir {
			return nil
		}
		cur = cur.Children[c]
	}
	return cur
}

// MkdirAll makes sure the directories along components exist and returns
// the last one; nil if a non-directory is in the way.
func (n *Node) MkdirAll(components []string) *Node {
	cur := n
	for _, c := range components {
		if cur.Kind != KindDir {
			return nil
		}
		next, ok := cur.Children[c]
		if !ok {
			next = NewDir()
			cur.Children[c] = next
		}
		cur = next
	}
	if cur.Kind != KindDir {
		return nil
	}
	return cur
}

// Merge overlays src onto n (both directories): directories are merged,
// everything else replaces.
func (n *Node) Merge(src *Node) {
	for name, c := range src.Children {
		if old, ok := n.Children[name]; ok && old.Kind == KindDir && c.Kind == KindDir {
			old.Merge(c)
		} else {
			n.Children[name] = c.Clone()
		}
	}
}

// AddMissing adds the children of src whose names are not taken yet.
func (n *Node) AddMissing(src *Node) {
	for name, c := range src.Children {
		if _, ok := n.Children[name]; !ok {
			n.Children[name] = c.Clone()
		}
	}
}

// Describe renders the tree compactly and deterministically.
func (n *Node) Describe() string {
	var sb strings.Builder
	n.describe(&sb)
	return sb.String()
}

func (n *Node) describe(sb *strings.Builder) {
	switch n.Kind {
	case KindFile:
		x := ""
		if n.Exec {
			x = "x"
		}
		h, _ := HashOf(remoteexecution.DigestFunction_SHA256, n.Data)
		fmt.Fprintf(sb, "f%s[%d:%s]", x, len(n.Data), h[:8])
	case KindSymlink:
		fmt.Fprintf(sb, "l[%s]", n.Target)
	case KindDir:
		sb.WriteString("{")
		for i, name := range n.Names() {
			if i > 0 {
				sb.WriteString(",")
			}
			sb.WriteString(name)
			sb.WriteString(":")
			n.Children[name].describe(sb)
		}
		sb.WriteString("}")
	default:
		sb.WriteString(n.Kind.String())
	}
}

// Diff lists differences between two trees (a = expected, b = observed).
func Diff(a, b *Node, at string, out *[]string) {
	if len(*out) > 20 {
		return
	}
	if a == nil && b == nil {
		return
	}
	if a == nil {
		*out = append(*out, fmt.Sprintf("%s: unexpected %s", at, b.Kind))
		return
	}
	if b == nil {
		*out = append(*out, fmt.Sprintf("%s: missing %s", at, a.Kind))
		return
	}
	if a.Kind != b.Kind {
		*out = append(*out, fmt.Sprintf("%s: kind %s, want %s", at, b.Kind, a.Kind))
		return
	}
	switch a.Kind {
	case KindFile:
		if a.Exec != b.Exec {
			*out = append(*out, fmt.Sprintf("%s: executable=%v, want %v", at, b.Exec, a.Exec))
		}
		if string(a.Data) != string(b.Data) {
			*out = append(*out, fmt.Sprintf("%s: contents differ (%d bytes, want %d)", at, len(b.Data), len(a.Data)))
		}
	case KindSymlink:
		if !SameTarget(a.Target, b.Target) {
			*out = append(*out, fmt.Sprintf("%s: target %q, want %q", at, b.Target, a.Target))
		}
	case KindDir:
		seen := map[string]bool{}
		for _, name := range a.Names() {
			seen[name] = true
			Diff(a.Children[name], b.Children[name], at+"/"+name, out)
		}
		for _, name := range b.Names() {
			if !seen[name] {
				Diff(nil, b.Children[name], at+"/"+name, out)
			}
		}
	}
}

// StripSpecial returns a copy without FIFOs/sockets/other special files
// (what a Tree message can express).
func (n *Node) StripSpecial() *Node {
	if n.Kind != KindDir {
		return n.Clone()
	}
	c := NewDir()
	for name, ch := range n.Children {
		switch ch.Kind {
		case KindFile, KindSymlink:
			c.Children[name] = ch.Clone()
		case KindDir:
			c.Children[name] = ch.StripSpecial()
		}
	}
	return c
}

// CountKinds counts nodes per kind and the maximum depth.
func (n *Node) CountKinds(counts map[Kind]int, depth int, maxDepth *int) {
	counts[n.Kind]++
	if depth > *maxDepth {
		*maxDepth = depth
	}
	if n.Kind == KindDir {
		for _, c := range n.Children {
			c.CountKinds(counts, depth+1, maxDepth)
		}
	}
}

// HasIdenticalSubdirs tells whether two distinct directories in the tree
// have identical (special-file stripped) contents, ignoring pairs of empty
// directories unless wantEmpty.
func (n *Node) HasIdenticalSubdirs() bool {
	seen := map[string]int{}
	var walk func(x *Node)
	walk = func(x *Node) {
		if x.Kind != KindDir {
			return
		}
		seen[x.StripSpecial().Describe()]++
		for _, c := range x.Children {
			walk(c)
		}
	}
	walk(n)
	for _, v := range seen {
		if v > 1 {
			return true
		}
	}
	return false
}

// --- on-disk materialisation and snapshots --------------------------------

// Materialize creates the children of dir node n below the existing
// directory abs. Existing directories are merged into.
func Materialize(abs string, n *Node) error {
	if n.Kind != KindDir {
		return fmt.Errorf("outkit: Materialize needs a directory node")
	}
	for _, name := range n.Names() {
		c := n.Children[name]
		p := filepath.Join(abs, name)
		switch c.Kind {
		case KindFile:
			mode := os.FileMode(0o644)
			if c.Exec {
				mode = 0o755
			}
			if err := os.WriteFile(p, c.Data, mode); err != nil {
				return err
			}
			if err := os.Chmod(p, mode); err != nil {
				return err
			}
		case KindSymlink:
			if err := os.Symlink(c.Target, p); err != nil {
				return err
			}
		case KindFifo:
			if err := syscall.Mkfifo(p, 0o644); err != nil {
				return err
			}
		case KindDir:
			if err := os.Mkdir(p, 0o777); err != nil && !os.IsExist(err) {
				return err
			}
			if err := Materialize(p, c); err != nil {
				return err
			}
		default:
			return fmt.Errorf("outkit: cannot materialise %s", c.Kind)
		}
	}
	return nil
}

// Snapshot reads the hierarchy below abs with plain os calls.
func Snapshot(abs string) (*Node, error) {
	fi, err := os.Lstat(abs)
	if err != nil {
		return nil, err
	}
	return snapshot(abs, fi)
}

func snapshot(abs string, fi os.FileInfo) (*Node, error) {
	m := fi.Mode()
	switch {
	case m.IsDir():
		n := NewDir()
		entries, err := os.ReadDir(abs)
		if err != nil {
			return nil, err
		}
		for _, e := range entries {
			cfi, err := os.Lstat(filepath.Join(abs, e.Name()))
			if err != nil {
				return nil, err
			}
			c, err := snapshot(filepath.Join(abs, e.Name()), cfi)
			if err != nil {
				return nil, err
			}
			n.Children[e.Name()] = c
		}
		return n, nil
	case m&os.ModeSymlink != 0:
		t, err := os.Readlink(abs)
		if err != nil {
			return nil, err
		}
		return &Node{Kind: KindSymlink, Target: t}, nil
	case m&os.ModeNamedPipe != 0:
		return &Node{Kind: KindFifo}, nil
	case m&os.ModeSocket != 0:
		return &Node{Kind: KindSocket}, nil
	case m.IsRegular():
		data, err := os.ReadFile(abs)
		if err != nil {
			return nil, err
		}
		return &Node{Kind: KindFile, Data: data, Exec: m&0o111 != 0}, nil
	}
	return &Node{Kind: KindOther}, nil
}

// --- generators -------------------------------------------------------------

// GenOptions steers GenDir.
type GenOptions struct {
	MaxDepth   int
	MaxEntries int
	Special    bool // allow FIFOs
	Symlinks   bool
	// Pool of file contents to draw from (forces duplicate digests).
	Contents [][]byte
}

var genNames = []string{"a", "b", "c", "d", "e", "f0", "g.txt", "H", "lib", "obj", "out", "z z", "ü", "-x", "sub", "x.o", "y.o"}

var genTargets = []string{"a", "../b", "/abs/target", "sub/x.o", ".", "..", "./q", "p//q", "dir/", "a/../b", "/", "../../../up", "x/./y",
	// Longer than the initial readlink() buffer of the local directory.
	strings.Repeat("long/", 60) + "x"}

// GenContents returns a small pool of distinct byte strings including the
// empty one.
func GenContents(rng *rand.Rand, n int) [][]byte {
	pool := [][]byte{{}}
	for i := 1; i < n; i++ {
		l := 1 + rng.IntN(40)
		if rng.IntN(8) == 0 {
			l = 1000 + rng.IntN(9000)
		}
		if rng.IntN(50) == 0 {
			// Just larger than the chunk size used by the buffer layer.
			l = 66000 + rng.IntN(4000)
		}
		b := make([]byte, l)
		for j := range b {
			b[j] = byte('a' + rng.IntN(26))
		}
		// Make every content unique by a prefix.
		pool = append(pool, append([]byte(fmt.Sprintf("%d:", i)), b...))
	}
	return pool
}

// GenDir generates a directory node.
func GenDir(rng *rand.Rand, o GenOptions, depth int) *Node {
	n := NewDir()
	if o.MaxEntries <= 0 {
		return n
	}
	count := rng.IntN(o.MaxEntries + 1)
	var template *Node
	for i := 0; i < count; i++ {
		name := genNames[rng.IntN(len(genNames))]
		if _, ok := n.Children[name]; ok {
			continue
		}
		r := rng.IntN(100)
		switch {
		case r < 45:
			n.Children[name] = &Node{Kind: KindFile, Data: o.Contents[rng.IntN(len(o.Contents))], Exec: rng.IntN(3) == 0}
		case r < 80 && depth < o.MaxDepth:
			if template != nil && rng.IntN(2) == 0 {
				// Repeated identical subdirectory.
				n.Children[name] = template.Clone()
			} else {
				c := GenDir(rng, o, depth+1)
				n.Children[name] = c
				template = c
			}
		case r < 90 && o.Symlinks:
			n.Children[name] = &Node{Kind: KindSymlink, Target: genTargets[rng.IntN(len(genTargets))]}
		case r < 94 && o.Special:
			n.Children[name] = &Node{Kind: KindFifo}
		default:
			n.Children[name] = &Node{Kind: KindFile, Data: o.Contents[rng.IntN(len(o.Contents))]}
		}
	}
	return n
}

// GenDeepDir generates a narrow chain of the given depth with a file at
// the bottom and optional identical siblings on the way.
func GenDeepDir(rng *rand.Rand, depth int, contents [][]byte) *Node {
	leaf := NewDir()
	leaf.Children["leaf"] = &Node{Kind: KindFile, Data: contents[rng.IntN(len(contents))]}
	cur := leaf
	for i := 0; i < depth; i++ {
		p := NewDir()
		p.Children["d"] = cur
		if rng.IntN(3) == 0 {
			// The same small directory at many levels (cloning cur
			// would grow exponentially).
			p.Children["twin"] = leaf.Clone()
		}
		cur = p
	}
	return cur
}

// GenWideDir generates one directory with many entries.
func GenWideDir(rng *rand.Rand, width int, contents [][]byte) *Node {
	n := NewDir()
	var small [][]byte
	for _, c := range contents {
		if len(c) < 20000 {
			small = append(small, c)
		}
	}
	contents = small
	for i := 0; i < width; i++ {
		name := fmt.Sprintf("w%03d", i)
		switch rng.IntN(4) {
		case 0:
			c := NewDir()
			c.Children["same"] = &Node{Kind: KindFile, Data: contents[0]}
			n.Children[name] = c
		default:
			n.Children[name] = &Node{Kind: KindFile, Data: contents[rng.IntN(len(contents))], Exec: i%5 == 0}
		}
	}
	return n
}

// ParallelFor runs fn(i) for i in [0,n) on the given number of worker
// goroutines (cases must be independent of each other).
func ParallelFor(n, workers int, fn func(i int)) {
	if workers < 1 {
		workers = 1
	}
	var next atomic.Int64
	var wg sync.WaitGroup
	for w := 0; w < workers; w++ {
		wg.Add(1)
		go func() {
			defer wg.Done()
			for {
				i := int(next.Add(1)) - 1
				if i >= n {
					return
				}
				fn(i)
			}
		}()
	}
	wg.Wait()
}

// --- path handling (independent of bb-storage's path package) -------------

// Normalize resolves p lexically against the component stack base, the way
// REv2 output paths are defined: relative, "/" separated, "." and empty
// components ignored, ".." removes the previous component. ok is false when
// the path is absolute, contains a NUL byte, or climbs above the root.
func Normalize(base []string, p string) (stack []string, ok bool) {
	if strings.ContainsRune(p, 0) {
		return nil, false
	}
	if strings.HasPrefix(p, "/") {
		return nil, false
	}
	stack = append([]string(nil), base...)
	for _, c := range strings.Split(p, "/") {
		switch c {
		case "", ".":
		case "..":
			if len(stack) == 0 {
				return nil, false
			}
			stack = stack[:len(stack)-1]
		default:
			stack = append(stack, c)
		}
	}
	return stack, true
}

// canonTarget reduces a symlink target to (absolute, components) with "."
// and empty components dropped; ".." is kept (it may follow a symlink),
// except directly below an absolute root.
func canonTarget(t string) (bool, []string) {
	abs := strings.HasPrefix(t, "/")
	var comps []string
	for _, c := range strings.Split(t, "/") {
		switch c {
		case "", ".":
		case "..":
			if abs && len(comps) == 0 {
				continue
			}
			comps = append(comps, c)
		default:
			comps = append(comps, c)
		}
	}
	return abs, comps
}

// SameTarget compares two symlink targets up to redundant separators and
// "." components (a trailing slash is not significant for the comparison).
func SameTarget(a, b string) bool {
	aa, ac := canonTarget(a)
	ba, bc := canonTarget(b)
	if aa != ba || len(ac) != len(bc) {
		return false
	}
	for i := range ac {
		if ac[i] != bc[i] {
			return false
		}
	}
	return true
}
