package vfsh

import (
	"sort"
	"strings"

	"github.com/buildbarn/bb-remote-execution/pkg/filesystem/virtual"
)

// Kind of a node of the reference hierarchy.
type Kind int

// Node kinds.
const (
	KDir Kind = iota
	KFile
	KSymlink
	KFIFO
	KSocket
	KBlock // only as an argument of mknod, never created
)

func (k Kind) String() string {
	return [...]string{"dir", "file", "symlink", "fifo", "socket", "block"}[k]
}

// Status codes shared by the model and the executor.
const (
	OK        = "OK"
	EIO       = "EIO"
	ENOENT    = "ENOENT"
	EEXIST    = "EEXIST"
	EISDIR    = "EISDIR"
	ENOTDIR   = "ENOTDIR"
	ENOTEMPTY = "ENOTEMPTY"
	EPERM     = "EPERM"
	EXDEV     = "EXDEV"
	ESTALE    = "ESTALE"
	ESYMLINK  = "ESYMLINK"
	EINVAL    = "EINVAL"
	EFETCH    = "EFETCH" // error of the InitialContentsFetcher passed through by worker-facing calls
)

// LazyChild describes one child of a lazily fetched directory.
type LazyChild struct {
	Kind   Kind
	Target string
	Sub    *LazySpec

	real virtual.LinkableLeaf // set by the real fetcher
}

// LazySpec describes the contents an InitialContentsFetcher will yield.
type LazySpec struct {
	ID       int
	Children map[string]*LazyChild
	Failures int // FetchContents fails this many times first
}

// Entry is one directory entry instance (one attach).
type Entry struct {
	Name string
	Norm string
	Node *Node
	Seq  int
}

type snap struct{ mv, yv int }

// Node is a directory or a leaf of the reference hierarchy.
type Node struct {
	ID     int
	Kind   Kind
	Target string
	Nlink  int
	FS     int // directories: the hierarchy ("file system") they belong to

	Entries  []*Entry
	Deleted  bool
	Lazy     *LazySpec
	lazyLeft int

	// Change tracking: mv counts definite modifications, yv counts events
	// after which the change ID may or may not have moved (lazy
	// materialisation, discarding never-materialised contents).
	mv, yv int
	obs    struct {
		known bool
		at    snap
		val   uint64
	}

	// Binding to the real object.
	Bound    bool
	RealDir  virtual.PrepopulatedDirectory
	RealLeaf virtual.Leaf
	Ino      uint64
	spec     *LazyChild
	Fetcher  *Fetcher
}

func (n *Node) snap() snap { return snap{n.mv, n.yv} }

// IsDir tells whether the node is a directory.
func (n *Node) IsDir() bool { return n.Kind == KDir }

// Model is the reference hierarchy.
type Model struct {
	CI       bool
	Hidden   bool
	Shared   bool // symlinks with equal targets are one node
	Nodes    []*Node
	Root     *Node
	Roots    []*Node
	symlinks map[string]*Node
	Sessions []*Session
	seq      int
	specSeq  int

	// Situations observed while executing model operations.
	Sit map[string]int
}

// NewModel creates a model with an empty root.
func NewModel(cfg Config, shared bool) *Model {
	m := &Model{CI: cfg.CaseInsensitive, Hidden: cfg.HiddenPattern, Shared: shared, symlinks: map[string]*Node{}, Sit: map[string]int{}}
	m.Root = m.newNode(KDir)
	m.Root.Lazy = &LazySpec{Children: map[string]*LazyChild{}} // EmptyInitialContentsFetcher
	m.Roots = []*Node{m.Root}
	return m
}

// NewForeignRoot adds the root of another hierarchy. Directories cannot be
// moved between hierarchies (EXDEV), leaves can.
func (m *Model) NewForeignRoot() *Node {
	n := m.newNode(KDir)
	n.Lazy = &LazySpec{Children: map[string]*LazyChild{}}
	n.FS = len(m.Roots)
	m.Roots = append(m.Roots, n)
	return n
}

func (m *Model) sit(name string) { m.Sit[name]++ }

func (m *Model) newNode(k Kind) *Node {
	n := &Node{ID: len(m.Nodes), Kind: k}
	m.Nodes = append(m.Nodes, n)
	return n
}

func (m *Model) newDir(lazy *LazySpec, fs int) *Node {
	n := m.newNode(KDir)
	n.FS = fs
	if lazy == nil {
		lazy = &LazySpec{Children: map[string]*LazyChild{}}
	}
	n.Lazy = lazy
	n.lazyLeft = lazy.Failures
	return n
}

// newLeaf creates a leaf with one link reference.
func (m *Model) newLeaf(k Kind, target string) *Node {
	if k == KSymlink && m.Shared {
		if n, ok := m.symlinks[target]; ok {
			n.Nlink++
			return n
		}
	}
	n := m.newNode(k)
	n.Target = target
	n.Nlink = 1
	if k == KSymlink && m.Shared {
		m.symlinks[target] = n
	}
	return n
}

// Norm normalises a name.
func (m *Model) Norm(name string) string {
	if m.CI {
		return strings.ToLower(name)
	}
	return name
}

// IsHidden tells whether a leaf of this name is hidden from listings.
func (m *Model) IsHidden(name string) bool {
	return m.Hidden && strings.HasPrefix(name, "._")
}

// Find returns the entry of d that name resolves to, or nil.
func (m *Model) Find(d *Node, name string) *Entry { return m.find(d, name) }

func (m *Model) find(d *Node, name string) *Entry {
	norm := m.Norm(name)
	for _, e := range d.Entries {
		if e.Norm == norm {
			return e
		}
	}
	return nil
}

func (m *Model) attach(d *Node, name string, n *Node) *Entry {
	if d.Deleted || m.find(d, name) != nil {
		panic("vfsh model: invalid attach")
	}
	m.seq++
	e := &Entry{Name: name, Norm: m.Norm(name), Node: n, Seq: m.seq}
	d.Entries = append(d.Entries, e)
	d.mv++
	return e
}

func (m *Model) detach(d *Node, e *Entry) {
	for i, x := range d.Entries {
		if x == e {
			d.Entries = append(d.Entries[:i:i], d.Entries[i+1:]...)
			d.mv++
			for _, s := range m.Sessions {
				if s.Dir == d && !s.Done {
					s.noteDetach(e)
				}
			}
			return
		}
	}
	panic("vfsh model: detach of unknown entry")
}

// linkLeaf mirrors LinkableLeaf.Link().
func (m *Model) linkLeaf(n *Node) string {
	switch n.Kind {
	case KSymlink:
		if !m.Shared {
			return OK // FUSE: stateless leaves do not count links
		}
	}
	if n.Nlink == 0 {
		return ESTALE
	}
	n.Nlink++
	return OK
}

func (m *Model) unlinkLeaf(n *Node) {
	if n.Kind == KSymlink && !m.Shared {
		if n.Nlink > 0 {
			n.Nlink--
		}
		return
	}
	if n.Nlink <= 0 {
		panic("vfsh model: unlink of leaf without links")
	}
	n.Nlink--
	if n.Nlink == 0 && n.Kind == KSymlink {
		delete(m.symlinks, n.Target)
	}
}

// materialize mirrors getContents(): returns false if the fetcher fails.
func (m *Model) materialize(d *Node) bool {
	if d.Lazy == nil {
		return true
	}
	if d.lazyLeft > 0 {
		d.lazyLeft--
		m.sit("lazy-fetch-failed")
		return false
	}
	spec := d.Lazy
	if spec.Failures > 0 {
		m.sit("lazy-fetch-succeeded-after-failure")
	}
	d.Lazy = nil
	names := make([]string, 0, len(spec.Children))
	for name := range spec.Children {
		names = append(names, name)
	}
	sort.Strings(names)
	mv := d.mv
	for _, name := range names {
		c := spec.Children[name]
		var n *Node
		if c.Kind == KDir {
			n = m.newDir(c.Sub, d.FS)
		} else {
			n = m.newLeaf(c.Kind, c.Target)
			n.spec = c
		}
		m.attach(d, name, n)
	}
	// Materialisation is not a modification of the directory: the change
	// ID may or may not move.
	if d.mv != mv {
		d.mv = mv
		d.yv++
	}
	return true
}

func (m *Model) deletable(d *Node) bool {
	for _, e := range d.Entries {
		if e.Node.IsDir() || !m.IsHidden(e.Name) {
			return false
		}
	}
	return true
}

func (m *Model) markDeleted(d *Node) {
	if d.Deleted {
		return
	}
	for len(d.Entries) > 0 {
		e := d.Entries[0]
		m.detach(d, e)
		m.unlinkLeaf(e.Node)
	}
	d.Deleted = true
}

func (m *Model) removeAllChildren(d *Node, deleteSelf bool) {
	if d.Lazy != nil {
		if len(d.Lazy.Children) > 0 {
			d.yv++
		}
		d.Lazy = nil
		if deleteSelf {
			m.markDeleted(d)
		}
		return
	}
	entries := append([]*Entry(nil), d.Entries...)
	for _, e := range entries {
		m.detach(d, e)
	}
	if deleteSelf {
		m.markDeleted(d)
	}
	for _, e := range entries {
		m.dispose(e.Node)
	}
}

// dispose releases one detached reference to a node.
func (m *Model) dispose(n *Node) {
	if n.IsDir() {
		m.removeAllChildren(n, true)
	} else {
		m.unlinkLeaf(n)
	}
}

// InSubtree tells whether x is d or lies below d (materialised part only).
func (m *Model) InSubtree(d, x *Node) bool {
	if d == x {
		return true
	}
	seen := map[*Node]bool{}
	var walk func(n *Node) bool
	walk = func(n *Node) bool {
		if seen[n] {
			return false
		}
		seen[n] = true
		for _, e := range n.Entries {
			if e.Node == x {
				return true
			}
			if e.Node.IsDir() && walk(e.Node) {
				return true
			}
		}
		return false
	}
	return walk(d)
}

// ---- results -----------------------------------------------------------

// CIExpect is the expectation about one ChangeInfo.
type CIExpect struct {
	Dir      *Node
	before   snap
	Modified bool
}

// ListEnt is one expected listing entry.
type ListEnt struct {
	Name string
	Kind Kind
	Node *Node
}

// Result is what the model expects from one operation.
type Result struct {
	Status  string
	Node    *Node
	CI      []*CIExpect
	Dirs    []ListEnt // LookupAllChildren: directories; ReadDir: everything
	Leaves  []ListEnt
	Created bool // OpenChild created a file
}

func fail(s string) Result { return Result{Status: s} }

func (m *Model) ci(d *Node) *CIExpect { return &CIExpect{Dir: d, before: d.snap()} }

func (c *CIExpect) done() *CIExpect {
	c.Modified = c.Dir.mv != c.before.mv
	return c
}

// ---- kernel-facing operations -------------------------------------------

// Lookup mirrors VirtualLookup and LookupChild (fetchErr selects the code
// reported when the fetcher fails).
func (m *Model) Lookup(d *Node, name, fetchErr string) Result {
	if !m.materialize(d) {
		return fail(fetchErr)
	}
	if e := m.find(d, name); e != nil {
		if e.Name != name {
			m.sit("case-variant-hit")
		}
		return Result{Status: OK, Node: e.Node}
	}
	return fail(ENOENT)
}

// OpenChild mirrors VirtualOpenChild.
func (m *Model) OpenChild(d *Node, name string, create, existing, failAlloc bool) Result {
	if !m.materialize(d) {
		return fail(EIO)
	}
	if e := m.find(d, name); e != nil {
		if !existing {
			if e.Name != name {
				m.sit("case-variant-collision")
			}
			return fail(EEXIST)
		}
		if e.Node.IsDir() {
			return fail(EISDIR)
		}
		if e.Node.Kind != KFile {
			return Result{Status: ESYMLINK, Node: e.Node}
		}
		c := m.ci(d)
		return Result{Status: OK, Node: e.Node, CI: []*CIExpect{c.done()}}
	}
	if d.Deleted {
		if create {
			m.sit("create-in-removed-directory")
		}
		return fail(ENOENT)
	}
	if !create {
		return fail(ENOENT)
	}
	if failAlloc {
		return fail(EIO)
	}
	c := m.ci(d)
	n := m.newLeaf(KFile, "")
	m.attach(d, name, n)
	return Result{Status: OK, Node: n, CI: []*CIExpect{c.done()}, Created: true}
}

func (m *Model) mayAttach(d *Node, name string) string {
	if d.Deleted {
		m.sit("create-in-removed-directory")
		return ENOENT
	}
	if e := m.find(d, name); e != nil {
		if e.Name != name {
			m.sit("case-variant-collision")
		}
		return EEXIST
	}
	return OK
}

// Mkdir mirrors VirtualMkdir.
func (m *Model) Mkdir(d *Node, name string) Result {
	if !m.materialize(d) {
		return fail(EIO)
	}
	if s := m.mayAttach(d, name); s != OK {
		return fail(s)
	}
	c := m.ci(d)
	n := m.newDir(nil, d.FS)
	m.attach(d, name, n)
	return Result{Status: OK, Node: n, CI: []*CIExpect{c.done()}}
}

// Mknod mirrors VirtualMknod. badTarget: the symlink factory rejects it.
func (m *Model) Mknod(d *Node, name string, k Kind, target string, badTarget bool) Result {
	if !m.materialize(d) {
		return fail(EIO)
	}
	if s := m.mayAttach(d, name); s != OK {
		return fail(s)
	}
	switch k {
	case KFIFO, KSocket:
	case KSymlink:
		if badTarget {
			return fail(EIO)
		}
	default:
		return fail(EPERM)
	}
	c := m.ci(d)
	n := m.newLeaf(k, target)
	m.attach(d, name, n)
	return Result{Status: OK, Node: n, CI: []*CIExpect{c.done()}}
}

// Link mirrors VirtualLink.
func (m *Model) Link(d *Node, name string, leaf *Node) Result {
	if !m.materialize(d) {
		return fail(EIO)
	}
	if s := m.mayAttach(d, name); s != OK {
		return fail(s)
	}
	if s := m.linkLeaf(leaf); s != OK {
		m.sit("link-stale-leaf")
		return fail(s)
	}
	c := m.ci(d)
	m.attach(d, name, leaf)
	if leaf.Nlink > 1 {
		m.sit("hard-link-created")
	}
	return Result{Status: OK, Node: leaf, CI: []*CIExpect{c.done()}}
}

// Remove mirrors VirtualRemove (errno=false) and Remove (errno=true).
func (m *Model) Remove(d *Node, name string, rmDir, rmLeaf bool, fetchErr string) Result {
	if !m.materialize(d) {
		return fail(fetchErr)
	}
	e := m.find(d, name)
	if e == nil {
		return fail(ENOENT)
	}
	if e.Node.IsDir() {
		if !rmDir {
			return fail(EPERM)
		}
		if !m.materialize(e.Node) {
			return fail(fetchErr)
		}
		if !m.deletable(e.Node) {
			return fail(ENOTEMPTY)
		}
		if len(e.Node.Entries) > 0 {
			m.sit("rmdir-with-only-hidden-files")
		}
		m.markDeleted(e.Node)
	} else {
		if !rmLeaf {
			return fail(ENOTDIR)
		}
		m.unlinkLeaf(e.Node)
	}
	c := m.ci(d)
	m.detach(d, e)
	return Result{Status: OK, CI: []*CIExpect{c.done()}}
}

// Rename mirrors VirtualRename.
func (m *Model) Rename(dOld *Node, oldName string, dNew *Node, newName string) Result {
	if !m.materialize(dOld) {
		return fail(EIO)
	}
	if !m.materialize(dNew) {
		return fail(EIO)
	}
	cOld, cNew := m.ci(dOld), m.ci(dNew)
	ok := func() Result {
		return Result{Status: OK, CI: []*CIExpect{cOld.done(), cNew.done()}}
	}
	cross := "same-dir"
	if dOld != dNew {
		cross = "cross-dir"
	}
	if newE := m.find(dNew, newName); newE != nil {
		oldE := m.find(dOld, oldName)
		if oldE == nil {
			return fail(ENOENT)
		}
		if newE.Node.IsDir() {
			if !oldE.Node.IsDir() {
				m.sit("rename-file-onto-dir")
				return fail(EISDIR)
			}
			if newE.Node == oldE.Node {
				m.sit("rename-dir-onto-itself")
				return ok()
			}
			if dOld.FS != dNew.FS {
				m.sit("rename-directory-across-file-systems")
				return fail(EXDEV)
			}
			if !m.materialize(newE.Node) {
				return fail(EIO)
			}
			if !m.deletable(newE.Node) {
				m.sit("rename-dir-onto-nonempty-dir")
				return fail(ENOTEMPTY)
			}
			m.sit("rename-dir-onto-empty-dir")
			m.sit("rename-" + cross)
			m.detach(dOld, oldE)
			m.detach(dNew, newE)
			m.markDeleted(newE.Node)
			m.attach(dNew, newName, oldE.Node)
			return ok()
		}
		if oldE.Node.IsDir() {
			m.sit("rename-dir-onto-file")
			return fail(ENOTDIR)
		}
		if newE.Node == oldE.Node {
			if newE == oldE {
				m.sit("rename-onto-itself")
			} else {
				m.sit("rename-hard-link-onto-itself")
			}
			return ok()
		}
		m.sit("rename-file-onto-file")
		m.sit("rename-" + cross)
		m.detach(dOld, oldE)
		m.detach(dNew, newE)
		m.unlinkLeaf(newE.Node)
		m.attach(dNew, newName, oldE.Node)
		return ok()
	}
	if dNew.Deleted {
		m.sit("rename-into-removed-directory")
		return fail(ENOENT)
	}
	oldE := m.find(dOld, oldName)
	if oldE == nil {
		return fail(ENOENT)
	}
	if oldE.Node.IsDir() && dOld.FS != dNew.FS {
		m.sit("rename-directory-across-file-systems")
		return fail(EXDEV)
	}
	if dOld.FS != dNew.FS {
		m.sit("rename-leaf-across-file-systems")
	}
	m.sit("rename-to-new-name")
	m.sit("rename-" + cross)
	m.detach(dOld, oldE)
	m.attach(dNew, newName, oldE.Node)
	return ok()
}

// ---- worker-facing operations ---------------------------------------------

// List mirrors LookupAllChildren and ReadDir: hidden leaves are left out.
func (m *Model) List(d *Node) Result {
	if !m.materialize(d) {
		return fail(EFETCH)
	}
	r := Result{Status: OK}
	for _, e := range d.Entries {
		le := ListEnt{Name: e.Name, Kind: e.Node.Kind, Node: e.Node}
		if e.Node.IsDir() {
			r.Dirs = append(r.Dirs, le)
		} else if !m.IsHidden(e.Name) {
			r.Leaves = append(r.Leaves, le)
		}
	}
	sort.Slice(r.Dirs, func(i, j int) bool { return r.Dirs[i].Name < r.Dirs[j].Name })
	sort.Slice(r.Leaves, func(i, j int) bool { return r.Leaves[i].Name < r.Leaves[j].Name })
	return r
}

// Visible returns the entries VirtualReadDir must report.
func (m *Model) Visible(d *Node) []*Entry {
	var out []*Entry
	for _, e := range d.Entries {
		if e.Node.IsDir() || !m.IsHidden(e.Name) {
			out = append(out, e)
		}
	}
	return out
}

// RemoveAll mirrors RemoveAll.
func (m *Model) RemoveAll(d *Node, name string) Result {
	if !m.materialize(d) {
		return fail(EFETCH)
	}
	e := m.find(d, name)
	if e == nil {
		return fail(ENOENT)
	}
	m.detach(d, e)
	m.dispose(e.Node)
	return Result{Status: OK}
}

// RemoveAllChildren mirrors RemoveAllChildren.
func (m *Model) RemoveAllChildren(d *Node, forbid bool) Result {
	m.removeAllChildren(d, forbid)
	return Result{Status: OK}
}

// NewChild is one element of a CreateChildren call.
type NewChild struct {
	Name string
	Kind Kind
	Lazy *LazySpec // directories
	Node *Node     // existing leaf to hard-link (already Link()ed), or nil
	Targ string
}

// CreateChildren mirrors CreateChildren. linkStatus is filled by the caller
// for children that are extra links to existing leaves.
func (m *Model) CreateChildren(d *Node, children []NewChild, overwrite bool) Result {
	if !m.materialize(d) {
		return fail(EFETCH)
	}
	if d.Deleted {
		m.sit("create-in-removed-directory")
		return fail(ENOENT)
	}
	var overwritten []*Entry
	if overwrite {
		for _, c := range children {
			if e := m.find(d, c.Name); e != nil {
				m.detach(d, e)
				overwritten = append(overwritten, e)
			}
		}
	} else {
		for _, c := range children {
			if e := m.find(d, c.Name); e != nil {
				if e.Name != c.Name {
					m.sit("case-variant-collision")
				}
				return fail(EEXIST)
			}
		}
	}
	r := Result{Status: OK}
	for _, c := range children {
		var n *Node
		switch {
		case c.Kind == KDir:
			n = m.newDir(c.Lazy, d.FS)
		case c.Node != nil:
			n = c.Node
		default:
			n = m.newLeaf(c.Kind, c.Targ)
		}
		m.attach(d, c.Name, n)
		r.Leaves = append(r.Leaves, ListEnt{Name: c.Name, Kind: n.Kind, Node: n})
	}
	if len(overwritten) > 0 {
		m.sit("createchildren-overwrite")
	}
	for _, e := range overwritten {
		m.dispose(e.Node)
	}
	return r
}

// Enter mirrors CreateAndEnterPrepopulatedDirectory.
func (m *Model) Enter(d *Node, name string) Result {
	if !m.materialize(d) {
		return fail(EFETCH)
	}
	if e := m.find(d, name); e != nil {
		if e.Node.IsDir() {
			return Result{Status: OK, Node: e.Node}
		}
		m.sit("enter-replaces-leaf")
		m.detach(d, e)
		m.unlinkLeaf(e.Node)
		n := m.newDir(nil, d.FS)
		m.attach(d, name, n)
		return Result{Status: OK, Node: n}
	}
	if d.Deleted {
		m.sit("create-in-removed-directory")
		return fail(ENOENT)
	}
	n := m.newDir(nil, d.FS)
	m.attach(d, name, n)
	return Result{Status: OK, Node: n}
}

// ---- paginated listings -----------------------------------------------------

// Session is one paginated VirtualReadDir listing in progress.
type Session struct {
	ID       int
	Dir      *Node
	PageSize int
	Locked   bool // request attributes that need the child directory's lock
	Cookie   uint64
	Started  bool
	Done     bool
	Pages    int

	initial      map[*Entry]bool
	removed      map[*Entry]bool
	reported     map[*Entry]int
	last         *Entry
	lastDetached bool
	Mutations    int // detaches of the directory while the listing was in progress
}

func (s *Session) noteDetach(e *Entry) {
	s.Mutations++
	if s.initial[e] {
		s.removed[e] = true
	}
	if s.last == e {
		s.lastDetached = true
	}
}

// NewSession registers a listing over d.
func (m *Model) NewSession(d *Node, pageSize int, locked bool) *Session {
	s := &Session{ID: len(m.Sessions), Dir: d, PageSize: pageSize, Locked: locked}
	m.Sessions = append(m.Sessions, s)
	return s
}

// Reported is one entry reported by the real VirtualReadDir.
type Reported struct {
	Name       string
	NextCookie uint64
	IsDir      bool
	Ino        uint64
	FileType   string
}

// Page feeds one page of real results into the session and returns the rules
// that were broken. status is the real status code; end tells whether the
// real call reached the end of the directory.
func (m *Model) Page(s *Session, status string, entries []Reported, end bool) []string {
	var bad []string
	if !s.Started {
		if !m.materialize(s.Dir) {
			if status != EIO {
				bad = append(bad, "readdir-status want="+EIO+" got="+status)
			}
			return bad
		}
		s.Started = true
		s.initial = map[*Entry]bool{}
		s.removed = map[*Entry]bool{}
		s.reported = map[*Entry]int{}
		for _, e := range m.Visible(s.Dir) {
			s.initial[e] = true
		}
	}
	if status != OK {
		bad = append(bad, "readdir-status want="+OK+" got="+status)
		s.Done = true
		return bad
	}
	if s.lastDetached {
		m.sit("listing-resumed-after-cookie-entry-detached")
		s.lastDetached = false
	}
	s.Pages++
	for _, r := range entries {
		e := m.find(s.Dir, r.Name)
		switch {
		case e == nil || e.Name != r.Name:
			bad = append(bad, "readdir-reported-nonexistent-entry")
			continue
		case !e.Node.IsDir() && m.IsHidden(e.Name):
			bad = append(bad, "readdir-reported-hidden-leaf")
		case e.Node.IsDir() != r.IsDir:
			bad = append(bad, "readdir-entry-kind")
		case e.Node.Bound && e.Node.Ino != r.Ino:
			bad = append(bad, "readdir-entry-identity")
		}
		s.reported[e]++
		if s.reported[e] > 1 {
			bad = append(bad, "readdir-entry-reported-twice")
		}
		s.Cookie = r.NextCookie
		s.last = e
	}
	if end {
		s.Done = true
		missed := 0
		for e := range s.initial {
			if !s.removed[e] && s.reported[e] == 0 {
				missed++
			}
		}
		if missed > 0 {
			bad = append(bad, "readdir-missed-entry-present-throughout")
		}
		if s.Pages > 1 && s.Mutations > 0 {
			m.sit("listing-paginated-under-mutation")
		}
		if s.Pages > 1 {
			m.sit("listing-paginated")
		}
	}
	return bad
}

// ---- change IDs ------------------------------------------------------------

// ObserveChange feeds an observed change ID of d (taken at model state at)
// and returns the broken rule, if any.
func (m *Model) observeAt(d *Node, at snap, v uint64) string {
	if d.obs.known && (at.mv < d.obs.at.mv || (at.mv == d.obs.at.mv && at.yv < d.obs.at.yv)) {
		// Older than what was already observed (second ChangeInfo of a
		// rename within one directory): nothing to learn.
		return ""
	}
	defer func() {
		d.obs.known, d.obs.at, d.obs.val = true, at, v
	}()
	if !d.obs.known {
		return ""
	}
	switch {
	case at.mv > d.obs.at.mv:
		if v <= d.obs.val {
			return "change-id-not-increased-by-modification"
		}
	case at.yv > d.obs.at.yv:
		if v < d.obs.val {
			return "change-id-decreased"
		}
	default:
		if v != d.obs.val {
			return "change-id-changed-without-modification"
		}
	}
	return ""
}

// ObserveChange feeds a change ID of d read at the current model state.
func (m *Model) ObserveChange(d *Node, v uint64) string { return m.observeAt(d, d.snap(), v) }

// ObserveChangeInfo checks a ChangeInfo pair against the expectation.
func (m *Model) ObserveChangeInfo(c *CIExpect, before, after uint64) []string {
	var bad []string
	if r := m.observeAt(c.Dir, c.before, before); r != "" {
		bad = append(bad, r+"(before)")
	}
	if c.Modified && after <= before {
		bad = append(bad, "changeinfo-after-not-greater-on-modification")
	}
	if !c.Modified && after != before {
		bad = append(bad, "changeinfo-differs-without-modification")
	}
	if r := m.observeAt(c.Dir, c.Dir.snap(), after); r != "" {
		bad = append(bad, r+"(after)")
	}
	return bad
}
