package vfsh

import (
	"context"
	"fmt"
	"sort"
	"syscall"

	remoteexecution "github.com/bazelbuild/remote-apis/build/bazel/remote/execution/v2"
	"github.com/buildbarn/bb-remote-execution/pkg/filesystem/virtual"
	"github.com/buildbarn/bb-remote-execution/pkg/proto/outputpathpersistency"
	"github.com/buildbarn/bb-storage/pkg/blobstore"
	"github.com/buildbarn/bb-storage/pkg/blobstore/buffer"
	"github.com/buildbarn/bb-storage/pkg/digest"
	"github.com/buildbarn/bb-storage/pkg/filesystem"
	"github.com/buildbarn/bb-storage/pkg/filesystem/path"
)

const (
	// MaskBasic is requested from every node the harness sees.
	MaskBasic = virtual.AttributesMaskFileType | virtual.AttributesMaskInodeNumber | virtual.AttributesMaskLinkCount
	// MaskLocked additionally needs the lock of the directory it describes.
	MaskLocked = MaskBasic | virtual.AttributesMaskChangeID | virtual.AttributesMaskLastDataModificationTime
)

// StatusName maps a virtual.Status to the shared status codes.
func StatusName(s virtual.Status) string {
	switch s {
	case virtual.StatusOK:
		return OK
	case virtual.StatusErrIO:
		return EIO
	case virtual.StatusErrNoEnt:
		return ENOENT
	case virtual.StatusErrExist:
		return EEXIST
	case virtual.StatusErrIsDir:
		return EISDIR
	case virtual.StatusErrNotDir:
		return ENOTDIR
	case virtual.StatusErrNotEmpty:
		return ENOTEMPTY
	case virtual.StatusErrPerm:
		return EPERM
	case virtual.StatusErrXDev:
		return EXDEV
	case virtual.StatusErrStale:
		return ESTALE
	case virtual.StatusErrSymlink:
		return ESYMLINK
	case virtual.StatusErrInval:
		return EINVAL
	case virtual.StatusErrNXIO:
		return "ENXIO"
	case virtual.StatusErrWrongType:
		return "EWRONGTYPE"
	case virtual.StatusErrAccess:
		return "EACCES"
	}
	return fmt.Sprintf("STATUS%d", int(s))
}

// ErrName maps an error of a worker-facing call to the shared status codes.
func ErrName(err error) string {
	switch err {
	case nil:
		return OK
	case errInjected:
		return EFETCH
	case syscall.ENOENT:
		return ENOENT
	case syscall.EEXIST:
		return EEXIST
	case syscall.ENOTEMPTY:
		return ENOTEMPTY
	case syscall.ENOTDIR:
		return ENOTDIR
	case syscall.EISDIR:
		return EISDIR
	}
	return "ERR(" + err.Error() + ")"
}

// KindFileType maps a model kind to the bb-storage file type.
func KindFileType(k Kind) filesystem.FileType {
	switch k {
	case KDir:
		return filesystem.FileTypeDirectory
	case KFile:
		return filesystem.FileTypeRegularFile
	case KSymlink:
		return filesystem.FileTypeSymlink
	case KFIFO:
		return filesystem.FileTypeFIFO
	case KSocket:
		return filesystem.FileTypeSocket
	case KBlock:
		return filesystem.FileTypeBlockDevice
	}
	panic("bad kind")
}

// Step is one executed operation with what was expected and observed.
type Step struct {
	Op   Op     `json:"op"`
	Want string `json:"want"`
	Got  string `json:"got"`
	Note string `json:"note,omitempty"`
}

type abortCase struct{}

// Exec runs operations against the real tree and the model in lock step.
type Exec struct {
	Env  *Env
	M    *Model
	Hist []Step

	// Mismatch is called for every difference between the real code and
	// the model. rule is stable; detail is free text.
	Mismatch func(rule string, op Op, detail string)
	// AfterCall, if set, runs after every call into the code under test
	// (fn is the API function, status what it returned). Returning false
	// abandons the case: no further call is issued.
	AfterCall func(fn, status string) bool
	// Calls counts fn/status pairs.
	Calls map[string]int

	Aborted    bool
	Mismatches int
	cur        Op
	ctx        context.Context
	digestFn   digest.Function
}

// NewExec creates an executor over a fresh environment and model.
func NewExec(env *Env) *Exec {
	x := &Exec{Env: env, M: NewModel(env.Cfg, env.SymlinksShared()), Calls: map[string]int{}, ctx: context.Background()}
	x.digestFn = digest.MustNewFunction("", remoteexecution.DigestFunction_SHA256)
	x.M.Root.RealDir = env.Root
	x.M.Root.Bound = true
	var a virtual.Attributes
	env.Root.VirtualGetAttributes(x.ctx, MaskBasic, &a)
	x.M.Root.Ino = a.GetInodeNumber()
	// A second hierarchy sharing all collaborators: directories cannot move
	// between the two (EXDEV), leaves can.
	f := x.M.NewForeignRoot()
	f.RealDir, f.Bound = env.NewRoot(), true
	var fa virtual.Attributes
	f.RealDir.VirtualGetAttributes(x.ctx, MaskBasic, &fa)
	f.Ino = fa.GetInodeNumber()
	return x
}

// foreignLeaf is a Leaf that is not a LinkableLeaf; foreignDirectory is a
// Directory of another implementation.
type foreignLeaf struct{ virtual.Leaf }
type foreignDirectory struct{ virtual.Directory }

func (x *Exec) bad(rule, detail string) {
	x.Mismatches++
	if x.Mismatch != nil {
		x.Mismatch(rule, x.cur, detail)
	}
}

// call wraps one call into the code under test.
func (x *Exec) call(fn string, f func() string) string {
	if x.Aborted {
		panic(abortCase{})
	}
	st := f()
	x.Calls[fn+"/"+st]++
	if x.AfterCall != nil && !x.AfterCall(fn, st) {
		// The result of this call is still compared with the model,
		// but no further call will be issued.
		x.Aborted = true
	}
	return st
}

// ProbeDirectoryLocks returns the ids of all directories ever seen whose
// mutex is held right now (TryLock probe of the verif hook).
func (x *Exec) ProbeDirectoryLocks() (held []int, probed int) {
	for _, n := range x.M.Nodes {
		if n.IsDir() && n.Bound {
			if free, known := virtual.VerifLockProbeDirectory(n.RealDir); known {
				probed++
				if !free {
					held = append(held, n.ID)
				}
			}
		}
	}
	return held, probed
}

// ProbeCurrentOpDirectoryLocks probes only the directories the current
// operation refers to and their child directories (the only mutexes a call
// on them can take).
func (x *Exec) ProbeCurrentOpDirectoryLocks() (held []int) {
	seen := map[*Node]bool{}
	probe := func(n *Node) {
		if n == nil || seen[n] || !n.IsDir() || !n.Bound {
			return
		}
		seen[n] = true
		if free, known := virtual.VerifLockProbeDirectory(n.RealDir); known && !free {
			held = append(held, n.ID)
		}
	}
	for _, id := range []int{x.cur.D, x.cur.D2} {
		if id < 0 || id >= len(x.M.Nodes) {
			continue
		}
		d := x.M.Nodes[id]
		probe(d)
		if d.IsDir() {
			for _, e := range d.Entries {
				probe(e.Node)
			}
		}
	}
	return held
}

// ProbeLeafLocks does the same for all pool-backed files ever seen.
func (x *Exec) ProbeLeafLocks() (held []int, probed int) {
	for _, n := range x.M.Nodes {
		if !n.IsDir() && n.Bound {
			if free, known := virtual.VerifLockProbeLeaf(n.RealLeaf); known {
				probed++
				if !free {
					held = append(held, n.ID)
				}
			}
		}
	}
	return held, probed
}

func comp(name string) path.Component { return path.MustNewComponent(name) }

// attrsOf fetches the basic attributes of a node (one more call into the
// code under test).
func (x *Exec) attrsOf(n virtual.Node, fn string) *virtual.Attributes {
	var a virtual.Attributes
	x.call(fn, func() string {
		n.VirtualGetAttributes(x.ctx, MaskBasic, &a)
		return OK
	})
	return &a
}

func (x *Exec) checkAttrs(n *Node, a *virtual.Attributes) {
	if ft := a.GetFileType(); ft != KindFileType(n.Kind) {
		x.bad("returned-node-kind", fmt.Sprintf("node %d: model %v, real file type %d", n.ID, n.Kind, ft))
	}
	if !n.Bound {
		return
	}
	if ino := a.GetInodeNumber(); ino != n.Ino {
		x.bad("returned-node-identity", fmt.Sprintf("node %d: inode %d, expected %d", n.ID, ino, n.Ino))
	}
	want := uint32(n.Nlink)
	switch n.Kind {
	case KDir:
		want = virtual.ImplicitDirectoryLinkCount
	case KSymlink:
		want = virtual.StatelessLeafLinkCount
	}
	if got := a.GetLinkCount(); got != want {
		x.bad("link-count", fmt.Sprintf("node %d (%v): link count %d, model %d", n.ID, n.Kind, got, want))
	}
}

func (x *Exec) bindDir(n *Node, real virtual.Directory, a *virtual.Attributes) {
	if !n.IsDir() {
		x.bad("returned-node-kind", fmt.Sprintf("node %d: model %v, real directory", n.ID, n.Kind))
		return
	}
	pd, ok := real.(virtual.PrepopulatedDirectory)
	if !ok {
		x.bad("returned-node-kind", "directory is not a PrepopulatedDirectory")
		return
	}
	if a == nil {
		a = x.attrsOf(real, "VirtualGetAttributes(dir)")
	}
	if !n.Bound {
		n.RealDir, n.Ino, n.Bound = pd, a.GetInodeNumber(), true
	}
	x.checkAttrs(n, a)
}

func (x *Exec) bindLeaf(n *Node, real virtual.Leaf, a *virtual.Attributes) {
	if n.IsDir() {
		x.bad("returned-node-kind", fmt.Sprintf("node %d: model dir, real leaf", n.ID))
		return
	}
	if a == nil {
		a = x.attrsOf(real, "VirtualGetAttributes(leaf)")
	}
	if !n.Bound {
		n.RealLeaf, n.Ino, n.Bound = real, a.GetInodeNumber(), true
	}
	x.checkAttrs(n, a)
}

func (x *Exec) bindChild(n *Node, dir virtual.Directory, leaf virtual.Leaf, a *virtual.Attributes) {
	if dir != nil {
		x.bindDir(n, dir, a)
	} else if leaf != nil {
		x.bindLeaf(n, leaf, a)
	} else {
		x.bad("returned-node-missing", "status OK without a node")
	}
}

func (x *Exec) status(want, got string) bool {
	if want != got {
		x.bad("status want="+want+" got="+got, "")
		return false
	}
	return true
}

func (x *Exec) changeInfo(r Result, cis ...virtual.ChangeInfo) {
	for i, c := range r.CI {
		if i >= len(cis) {
			break
		}
		if i == 1 && r.CI[0].Dir == c.Dir {
			if cis[0] != cis[1] {
				x.bad("changeinfo-pair-differs-for-same-directory", fmt.Sprint(cis))
			}
			continue
		}
		for _, rule := range x.M.ObserveChangeInfo(c, cis[i].Before, cis[i].After) {
			x.bad(rule, fmt.Sprintf("dir %d before=%d after=%d modified=%v", c.Dir.ID, cis[i].Before, cis[i].After, c.Modified))
		}
	}
}

func (x *Exec) observe(d *Node, a *virtual.Attributes) {
	if r := x.M.ObserveChange(d, a.GetChangeID()); r != "" {
		x.bad(r, fmt.Sprintf("dir %d change id %d", d.ID, a.GetChangeID()))
	}
}

// Do executes one operation. It returns false once the case was abandoned.
func (x *Exec) Do(op Op) (alive bool) {
	x.cur = op
	step := Step{Op: op}
	defer func() {
		x.Hist = append(x.Hist, step)
		if r := recover(); r != nil {
			if _, ok := r.(abortCase); !ok {
				panic(r)
			}
			alive = false
		}
	}()
	step.Want, step.Got, step.Note = x.do(op)
	return !x.Aborted
}

type pageReporter struct {
	limit   int
	locked  bool
	refused bool
	entries []Reported
	changes []uint64
}

func (r *pageReporter) ReportEntry(nextCookie uint64, name path.Component, child virtual.DirectoryChild, a *virtual.Attributes) bool {
	if len(r.entries) >= r.limit {
		r.refused = true
		return false
	}
	d, _ := child.GetPair()
	e := Reported{Name: name.String(), NextCookie: nextCookie, IsDir: d != nil, Ino: a.GetInodeNumber(), FileType: fmt.Sprint(a.GetFileType())}
	var c uint64
	if d != nil && r.locked {
		c = a.GetChangeID()
	}
	r.entries = append(r.entries, e)
	r.changes = append(r.changes, c)
	return true
}

type discardingCAS struct{ blobstore.BlobAccess }

func (discardingCAS) Put(ctx context.Context, d digest.Digest, b buffer.Buffer) error {
	_, err := b.ToByteSlice(1 << 20)
	return err
}

// failingCAS refuses the upload (after releasing the buffer, as a BlobAccess must).
type failingCAS struct{ blobstore.BlobAccess }

func (failingCAS) Put(ctx context.Context, d digest.Digest, b buffer.Buffer) error {
	b.Discard()
	return errInjected
}

var closedChan = func() chan struct{} { c := make(chan struct{}); close(c); return c }()

func (x *Exec) node(id int) *Node { return x.M.Nodes[id] }

func (x *Exec) do(op Op) (want, got, note string) {
	m := x.M
	ctx := x.ctx
	switch op.K {
	case "VirtualOpenChild":
		d := x.node(op.D)
		var create *virtual.Attributes
		if op.Create {
			create = (&virtual.Attributes{}).SetPermissions(virtual.PermissionsRead | virtual.PermissionsWrite)
		}
		var existing *virtual.OpenExistingOptions
		if op.Existing {
			existing = &virtual.OpenExistingOptions{Truncate: op.Trunc}
		}
		share := virtual.ShareMaskRead | virtual.ShareMaskWrite
		var a virtual.Attributes
		var leaf virtual.Leaf
		var ci virtual.ChangeInfo
		if op.FailAlloc {
			x.Env.Pool.FailNewFile.Store(1)
		}
		got = x.call("VirtualOpenChild", func() string {
			var s virtual.Status
			leaf, _, ci, s = d.RealDir.VirtualOpenChild(ctx, comp(op.N), share, create, existing, MaskBasic, &a)
			return StatusName(s)
		})
		x.Env.Pool.FailNewFile.Store(0)
		r := m.OpenChild(d, op.N, op.Create, op.Existing, op.FailAlloc)
		want = r.Status
		if x.status(want, got) && got == OK {
			x.bindLeaf(r.Node, leaf, &a)
			x.changeInfo(r, ci)
		}
		if got == OK {
			x.call("VirtualClose", func() string { leaf.VirtualClose(share); return OK })
		}
	case "VirtualMkdir":
		d := x.node(op.D)
		var a virtual.Attributes
		var child virtual.Directory
		var ci virtual.ChangeInfo
		got = x.call("VirtualMkdir", func() string {
			var s virtual.Status
			child, ci, s = d.RealDir.VirtualMkdir(ctx, comp(op.N), &virtual.Attributes{}, MaskLocked, &a)
			return StatusName(s)
		})
		r := m.Mkdir(d, op.N)
		want = r.Status
		if x.status(want, got) && got == OK {
			x.bindDir(r.Node, child, &a)
			x.observe(r.Node, &a)
			x.changeInfo(r, ci)
		}
	case "VirtualMknod":
		d := x.node(op.D)
		ca := (&virtual.Attributes{}).SetFileType(KindFileType(op.Kind))
		if op.Kind == KSymlink {
			ca.SetSymlinkTarget(path.UNIXFormat.NewParser(op.Target))
		}
		var a virtual.Attributes
		var leaf virtual.Leaf
		var ci virtual.ChangeInfo
		got = x.call("VirtualMknod", func() string {
			var s virtual.Status
			leaf, ci, s = d.RealDir.VirtualMknod(ctx, comp(op.N), ca, MaskBasic, &a)
			return StatusName(s)
		})
		r := m.Mknod(d, op.N, op.Kind, op.Target, op.BadTarget)
		want = r.Status
		if x.status(want, got) && got == OK {
			x.bindLeaf(r.Node, leaf, &a)
			x.changeInfo(r, ci)
		}
	case "VirtualLink":
		d, l := x.node(op.D), x.node(op.L)
		var a virtual.Attributes
		var ci virtual.ChangeInfo
		got = x.call("VirtualLink", func() string {
			var s virtual.Status
			ci, s = d.RealDir.VirtualLink(ctx, comp(op.N), l.RealLeaf, MaskBasic, &a)
			return StatusName(s)
		})
		r := m.Link(d, op.N, l)
		want = r.Status
		if x.status(want, got) && got == OK {
			x.checkAttrs(l, &a)
			x.changeInfo(r, ci)
		}
	case "VirtualLinkForeign":
		// A leaf that cannot be embedded: refused before anything is
		// looked at or fetched.
		d := x.node(op.D)
		var a virtual.Attributes
		got = x.call("VirtualLink", func() string {
			_, s := d.RealDir.VirtualLink(ctx, comp(op.N), foreignLeaf{}, MaskBasic, &a)
			return StatusName(s)
		})
		want = EXDEV
		x.M.sit("link-of-foreign-leaf")
		x.status(want, got)
	case "VirtualRenameForeign":
		d := x.node(op.D)
		got = x.call("VirtualRename", func() string {
			_, _, s := d.RealDir.VirtualRename(ctx, comp(op.N), foreignDirectory{}, comp(op.N2))
			return StatusName(s)
		})
		want = EXDEV
		x.M.sit("rename-into-foreign-directory-implementation")
		x.status(want, got)
	case "VirtualLookup":
		d := x.node(op.D)
		mask := virtual.AttributesMask(MaskBasic)
		if op.Locked {
			mask = MaskLocked
		}
		var a virtual.Attributes
		var child virtual.DirectoryChild
		got = x.call("VirtualLookup", func() string {
			var s virtual.Status
			child, s = d.RealDir.VirtualLookup(ctx, comp(op.N), mask, &a)
			return StatusName(s)
		})
		r := m.Lookup(d, op.N, EIO)
		want = r.Status
		if x.status(want, got) && got == OK {
			cd, cl := child.GetPair()
			x.bindChild(r.Node, cd, cl, &a)
			if cd != nil && op.Locked && r.Node.IsDir() {
				x.observe(r.Node, &a)
			}
		}
	case "VirtualRemove":
		d := x.node(op.D)
		var ci virtual.ChangeInfo
		got = x.call("VirtualRemove", func() string {
			var s virtual.Status
			ci, s = d.RealDir.VirtualRemove(ctx, comp(op.N), op.RmDir, op.RmLeaf)
			return StatusName(s)
		})
		r := m.Remove(d, op.N, op.RmDir, op.RmLeaf, EIO)
		want = r.Status
		if x.status(want, got) && got == OK {
			x.changeInfo(r, ci)
		}
	case "VirtualRename":
		d, d2 := x.node(op.D), x.node(op.D2)
		var ci1, ci2 virtual.ChangeInfo
		got = x.call("VirtualRename", func() string {
			var s virtual.Status
			ci1, ci2, s = d.RealDir.VirtualRename(ctx, comp(op.N), d2.RealDir, comp(op.N2))
			return StatusName(s)
		})
		r := m.Rename(d, op.N, d2, op.N2)
		want = r.Status
		if x.status(want, got) && got == OK {
			x.changeInfo(r, ci1, ci2)
		}
	case "VirtualReadDir":
		d := x.node(op.D)
		var s *Session
		if op.Sess > 0 {
			s = m.Sessions[op.Sess-1]
		} else {
			s = m.NewSession(d, op.PageSize, op.Locked)
		}
		mask := virtual.AttributesMask(MaskBasic)
		if s.Locked {
			mask = MaskLocked
		}
		rep := &pageReporter{limit: s.PageSize, locked: s.Locked}
		got = x.call("VirtualReadDir", func() string {
			return StatusName(d.RealDir.VirtualReadDir(ctx, s.Cookie, mask, rep))
		})
		want = OK
		for _, rule := range m.Page(s, got, rep.entries, !rep.refused) {
			x.bad(rule, fmt.Sprintf("session %d dir %d page %d cookie %d entries %v", s.ID, d.ID, s.Pages, s.Cookie, rep.entries))
		}
		if got != OK {
			want = got // Page() has judged the status
		}
		if s.Locked {
			for i, e := range rep.entries {
				if me := m.find(d, e.Name); me != nil && me.Node.IsDir() && e.IsDir {
					if r := m.ObserveChange(me.Node, rep.changes[i]); r != "" {
						x.bad(r, fmt.Sprintf("dir %d change id %d seen through readdir", me.Node.ID, rep.changes[i]))
					}
				}
			}
		}
		note = fmt.Sprintf("session=%d pages=%d entries=%d end=%v", s.ID, s.Pages, len(rep.entries), !rep.refused)
	case "VirtualGetAttributes":
		d := x.node(op.D)
		var a virtual.Attributes
		got = x.call("VirtualGetAttributes(dir,locked)", func() string {
			d.RealDir.VirtualGetAttributes(ctx, MaskLocked, &a)
			return OK
		})
		want = OK
		x.checkAttrs(d, &a)
		x.observe(d, &a)
	case "LookupChild":
		d := x.node(op.D)
		var child virtual.PrepopulatedDirectoryChild
		got = x.call("LookupChild", func() string {
			var err error
			child, err = d.RealDir.LookupChild(comp(op.N))
			return ErrName(err)
		})
		r := m.Lookup(d, op.N, EFETCH)
		want = r.Status
		if x.status(want, got) && got == OK {
			cd, cl := child.GetPair()
			if cd != nil {
				x.bindDir(r.Node, cd, nil)
			} else {
				x.bindLeaf(r.Node, cl, nil)
			}
		}
	case "LookupAllChildren":
		d := x.node(op.D)
		var dirs []virtual.DirectoryPrepopulatedDirEntry
		var leaves []virtual.LeafPrepopulatedDirEntry
		got = x.call("LookupAllChildren", func() string {
			var err error
			dirs, leaves, err = d.RealDir.LookupAllChildren()
			return ErrName(err)
		})
		r := m.List(d)
		want = r.Status
		if x.status(want, got) && got == OK {
			var gd, gl, wd, wl []string
			for _, e := range dirs {
				gd = append(gd, e.Name.String())
			}
			for _, e := range leaves {
				gl = append(gl, e.Name.String())
			}
			for _, e := range r.Dirs {
				wd = append(wd, e.Name)
			}
			for _, e := range r.Leaves {
				wl = append(wl, e.Name)
			}
			if fmt.Sprint(gd) != fmt.Sprint(wd) || fmt.Sprint(gl) != fmt.Sprint(wl) {
				x.bad("listing-differs", fmt.Sprintf("dirs %v leaves %v, model dirs %v leaves %v", gd, gl, wd, wl))
			} else {
				for i, e := range dirs {
					x.bindDir(r.Dirs[i].Node, e.Child, nil)
				}
				for i, e := range leaves {
					x.bindLeaf(r.Leaves[i].Node, e.Child, nil)
				}
			}
		}
	case "ReadDir":
		d := x.node(op.D)
		var infos []filesystem.FileInfo
		got = x.call("ReadDir", func() string {
			var err error
			infos, err = d.RealDir.ReadDir()
			return ErrName(err)
		})
		r := m.List(d)
		want = r.Status
		if x.status(want, got) && got == OK {
			all := append(append([]ListEnt(nil), r.Dirs...), r.Leaves...)
			sort.Slice(all, func(i, j int) bool { return all[i].Name < all[j].Name })
			var g, w []string
			for _, fi := range infos {
				g = append(g, fmt.Sprintf("%s:%d", fi.Name().String(), fi.Type()))
			}
			for _, e := range all {
				w = append(w, fmt.Sprintf("%s:%d", e.Name, KindFileType(e.Kind)))
			}
			if fmt.Sprint(g) != fmt.Sprint(w) {
				x.bad("listing-differs", fmt.Sprintf("%v, model %v", g, w))
			}
		}
	case "Remove":
		d := x.node(op.D)
		got = x.call("Remove", func() string { return ErrName(d.RealDir.Remove(comp(op.N))) })
		want = m.Remove(d, op.N, true, true, EFETCH).Status
		x.status(want, got)
	case "RemoveAll":
		d := x.node(op.D)
		got = x.call("RemoveAll", func() string { return ErrName(d.RealDir.RemoveAll(comp(op.N))) })
		want = m.RemoveAll(d, op.N).Status
		x.status(want, got)
	case "RemoveAllChildren":
		d := x.node(op.D)
		got = x.call("RemoveAllChildren", func() string { return ErrName(d.RealDir.RemoveAllChildren(op.Forbid)) })
		want = m.RemoveAllChildren(d, op.Forbid).Status
		x.status(want, got)
	case "CreateAndEnterPrepopulatedDirectory":
		d := x.node(op.D)
		var child virtual.PrepopulatedDirectory
		got = x.call("CreateAndEnterPrepopulatedDirectory", func() string {
			var err error
			child, err = d.RealDir.CreateAndEnterPrepopulatedDirectory(comp(op.N))
			return ErrName(err)
		})
		r := m.Enter(d, op.N)
		want = r.Status
		if x.status(want, got) && got == OK {
			x.bindDir(r.Node, child, nil)
		}
	case "CreateChildren":
		want, got = x.createChildren(op)
	case "FilterChildren":
		want, got, note = x.filterChildren(op)
	case "InstallHooks":
		d := x.node(op.D)
		got = x.call("InstallHooks", func() string {
			d.RealDir.InstallHooks(x.Env.Files, x.Env.Symlinks, x.Env.Log, DefaultAttributesSetter, virtual.NoNamedAttributesFactory)
			return OK
		})
		want = OK
	case "VirtualApply":
		d := x.node(op.D)
		got = x.call("VirtualApply(dir)", func() string {
			if d.RealDir.VirtualApply(&struct{}{}) {
				return "true"
			}
			return "false"
		})
		want = "false"
		x.status(want, got)
	case "VirtualSetAttributes":
		d := x.node(op.D)
		in := &virtual.Attributes{}
		want = OK
		switch op.Kind {
		case 1:
			in.SetSizeBytes(1)
			want = EINVAL
		case 2:
			in.SetOwnerUserID(1)
			want = EPERM
		case 3:
			in.SetOwnerGroupID(1)
			want = EPERM
		case 4:
			in.SetPermissions(virtual.PermissionsRead)
		}
		var a virtual.Attributes
		got = x.call("VirtualSetAttributes(dir)", func() string {
			return StatusName(d.RealDir.VirtualSetAttributes(ctx, in, MaskLocked, &a))
		})
		if x.status(want, got) && got == OK {
			x.observe(d, &a)
		}
	case "LeafOpenSelf", "LeafGetAttributes", "LeafSetAttributes", "LeafIO", "LeafUpload", "LeafOpenReadFrozen", "LeafPersistency":
		want, got = x.leafOp(op)
	default:
		panic("vfsh: unknown operation " + op.K)
	}
	return want, got, note
}

func (x *Exec) createChildren(op Op) (want, got string) {
	m := x.M
	d := x.node(op.D)
	real := map[path.Component]virtual.InitialChild{}
	var mc []NewChild
	var leaves []virtual.LinkableLeaf // parallel to mc; nil for directories
	var linked []*Node
	for _, c := range op.Children {
		switch {
		case c.Kind == KDir:
			real[comp(c.Name)] = virtual.InitialChild{}.FromDirectory(x.Env.NewFetcher(c.Lazy))
			mc = append(mc, NewChild{Name: c.Name, Kind: KDir, Lazy: c.Lazy})
			leaves = append(leaves, nil)
		case c.Link != 0:
			l := x.node(c.Link)
			ll := l.RealLeaf.(virtual.LinkableLeaf)
			gs := x.call("Link", func() string { return StatusName(ll.Link()) })
			ws := m.linkLeaf(l)
			if gs != ws {
				x.bad("status want="+ws+" got="+gs, "LinkableLeaf.Link()")
			}
			if gs != OK || ws != OK {
				if gs == OK {
					ll.Unlink()
				} else if ws == OK {
					m.unlinkLeaf(l)
				}
				continue
			}
			real[comp(c.Name)] = virtual.InitialChild{}.FromLeaf(ll)
			mc = append(mc, NewChild{Name: c.Name, Kind: l.Kind, Node: l})
			leaves = append(leaves, ll)
			linked = append(linked, l)
		default:
			leaf, err := x.Env.NewLeaf(c.Kind, c.Target)
			if err != nil {
				panic(err)
			}
			real[comp(c.Name)] = virtual.InitialChild{}.FromLeaf(leaf)
			mc = append(mc, NewChild{Name: c.Name, Kind: c.Kind, Targ: c.Target})
			leaves = append(leaves, leaf)
		}
	}
	got = x.call("CreateChildren", func() string { return ErrName(d.RealDir.CreateChildren(real, op.Overwrite)) })
	r := m.CreateChildren(d, mc, op.Overwrite)
	want = r.Status
	x.status(want, got)
	if got != OK {
		// The directory did not adopt the references.
		for _, l := range leaves {
			if l != nil {
				x.call("Unlink", func() string { l.Unlink(); return OK })
			}
		}
	}
	if want != OK {
		for _, l := range linked {
			m.unlinkLeaf(l)
		}
	}
	if want == OK && got == OK {
		for i, l := range leaves {
			if l != nil {
				x.bindLeaf(r.Leaves[i].Node, l, nil)
			}
		}
	}
	return want, got
}

func decide(salt uint64, id uint64) bool {
	h := (salt ^ id*0x9E3779B97F4A7C15) * 0xBF58476D1CE4E5B9
	return (h>>33)%3 == 0
}

// filterChildren runs FilterChildren with a filter that removes a
// pseudo-random third of the files and of the not yet fetched directories.
func (x *Exec) filterChildren(op Op) (want, got, note string) {
	m := x.M
	root := x.node(op.D)

	// Make every node below root known to both sides, so that a decision
	// can be taken on inode numbers.
	type dirEnt struct {
		d *Node
		e *Entry
	}
	var mdirs []*Node
	var walk func(d *Node)
	walk = func(d *Node) {
		if d.Lazy != nil || d.Deleted {
			return
		}
		mdirs = append(mdirs, d)
		for _, e := range append([]*Entry(nil), d.Entries...) {
			if !e.Node.Bound {
				x.Do2(Op{K: "LookupChild", D: d.ID, N: e.Name})
			}
			if e.Node.IsDir() && e.Node.Bound {
				walk(e.Node)
			}
		}
	}
	walk(root)
	protected := map[uint64]bool{}
	minCalls, maxCalls := map[uint64]int{}, map[uint64]int{}
	lazySpecs := map[int]*Node{}
	for _, d := range mdirs {
		for _, e := range d.Entries {
			switch {
			case e.Node.IsDir():
				if e.Node.Lazy != nil && e.Node.Lazy.ID > 0 {
					lazySpecs[e.Node.Lazy.ID] = e.Node
				}
			default:
				if !e.Node.Bound {
					protected[0] = true
					continue
				}
				maxCalls[e.Node.Ino]++
				if m.IsHidden(e.Name) {
					protected[e.Node.Ino] = true
				} else {
					minCalls[e.Node.Ino]++
				}
			}
		}
	}
	if root.Lazy != nil && root.Lazy.ID > 0 {
		lazySpecs[root.Lazy.ID] = root
	}

	calls := map[uint64]int{}
	specCalls := map[int]int{}
	var removeErrs []string
	got = x.call("FilterChildren", func() string {
		err := root.RealDir.FilterChildren(func(node virtual.InitialChild, remove virtual.ChildRemover) bool {
			if fetcher, leaf := node.GetPair(); fetcher != nil {
				if f, ok := fetcher.(*Fetcher); ok {
					specCalls[f.Spec.ID]++
					if decide(op.Salt, uint64(f.Spec.ID)) {
						if err := remove(); err != nil {
							removeErrs = append(removeErrs, err.Error())
						}
					}
				}
			} else {
				var a virtual.Attributes
				leaf.VirtualGetAttributes(x.ctx, MaskBasic, &a)
				ino := a.GetInodeNumber()
				calls[ino]++
				if !protected[ino] && decide(op.Salt, ino) {
					if err := remove(); err != nil {
						removeErrs = append(removeErrs, err.Error())
					}
				}
			}
			return true
		})
		return ErrName(err)
	})
	want = OK
	x.status(want, got)
	if len(removeErrs) > 0 {
		x.bad("filterchildren-remover-failed", fmt.Sprint(removeErrs))
	}
	for ino, n := range minCalls {
		if calls[ino] < n {
			x.bad("filterchildren-skipped-leaf", fmt.Sprintf("inode %d: %d callbacks, %d visible entries", ino, calls[ino], n))
		}
	}
	for ino, n := range calls {
		if n > maxCalls[ino] {
			x.bad("filterchildren-extra-callback", fmt.Sprintf("inode %d: %d callbacks, %d entries", ino, n, maxCalls[ino]))
		}
	}
	for id := range lazySpecs {
		if specCalls[id] != 1 {
			x.bad("filterchildren-lazy-directory-callbacks", fmt.Sprintf("spec %d: %d callbacks", id, specCalls[id]))
		}
	}
	// Apply the same decisions to the model.
	removed := 0
	for _, d := range mdirs {
		for _, e := range append([]*Entry(nil), d.Entries...) {
			if !e.Node.IsDir() && e.Node.Bound && !protected[e.Node.Ino] && decide(op.Salt, e.Node.Ino) {
				m.Remove(d, e.Name, true, true, EFETCH)
				removed++
			}
		}
	}
	for id, n := range lazySpecs {
		if decide(op.Salt, uint64(id)) {
			m.RemoveAllChildren(n, false)
			removed++
		}
	}
	if removed > 0 {
		m.sit("filterchildren-removed-something")
	}
	return want, got, fmt.Sprintf("removed=%d", removed)
}

// Do2 runs a nested operation (recorded in the history like any other).
func (x *Exec) Do2(op Op) {
	saved := x.cur
	x.cur = op
	step := Step{Op: op, Note: "nested"}
	step.Want, step.Got, _ = x.do(op)
	x.Hist = append(x.Hist, step)
	x.cur = saved
}

func (x *Exec) leafOp(op Op) (want, got string) {
	l := x.node(op.L)
	leaf := l.RealLeaf
	ctx := x.ctx
	live := l.Nlink > 0
	isFile := l.Kind == KFile
	failIO := func(f func()) {
		if op.FailIO {
			x.Env.Pool.FailIO.Store(1)
		}
		f()
		x.Env.Pool.FailIO.Store(0)
	}
	want = "*"
	switch op.K {
	case "LeafGetAttributes":
		var a virtual.Attributes
		got = x.call("VirtualGetAttributes(leaf,all)", func() string {
			leaf.VirtualGetAttributes(ctx, MaskBasic|virtual.AttributesMaskChangeID|virtual.AttributesMaskSizeBytes|virtual.AttributesMaskPermissions, &a)
			return OK
		})
		if live || l.Kind == KSymlink {
			x.checkAttrs(l, &a)
		}
	case "LeafOpenSelf":
		share := virtual.ShareMaskRead
		var a virtual.Attributes
		failIO(func() {
			got = x.call("VirtualOpenSelf", func() string {
				return StatusName(leaf.VirtualOpenSelf(ctx, share, &virtual.OpenExistingOptions{Truncate: op.Trunc && live}, MaskBasic, &a))
			})
		})
		switch {
		case !isFile:
			want = ESYMLINK
		case !live:
			want = ESTALE
		case op.Trunc && op.FailIO:
			want = EIO
		default:
			want = OK
		}
		x.status(want, got)
		if got == OK {
			x.call("VirtualClose", func() string { leaf.VirtualClose(share); return OK })
		}
	case "LeafSetAttributes":
		in := (&virtual.Attributes{}).SetSizeBytes(uint64(len(op.K)))
		chown := op.Salt%5 == 4
		switch {
		case chown && op.Salt%2 == 0:
			in = (&virtual.Attributes{}).SetOwnerUserID(7)
		case chown:
			in = (&virtual.Attributes{}).SetOwnerGroupID(7)
		case op.Trunc:
			in = (&virtual.Attributes{}).SetPermissions(virtual.PermissionsRead | virtual.PermissionsExecute)
		}
		var a virtual.Attributes
		failIO(func() {
			got = x.call("VirtualSetAttributes(leaf)", func() string {
				return StatusName(leaf.VirtualSetAttributes(ctx, in, MaskBasic, &a))
			})
		})
		switch {
		case chown:
			want = EPERM
		case isFile && !live:
			want = ESTALE
		case !isFile && !op.Trunc:
			want = EINVAL
		case isFile && !op.Trunc && op.FailIO:
			want = EIO
		default:
			want = OK
		}
		x.status(want, got)
	case "LeafIO":
		if !isFile || !live {
			return "-", "-"
		}
		share := virtual.ShareMaskRead | virtual.ShareMaskWrite
		var a virtual.Attributes
		got = x.call("VirtualOpenSelf", func() string {
			return StatusName(leaf.VirtualOpenSelf(ctx, share, &virtual.OpenExistingOptions{}, MaskBasic, &a))
		})
		want = OK
		if !x.status(want, got) {
			return want, got
		}
		which := int(op.Salt % 4)
		inject := func(i int, f func()) {
			if op.FailIO && which == i {
				failIO(f)
			} else {
				f()
			}
		}
		buf := []byte("0123456789abcdef")
		inject(0, func() {
			x.call("VirtualWrite", func() string {
				_, s := leaf.VirtualWrite(ctx, buf, 3)
				return StatusName(s)
			})
		})
		inject(1, func() {
			x.call("VirtualRead", func() string {
				_, _, s := leaf.VirtualRead(ctx, make([]byte, 8), 1)
				return StatusName(s)
			})
		})
		inject(2, func() {
			x.call("VirtualSeek", func() string {
				_, s := leaf.VirtualSeek(ctx, 0, filesystem.Data)
				return StatusName(s)
			})
		})
		x.call("VirtualSeek", func() string {
			_, s := leaf.VirtualSeek(ctx, 1<<40, filesystem.Hole)
			return StatusName(s)
		})
		inject(3, func() {
			x.call("VirtualAllocate", func() string {
				return StatusName(leaf.VirtualAllocate(ctx, 10, 30))
			})
		})
		x.call("VirtualClose", func() string { leaf.VirtualClose(share); return OK })
	case "LeafPersistency":
		p := &virtual.ApplyAppendOutputPathPersistencyDirectoryNode{Directory: &outputpathpersistency.Directory{}, Name: comp("n")}
		got = x.call("VirtualApply(ApplyAppendOutputPathPersistencyDirectoryNode)", func() string {
			if !leaf.VirtualApply(p) {
				return "unhandled"
			}
			return OK
		})
	case "LeafUpload":
		upload := func() {
			var cas blobstore.BlobAccess = discardingCAS{}
			if op.Salt%7 == 3 {
				cas = failingCAS{}
			}
			p := &virtual.ApplyUploadFile{Context: ctx, ContentAddressableStorage: cas, DigestFunction: x.digestFn, WritableFileUploadDelay: closedChan}
			got = x.call("VirtualApply(ApplyUploadFile)", func() string {
				if !leaf.VirtualApply(p) {
					return "unhandled"
				}
				if p.Err != nil {
					return "ERR"
				}
				return OK
			})
		}
		stat := func() {
			if !isFile {
				return
			}
			p2 := &virtual.ApplyGetBazelOutputServiceStat{DigestFunction: &x.digestFn}
			x.call("VirtualApply(ApplyGetBazelOutputServiceStat)", func() string {
				leaf.VirtualApply(p2)
				if p2.Err != nil {
					return "ERR"
				}
				return OK
			})
		}
		// The injected I/O fault hits whichever of the two has to hash
		// the file (the digest is cached afterwards).
		if op.Salt%2 == 0 {
			failIO(upload)
			stat()
		} else {
			failIO(stat)
			upload()
		}
	case "LeafOpenReadFrozen":
		p := &virtual.ApplyOpenReadFrozen{WritableFileDelay: closedChan}
		got = x.call("VirtualApply(ApplyOpenReadFrozen)", func() string {
			if !leaf.VirtualApply(p) {
				return "unhandled"
			}
			if p.Err != nil {
				return "ERR"
			}
			return OK
		})
		if isFile {
			w := OK
			if !live {
				w = "ERR"
			}
			want = w
			x.status(want, got)
		}
		if got == OK && p.Reader != nil {
			failIO(func() {
				x.call("frozen.ReadAt", func() string {
					if _, err := p.Reader.ReadAt(make([]byte, 4), 0); err != nil {
						return "ERR"
					}
					return OK
				})
			})
			x.call("frozen.Len", func() string { p.Reader.Len(); return OK })
			x.call("frozen.GetNextRegionOffset", func() string {
				if _, err := p.Reader.GetNextRegionOffset(0, filesystem.Data); err != nil {
					return "ERR"
				}
				return OK
			})
			x.call("frozen.Close", func() string { p.Reader.Close(); return OK })
		}
	}
	return want, got
}

// Reachable returns the bound directories reachable from the root of the
// model, root first.
func (x *Exec) reachableDirs() []*Node {
	var out []*Node
	var walk func(d *Node)
	walk = func(d *Node) {
		out = append(out, d)
		for _, e := range d.Entries {
			if e.Node.IsDir() && e.Node.Bound {
				walk(e.Node)
			}
		}
	}
	for _, root := range x.M.Roots {
		walk(root)
	}
	return out
}

// FinalCompare walks the whole tree through LookupAllChildren and an
// unpaginated VirtualReadDir and compares it with the model (final contents).
// Lazily fetched directories are fetched on the way (retrying injected
// fetcher failures).
func (x *Exec) FinalCompare() (alive bool) {
	defer func() {
		if r := recover(); r != nil {
			if _, ok := r.(abortCase); !ok {
				panic(r)
			}
			alive = false
		}
	}()
	done := map[*Node]bool{}
	for progress := true; progress; {
		progress = false
		for _, d := range x.reachableDirs() {
			if done[d] {
				continue
			}
			for try := 0; try < 4; try++ {
				lazy := d.Lazy != nil
				x.Do2(Op{K: "LookupAllChildren", D: d.ID, Why: "final"})
				if !lazy || d.Lazy == nil {
					break
				}
			}
			if d.Lazy != nil {
				x.bad("final-directory-never-materialised", fmt.Sprintf("dir %d", d.ID))
			}
			x.Do2(Op{K: "VirtualReadDir", D: d.ID, PageSize: 100000, Locked: true, Why: "final"})
			// Hidden leaves appear in no listing: probe every name of
			// the pool (presence and absence).
			for _, name := range namePool {
				x.Do2(Op{K: "VirtualLookup", D: d.ID, N: name, Why: "final"})
			}
			x.Do2(Op{K: "VirtualGetAttributes", D: d.ID, Why: "final"})
			done[d] = true
			progress = true
		}
	}
	return !x.Aborted
}
