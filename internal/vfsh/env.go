// Package vfsh is the harness library for the properties about the in-memory
// virtual file system (C13, C14): hand-written fakes, an environment that
// wires InMemoryPrepopulatedDirectory the way bb_worker does, an executable
// reference model of a POSIX-style hierarchy (refFS), an operation generator
// and an executor that runs every operation against the real code and the
// model in lock step.
package vfsh

import (
	"errors"
	"io"
	"regexp"
	"sort"
	"sync"
	"sync/atomic"

	"github.com/buildbarn/bb-remote-execution/pkg/filesystem/pool"
	"github.com/buildbarn/bb-remote-execution/pkg/filesystem/virtual"
	"github.com/buildbarn/bb-storage/pkg/filesystem"
	"github.com/buildbarn/bb-storage/pkg/filesystem/path"
	"github.com/buildbarn/bb-storage/pkg/random"

	"verif/internal/vclock"
)

// Config is one of the configurations of the directory tree.
type Config struct {
	CaseInsensitive bool
	HiddenPattern   bool   // hide leaves matching ^\._
	Allocator       string // "nfs" or "fuse"
	Shuffle         bool   // shuffle lazily fetched contents instead of sorting
}

func (c Config) String() string {
	s := "cs"
	if c.CaseInsensitive {
		s = "ci"
	}
	if c.HiddenPattern {
		s += "+hidden"
	}
	s += "+" + c.Allocator
	if c.Shuffle {
		s += "+shuffle"
	}
	return s
}

var hiddenRegexp = regexp.MustCompile(`^\._`)

// ErrLog is a util.ErrorLogger that counts.
type ErrLog struct{ n atomic.Int64 }

// Log implements util.ErrorLogger.
func (l *ErrLog) Log(err error) { l.n.Add(1) }

// Count returns the number of errors logged.
func (l *ErrLog) Count() int64 { return l.n.Load() }

// FakePool is an in-memory pool.FilePool whose files can fail on demand.
type FakePool struct {
	FailNewFile atomic.Int32 // next N NewFile calls fail
	FailIO      atomic.Int32 // next N ReadAt/WriteAt/Truncate calls on any file fail
	Created     atomic.Int64
	Closed      atomic.Int64
	exempt      atomic.Int32 // >0 while the harness itself creates a file
}

var errInjected = errors.New("injected fault")

// NewFile implements pool.FilePool.
func (p *FakePool) NewFile(holeSource pool.HoleSource, size uint64) (filesystem.FileReadWriter, error) {
	if p.exempt.Load() == 0 && p.FailNewFile.Load() > 0 {
		p.FailNewFile.Add(-1)
		return nil, errInjected
	}
	p.Created.Add(1)
	return &fakeFile{pool: p, data: make([]byte, size)}, nil
}

type fakeFile struct {
	pool   *FakePool
	mu     sync.Mutex
	data   []byte
	closed bool
}

func (f *fakeFile) fail() bool {
	if f.pool.FailIO.Load() > 0 {
		f.pool.FailIO.Add(-1)
		return true
	}
	return false
}

func (f *fakeFile) Close() error {
	f.mu.Lock()
	defer f.mu.Unlock()
	if f.closed {
		panic("vfsh: pool file closed twice")
	}
	f.closed = true
	f.pool.Closed.Add(1)
	return nil
}

func (f *fakeFile) ReadAt(p []byte, off int64) (int, error) {
	f.mu.Lock()
	defer f.mu.Unlock()
	if f.fail() {
		return 0, errInjected
	}
	if off >= int64(len(f.data)) {
		return 0, io.EOF
	}
	n := copy(p, f.data[off:])
	if n < len(p) {
		return n, io.EOF
	}
	return n, nil
}

func (f *fakeFile) WriteAt(p []byte, off int64) (int, error) {
	f.mu.Lock()
	defer f.mu.Unlock()
	if f.fail() {
		return 0, errInjected
	}
	if end := int(off) + len(p); end > len(f.data) {
		f.data = append(f.data, make([]byte, end-len(f.data))...)
	}
	copy(f.data[off:], p)
	return len(p), nil
}

func (f *fakeFile) Truncate(size int64) error {
	f.mu.Lock()
	defer f.mu.Unlock()
	if f.fail() {
		return errInjected
	}
	if int(size) <= len(f.data) {
		f.data = f.data[:size]
	} else {
		f.data = append(f.data, make([]byte, int(size)-len(f.data))...)
	}
	return nil
}

func (f *fakeFile) Sync() error { return nil }

func (f *fakeFile) Len() (int64, error) {
	f.mu.Lock()
	defer f.mu.Unlock()
	return int64(len(f.data)), nil
}

func (f *fakeFile) GetNextRegionOffset(offset int64, regionType filesystem.RegionType) (int64, error) {
	f.mu.Lock()
	defer f.mu.Unlock()
	if f.fail() {
		return 0, errInjected
	}
	if offset >= int64(len(f.data)) {
		return 0, io.EOF
	}
	if regionType == filesystem.Data {
		// Trailing zero bytes count as a hole.
		for i := int(offset); i < len(f.data); i++ {
			if f.data[i] != 0 {
				return int64(i), nil
			}
		}
		return 0, io.EOF
	}
	return int64(len(f.data)), nil
}

// Removal is one FUSE removal notification.
type Removal struct {
	ParentIno uint64
	Name      string
}

// Env is one freshly built directory tree with all its collaborators.
type Env struct {
	Cfg       Config
	Clock     *vclock.Clock
	Pool      *FakePool
	Log       *ErrLog
	NFSAlloc  *virtual.NFSStatefulHandleAllocator
	FUSEAlloc *virtual.FUSEStatefulHandleAllocator
	Handles   virtual.StatefulHandleAllocator
	Files     virtual.FileAllocator
	Symlinks  virtual.SymlinkFactory
	Root      virtual.PrepopulatedDirectory
	newRoot   func() virtual.PrepopulatedDirectory

	// OnRemoval, if set, is called from the FUSE removal notifier (i.e.
	// while the code under test is executing, without any directory lock
	// supposedly held).
	OnRemoval func(parentIno uint64, name string)
}

// DefaultAttributesSetter sets nothing, as bb_worker's top-level setter.
func DefaultAttributesSetter(requested virtual.AttributesMask, attributes *virtual.Attributes) {}

// NewEnv builds a tree in the given configuration, wired like bb_worker
// (cmd/bb_worker/main.go) but with the fake pool and the virtual clock.
func NewEnv(cfg Config) *Env {
	e := &Env{Cfg: cfg, Clock: vclock.New(1_700_000_000), Pool: &FakePool{}, Log: &ErrLog{}}
	switch cfg.Allocator {
	case "fuse":
		e.FUSEAlloc = virtual.NewFUSEHandleAllocator(random.FastThreadSafeGenerator)
		e.FUSEAlloc.RegisterRemovalNotifier(func(parent uint64, name path.Component) {
			if cb := e.OnRemoval; cb != nil {
				cb(parent, name.String())
			}
		})
		e.Handles = e.FUSEAlloc
	default:
		e.NFSAlloc = virtual.NewNFSHandleAllocator(random.NewFastSingleThreadedGenerator())
		e.Handles = e.NFSAlloc
	}
	e.Files = virtual.NewHandleAllocatingFileAllocator(
		virtual.NewPoolBackedFileAllocator(e.Pool, e.Log, DefaultAttributesSetter, virtual.NoNamedAttributesFactory),
		e.Handles)
	e.Symlinks = virtual.NewHandleAllocatingSymlinkFactory(
		virtual.NewBaseSymlinkFactory(DefaultAttributesSetter),
		e.Handles.New(),
		path.UNIXFormat)
	var sorter virtual.Sorter = sort.Sort
	if cfg.Shuffle {
		sorter = virtual.Shuffle
	}
	hidden := func(string) bool { return false }
	if cfg.HiddenPattern {
		hidden = hiddenRegexp.MatchString
	}
	var normalizer virtual.ComponentNormalizer = virtual.CaseSensitiveComponentNormalizer
	if cfg.CaseInsensitive {
		normalizer = virtual.CaseInsensitiveComponentNormalizer
	}
	e.newRoot = func() virtual.PrepopulatedDirectory {
		return virtual.NewInMemoryPrepopulatedDirectory(
			e.Files, e.Symlinks, e.Log, e.Handles, sorter, hidden, e.Clock, normalizer,
			DefaultAttributesSetter, virtual.NoNamedAttributesFactory)
	}
	e.Root = e.newRoot()
	return e
}

// NewRoot creates the root of another hierarchy ("file system") that shares
// all collaborators (handle allocator, file allocator, ...) with the first
// one, as the output paths of bb_clientd do. Directories cannot be renamed
// from one hierarchy into another; leaves can.
func (e *Env) NewRoot() virtual.PrepopulatedDirectory { return e.newRoot() }

// SymlinksShared tells whether two symbolic links with the same target are
// one and the same node (NFS handle allocator: stateless leaves are
// deduplicated by identifier) or distinct nodes (FUSE).
func (e *Env) SymlinksShared() bool { return e.Cfg.Allocator != "fuse" }

// NewLeaf creates a fresh leaf of the given kind outside any directory (with
// one link reference, as CreateChildren and InitialContentsFetchers expect).
func (e *Env) NewLeaf(kind Kind, target string) (virtual.LinkableLeaf, error) {
	switch kind {
	case KFile:
		e.Pool.exempt.Add(1)
		defer e.Pool.exempt.Add(-1)
		return e.Files.NewFile(pool.ZeroHoleSource, false, 0, 0)
	case KSymlink:
		return e.Symlinks.LookupSymlink(path.UNIXFormat.NewParser(target))
	case KFIFO:
		return e.Handles.New().AsLinkableLeaf(virtual.NewSpecialFile(filesystem.FileTypeFIFO, nil)), nil
	case KSocket:
		return e.Handles.New().AsLinkableLeaf(virtual.NewSpecialFile(filesystem.FileTypeSocket, nil)), nil
	}
	panic("vfsh: bad leaf kind")
}
