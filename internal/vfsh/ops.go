package vfsh

import (
	"fmt"
	"math/rand/v2"
	"strings"
)

// Child is one child of a CreateChildren operation.
type Child struct {
	Name   string    `json:"name"`
	Kind   Kind      `json:"kind"`
	Target string    `json:"target,omitempty"`
	Lazy   *LazySpec `json:"lazy,omitempty"`
	Link   int       `json:"link,omitempty"` // node id of an existing leaf to link, or 0
}

// Op is one operation of a stepped history. Directories and leaves are
// referred to by node id of the reference model (every object ever seen
// stays addressable, including detached and deleted ones).
type Op struct {
	K         string  `json:"k"`
	D         int     `json:"d"`
	N         string  `json:"n,omitempty"`
	D2        int     `json:"d2,omitempty"`
	N2        string  `json:"n2,omitempty"`
	L         int     `json:"l,omitempty"`
	Create    bool    `json:"create,omitempty"`
	Existing  bool    `json:"existing,omitempty"`
	Trunc     bool    `json:"trunc,omitempty"`
	FailAlloc bool    `json:"fail_alloc,omitempty"`
	RmDir     bool    `json:"rmdir,omitempty"`
	RmLeaf    bool    `json:"rmleaf,omitempty"`
	Kind      Kind    `json:"kind,omitempty"`
	Target    string  `json:"target,omitempty"`
	BadTarget bool    `json:"bad_target,omitempty"`
	Overwrite bool    `json:"overwrite,omitempty"`
	Forbid    bool    `json:"forbid,omitempty"`
	Children  []Child `json:"children,omitempty"`
	Sess      int     `json:"sess,omitempty"`
	PageSize  int     `json:"page_size,omitempty"`
	Locked    bool    `json:"locked,omitempty"`
	Salt      uint64  `json:"salt,omitempty"`
	FailIO    bool    `json:"fail_io,omitempty"`
	Why       string  `json:"why,omitempty"` // the generator's intention
}

func (o Op) String() string {
	var b strings.Builder
	fmt.Fprintf(&b, "%s(d%d", o.K, o.D)
	if o.N != "" {
		fmt.Fprintf(&b, ",%q", o.N)
	}
	if o.K == "VirtualRename" {
		fmt.Fprintf(&b, " -> d%d,%q", o.D2, o.N2)
	}
	if o.K == "VirtualLink" || strings.HasPrefix(o.K, "Leaf") {
		fmt.Fprintf(&b, ",l%d", o.L)
	}
	b.WriteString(")")
	return b.String()
}

// Profile tunes the generator.
type Profile struct {
	// Faults raises the share of operations aimed at error returns
	// (deleted directories, failing fetchers/allocators, stale leaves).
	Faults bool
	// LeafIO adds direct operations on leaves (open/read/write/close,
	// failing pool I/O); used by the lock-leak probes.
	LeafIO bool
	// Extra adds lock-taking calls that are irrelevant for the model
	// (InstallHooks, VirtualApply, VirtualSetAttributes).
	Extra bool
	// KernelOnly restricts the generator to the kernel-facing calls a
	// protocol front end (FUSE, NFSv4) can issue.
	KernelOnly bool
	// NoBadTargets: symbolic link targets a kernel cannot send (NUL
	// bytes) are not generated.
	NoBadTargets bool
	// DirSetAttr adds VirtualSetAttributes on directories.
	DirSetAttr bool
	// UniqueTargets gives every symbolic link its own target. Needed
	// where equal targets mean equal inode numbers but distinct objects
	// (FUSE handle allocator seen through node IDs).
	UniqueTargets bool
	MaxDirs       int
	MaxNames      int
}

// Gen generates operations against the current state of the model.
type Gen struct {
	M    *Model
	R    *rand.Rand
	P    Profile
	spec int
	tgt  int
}

var namePool = []string{"a", "b", "c", "A", "B", "._a", "._B", "d", "._c", "C"}

func (g *Gen) names() []string {
	n := g.P.MaxNames
	if n <= 0 || n > len(namePool) {
		n = 7
	}
	return namePool[:n]
}

func (g *Gen) chance(p float64) bool { return g.R.Float64() < p }

func flipCase(s string) string {
	if s == strings.ToLower(s) {
		return strings.ToUpper(s)
	}
	return strings.ToLower(s)
}

// boundDirs returns the directories a call can be issued against.
func (g *Gen) boundDirs() (live, dead []*Node) {
	for _, n := range g.M.Nodes {
		if n.IsDir() && n.Bound {
			if n.Deleted {
				dead = append(dead, n)
			} else {
				live = append(live, n)
			}
		}
	}
	return
}

func (g *Gen) pickDir() *Node {
	live, dead := g.boundDirs()
	pDead := 0.08
	if g.P.Faults {
		pDead = 0.22
	}
	if len(dead) > 0 && (len(live) == 0 || g.chance(pDead)) {
		return dead[g.R.IntN(len(dead))]
	}
	// Prefer recently created directories a little, so that depth builds up.
	if g.chance(0.3) {
		return live[len(live)-1-g.R.IntN(min(3, len(live)))]
	}
	return live[g.R.IntN(len(live))]
}

func (g *Gen) pickLiveDir() *Node {
	live, _ := g.boundDirs()
	return live[g.R.IntN(len(live))]
}

func (g *Gen) freshName() string {
	ns := g.names()
	return ns[g.R.IntN(len(ns))]
}

// pickName returns mostly names that exist in d (sometimes in another case).
func (g *Gen) pickName(d *Node, pExisting float64) string {
	if len(d.Entries) > 0 && g.chance(pExisting) {
		n := d.Entries[g.R.IntN(len(d.Entries))].Name
		if g.chance(0.15) {
			return flipCase(n)
		}
		return n
	}
	return g.freshName()
}

func (g *Gen) unusedName(d *Node) (string, bool) {
	ns := g.names()
	off := g.R.IntN(len(ns))
	for i := range ns {
		n := ns[(off+i)%len(ns)]
		if g.M.find(d, n) == nil {
			return n, true
		}
	}
	return "", false
}

func (g *Gen) boundLeaves() (live, stale []*Node) {
	for _, n := range g.M.Nodes {
		if !n.IsDir() && n.Bound {
			if n.Nlink > 0 {
				live = append(live, n)
			} else {
				stale = append(stale, n)
			}
		}
	}
	return
}

func (g *Gen) newTarget() string {
	if g.P.UniqueTargets {
		g.tgt++
		return fmt.Sprintf("unique-target-%d", g.tgt)
	}
	// A small set of targets, so that equal targets (one shared node under
	// the NFS handle allocator) are frequent.
	return fmt.Sprintf("target%d", g.R.IntN(4))
}

func (g *Gen) leafKind() Kind {
	return []Kind{KFile, KFile, KSymlink, KFIFO, KSocket}[g.R.IntN(5)]
}

// NewLazySpec generates the description of a lazily fetched directory.
func (g *Gen) NewLazySpec(depth int) *LazySpec {
	g.spec++
	s := &LazySpec{ID: g.spec, Children: map[string]*LazyChild{}}
	if g.chance(0.3) || (g.P.Faults && g.chance(0.4)) {
		s.Failures = 1 + g.R.IntN(2)
	}
	seen := map[string]bool{}
	for i, n := 0, g.R.IntN(4); i < n; i++ {
		name := g.freshName()
		if seen[strings.ToLower(name)] {
			continue
		}
		seen[strings.ToLower(name)] = true
		if depth < 2 && g.chance(0.3) {
			s.Children[name] = &LazyChild{Kind: KDir, Sub: g.NewLazySpec(depth + 1)}
		} else {
			k := g.leafKind()
			s.Children[name] = &LazyChild{Kind: k, Target: g.newTarget()}
		}
	}
	return s
}

type weighted struct {
	w int
	f func() (Op, bool)
}

// Next generates the next operation.
func (g *Gen) Next() Op {
	live, _ := g.boundDirs()
	tooManyDirs := g.P.MaxDirs > 0 && len(live) >= g.P.MaxDirs
	table := []weighted{
		{10, g.genOpen},
		{8, g.genMkdir},
		{6, g.genMknod},
		{7, g.genLink},
		{16, g.genRename},
		{10, g.genRemove},
		{8, g.genLookup},
		{14, g.genReadDir},
		{4, g.genLookupChild},
		{4, g.genList},
		{5, g.genCreateChildren},
		{3, g.genWorkerRemove},
		{2, g.genRemoveAll},
		{2, g.genRemoveAllChildren},
		{4, g.genEnter},
		{1, g.genFilter},
		{3, g.genGetAttr},
	}
	if g.P.KernelOnly {
		table = []weighted{
			{10, g.genOpen}, {8, g.genMkdir}, {6, g.genMknod}, {7, g.genLink}, {16, g.genRename},
			{12, g.genRemove}, {8, g.genLookup}, {14, g.genReadDir}, {3, g.genGetAttr},
		}
		if tooManyDirs {
			table = append(table, weighted{10, g.genRemove})
		}
	} else if tooManyDirs {
		table = append(table, weighted{8, g.genRemove}, weighted{4, g.genRemoveAll})
	}
	if g.P.LeafIO {
		table = append(table, weighted{12, g.genLeafIO})
	}
	if g.P.Extra {
		table = append(table, weighted{4, g.genExtra})
	}
	if g.P.DirSetAttr {
		table = append(table, weighted{2, func() (Op, bool) {
			d := g.pickDir()
			return Op{K: "VirtualSetAttributes", D: d.ID, Kind: Kind(g.R.IntN(5))}, true
		}})
	}
	total := 0
	for _, t := range table {
		total += t.w
	}
	for try := 0; try < 20; try++ {
		x := g.R.IntN(total)
		for _, t := range table {
			if x < t.w {
				if op, ok := t.f(); ok {
					return op
				}
				break
			}
			x -= t.w
		}
	}
	return Op{K: "VirtualMkdir", D: g.M.Root.ID, N: g.freshName()}
}

func (g *Gen) genOpen() (Op, bool) {
	d := g.pickDir()
	op := Op{K: "VirtualOpenChild", D: d.ID, N: g.pickName(d, 0.5)}
	switch g.R.IntN(4) {
	case 0:
		op.Create = true
	case 1:
		op.Existing = true
	default:
		op.Create, op.Existing = true, true
	}
	op.Trunc = op.Existing && g.chance(0.3)
	if op.Create && g.chance(map[bool]float64{false: 0.05, true: 0.25}[g.P.Faults]) {
		op.FailAlloc = true
		if n, ok := g.unusedName(d); ok && g.chance(0.8) {
			op.N = n
		}
	}
	return op, true
}

func (g *Gen) genMkdir() (Op, bool) {
	d := g.pickDir()
	return Op{K: "VirtualMkdir", D: d.ID, N: g.pickName(d, 0.25)}, true
}

func (g *Gen) genMknod() (Op, bool) {
	d := g.pickDir()
	op := Op{K: "VirtualMknod", D: d.ID, N: g.pickName(d, 0.25)}
	op.Kind = []Kind{KFIFO, KSocket, KSymlink, KSymlink, KBlock, KFile}[g.R.IntN(6)]
	if op.Kind == KSymlink {
		op.Target = g.newTarget()
		if !g.P.NoBadTargets && g.chance(map[bool]float64{false: 0.05, true: 0.3}[g.P.Faults]) {
			op.BadTarget = true
			op.Target = "bad\x00target"
			if n, ok := g.unusedName(d); ok {
				op.N = n
			}
		}
	}
	return op, true
}

func (g *Gen) genLink() (Op, bool) {
	if g.chance(0.04) && !g.P.KernelOnly {
		d := g.pickDir()
		return Op{K: "VirtualLinkForeign", D: d.ID, N: g.pickName(d, 0.3)}, true
	}
	live, stale := g.boundLeaves()
	if len(live)+len(stale) == 0 {
		return Op{}, false
	}
	d := g.pickDir()
	var l *Node
	if len(stale) > 0 && (len(live) == 0 || g.chance(map[bool]float64{false: 0.1, true: 0.3}[g.P.Faults])) {
		l = stale[g.R.IntN(len(stale))]
	} else {
		l = live[g.R.IntN(len(live))]
	}
	op := Op{K: "VirtualLink", D: d.ID, L: l.ID, N: g.pickName(d, 0.2)}
	if n, ok := g.unusedName(d); ok && g.chance(0.6) {
		op.N = n
	}
	return op, true
}

func (g *Gen) genLookup() (Op, bool) {
	d := g.pickDir()
	return Op{K: "VirtualLookup", D: d.ID, N: g.pickName(d, 0.7), Locked: g.chance(0.5)}, true
}

func (g *Gen) genLookupChild() (Op, bool) {
	d := g.pickDir()
	return Op{K: "LookupChild", D: d.ID, N: g.pickName(d, 0.7)}, true
}

func (g *Gen) genList() (Op, bool) {
	d := g.pickDir()
	return Op{K: []string{"LookupAllChildren", "ReadDir"}[g.R.IntN(2)], D: d.ID}, true
}

func (g *Gen) genGetAttr() (Op, bool) {
	d := g.pickDir()
	return Op{K: "VirtualGetAttributes", D: d.ID}, true
}

func (g *Gen) genRemove() (Op, bool) {
	d := g.pickDir()
	op := Op{K: "VirtualRemove", D: d.ID, N: g.pickName(d, 0.85)}
	switch g.R.IntN(5) {
	case 0:
		op.RmDir = true
	case 1:
		op.RmLeaf = true
	default:
		op.RmDir, op.RmLeaf = true, true
	}
	// Directed: rmdir of a directory that holds only hidden files.
	if g.M.Hidden && g.chance(0.25) {
		for _, e := range d.Entries {
			if e.Node.IsDir() && e.Node.Lazy == nil && len(e.Node.Entries) > 0 && g.M.deletable(e.Node) {
				op.N, op.RmDir, op.Why = e.Name, true, "rmdir-hidden-only"
			}
		}
	}
	return op, true
}

func (g *Gen) genWorkerRemove() (Op, bool) {
	d := g.pickDir()
	return Op{K: "Remove", D: d.ID, N: g.pickName(d, 0.8)}, true
}

func (g *Gen) genRemoveAll() (Op, bool) {
	d := g.pickDir()
	return Op{K: "RemoveAll", D: d.ID, N: g.pickName(d, 0.8)}, true
}

func (g *Gen) genRemoveAllChildren() (Op, bool) {
	d := g.pickDir()
	if d == g.M.Root && !g.chance(0.1) {
		return Op{}, false
	}
	return Op{K: "RemoveAllChildren", D: d.ID, Forbid: g.chance(0.4) && d != g.M.Root}, true
}

func (g *Gen) genEnter() (Op, bool) {
	d := g.pickDir()
	return Op{K: "CreateAndEnterPrepopulatedDirectory", D: d.ID, N: g.pickName(d, 0.5)}, true
}

func (g *Gen) genFilter() (Op, bool) {
	d := g.pickLiveDir()
	return Op{K: "FilterChildren", D: d.ID, Salt: g.R.Uint64()}, true
}

func (g *Gen) genCreateChildren() (Op, bool) {
	d := g.pickDir()
	op := Op{K: "CreateChildren", D: d.ID, Overwrite: g.chance(0.5)}
	seen := map[string]bool{}
	live, _ := g.boundLeaves()
	for i, n := 0, 1+g.R.IntN(3); i < n; i++ {
		name := g.pickName(d, 0.3)
		if seen[strings.ToLower(name)] {
			continue
		}
		seen[strings.ToLower(name)] = true
		c := Child{Name: name}
		switch {
		case g.chance(0.35):
			c.Kind = KDir
			c.Lazy = g.NewLazySpec(0)
		case len(live) > 0 && g.chance(0.2):
			l := live[g.R.IntN(len(live))]
			c.Kind, c.Link = l.Kind, l.ID
		default:
			c.Kind = g.leafKind()
			c.Target = g.newTarget()
		}
		op.Children = append(op.Children, c)
	}
	return op, true
}

func (g *Gen) genReadDir() (Op, bool) {
	// Continue a listing in progress, or start a new one.
	var open []*Session
	for _, s := range g.M.Sessions {
		if !s.Done {
			open = append(open, s)
		}
	}
	if len(open) > 0 && (len(open) >= 3 || g.chance(0.7)) {
		s := open[g.R.IntN(len(open))]
		return Op{K: "VirtualReadDir", D: s.Dir.ID, Sess: s.ID + 1}, true
	}
	d := g.pickDir()
	// Prefer directories that have something to list.
	for try := 0; try < 4 && len(g.M.Visible(d)) < 2; try++ {
		d = g.pickDir()
	}
	ps := 1 + g.R.IntN(4)
	if g.chance(0.1) {
		ps = 1000
	}
	return Op{K: "VirtualReadDir", D: d.ID, PageSize: ps, Locked: g.chance(0.5)}, true
}

// genRename picks one of the cases of the rename case analysis and looks for
// operands that produce it; if none exist it falls back to random operands.
func (g *Gen) genRename() (Op, bool) {
	if g.chance(0.02) && !g.P.KernelOnly {
		d := g.pickDir()
		return Op{K: "VirtualRenameForeign", D: d.ID, N: g.pickName(d, 0.8), N2: g.freshName()}, true
	}
	live, dead := g.boundDirs()
	pick := func(ds []*Node) *Node { return ds[g.R.IntN(len(ds))] }
	type cand struct {
		d *Node
		e *Entry
	}
	var files, dirs, emptyDirs, fullDirs []cand
	for _, d := range live {
		for _, e := range d.Entries {
			c := cand{d, e}
			switch {
			case !e.Node.IsDir():
				files = append(files, c)
			default:
				dirs = append(dirs, c)
				if e.Node.Lazy == nil && g.M.deletable(e.Node) {
					emptyDirs = append(emptyDirs, c)
				} else if e.Node.Lazy == nil {
					fullDirs = append(fullDirs, c)
				}
			}
		}
	}
	any := func(cs []cand) (cand, bool) {
		if len(cs) == 0 {
			return cand{}, false
		}
		return cs[g.R.IntN(len(cs))], true
	}
	mk := func(why string, a cand, d2 *Node, n2 string) (Op, bool) {
		// Never move a directory into itself or below itself: the code
		// documents the missing cycle check as a TODO; the model does
		// not define that case.
		if a.e.Node.IsDir() && g.M.InSubtree(a.e.Node, d2) {
			return Op{}, false
		}
		return Op{K: "VirtualRename", D: a.d.ID, N: a.e.Name, D2: d2.ID, N2: n2, Why: why}, true
	}
	switch g.R.IntN(12) {
	case 0: // onto itself
		if a, ok := any(append(files, dirs...)); ok {
			return mk("onto-itself", a, a.d, a.e.Name)
		}
	case 1: // hard link onto itself
		for _, a := range files {
			for _, b := range files {
				if a.e != b.e && a.e.Node == b.e.Node && g.chance(0.5) {
					return mk("hard-link-onto-itself", a, b.d, b.e.Name)
				}
			}
		}
	case 2: // file onto file
		a, ok1 := any(files)
		b, ok2 := any(files)
		if ok1 && ok2 && a.e != b.e {
			return mk("file-onto-file", a, b.d, b.e.Name)
		}
	case 3: // dir onto empty dir
		a, ok1 := any(dirs)
		b, ok2 := any(emptyDirs)
		if ok1 && ok2 && a.e != b.e {
			return mk("dir-onto-empty-dir", a, b.d, b.e.Name)
		}
	case 4: // dir onto non-empty dir
		a, ok1 := any(dirs)
		b, ok2 := any(fullDirs)
		if ok1 && ok2 && a.e != b.e {
			return mk("dir-onto-nonempty-dir", a, b.d, b.e.Name)
		}
	case 5: // dir onto file
		a, ok1 := any(dirs)
		b, ok2 := any(files)
		if ok1 && ok2 {
			return mk("dir-onto-file", a, b.d, b.e.Name)
		}
	case 6: // file onto dir
		a, ok1 := any(files)
		b, ok2 := any(dirs)
		if ok1 && ok2 {
			return mk("file-onto-dir", a, b.d, b.e.Name)
		}
	case 7: // into a removed directory
		if a, ok := any(append(files, dirs...)); ok && len(dead) > 0 {
			return mk("into-removed-directory", a, pick(dead), g.freshName())
		}
	case 8: // cross directory, new name
		if a, ok := any(append(files, dirs...)); ok {
			d2 := pick(live)
			if n, ok := g.unusedName(d2); ok {
				return mk("cross-dir-new-name", a, d2, n)
			}
		}
	case 9: // same directory, new name (possibly only a change of case)
		if a, ok := any(append(files, dirs...)); ok {
			if g.chance(0.3) {
				return mk("case-change", a, a.d, flipCase(a.e.Name))
			}
			if n, ok := g.unusedName(a.d); ok {
				return mk("same-dir-new-name", a, a.d, n)
			}
		}
	}
	d := g.pickDir()
	d2 := g.pickDir()
	op := Op{K: "VirtualRename", D: d.ID, N: g.pickName(d, 0.8), D2: d2.ID, N2: g.pickName(d2, 0.5), Why: "random"}
	if e := g.M.find(d, op.N); e != nil && e.Node.IsDir() && g.M.InSubtree(e.Node, d2) {
		return Op{}, false
	}
	return op, true
}

func (g *Gen) genLeafIO() (Op, bool) {
	live, stale := g.boundLeaves()
	if len(live)+len(stale) == 0 {
		return Op{}, false
	}
	if len(stale) > 0 && (len(live) == 0 || g.chance(0.25)) {
		l := stale[g.R.IntN(len(stale))]
		return Op{K: []string{"LeafOpenSelf", "LeafGetAttributes", "LeafUpload", "LeafOpenReadFrozen", "LeafPersistency", "LeafSetAttributes"}[g.R.IntN(6)], L: l.ID, Trunc: g.chance(0.5), Salt: g.R.Uint64()}, true
	}
	l := live[g.R.IntN(len(live))]
	ks := []string{"LeafOpenSelf", "LeafGetAttributes", "LeafSetAttributes", "LeafIO", "LeafIO", "LeafUpload", "LeafOpenReadFrozen", "LeafPersistency"}
	return Op{K: ks[g.R.IntN(len(ks))], L: l.ID, Trunc: g.chance(0.3), FailIO: g.chance(0.35), Salt: g.R.Uint64()}, true
}

func (g *Gen) genExtra() (Op, bool) {
	d := g.pickDir()
	return Op{K: []string{"InstallHooks", "VirtualApply", "VirtualSetAttributes"}[g.R.IntN(3)], D: d.ID, Kind: Kind(g.R.IntN(5))}, true
}
