package vfsh

import (
	"sync/atomic"

	"github.com/buildbarn/bb-remote-execution/pkg/filesystem/virtual"
	"github.com/buildbarn/bb-storage/pkg/filesystem/path"
)

// Fetcher is a scripted InitialContentsFetcher: it fails spec.Failures times
// and then yields the children described by the spec. Leaves are created
// through the environment's allocators at fetch time.
type Fetcher struct {
	env       *Env
	Spec      *LazySpec
	remaining atomic.Int32
	Calls     atomic.Int32
	Applies   atomic.Int32
}

// NewFetcher creates the real fetcher for a spec.
func (e *Env) NewFetcher(spec *LazySpec) *Fetcher {
	f := &Fetcher{env: e, Spec: spec}
	f.remaining.Store(int32(spec.Failures))
	return f
}

// FetchContents implements virtual.InitialContentsFetcher.
func (f *Fetcher) FetchContents(fileReadMonitorFactory virtual.FileReadMonitorFactory) (map[path.Component]virtual.InitialChild, error) {
	f.Calls.Add(1)
	if f.remaining.Load() > 0 {
		f.remaining.Add(-1)
		return nil, errInjected
	}
	out := make(map[path.Component]virtual.InitialChild, len(f.Spec.Children))
	for name, c := range f.Spec.Children {
		if c.Kind == KDir {
			out[path.MustNewComponent(name)] = virtual.InitialChild{}.FromDirectory(f.env.NewFetcher(c.Sub))
			continue
		}
		leaf, err := f.env.NewLeaf(c.Kind, c.Target)
		if err != nil {
			panic("vfsh: cannot create lazily fetched leaf: " + err.Error())
		}
		c.real = leaf
		out[path.MustNewComponent(name)] = virtual.InitialChild{}.FromLeaf(leaf)
	}
	return out, nil
}

// VirtualApply implements virtual.InitialNode.
func (f *Fetcher) VirtualApply(data any) bool {
	f.Applies.Add(1)
	return false
}
