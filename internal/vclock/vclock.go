// Package vclock is a virtual clock.Clock owned by the harness. Time only
// moves when the driver says so; timers fire in timestamp order. No oracle
// ever reads the wall clock.
package vclock

import (
	"context"
	"sort"
	"sync"
	"time"

	"github.com/buildbarn/bb-storage/pkg/clock"
)

var _ clock.Clock = (*Clock)(nil)

// Clock implements github.com/buildbarn/bb-storage/pkg/clock.Clock.
type Clock struct {
	mu      sync.Mutex
	now     time.Time
	timers  map[*timer]struct{}
	seq     uint64
	created uint64
	// OnTimer, if set, is called (without the clock lock) whenever a
	// timer is created.
	OnTimer func(d time.Duration)
	// AutoTick, if non-zero, is added to the clock on every Now() call, so
	// that concurrent callers never observe the same instant twice.
	AutoTick time.Duration
}

type timer struct {
	c      *Clock
	at     time.Time
	seq    uint64
	ch     chan time.Time
	period time.Duration // >0 for tickers
	fn     func()        // for context timeouts
	d      time.Duration
}

// New creates a clock at the given unix second.
func New(unix int64) *Clock {
	return &Clock{now: time.Unix(unix, 0).UTC(), timers: map[*timer]struct{}{}}
}

// Now returns the virtual time.
func (c *Clock) Now() time.Time {
	c.mu.Lock()
	defer c.mu.Unlock()
	if c.AutoTick > 0 {
		c.now = c.now.Add(c.AutoTick)
	}
	return c.now
}

func (c *Clock) add(d time.Duration, period time.Duration, fn func()) *timer {
	c.mu.Lock()
	c.seq++
	c.created++
	t := &timer{c: c, at: c.now.Add(d), seq: c.seq, ch: make(chan time.Time, 1), period: period, fn: fn, d: d}
	c.timers[t] = struct{}{}
	cb := c.OnTimer
	c.mu.Unlock()
	if cb != nil {
		cb(d)
	}
	return t
}

func (t *timer) Stop() bool {
	t.c.mu.Lock()
	defer t.c.mu.Unlock()
	if _, ok := t.c.timers[t]; ok {
		delete(t.c.timers, t)
		return true
	}
	return false
}

type ticker struct{ t *timer }

func (t ticker) Stop() { t.t.Stop() }

// NewTimer implements clock.Clock.
func (c *Clock) NewTimer(d time.Duration) (clock.Timer, <-chan time.Time) {
	t := c.add(d, 0, nil)
	return t, t.ch
}

// NewTicker implements clock.Clock.
func (c *Clock) NewTicker(d time.Duration) (clock.Ticker, <-chan time.Time) {
	t := c.add(d, d, nil)
	return ticker{t}, t.ch
}

type timeoutCtx struct {
	context.Context
	mu       sync.Mutex
	done     chan struct{}
	err      error
	deadline time.Time
}

func (t *timeoutCtx) Done() <-chan struct{} { return t.done }
func (t *timeoutCtx) Err() error {
	t.mu.Lock()
	defer t.mu.Unlock()
	return t.err
}
func (t *timeoutCtx) Deadline() (time.Time, bool) { return t.deadline, true }
func (t *timeoutCtx) cancel(err error) {
	t.mu.Lock()
	if t.err == nil {
		t.err = err
		close(t.done)
	}
	t.mu.Unlock()
}

// NewContextWithTimeout implements clock.Clock.
func (c *Clock) NewContextWithTimeout(parent context.Context, d time.Duration) (context.Context, context.CancelFunc) {
	tc := &timeoutCtx{Context: parent, done: make(chan struct{})}
	tm := c.add(d, 0, func() { tc.cancel(context.DeadlineExceeded) })
	tc.deadline = tm.at
	stop := make(chan struct{})
	go func() {
		select {
		case <-parent.Done():
			tc.cancel(parent.Err())
		case <-tc.done:
		case <-stop:
		}
	}()
	var once sync.Once
	return tc, func() {
		once.Do(func() {
			tm.Stop()
			tc.cancel(context.Canceled)
			close(stop)
		})
	}
}

// Pending returns the number of registered timers.
func (c *Clock) Pending() int {
	c.mu.Lock()
	defer c.mu.Unlock()
	return len(c.timers)
}

// Created returns the total number of timers ever created.
func (c *Clock) Created() uint64 {
	c.mu.Lock()
	defer c.mu.Unlock()
	return c.created
}

// PendingDurations lists the original durations of the registered timers.
func (c *Clock) PendingDurations() []time.Duration {
	c.mu.Lock()
	defer c.mu.Unlock()
	out := make([]time.Duration, 0, len(c.timers))
	for t := range c.timers {
		out = append(out, t.d)
	}
	sort.Slice(out, func(i, j int) bool { return out[i] < out[j] })
	return out
}

// NextDeadline returns the earliest registered expiry.
func (c *Clock) NextDeadline() (time.Time, bool) {
	c.mu.Lock()
	defer c.mu.Unlock()
	var best *timer
	for t := range c.timers {
		if best == nil || t.at.Before(best.at) || (t.at.Equal(best.at) && t.seq < best.seq) {
			best = t
		}
	}
	if best == nil {
		return time.Time{}, false
	}
	return best.at, true
}

// Set moves the clock to t without firing anything (t must not be before now).
func (c *Clock) Set(t time.Time) {
	c.mu.Lock()
	if t.After(c.now) {
		c.now = t
	}
	c.mu.Unlock()
}

// FireNext fires the earliest timer that is due at or before `limit`,
// moving time forward to its expiry if needed. It returns false when no
// timer is due. between is called after each firing by Advance.
func (c *Clock) FireNext(limit time.Time) bool {
	c.mu.Lock()
	var best *timer
	for t := range c.timers {
		if t.at.After(limit) {
			continue
		}
		if best == nil || t.at.Before(best.at) || (t.at.Equal(best.at) && t.seq < best.seq) {
			best = t
		}
	}
	if best == nil {
		c.mu.Unlock()
		return false
	}
	if best.at.After(c.now) {
		c.now = best.at
	}
	now := c.now
	if best.period > 0 {
		best.at = best.at.Add(best.period)
	} else {
		delete(c.timers, best)
	}
	fn := best.fn
	c.mu.Unlock()
	if fn != nil {
		fn()
	} else {
		select {
		case best.ch <- now:
		default:
		}
	}
	return true
}

// Advance moves time forward by d, firing due timers in order. settle is
// invoked after every firing (may be nil) so the driver can wait for
// quiescence between timers.
func (c *Clock) Advance(d time.Duration, settle func()) int {
	c.mu.Lock()
	limit := c.now.Add(d)
	c.mu.Unlock()
	n := 0
	for c.FireNext(limit) {
		n++
		if settle != nil {
			settle()
		}
	}
	c.Set(limit)
	return n
}
