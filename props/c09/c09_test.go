// Package c09 checks property C09: only complete, successful results reach
// the Action Cache.
//
// Two monitors:
//
//  1. pipeline fault enumeration (this file): the executor stack of
//     cmd/bb_worker/main.go (LocalBuildExecutor over a naive build directory
//     in a temp dir, NewBatchedStoreBlobAccess, StorageFlushing, Timestamped,
//     Caching) runs generated actions against in-memory CAS/AC fakes; a clean
//     run counts the storage calls N, then the action is re-run with a fault
//     at every position k <= N, for every fault kind and batch size;
//  2. decorator harness (decorator_test.go): Caching(StorageFlushing(scripted
//     base)) over the product of request shapes (no Action, malformed action
//     digests), base outcomes, flush outcomes and storage faults;
//  3. batching layer sub-harness (batch_test.go): random Put/flush sequences
//     against NewBatchedStoreBlobAccess with reader-backed buffers whose
//     Close calls are counted.
package c09

import (
	"context"
	"encoding/json"
	"fmt"
	"math/rand/v2"
	"os"
	"path/filepath"
	"strings"
	"sync/atomic"
	"testing"

	remoteexecution "github.com/bazelbuild/remote-apis/build/bazel/remote/execution/v2"
	"github.com/buildbarn/bb-remote-execution/pkg/proto/remoteworker"
	runner_pb "github.com/buildbarn/bb-remote-execution/pkg/proto/runner"
	"github.com/buildbarn/bb-storage/pkg/digest"

	"google.golang.org/grpc/codes"
	"google.golang.org/grpc/status"
	"google.golang.org/protobuf/proto"
	"google.golang.org/protobuf/types/known/durationpb"
	"google.golang.org/protobuf/types/known/timestamppb"

	"verif/internal/ev"
	"verif/internal/outkit"
	"verif/internal/vclock"
)

var digestFunction = digest.MustNewFunction("verif/c09", remoteexecution.DigestFunction_SHA256)

// actionSpec is one generated action: what it declares and what the fake
// runner produces.
type actionSpec struct {
	Index       int
	OutputPaths []string
	Produced    *outkit.Node // created below the input root by the runner
	Stdout      []byte
	Stderr      []byte
	ExitCode    int64
	RunErr      bool
	DoNotCache  bool
	Format      remoteexecution.Command_OutputDirectoryFormat
	ForceTrees  bool
	ServerLogs  *outkit.Node
	Preload     [][]byte // blobs already present in the CAS
}

func (a *actionSpec) describe() map[string]any {
	pre := []int{}
	for _, p := range a.Preload {
		pre = append(pre, len(p))
	}
	m := map[string]any{
		"index": a.Index, "output_paths": a.OutputPaths, "produced": a.Produced.Describe(),
		"stdout_len": len(a.Stdout), "stderr_len": len(a.Stderr), "exit_code": a.ExitCode,
		"runner_error": a.RunErr, "do_not_cache": a.DoNotCache, "format": a.Format.String(),
		"force_trees": a.ForceTrees, "preloaded_blob_sizes": pre,
	}
	if a.ServerLogs != nil {
		m["server_logs"] = a.ServerLogs.Describe()
	}
	return m
}

func (a *actionSpec) cacheableSuccess() bool {
	return !a.DoNotCache && !a.RunErr && a.ExitCode == 0
}

func genAction(rng *rand.Rand, idx int) *actionSpec {
	contents := outkit.GenContents(rng, 6)
	pick := func() []byte { return contents[rng.IntN(len(contents))] }
	a := &actionSpec{Index: idx, Produced: outkit.NewDir(), Format: remoteexecution.Command_TREE_ONLY}
	shape := idx
	if idx >= 8 {
		shape = 8 + rng.IntN(100)
	}
	nOut := rng.IntN(5)
	if shape < 8 {
		nOut = 2 + rng.IntN(3)
	}
	dirOpts := outkit.GenOptions{MaxDepth: 2, MaxEntries: 4, Symlinks: true, Contents: contents}
	for i := 0; i < nOut; i++ {
		name := fmt.Sprintf("out%d", i)
		a.OutputPaths = append(a.OutputPaths, name)
		r := rng.IntN(100)
		if shape < 8 && i < 2 {
			r = 30 + 25*i // one file, one directory
		}
		switch {
		case r < 50:
			a.Produced.Children[name] = &outkit.Node{Kind: outkit.KindFile, Data: pick(), Exec: rng.IntN(4) == 0}
		case r < 85:
			d := outkit.GenDir(rng, dirOpts, 0)
			if shape < 8 && len(d.Children) == 0 {
				d.Children["f"] = &outkit.Node{Kind: outkit.KindFile, Data: pick()}
				sub := outkit.NewDir()
				sub.Children["g"] = &outkit.Node{Kind: outkit.KindFile, Data: pick()}
				d.Children["sub"] = sub
				d.Children["sub2"] = sub.Clone()
			}
			a.Produced.Children[name] = d
		case r < 90:
			a.Produced.Children[name] = &outkit.Node{Kind: outkit.KindSymlink, Target: "out0"}
		default:
			// Declared but not produced.
		}
		if rng.IntN(6) == 0 {
			a.OutputPaths = append(a.OutputPaths, name) // duplicate declaration
		}
	}
	if rng.IntN(2) == 0 {
		a.Stdout = pick()
	}
	if rng.IntN(3) == 0 {
		a.Stderr = pick()
	}
	switch r := rng.IntN(100); {
	case r < 20:
		a.Format = remoteexecution.Command_DIRECTORY_ONLY
	case r < 45:
		a.Format = remoteexecution.Command_TREE_AND_DIRECTORY
	}
	a.ForceTrees = rng.IntN(8) == 0
	if rng.IntN(6) == 0 {
		a.ServerLogs = outkit.NewDir()
		a.ServerLogs.Children["log.txt"] = &outkit.Node{Kind: outkit.KindFile, Data: pick()}
		if rng.IntN(2) == 0 {
			sub := outkit.NewDir()
			sub.Children["nested.log"] = &outkit.Node{Kind: outkit.KindFile, Data: pick()}
			a.ServerLogs.Children["more"] = sub
		}
	}
	for _, c := range contents {
		if rng.IntN(4) == 0 {
			a.Preload = append(a.Preload, c)
		}
	}
	// Outcome.
	switch {
	case shape == 2:
		a.ExitCode = 1
	case shape == 3:
		a.DoNotCache = true
	case shape == 4:
		a.RunErr = true
	case shape == 5:
		a.Format = remoteexecution.Command_TREE_AND_DIRECTORY
	case shape < 8:
	default:
		if rng.IntN(100) < 20 {
			a.ExitCode = []int64{1, 2, 255}[rng.IntN(3)]
		}
		a.RunErr = rng.IntN(100) < 6
		a.DoNotCache = rng.IntN(100) < 12
	}
	return a
}

// runConfig is one execution of an action under a fault plan.
type runConfig struct {
	BatchSize      int
	PutConcurrency int64
	FaultAt        int
	Kind           outkit.FaultKind
	// MutateAt > 0: when the counted storage call at that position starts
	// (the worker is blocked in it), every regular file below the build
	// root is changed the way Mutation says ("overwrite": same length,
	// other bytes; "truncate": cut in half; "append": bytes added), as a
	// process left behind by the action would. Files whose digest has
	// been computed and whose upload is still pending then no longer
	// match that digest.
	MutateAt int
	Mutation string
}

// mutateFiles changes every non-empty regular file below root and returns
// how many it changed.
func mutateFiles(root, how string) int {
	n := 0
	filepath.Walk(root, func(p string, fi os.FileInfo, err error) error {
		if err != nil || !fi.Mode().IsRegular() || fi.Size() == 0 {
			return nil
		}
		os.Chmod(p, 0o644)
		switch how {
		case "overwrite":
			data, err := os.ReadFile(p)
			if err != nil {
				return nil
			}
			for i := range data {
				data[i] ^= 0x20
			}
			f, err := os.OpenFile(p, os.O_WRONLY, 0)
			if err != nil {
				return nil
			}
			f.WriteAt(data, 0)
			f.Close()
		case "truncate":
			if os.Truncate(p, fi.Size()/2) != nil {
				return nil
			}
		case "append":
			f, err := os.OpenFile(p, os.O_WRONLY|os.O_APPEND, 0)
			if err != nil {
				return nil
			}
			f.WriteString("more output written after the command was reaped")
			f.Close()
		}
		os.Chmod(p, fi.Mode().Perm())
		n++
		return nil
	})
	return n
}

// observation is what one run left behind.
type observation struct {
	Calls       []outkit.Call
	Counted     int
	Triggered   bool
	Hit         outkit.Call
	StatusCode  codes.Code
	StatusMsg   string
	ExitCode    int32
	ACStored    bool
	ACAttempts  int
	ACRefs      int
	FlushErr    string
	FlushCalls  int
	Skipped     bool
	DupAcked    bool
	StickyFlush bool
	Mutated     int  // files changed by the mutation
	PutsAfter   int  // CAS uploads that started after the mutation
	FailedAfter bool // one of them failed
	Problems    []problem
}

type problem struct {
	Sig    string
	Detail string
}

type harness struct {
	r       *ev.Run
	tmp     string
	runSeq  atomic.Int64
	seedStr string
}

// closure lists every digest an ActionResult references, decoding Tree
// blobs from the CAS as far as they are present.
type ref struct {
	Kind   string
	Digest *remoteexecution.Digest
}

func closure(ar *remoteexecution.ActionResult, cas *outkit.Store) []ref {
	var refs []ref
	lookup := func(d *remoteexecution.Digest) ([]byte, bool) {
		dd, err := digestFunction.NewDigestFromProto(d)
		if err != nil {
			return nil, false
		}
		return cas.Bytes(dd)
	}
	for _, f := range ar.OutputFiles {
		refs = append(refs, ref{"output-file", f.Digest})
	}
	for _, d := range ar.OutputDirectories {
		if d.TreeDigest != nil {
			refs = append(refs, ref{"tree", d.TreeDigest})
			if blob, ok := lookup(d.TreeDigest); ok {
				_, info, _ := outkit.CheckTree(blob, digestFunction.GetEnumValue(), lookup)
				for _, fd := range info.FileDigests {
					refs = append(refs, ref{"tree-file", fd})
				}
				if d.RootDirectoryDigest != nil {
					for _, td := range info.Dirs {
						refs = append(refs, ref{"directory", td.Digest})
					}
				}
			}
		}
		if d.RootDirectoryDigest != nil {
			refs = append(refs, ref{"root-directory", d.RootDirectoryDigest})
		}
	}
	if ar.StdoutDigest != nil {
		refs = append(refs, ref{"stdout", ar.StdoutDigest})
	}
	if ar.StderrDigest != nil {
		refs = append(refs, ref{"stderr", ar.StderrDigest})
	}
	return refs
}

func (h *harness) runOnce(spec *actionSpec, cfg runConfig) *observation {
	obs := &observation{}
	report := func(sig, format string, args ...any) {
		obs.Problems = append(obs.Problems, problem{Sig: sig, Detail: fmt.Sprintf(format, args...)})
	}
	buildRoot := filepath.Join(h.tmp, fmt.Sprintf("run%d", h.runSeq.Add(1)))
	if err := os.Mkdir(buildRoot, 0o777); err != nil {
		panic(err)
	}
	defer os.RemoveAll(buildRoot)

	ctx, cancel := context.WithCancel(context.Background())
	defer cancel()
	plan := outkit.NewPlan(cfg.FaultAt, cfg.Kind, cancel)
	cas := outkit.NewStore("cas", plan, true)
	ac := outkit.NewStore("ac", plan, false)
	ac.IgnoreCtx = true // a backend need not look at the context
	if cfg.MutateAt > 0 {
		cas.OnCall = func(op string, seq int) {
			if seq == cfg.MutateAt {
				obs.Mutated = mutateFiles(buildRoot, cfg.Mutation)
			}
		}
	}

	// Request.
	command := &remoteexecution.Command{
		Arguments:             []string{"/bin/true"},
		OutputPaths:           spec.OutputPaths,
		OutputDirectoryFormat: spec.Format,
	}
	commandRaw, _ := proto.Marshal(command)
	commandDigest := outkit.DigestOf(digestFunction, commandRaw)
	cas.Preload(commandDigest, commandRaw)
	for _, p := range spec.Preload {
		cas.Preload(outkit.DigestOf(digestFunction, p), p)
	}
	fetcher := outkit.NewDirectoryFetcher()
	inputRoot := fetcher.Add(digestFunction, &remoteexecution.Directory{})
	action := &remoteexecution.Action{
		CommandDigest:   commandDigest.GetProto(),
		InputRootDigest: inputRoot,
		Timeout:         durationpb.New(3600e9),
		DoNotCache:      spec.DoNotCache,
		Salt:            []byte(fmt.Sprintf("%s/%d", h.seedStr, spec.Index)),
	}
	actionRaw, _ := proto.Marshal(action)
	actionDigest := outkit.DigestOf(digestFunction, actionRaw)

	runner := &outkit.Runner{OnRun: func(ctx context.Context, req *runner_pb.RunRequest) (*runner_pb.RunResponse, error) {
		abs := func(p string) string { return filepath.Join(buildRoot, p) }
		if err := outkit.Materialize(abs(req.InputRootDirectory), spec.Produced); err != nil {
			panic(fmt.Sprintf("harness: materialise outputs: %v", err))
		}
		if err := os.WriteFile(abs(req.StdoutPath), spec.Stdout, 0o644); err != nil {
			panic(err)
		}
		if err := os.WriteFile(abs(req.StderrPath), spec.Stderr, 0o644); err != nil {
			panic(err)
		}
		if spec.ServerLogs != nil {
			if err := outkit.Materialize(abs(req.ServerLogsDirectory), spec.ServerLogs); err != nil {
				panic(err)
			}
		}
		if spec.RunErr {
			return nil, status.Error(codes.Internal, "verif: runner crashed")
		}
		return &runner_pb.RunResponse{ExitCode: spec.ExitCode}, nil
	}}

	stack, err := outkit.NewStack(outkit.StackConfig{
		BuildRoot: buildRoot, Plan: plan, CAS: cas, AC: ac,
		BatchSize: cfg.BatchSize, PutConcurrency: cfg.PutConcurrency,
		Runner: runner, Clock: vclock.New(1_700_000_000), Fetcher: fetcher,
		ForceTrees: spec.ForceTrees, WorkerName: `{"verif":"c09"}`,
	})
	if err != nil {
		panic(err)
	}
	defer stack.Close()

	// Oracle at the instant of the AC write.
	ac.BeforePut = func(d digest.Digest, data []byte) {
		obs.ACAttempts++
		var ar remoteexecution.ActionResult
		if err := proto.Unmarshal(data, &ar); err != nil {
			report("ac-put unparsable-action-result", "AC Put payload does not parse: %v", err)
			return
		}
		if spec.DoNotCache {
			report("ac-put not-cacheable reason=do_not_cache", "AC Put for an action with do_not_cache")
		}
		if outkit.Key(d) != outkit.Key(actionDigest) {
			report("ac-put wrong-key", "AC Put under %s, action digest is %s", d, actionDigest)
		}
		if ar.ExitCode != 0 {
			report("ac-put not-cacheable reason=exit-code", "AC Put of a result with exit code %d", ar.ExitCode)
		}
		if seen := stack.Tap.Last(); seen == nil {
			report("ac-put before-response", "AC Put before the inner executors returned")
		} else {
			if c := status.FromProto(seen.Status).Code(); c != codes.OK {
				report("ac-put not-cacheable reason=status", "AC Put although the response status is %s: %s", c, seen.Status.GetMessage())
			}
			if seen.Result.GetExitCode() != 0 {
				report("ac-put not-cacheable reason=exit-code", "AC Put although the response exit code is %d", seen.Result.GetExitCode())
			}
			if !proto.Equal(seen.Result, &ar) {
				report("ac-put result-differs-from-response", "ActionResult written to the AC differs from the one in the response")
			}
		}
		refs := closure(&ar, cas)
		obs.ACRefs += len(refs)
		missing := map[string]bool{}
		for _, rf := range refs {
			dd, err := digestFunction.NewDigestFromProto(rf.Digest)
			if err != nil {
				report("ac-put bad-digest ref="+rf.Kind, "AC Put references malformed digest %v: %v", rf.Digest, err)
				continue
			}
			if !cas.Has(dd) && !missing[rf.Kind] {
				missing[rf.Kind] = true
				report("ac-put missing-blob ref="+rf.Kind, "AC Put while referenced %s blob %s is absent from the CAS", rf.Kind, dd)
			}
		}
	}

	updates := make(chan *remoteworker.CurrentState_Executing, 16)
	response := stack.Executor.Execute(ctx, nil, nil, digestFunction, &remoteworker.DesiredState_Executing{
		ActionDigest:    actionDigest.GetProto(),
		Action:          action,
		QueuedTimestamp: timestamppb.New(vclock.New(1_699_999_000).Now()),
	}, updates)

	// Post-run oracles.
	obs.Calls = plan.Log()
	obs.Counted = plan.Count()
	obs.Triggered, obs.Hit = plan.Triggered()
	st := status.FromProto(response.Status)
	obs.StatusCode, obs.StatusMsg = st.Code(), st.Message()
	obs.ExitCode = response.Result.GetExitCode()
	obs.ACStored = ac.Len() > 0
	obs.Skipped = cas.SkippedAny()

	if cfg.MutateAt > 0 {
		for _, c := range obs.Calls {
			if c.Seq > cfg.MutateAt && c.Store == "cas" && c.Op == "Put" && c.Phase != "after-flush" {
				obs.PutsAfter++
				if c.Err != "" {
					obs.FailedAfter = true
				}
			}
		}
	}
	storageErr, uploadErr := false, false
	for _, c := range obs.Calls {
		if c.Seq > 0 && c.Err != "" {
			storageErr = true
			if c.Store == "cas" && c.Phase != "after-flush" {
				uploadErr = true
			}
		}
	}
	if storageErr && obs.StatusCode == codes.OK {
		report("storage-error not-reported", "a storage call failed but the response status is OK")
	}
	if obs.StatusCode != codes.OK && obs.ACStored {
		report("ac-entry with-error-response", "response status %s (%s) but the AC holds an entry", obs.StatusCode, obs.StatusMsg)
	}
	if obs.ACStored && !spec.cacheableSuccess() {
		report("ac-entry not-cacheable", "AC entry for an action with do_not_cache=%v exit=%d runner_error=%v", spec.DoNotCache, spec.ExitCode, spec.RunErr)
	}
	if obs.ACStored && obs.ExitCode != 0 {
		report("ac-entry not-cacheable", "AC entry although the response exit code is %d", obs.ExitCode)
	}

	flushes := stack.Flushes()
	obs.FlushCalls = len(flushes)
	acks := stack.Writer.Acks()
	flushFailed := false
	for _, f := range flushes {
		if f.Err != nil {
			flushFailed = true
			obs.FlushErr = f.Err.Error()
			if f.CallsAfter == f.CallsBefore || !failedBetween(obs.Calls, f.CallsBefore, f.CallsAfter) {
				obs.StickyFlush = true // error stems from before the flush call
			}
			continue
		}
		for _, a := range acks[:f.AcksBefore] {
			if a.Err == nil && !cas.Has(a.Digest) {
				report("acked-put lost flush=ok", "Put of %s was acknowledged and flush returned nil, but the blob is not in the CAS", a.Digest)
				break
			}
		}
	}
	if flushFailed && obs.StatusCode == codes.OK {
		report("failed-flush not-reported", "flush failed (%s) but the response status is OK", obs.FlushErr)
	}
	if flushFailed || uploadErr {
		why := "flush failed"
		if !flushFailed {
			why = "a CAS write failed"
		}
		if n := len(response.Result.GetOutputFiles()); n > 0 {
			report("digests-advertised after-failed-write field=output_files", "%s but the response still lists %d output files", why, n)
		}
		if n := len(response.Result.GetOutputDirectories()); n > 0 {
			report("digests-advertised after-failed-write field=output_directories", "%s but the response still lists %d output directories", why, n)
		}
		if response.Result.GetStdoutDigest() != nil {
			report("digests-advertised after-failed-write field=stdout_digest", "%s but the response still has a stdout digest", why)
		}
		if response.Result.GetStderrDigest() != nil {
			report("digests-advertised after-failed-write field=stderr_digest", "%s but the response still has a stderr digest", why)
		}
		if n := len(response.ServerLogs); n > 0 {
			report("digests-advertised after-failed-write field=server_logs", "%s but the response still lists %d server logs", why, n)
		}
	}
	if len(flushes) != 1 {
		report("flush-count", "flusher invoked %d times for one action", len(flushes))
	}
	// Everything the final response advertises with an OK status must be
	// in the CAS as well (also for uncached results).
	if obs.StatusCode == codes.OK {
		for _, rf := range closure(response.Result, cas) {
			if dd, err := digestFunction.NewDigestFromProto(rf.Digest); err == nil && !cas.Has(dd) {
				report("ok-response missing-blob ref="+rf.Kind, "OK response references %s blob %s that is absent from the CAS", rf.Kind, dd)
				break
			}
		}
	}
	seenAck := map[string]bool{}
	for _, a := range acks {
		if a.Err == nil && seenAck[outkit.Key(a.Digest)] {
			obs.DupAcked = true
		}
		seenAck[outkit.Key(a.Digest)] = true
	}
	for _, p := range cas.IntegrityProblems() {
		report("cas-blob digest-mismatch", "%s", p)
	}
	never, twice := stack.Handles.Problems()
	if len(never) > 0 {
		report("file-handle not-closed", "%d of %d files opened for upload were never closed: %v", len(never), stack.Handles.Opened(), never)
	}
	if len(twice) > 0 {
		report("file-handle closed-twice", "files opened for upload closed more than once: %v", twice)
	}
	if left, err := os.ReadDir(buildRoot); err == nil && len(left) > 0 {
		h.r.Count("build-root-not-empty-after-run", 1)
	}
	return obs
}

// uploadsLeftInFlush tells how many of the blobs that the FindMissing call
// preceding position seq reported missing had not been handed to Put yet
// when call seq returned (put concurrency 1: uploads are sequential).
func uploadsLeftInFlush(calls []outkit.Call, seq int) int {
	missing, puts := 0, 0
	for _, c := range calls {
		if c.Seq == 0 || c.Seq > seq || c.Store != "cas" {
			continue
		}
		if c.Op == "FindMissing" {
			missing, puts = c.Missing, 0
		} else if c.Op == "Put" {
			puts++
		}
	}
	return missing - puts
}

func failedBetween(calls []outkit.Call, lo, hi int) bool {
	for _, c := range calls {
		if c.Seq > lo && c.Seq <= hi && c.Err != "" {
			return true
		}
	}
	return false
}

func (o *observation) hash() string {
	var sb strings.Builder
	for _, c := range o.Calls {
		if c.Seq == 0 {
			continue
		}
		fmt.Fprintf(&sb, "%s.%s.%s.%v;", c.Store, c.Op, c.Fault, c.Err != "")
	}
	return ev.HashOf(sb.String(), o.StatusCode, o.ACStored, o.ExitCode)
}

func (h *harness) judge(spec *actionSpec, cfg runConfig, obs *observation) {
	r := h.r
	for _, p := range obs.Problems {
		r.Violation("C09 "+p.Sig, p.Detail, map[string]any{
			"seed": r.Seed(), "action": spec.describe(), "batch_size": cfg.BatchSize,
			"put_concurrency": cfg.PutConcurrency, "fault_at": cfg.FaultAt, "fault_kind": cfg.Kind.String(),
			"mutate_at": cfg.MutateAt, "mutation": cfg.Mutation, "files_mutated": obs.Mutated,
			"calls": obs.Calls, "response_status": obs.StatusCode.String() + ": " + obs.StatusMsg,
			"response_exit_code": obs.ExitCode, "ac_stored": obs.ACStored, "flush_error": obs.FlushErr,
			"observed": p.Detail,
		})
	}
	r.Count("storage-calls", obs.Counted)
	r.Count("ac-put-attempts", obs.ACAttempts)
	r.Count("ac-referenced-digests-checked", obs.ACRefs)
	if obs.ACAttempts > 0 && obs.ACRefs > 0 {
		r.Situation("ac-put-evaluated-with-references")
	}
	if obs.Skipped {
		r.Situation("blob-skipped-as-present")
	}
	if obs.DupAcked {
		r.Situation("duplicate-digest-acknowledged")
	}
	if obs.StickyFlush {
		r.Situation("sticky-error-consumed-by-flush")
	}
	if obs.Mutated > 0 && obs.PutsAfter > 0 {
		// Files changed while uploads of them were pending.
		switch {
		case cfg.Mutation == "append":
			r.Situation("output-files-appended-to-before-pending-upload")
		case obs.FailedAfter:
			r.Situation("output-files-" + cfg.Mutation + "-before-pending-upload:upload-refused")
		}
		if obs.ACStored {
			r.Situation("ac-entry-written-after-files-changed-under-the-upload")
		}
	}
	if obs.Triggered {
		hit := obs.Hit
		switch {
		case hit.Store == "ac":
			r.Situation("fault-on-ac-put")
		case hit.Phase == "after-flush":
			r.Situation("fault-on-historical-response-put")
		case hit.Op == "FindMissing":
			r.Situation("fault-on-findmissing")
		case hit.Op == "Put":
			r.Situation("fault-on-cas-put-in-batch")
		}
		if hit.Phase == "final-flush" {
			r.Situation("fault-during-final-flush")
		} else if hit.Phase == "" {
			r.Situation("fault-during-upload-phase")
		}
		if cfg.Kind == outkit.FaultCancel {
			r.Situation("context-cancelled")
		}
		if cfg.Kind == outkit.FaultCancelAfter && hit.Store == "cas" && hit.Phase != "after-flush" {
			// The call at the fault position succeeded and the context
			// died as it returned.
			switch left := uploadsLeftInFlush(obs.Calls, hit.Seq); {
			case hit.Op == "FindMissing" && hit.Missing > 0:
				r.Situation("cancelled-after-findmissing-before-first-upload")
			case hit.Op == "Put" && left > 0:
				r.Situation("cancelled-after-successful-upload-with-uploads-left")
			case hit.Op == "Put":
				r.Situation("cancelled-after-last-upload-of-flush")
			}
		}
		if spec.cacheableSuccess() {
			r.Situation("fault-in-cacheable-successful-action")
		}
	}
	r.Hash(ev.HashOf(obs.hash(), cfg.Mutation), obs.Triggered || (obs.Mutated > 0 && obs.PutsAfter > 0))
}

// replay re-runs exactly the case recorded in a witness file.
func (h *harness) replay(file string) {
	raw, err := os.ReadFile(file)
	if err != nil {
		h.r.Inconclusive("cannot read replay file: %v", err)
		return
	}
	var doc struct {
		Witness struct {
			Case           *int   `json:"case"`
			BatchSize      int    `json:"batch_size"`
			PutConcurrency int64  `json:"put_concurrency"`
			FaultAt        int    `json:"fault_at"`
			FaultKind      string `json:"fault_kind"`
			MutateAt       int    `json:"mutate_at"`
			Mutation       string `json:"mutation"`
			Action         *struct {
				Index int `json:"index"`
			} `json:"action"`
		} `json:"witness"`
	}
	if err := json.Unmarshal(raw, &doc); err != nil {
		h.r.Inconclusive("cannot parse replay file: %v", err)
		return
	}
	w := doc.Witness
	if w.Action == nil {
		if w.Case == nil {
			h.r.Inconclusive("replay file names neither an action nor a batch case")
			return
		}
		runBatchCase(h.r, *w.Case)
		return
	}
	kind := outkit.FaultNone
	for _, k := range []outkit.FaultKind{outkit.FaultErrDiscard, outkit.FaultErrAfterRead, outkit.FaultSticky, outkit.FaultCancel, outkit.FaultCancelAfter} {
		if k.String() == w.FaultKind {
			kind = k
		}
	}
	spec := genAction(h.r.Rand(9, uint64(w.Action.Index)), w.Action.Index)
	cfg := runConfig{BatchSize: w.BatchSize, PutConcurrency: w.PutConcurrency, FaultAt: w.FaultAt, Kind: kind, MutateAt: w.MutateAt, Mutation: w.Mutation}
	h.r.Case("replay action %d batch %d fault %s at %d", w.Action.Index, cfg.BatchSize, kind, cfg.FaultAt)
	h.judge(spec, cfg, h.runOnce(spec, cfg))
}

const workers = 4

func TestCheck(t *testing.T) {
	r := ev.Start("C09")
	defer r.Finish()
	r.SetRule("pipeline: generated actions (0-4 declared outputs: files with duplicate contents, nested directories, symlinks, missing; stdout/stderr; exit codes; runner errors; do_not_cache; three output directory formats; preloaded CAS blobs) x batch size {1,2,3,100}: one clean run counts the storage calls N (CAS FindMissing/Put, AC Put), then one run per position k<=N and fault kind (error before reading, error after reading [Put only], outage from k on, context cancelled right before call k, context cancelled right after call k completed successfully), put concurrency 1, plus random positions with put concurrency 3; plus, per FindMissing position of the clean run, a fault-free run in which every regular file below the build root is overwritten in place / truncated / appended to while that call is in progress (output files changing between the computation of their digest and their batched upload). batching sub-harness: random Put/flush sequences with reader-backed buffers. A case is non-trivial when the fault position was reached (pipeline) or a fault/duplicate/skip occurred (batch); distinct = distinct (call sequence, fault, status, AC state) hashes")
	r.Assume("fake CAS/AC are sequentially consistent in-memory maps; a storage call that returns nil has stored the blob")
	r.Assume("a blob counts as stored under a digest only if the bytes the CAS received hash to that digest (the fake CAS re-hashes every Put with the standard library)")
	r.Assume("the fake AC ignores context cancellation (allowed for a backend), the fake CAS honours it")
	r.Assume("executor composition is the harness' transcription of cmd/bb_worker/main.go (native build directory branch) with transparent taps; main.go itself is not executed")
	r.Assume("output digests of a response are the digests in output_files, output_directories, stdout_digest, stderr_digest and server_logs")
	for _, s := range []string{
		"ac-put-evaluated-with-references", "fault-on-findmissing", "fault-on-cas-put-in-batch",
		"fault-during-final-flush", "fault-during-upload-phase", "fault-on-ac-put",
		"fault-on-historical-response-put", "duplicate-digest-acknowledged",
		"sticky-error-consumed-by-flush", "blob-skipped-as-present", "context-cancelled",
		"fault-in-cacheable-successful-action",
		"cancelled-after-findmissing-before-first-upload", "cancelled-after-successful-upload-with-uploads-left",
		"cancelled-after-last-upload-of-flush",
		"output-files-overwrite-before-pending-upload:upload-refused",
		"output-files-truncate-before-pending-upload:upload-refused",
		"output-files-appended-to-before-pending-upload",
		"ac-entry-written-after-files-changed-under-the-upload",
	} {
		if r.ReplayFile() == "" {
			r.Floor(s, 10)
		}
	}

	tmp, err := os.MkdirTemp("", "verif-c09-")
	if err != nil {
		t.Fatal(err)
	}
	defer os.RemoveAll(tmp)
	h := &harness{r: r, tmp: tmp, seedStr: fmt.Sprint(r.Seed())}

	if rf := r.ReplayFile(); rf != "" {
		h.replay(rf)
		return
	}

	runDecoratorHarness(r)
	runBatchHarness(r)

	nActions := r.Pick(18, 400)
	batchSizes := []int{1, 2, 3, 100}
	outkit.ParallelFor(nActions*len(batchSizes), workers, func(unit int) {
		ai := unit / len(batchSizes)
		spec := genAction(r.Rand(9, uint64(ai)), ai)
		for _, bs := range batchSizes[unit%len(batchSizes) : unit%len(batchSizes)+1] {
			clean := runConfig{BatchSize: bs, PutConcurrency: 1}
			r.Case("action %d batch %d clean", ai, bs)
			base := h.runOnce(spec, clean)
			h.judge(spec, clean, base)
			if r.WantSample() && ai < 3 && bs == 2 {
				r.Sample(map[string]any{"action": spec.describe(), "batch_size": bs, "clean_calls": base.Calls, "status": base.StatusCode.String(), "ac_stored": base.ACStored})
			}
			if spec.cacheableSuccess() && !base.ACStored {
				r.Violation("C09 clean-run not-cached", "fault-free run of a cacheable, successful action left no AC entry (status "+base.StatusCode.String()+": "+base.StatusMsg+")",
					map[string]any{"seed": r.Seed(), "action": spec.describe(), "batch_size": bs, "calls": base.Calls})
			}
			// Clean call kinds by position.
			opAt := map[int]outkit.Call{}
			for _, c := range base.Calls {
				if c.Seq > 0 {
					opAt[c.Seq] = c
				}
			}
			for k := 1; k <= base.Counted; k++ {
				kinds := []outkit.FaultKind{outkit.FaultErrDiscard, outkit.FaultSticky, outkit.FaultCancel, outkit.FaultCancelAfter}
				if opAt[k].Op == "Put" {
					kinds = append(kinds, outkit.FaultErrAfterRead)
				}
				for _, kind := range kinds {
					cfg := runConfig{BatchSize: bs, PutConcurrency: 1, FaultAt: k, Kind: kind}
					r.Case("action %d batch %d fault %s at %d/%d", ai, bs, kind, k, base.Counted)
					obs := h.runOnce(spec, cfg)
					h.judge(spec, cfg, obs)
				}
			}
			// Output files that change between the computation of their
			// digest and their (batched) upload: at every FindMissing of
			// the clean run one kind of change, at the last one (the
			// final flush) all three.
			var fms []int
			for _, c := range base.Calls {
				if c.Seq > 0 && c.Store == "cas" && c.Op == "FindMissing" {
					fms = append(fms, c.Seq)
				}
			}
			mutations := []string{"overwrite", "truncate", "append"}
			for j, k := range fms {
				hows := []string{mutations[(j+ai)%3]}
				if j == len(fms)-1 {
					hows = mutations
				}
				for _, how := range hows {
					cfg := runConfig{BatchSize: bs, PutConcurrency: 1, MutateAt: k, Mutation: how}
					r.Case("action %d batch %d files %s at call %d/%d", ai, bs, how, k, base.Counted)
					h.judge(spec, cfg, h.runOnce(spec, cfg))
				}
			}
			// Concurrent uploads: positions drawn by the PRNG.
			crng := r.Rand(10, uint64(ai), uint64(bs))
			for i := 0; i < 3 && base.Counted > 0; i++ {
				cfg := runConfig{BatchSize: bs, PutConcurrency: 3, FaultAt: 1 + crng.IntN(base.Counted),
					Kind: []outkit.FaultKind{outkit.FaultErrDiscard, outkit.FaultErrAfterRead, outkit.FaultSticky, outkit.FaultCancel, outkit.FaultCancelAfter}[crng.IntN(5)]}
				r.Case("action %d batch %d concurrent fault %s at %d", ai, bs, cfg.Kind, cfg.FaultAt)
				obs := h.runOnce(spec, cfg)
				h.judge(spec, cfg, obs)
			}
		}
	})
}
