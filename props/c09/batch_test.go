package c09

import (
	"bytes"
	"context"
	"fmt"
	"io"
	"sync/atomic"

	re_blobstore "github.com/buildbarn/bb-remote-execution/pkg/blobstore"
	"github.com/buildbarn/bb-storage/pkg/blobstore/buffer"
	"github.com/buildbarn/bb-storage/pkg/digest"

	"golang.org/x/sync/semaphore"

	"verif/internal/ev"
	"verif/internal/outkit"
)

// countingReadCloser backs the buffers handed to the batching layer.
type countingReadCloser struct {
	r              *bytes.Reader
	closes         atomic.Int32
	readAfterClose atomic.Bool
}

func (c *countingReadCloser) Read(p []byte) (int, error) {
	if c.closes.Load() > 0 {
		c.readAfterClose.Store(true)
	}
	return c.r.Read(p)
}

func (c *countingReadCloser) Close() error {
	c.closes.Add(1)
	return nil
}

var _ io.ReadCloser = (*countingReadCloser)(nil)

type batchOp struct {
	Op     string `json:"op"` // put | flush
	Blob   int    `json:"blob,omitempty"`
	Result string `json:"result"`
	Calls  int    `json:"calls_after"`
}

// runBatchHarness drives NewBatchedStoreBlobAccess directly.
func runBatchHarness(r *ev.Run) {
	for _, s := range []string{
		"batch:fault-on-findmissing", "batch:fault-on-put", "batch:duplicate-put-while-pending",
		"batch:blob-skipped-as-present", "batch:put-rejected-by-sticky-error",
		"batch:recovery-after-reported-error", "batch:context-cancelled", "batch:flush-with-nothing-pending",
		"batch:cancelled-after-findmissing-before-first-upload", "batch:cancelled-after-successful-upload-with-uploads-left",
	} {
		if r.ReplayFile() == "" {
			r.Floor(s, 10)
		}
	}
	n := r.Pick(3000, 30000)
	outkit.ParallelFor(n, workers, func(ci int) { runBatchCase(r, ci) })
}

func runBatchCase(r *ev.Run, ci int) {
	rng := r.Rand(21, uint64(ci))
	batchSize := []int{1, 2, 3, 100}[rng.IntN(4)]
	concurrency := []int64{1, 1, 2, 4}[rng.IntN(4)]
	nOps := 4 + rng.IntN(16)
	faultAt, kind := 0, outkit.FaultNone
	if rng.IntN(10) < 7 {
		faultAt = 1 + rng.IntN(nOps)
		kind = []outkit.FaultKind{outkit.FaultErrDiscard, outkit.FaultErrAfterRead, outkit.FaultSticky, outkit.FaultCancel, outkit.FaultCancelAfter, outkit.FaultCancelAfter, outkit.FaultCancelAfter}[rng.IntN(7)]
	}
	r.Case("batch case %d size=%d conc=%d ops=%d fault=%s@%d", ci, batchSize, concurrency, nOps, kind, faultAt)

	ctx, cancel := context.WithCancel(context.Background())
	defer cancel()
	plan := outkit.NewPlan(faultAt, kind, cancel)
	cas := outkit.NewStore("cas", plan, true)
	contents := outkit.GenContents(rng, 5)
	digests := make([]digest.Digest, len(contents))
	for i, c := range contents {
		digests[i] = outkit.DigestOf(digestFunction, c)
		if rng.IntN(5) == 0 {
			cas.Preload(digests[i], c)
		}
	}
	ba, flush := re_blobstore.NewBatchedStoreBlobAccess(cas, digest.KeyWithoutInstance, batchSize, semaphore.NewWeighted(concurrency))

	var ops []batchOp
	var closers []*countingReadCloser
	type ack struct {
		blob int
	}
	var acked []ack // acknowledged since the last flush returned
	putSinceFlush := map[int]bool{}
	failuresSeen := 0 // failing counted storage calls already attributed
	situations := map[string]bool{}
	errorReported := false

	violate := func(sig, detail string) {
		r.Violation("C09 batch "+sig, detail, map[string]any{
			"seed": r.Seed(), "case": ci, "batch_size": batchSize, "put_concurrency": concurrency,
			"fault_at": faultAt, "fault_kind": kind.String(), "ops": ops, "calls": plan.Log(), "observed": detail,
		})
	}
	newFailures := func() int {
		total := 0
		for _, c := range plan.Log() {
			if c.Seq > 0 && c.Err != "" {
				total++
			}
		}
		d := total - failuresSeen
		return d
	}
	attribute := func() {
		failuresSeen += newFailures()
	}
	checkClosers := func(when string, all bool, last *countingReadCloser) {
		for i, c := range closers {
			n := c.closes.Load()
			if n > 1 {
				violate("buffer closed-twice", fmt.Sprintf("%s: buffer #%d closed %d times", when, i, n))
				return
			}
			if (all || c == last) && n == 0 {
				violate("buffer not-released when="+when, fmt.Sprintf("%s: buffer #%d was never closed", when, i))
				return
			}
		}
	}

	doFlush := func() {
		hadPending := len(acked) > 0
		err := flush(ctx)
		ops = append(ops, batchOp{Op: "flush", Result: fmt.Sprint(err), Calls: plan.Count()})
		fresh := newFailures()
		if err == nil {
			for _, a := range acked {
				data, ok := cas.Bytes(digests[a.blob])
				if !ok {
					violate("acked-put lost flush=ok", fmt.Sprintf("Put of blob %d was acknowledged and flush returned nil, but it is not in the CAS", a.blob))
					break
				}
				if !bytes.Equal(data, contents[a.blob]) {
					violate("acked-put stored-with-wrong-bytes", fmt.Sprintf("blob %d stored with different bytes", a.blob))
					break
				}
			}
			if errorReported && fresh == 0 && hadPending && kind != outkit.FaultSticky && kind != outkit.FaultCancel && kind != outkit.FaultCancelAfter {
				situations["batch:recovery-after-reported-error"] = true
			}
		} else {
			if fresh == 0 && ctx.Err() == nil {
				violate("flush spurious-error", fmt.Sprintf("flush returned %v although no storage call failed since the previous flush", err))
			}
			errorReported = true
		}
		if !hadPending {
			situations["batch:flush-with-nothing-pending"] = true
		}
		attribute()
		acked = nil
		putSinceFlush = map[int]bool{}
		checkClosers("after-flush", true, nil)
	}

	for i := 0; i < nOps; i++ {
		if rng.IntN(5) == 0 {
			doFlush()
			continue
		}
		blob := rng.IntN(len(contents))
		var b buffer.Buffer
		var rc *countingReadCloser
		if rng.IntN(6) == 0 {
			b = buffer.NewValidatedBufferFromByteSlice(contents[blob])
		} else {
			rc = &countingReadCloser{r: bytes.NewReader(contents[blob])}
			closers = append(closers, rc)
			b = buffer.NewCASBufferFromReader(digests[blob], rc, buffer.UserProvided)
		}
		if putSinceFlush[blob] {
			situations["batch:duplicate-put-while-pending"] = true
		}
		before := plan.Count()
		err := ba.Put(ctx, digests[blob], b)
		ops = append(ops, batchOp{Op: "put", Blob: blob, Result: fmt.Sprint(err), Calls: plan.Count()})
		if err == nil {
			acked = append(acked, ack{blob})
			putSinceFlush[blob] = true
		} else {
			if newFailures() == 0 && ctx.Err() == nil {
				violate("put spurious-error", fmt.Sprintf("Put returned %v although no storage call has failed", err))
			}
			if plan.Count() == before {
				situations["batch:put-rejected-by-sticky-error"] = true
			}
			if rc != nil {
				checkClosers("after-failed-put", false, rc)
			}
			// Blobs acknowledged before were dropped by the layer;
			// their fate is reported by the next flush.
		}
		checkClosers("after-put", false, nil)
	}
	doFlush()
	// A second flush right after: must be a no-op that reports nothing
	// new (unless the storage is still failing).
	err := flush(ctx)
	ops = append(ops, batchOp{Op: "flush", Result: fmt.Sprint(err), Calls: plan.Count()})
	if err != nil && newFailures() == 0 && ctx.Err() == nil {
		violate("flush error-reported-twice", fmt.Sprintf("a redundant flush returned %v although nothing failed since the previous flush", err))
	}
	checkClosers("at-end", true, nil)
	for i, c := range closers {
		if c.readAfterClose.Load() {
			violate("buffer read-after-close", fmt.Sprintf("buffer #%d was read after it had been closed", i))
			break
		}
	}
	for _, p := range cas.IntegrityProblems() {
		violate("cas-blob digest-mismatch", p)
	}

	nontrivial := false
	if trig, hit := plan.Triggered(); trig {
		nontrivial = true
		switch hit.Op {
		case "FindMissing":
			situations["batch:fault-on-findmissing"] = true
		case "Put":
			situations["batch:fault-on-put"] = true
		}
		if kind == outkit.FaultCancel {
			situations["batch:context-cancelled"] = true
		}
		if kind == outkit.FaultCancelAfter {
			switch {
			case hit.Op == "FindMissing" && hit.Missing > 0:
				situations["batch:cancelled-after-findmissing-before-first-upload"] = true
			case hit.Op == "Put" && uploadsLeftInFlush(plan.Log(), hit.Seq) > 0:
				situations["batch:cancelled-after-successful-upload-with-uploads-left"] = true
			}
		}
	}
	if cas.SkippedAny() {
		situations["batch:blob-skipped-as-present"] = true
	}
	for s := range situations {
		r.Situation(s)
		nontrivial = true
	}
	r.Count("batch-storage-calls", plan.Count())
	r.Count("batch-buffers-tracked", len(closers))
	var sig []any
	for _, o := range ops {
		sig = append(sig, o.Op, o.Result != "<nil>")
	}
	for _, c := range plan.Log() {
		if c.Seq > 0 {
			sig = append(sig, c.Op, c.Fault)
		}
	}
	r.Hash(ev.HashOf(sig...), nontrivial)
	if ci < 1 {
		r.Sample(map[string]any{"batch_case": ci, "batch_size": batchSize, "fault": fmt.Sprintf("%s@%d", kind, faultAt), "ops": ops, "calls": plan.Log()})
	}
}
