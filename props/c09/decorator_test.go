package c09

import (
	"context"
	"fmt"
	"net/url"

	remoteexecution "github.com/bazelbuild/remote-apis/build/bazel/remote/execution/v2"
	"github.com/buildbarn/bb-remote-execution/pkg/builder"
	"github.com/buildbarn/bb-remote-execution/pkg/filesystem/access"
	"github.com/buildbarn/bb-remote-execution/pkg/filesystem/pool"
	"github.com/buildbarn/bb-remote-execution/pkg/proto/remoteworker"
	"github.com/buildbarn/bb-storage/pkg/digest"

	"google.golang.org/grpc/codes"
	"google.golang.org/grpc/status"
	"google.golang.org/protobuf/proto"

	"verif/internal/ev"
	"verif/internal/outkit"
)

// scriptedExecutor is a base BuildExecutor that returns a prepared response,
// so that the flushing and caching decorators can be exercised with inputs
// the local executor would never hand them (a successful response for a
// request without an Action, a malformed action digest, a response that
// already failed when the flush fails, ...).
type scriptedExecutor struct {
	response *remoteexecution.ExecuteResponse
}

func (scriptedExecutor) CheckReadiness(ctx context.Context) error { return nil }

func (e scriptedExecutor) Execute(ctx context.Context, filePool pool.FilePool, monitor access.UnreadDirectoryMonitor, digestFunction digest.Function, request *remoteworker.DesiredState_Executing, updates chan<- *remoteworker.CurrentState_Executing) *remoteexecution.ExecuteResponse {
	return proto.Clone(e.response).(*remoteexecution.ExecuteResponse)
}

// runDecoratorHarness enumerates Caching(StorageFlushing(scripted)) over the
// full product of request shapes, base outcomes, flush outcomes and storage
// faults.
func runDecoratorHarness(r *ev.Run) {
	floors := []string{
		"decorator:request-without-action", "decorator:malformed-action-digest",
		"decorator:flush-fails-after-failed-response", "decorator:flush-fails-after-ok-response",
		"decorator:cached", "decorator:ac-put-fails", "decorator:historical-put-fails",
	}
	for _, s := range floors {
		if r.ReplayFile() == "" {
			r.Floor(s, 10)
		}
	}
	browserURL, _ := url.Parse("http://bb-browser.example.com/")
	blob := []byte("decorator-harness-output")
	blobDigest := outkit.ProtoDigest(digestFunction.GetEnumValue(), blob)
	goodActionDigest := outkit.ProtoDigest(digestFunction.GetEnumValue(), []byte("some action"))
	actionDigests := map[string]*remoteexecution.Digest{
		"valid":      goodActionDigest,
		"short-hash": {Hash: "abcd", SizeBytes: 11},
		"non-hex":    {Hash: "zz" + goodActionDigest.Hash[2:], SizeBytes: 11},
		"negative":   {Hash: goodActionDigest.Hash, SizeBytes: -1},
		"absent":     nil,
	}
	actions := map[string]*remoteexecution.Action{
		"cacheable":    {},
		"do-not-cache": {DoNotCache: true},
		"absent":       nil,
	}
	baseStatuses := map[string]*status.Status{
		"unset":       nil,
		"explicit-ok": status.New(codes.OK, ""),
		"failed":      status.New(codes.DeadlineExceeded, "verif: action timed out"),
	}
	idx := 0
	for _, dn := range []string{"valid", "short-hash", "non-hex", "negative", "absent"} {
		for _, an := range []string{"cacheable", "do-not-cache", "absent"} {
			for _, sn := range []string{"unset", "explicit-ok", "failed"} {
				for _, exitCode := range []int32{0, 3} {
					for _, flushFails := range []bool{false, true} {
						for variant := 0; variant < 24; variant++ {
							// Which digest-carrying fields the base
							// response has (bit mask) and whether the one
							// storage call of the caching layer fails.
							shape := []int{31, 1, 2, 4, 8, 16}[variant%6]
							storeFault := variant%12 >= 6
							withSymlink := variant >= 12
							idx++
							r.Case("decorator case %d digest=%s action=%s status=%s exit=%d flush-fails=%v shape=%d store-fault=%v", idx, dn, an, sn, exitCode, flushFails, shape, storeFault)
							faultAt := 0
							if storeFault {
								faultAt = 1 // the only storage call the caching layer makes
							}
							plan := outkit.NewPlan(faultAt, outkit.FaultErrDiscard, nil)
							cas := outkit.NewStore("cas", plan, true)
							ac := outkit.NewStore("ac", plan, false)
							base := &remoteexecution.ExecuteResponse{
								Result: &remoteexecution.ActionResult{
									ExitCode:          exitCode,
									ExecutionMetadata: &remoteexecution.ExecutedActionMetadata{Worker: "decorator"},
								},
								ServerLogs: map[string]*remoteexecution.LogFile{},
							}
							if withSymlink {
								base.Result.OutputSymlinks = []*remoteexecution.OutputSymlink{{Path: "link", Target: "out"}}
							}
							if shape&1 != 0 {
								base.Result.OutputFiles = []*remoteexecution.OutputFile{{Path: "out", Digest: blobDigest}}
							}
							if shape&2 != 0 {
								base.Result.OutputDirectories = []*remoteexecution.OutputDirectory{{Path: "dir", TreeDigest: blobDigest}}
							}
							if shape&4 != 0 {
								base.Result.StdoutDigest = blobDigest
							}
							if shape&8 != 0 {
								base.Result.StderrDigest = blobDigest
							}
							if shape&16 != 0 {
								base.ServerLogs["log"] = &remoteexecution.LogFile{Digest: blobDigest}
							}
							if s := baseStatuses[sn]; s != nil {
								base.Status = s.Proto()
							}
							if !flushFails {
								// A successful flush means the blobs are there.
								cas.Preload(outkit.MustDigest(digestFunction, blobDigest), blob)
							}
							flushErr := status.Error(codes.Unavailable, "verif: flush failed")
							executor := builder.NewCachingBuildExecutor(
								builder.NewStorageFlushingBuildExecutor(scriptedExecutor{base}, func(context.Context) error {
									if flushFails {
										return flushErr
									}
									return nil
								}),
								cas, ac, browserURL)
							request := &remoteworker.DesiredState_Executing{ActionDigest: actionDigests[dn], Action: actions[an]}
							resp := executor.Execute(context.Background(), nil, nil, digestFunction, request, make(chan *remoteworker.CurrentState_Executing, 4))

							code := status.FromProto(resp.Status).Code()
							witness := map[string]any{
								"seed": r.Seed(), "decorator_case": idx, "action_digest": dn, "action": an, "base_status": sn,
								"exit_code": exitCode, "flush_fails": flushFails, "store_fault": storeFault, "shape": shape, "with_symlink": withSymlink,
								"calls": plan.Log(), "response_status": code.String() + ": " + resp.Status.GetMessage(),
							}
							violate := func(sig, format string, args ...any) {
								d := fmt.Sprintf(format, args...)
								witness["observed"] = d
								r.Violation("C09 decorator "+sig, d, witness)
							}
							cacheable := dn == "valid" && an == "cacheable" && sn != "failed" && exitCode == 0 && !flushFails
							if ac.Len() > 0 {
								switch {
								case an == "absent":
									violate("ac-entry request-without-action", "AC entry written for a request that carries no Action")
								case dn != "valid":
									violate("ac-entry malformed-action-digest", "AC entry written although the action digest is malformed")
								case !cacheable:
									violate("ac-entry not-cacheable", "AC entry for do_not_cache=%v base status %s exit %d flush-fails=%v", an == "do-not-cache", sn, exitCode, flushFails)
								}
							}
							if cacheable && !storeFault && ac.Len() != 1 {
								violate("cacheable-result not-cached", "a cacheable successful result was not written to the AC (status %s)", code)
							}
							if code != codes.OK && ac.Len() > 0 {
								violate("ac-entry with-error-response", "response status %s but the AC holds an entry", code)
							}
							if (flushFails || sn == "failed" || storeFault || an == "absent" || dn != "valid") && code == codes.OK {
								violate("failure not-reported", "OK response although flush-fails=%v base=%s store-fault=%v action=%s digest=%s", flushFails, sn, storeFault, an, dn)
							}
							if flushFails {
								if len(resp.Result.GetOutputFiles()) > 0 || len(resp.Result.GetOutputDirectories()) > 0 || resp.Result.GetStdoutDigest() != nil || resp.Result.GetStderrDigest() != nil || len(resp.ServerLogs) > 0 {
									violate("digests-advertised after-failed-flush base="+sn, "flush failed but the response still advertises output digests (base status %s)", sn)
								}
							}
							// Situations.
							if an == "absent" {
								r.Situation("decorator:request-without-action")
							}
							if dn != "valid" {
								r.Situation("decorator:malformed-action-digest")
							}
							if flushFails && sn == "failed" {
								r.Situation("decorator:flush-fails-after-failed-response")
							}
							if flushFails && sn != "failed" {
								r.Situation("decorator:flush-fails-after-ok-response")
							}
							if ac.Len() == 1 {
								r.Situation("decorator:cached")
							}
							if trig, hit := plan.Triggered(); trig {
								if hit.Store == "ac" {
									r.Situation("decorator:ac-put-fails")
								} else {
									r.Situation("decorator:historical-put-fails")
								}
							}
							r.Hash(ev.HashOf("decorator", dn, an, sn, exitCode, flushFails, shape, withSymlink, storeFault, code, ac.Len()), true)
						}
					}
				}
			}
		}
	}
}
