// Package c05 checks property C05: every task is held by exactly one queue
// or one worker (see DESIGN.md section 4, C05).
package c05

import (
	"testing"

	"verif/internal/ev"
	"verif/internal/sched"
)

func TestCheck(t *testing.T) {
	r := ev.Start("C05")
	defer r.Finish()
	r.SetRule("stepped histories of RPCs against InMemoryBuildQueue on a virtual clock, generated from VERIF_SEED and the case index; after every step every response/stream is compared with an executable reference model and the structural hook walks all queues; a case is non-trivial if it hit at least one named situation; distinct = distinct hash of (step kinds, observed stream messages)")
	sched.DeclareFloors(r, "C05")
	sched.RunStepped(r, "C05", r.Pick(150, 3000))
	if r.ReplayFile() == "" {
		sched.RunStress(r, "C05", r.Pick(6, 120))
		runDemux(r)
	}
}
