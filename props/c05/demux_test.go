package c05

import (
	"context"
	"fmt"
	"sort"
	"strings"

	remoteexecution "github.com/bazelbuild/remote-apis/build/bazel/remote/execution/v2"
	"github.com/buildbarn/bb-remote-execution/pkg/scheduler/initialsizeclass"
	"github.com/buildbarn/bb-remote-execution/pkg/scheduler/invocation"
	"github.com/buildbarn/bb-remote-execution/pkg/scheduler/platform"
	"github.com/buildbarn/bb-remote-execution/pkg/scheduler/routing"
	"github.com/buildbarn/bb-storage/pkg/digest"
	"github.com/buildbarn/bb-storage/pkg/util"

	"verif/internal/ev"
)

// Second monitor of C05: the real DemultiplexingActionRouter and the
// platform.Trie it (and the scheduler) rely on, against an independent
// component-wise longest-prefix resolver, over random registration /
// removal histories.

type taggedRouter struct{ tag int }

type tagErr struct{ tag int }

func (e tagErr) Error() string { return fmt.Sprintf("backend %d", e.tag) }

func (t taggedRouter) RouteAction(ctx context.Context, df digest.Function, a *remoteexecution.Action, md *remoteexecution.RequestMetadata) (*remoteexecution.Action, platform.Key, []invocation.Key, initialsizeclass.Selector, error) {
	return nil, platform.Key{}, nil, nil, tagErr{t.tag}
}

var demuxProps = [][][2]string{nil, {{"os", "linux"}}, {{"arch", "x86"}, {"os", "linux"}}, {{"os", "mac"}}}
var demuxInstances = []string{"", "a", "a/b", "a/b/c", "ab", "b", "b/a", "a/c"}

func platformOf(props [][2]string) *remoteexecution.Platform {
	if props == nil {
		return nil
	}
	p := &remoteexecution.Platform{}
	for _, kv := range props {
		p.Properties = append(p.Properties, &remoteexecution.Platform_Property{Name: kv[0], Value: kv[1]})
	}
	return p
}

func canon(props [][2]string) string {
	var parts []string
	for _, kv := range props {
		parts = append(parts, kv[0]+"="+kv[1])
	}
	return strings.Join(parts, ",")
}

// resolve: independent longest prefix on path components.
func resolve(registered map[string]int, instance, plat string) int {
	comps := []string{}
	if instance != "" {
		comps = strings.Split(instance, "/")
	}
	for n := len(comps); n >= 0; n-- {
		if v, ok := registered[strings.Join(comps[:n], "/")+"|"+plat]; ok {
			return v
		}
	}
	return -1
}

func runDemux(r *ev.Run) {
	n := r.Pick(400, 8000)
	for i := 0; i < n; i++ {
		rng := r.Rand(uint64(i), 0xde)
		r.Case("demux/trie case %d", i)
		// (1) DemultiplexingActionRouter.
		ar := routing.NewDemultiplexingActionRouter(platform.ActionKeyExtractor, taggedRouter{0})
		registered := map[string]int{}
		var hist []string
		nReg := rng.IntN(8)
		for k := 1; k <= nReg; k++ {
			inst := demuxInstances[rng.IntN(len(demuxInstances))]
			props := demuxProps[rng.IntN(len(demuxProps))]
			key := inst + "|" + canon(props)
			err := ar.RegisterActionRouter(util.Must(digest.NewInstanceName(inst)), platformOf(props), taggedRouter{k})
			_, dup := registered[key]
			hist = append(hist, fmt.Sprintf("register(%q,%s)=%v", inst, canon(props), err))
			if dup != (err != nil) {
				r.Violation("demux:duplicate-registration-handling", fmt.Sprintf("RegisterActionRouter(%q,%s): err=%v, already registered=%v", inst, canon(props), err, dup), map[string]any{"seed": r.Seed(), "case": i, "history": hist})
				return
			}
			if !dup {
				registered[key] = k
			}
		}
		for q := 0; q < 12; q++ {
			inst := demuxInstances[rng.IntN(len(demuxInstances))]
			if rng.IntN(3) == 0 {
				inst += "/zz"
				inst = strings.TrimPrefix(inst, "/")
			}
			props := demuxProps[rng.IntN(len(demuxProps))]
			df := digest.MustNewFunction(inst, remoteexecution.DigestFunction_SHA256)
			_, _, _, _, err := ar.RouteAction(context.Background(), df, &remoteexecution.Action{Platform: platformOf(props)}, nil)
			te, ok := err.(tagErr)
			want := resolve(registered, inst, canon(props))
			if want < 0 {
				want = 0
			}
			if want > 0 {
				r.Situation("demux:request-matched-registered-prefix")
				if _, exact := registered[inst+"|"+canon(props)]; !exact {
					r.Situation("demux:request-matched-shorter-prefix")
				}
			} else {
				r.Situation("demux:request-fell-through-to-default")
			}
			if !ok || te.tag != want {
				r.Violation("demux:request-routed-to-wrong-backend", fmt.Sprintf("request (%q,%s) was routed to %v, expected backend %d", inst, canon(props), err, want), map[string]any{"seed": r.Seed(), "case": i, "history": hist})
				return
			}
		}
		// (2) platform.Trie with Set/Remove histories (the scheduler
		// removes and re-creates queues).
		tr := platform.NewTrie()
		model := map[string]int{}
		var th []string
		for step := 0; step < 30; step++ {
			inst := demuxInstances[rng.IntN(len(demuxInstances))]
			props := demuxProps[rng.IntN(len(demuxProps))]
			key := platform.MustNewKey(inst, platformOf(props))
			mk := inst + "|" + canon(props)
			switch rng.IntN(4) {
			case 0, 1:
				v := rng.IntN(50)
				tr.Set(key, v)
				model[mk] = v
				th = append(th, fmt.Sprintf("set(%s)=%d", mk, v))
			case 2:
				if _, ok := model[mk]; ok {
					tr.Remove(key)
					delete(model, mk)
					th = append(th, fmt.Sprintf("remove(%s)", mk))
					r.Situation("trie:entry-removed")
				}
			}
			// Probe everything.
			for _, pi := range demuxInstances {
				for _, pp := range demuxProps {
					for _, suffix := range []string{"", "zz"} {
						qi := pi
						if suffix != "" {
							qi = strings.TrimPrefix(pi+"/"+suffix, "/")
						}
						pk := platform.MustNewKey(qi, platformOf(pp))
						wantExact, okExact := model[qi+"|"+canon(pp)]
						if !okExact {
							wantExact = -1
						}
						if got := tr.GetExact(pk); got != wantExact {
							r.Violation("trie:exact-lookup-differs", fmt.Sprintf("GetExact(%q,%s)=%d, expected %d", qi, canon(pp), got, wantExact), map[string]any{"seed": r.Seed(), "case": i, "history": th})
							return
						}
						if got := tr.ContainsExact(pk); got != okExact {
							r.Violation("trie:contains-differs", fmt.Sprintf("ContainsExact(%q,%s)=%v, expected %v", qi, canon(pp), got, okExact), map[string]any{"seed": r.Seed(), "case": i, "history": th})
							return
						}
						want := resolve(model, qi, canon(pp))
						if got := tr.GetLongestPrefix(pk); got != want {
							r.Violation("trie:longest-prefix-differs", fmt.Sprintf("GetLongestPrefix(%q,%s)=%d, expected %d", qi, canon(pp), got, want), map[string]any{"seed": r.Seed(), "case": i, "history": th})
							return
						}
						r.Count("trie-probes", 1)
					}
				}
			}
		}
		keys := make([]string, 0, len(registered))
		for k := range registered {
			keys = append(keys, k)
		}
		sort.Strings(keys)
		r.Hash("demux:"+ev.HashOf(keys, th), len(registered) > 0)
	}
}
