// Package c00 is the self-test of the check driver: it is not a property.
// VERIF_SELFTEST selects what the harness does so that every
// classification path of ./check can be exercised:
//
//	(unset)   clean run                         -> exit 0
//	violation harness-reported violation        -> exit 1
//	panic     panic inside /repo code           -> exit 1
//	race      data race with a /repo frame      -> exit 1
//	hrace     data race in harness code only    -> exit 3
//	floor     situation floor missed            -> exit 2
package c00

import (
	"os"
	"sync"
	"testing"

	"github.com/buildbarn/bb-remote-execution/pkg/filesystem/virtual"

	"verif/internal/ev"
)

func TestCheck(t *testing.T) {
	r := ev.Start("C00")
	defer r.Finish()
	r.SetRule("self-test: 10 trivial cases; non-trivial = even index")
	r.Floor("even", 2)
	mode := os.Getenv("VERIF_SELFTEST")
	for i := 0; i < 10; i++ {
		r.Case("case %d", i)
		if i%2 == 0 && mode != "floor" {
			r.Situation("even")
		}
		r.Hash(ev.HashOf(i), i%2 == 0)
		r.Sample(map[string]int{"case": i})
	}
	switch mode {
	case "violation":
		r.Violation("selftest:rule", "deliberate self-test violation", map[string]string{"k": "v"})
	case "panic":
		var ls virtual.ByteRangeLockSet[int]
		// Uninitialised lock set: nil pointer dereference inside /repo.
		ls.Set(&virtual.ByteRangeLock[int]{Owner: 1, Start: 0, End: 1, Type: virtual.ByteRangeLockTypeLockedExclusive})
	case "race":
		var ls virtual.ByteRangeLockSet[int]
		ls.Initialize()
		var wg sync.WaitGroup
		for g := 0; g < 2; g++ {
			wg.Add(1)
			go func(g int) {
				defer wg.Done()
				for i := 0; i < 1000; i++ {
					ls.Set(&virtual.ByteRangeLock[int]{Owner: g, Start: 0, End: 1, Type: virtual.ByteRangeLockTypeLockedShared})
				}
			}(g)
		}
		wg.Wait()
	case "hrace":
		x := 0
		var wg sync.WaitGroup
		for g := 0; g < 2; g++ {
			wg.Add(1)
			go func() {
				defer wg.Done()
				for i := 0; i < 1000; i++ {
					x++
				}
			}()
		}
		wg.Wait()
		_ = x
	}
}
