// Package c19 monitors property C19: NFSv4 retransmitted requests execute
// once and get the same reply.
//
// A retransmitting client wrapper drives the real NFSv4.0 and NFSv4.1
// programs in-process through NfsV4Nfsproc4Compound on a small fake tree
// whose directory and leaves count every side effect and can hold an
// operation in flight. After a state-changing request the wrapper may
// resend it (same owner seqid in 4.0; same slot and sequence ID in 4.1)
// at once, after unrelated traffic, or concurrently while the original is
// held inside the file system; it also sends misordered sequence numbers
// and same-sequence requests with different content. Oracles: byte
// equality of the XDR-encoded replies, unchanged side-effect fingerprint
// (instrumented tree, random draws, state ID validity probes, lock table
// sweeps), termination of in-flight duplicates judged by goroutine dumps.
package c19

import (
	"encoding/json"
	"fmt"
	"os"
	"strconv"
	"testing"
	"time"

	nfsv4srv "github.com/buildbarn/bb-remote-execution/pkg/filesystem/virtual/nfsv4"
	"github.com/buildbarn/bb-storage/pkg/filesystem/path"
	"github.com/buildbarn/go-xdr/pkg/protocols/nfsv4"

	"verif/internal/ev"
	"verif/internal/vclock"
)

// floors are the minimum number of times each situation must have been
// exercised (quick tier; the thorough tier multiplies the case count by
// 15 and the floors by 10).
var floors = map[string]int{
	"replay-40-OPEN":                                  20,
	"replay-40-OPEN_CONFIRM":                          8,
	"replay-40-CLOSE":                                 10,
	"replay-40-LOCK_NEW":                              8,
	"replay-40-LOCK":                                  5,
	"replay-40-LOCKU":                                 5,
	"replay-40-OPEN_DOWNGRADE":                        3,
	"replay-after-unrelated-40":                       20,
	"misordered-40+2":                                 15,
	"misordered-40-1":                                 15,
	"diff-optype-40":                                  20,
	"diff-stateid-40":                                 10,
	"inflight-dup-40":                                 20,
	"inflight-two-or-more-waiters-40":                 20,
	"inflight-next-request-behind-open-40":            20,
	"inflight-next-request-by-stateid-behind-open-40": 2,
	"replay-40-CLOSE_OLD_STATEID":                     3,
	"resend-unconsumed-seqid-40":                      5,

	"replay-41-OPEN":                            10,
	"replay-41-CLOSE":                           5,
	"replay-41-LOCK_NEW":                        5,
	"replay-41-LOCKU":                           3,
	"replay-41-cached":                          30,
	"replay-41-uncached":                        10,
	"replay-after-unrelated-41":                 20,
	"replay-create-session":                     20,
	"misordered-create-session":                 30,
	"misordered-41+2":                           15,
	"misordered-41-1":                           15,
	"false-retry-41-fewer-ops":                  10,
	"false-retry-41-more-ops":                   5,
	"false-retry-41-other-optype":               10,
	"false-retry-41-same-shape-other-arguments": 10,
	"inflight-dup-41":                           20,
	"inflight-two-or-more-waiters-41":           20,
	"inflight-dup-41-uncached":                  5,

	// Coverage-gap pass: refusals at an in-order seqid, error replies that
	// are cached, seqid wrap-around, unconfirmed owners (4.0); session and
	// slot table refusals, more cached kinds, DESTROY_SESSION (4.1).
	"refused-in-order-future-stateid-40":                  8,
	"refused-in-order-no-filehandle-40":                   8,
	"refused-in-order-other-file-40":                      8,
	"refused-in-order-anonymous-stateid-40":               8,
	"refused-in-order-stale-stateid-40":                   8,
	"refused-in-order-special-stateid-40":                 6,
	"open-with-unconfirmed-clientid-40":                   20,
	"refused-in-order-unknown-stateid-40":                 8,
	"refused-in-order-stale-clientid-40":                  8,
	"refused-in-order-lock-owner-already-on-file-40":      3,
	"refused-in-order-lock-seqid-replayed-in-new-lock-40": 1,
	"diff-content-40":                                     30,
	"false-retry-answered-with-originals-cached-reply-40": 30,
	"false-retry-answered-with-originals-cached-reply-41": 10,
	"seqid-wrap-40":                               15,
	"replay-at-seqid-wrap-40":                     15,
	"misordered-unconfirmed-owner-40":             20,
	"replay-40-OPEN_ERR":                          10,
	"replay-40-OPEN_PREVIOUS":                     4,
	"replay-40-OPEN_DOWNGRADE_ERR":                5,
	"slot-table-bad-session-41":                   6,
	"slot-table-bad-slot-41":                      6,
	"slot-table-too-many-ops-41":                  6,
	"slot-table-no-sequence-41":                   6,
	"slot-table-create-session-not-only-op-41":    6,
	"slot-table-destroy-session-not-only-op-41":   6,
	"slot-table-exchange-id-not-only-op-41":       6,
	"slot-table-destroy-clientid-busy-41":         6,
	"slot-table-destroy-clientid-not-only-op-41":  5,
	"slot-table-create-session-stale-clientid-41": 6,
	"exchange-id-again-41":                        6,
	"destroy-session-standalone-41":               10,
	"destroy-session-from-other-session-41":       10,
	"destroy-session-from-own-session-41":         10,
	"destroy-session-busy-slot-41":                20,
	"request-on-destroyed-session-41":             30,
	"replay-41-FREE_STATEID":                      4,
	"replay-41-SEQUENCE_TWICE":                    10,
	"replay-41-OPEN_PREVIOUS":                     10,
	"replay-41-DESTROY_SESSION":                   8,
	"replay-41-CLOSE_BAD_STATEID":                 4,

	// Client restart while a request of the old incarnation / client
	// record is still being processed.
	"create-session-delay-41":                       20,
	"create-session-delay-retransmit-held-41":       10,
	"create-session-delay-retransmit-after-41":      20,
	"setclientid-confirm-delay-40":                  20,
	"setclientid-confirm-delay-retransmit-after-40": 20,
}

func TestCheck(t *testing.T) {
	r := ev.Start("C19")
	defer r.Finish()
	r.SetRule("case i = one generated client history (even i: NFSv4.0, odd i: NFSv4.1) of 14-27 state-changing requests by 1-2 clients, 2-3 open-owners / 3-7 slots, 5 file names, drawn from PRNG(VERIF_SEED, i); after each request the wrapper picks none / retransmit now / retransmit after unrelated traffic / misordered sequence (-1, +2) / same sequence with other operation, other state ID (4.0) or other operation list (4.1), requests the session/slot machinery must refuse (unknown session, slot beyond the table, too many operations, no SEQUENCE, session operations that are not alone), or (4.0, as a step of its own) an in-order seqid with a wrong state ID / file handle / client ID / lock-owner; 4.0 owner seqids start below the 32-bit wrap in one case of five; the second session of a 4.1 client is destroyed from outside, from the other or from itself, half the time while one of its slots is busy; OPEN, WRITE, READ may instead be held at a file-system gate with 2-4 concurrent requests parked behind it (identical retransmissions; in 4.0 possibly also the owner's next in-order request); about once per case the client owner restarts (new verifier) while an OPEN of its old incarnation / client record is held at the gate: CREATE_SESSION (4.1) / SETCLIENTID_CONFIRM (4.0) is answered NFS4ERR_DELAY and is retransmitted while still delayed and after the old request finished; a case is non-trivial if it hit at least one retransmission situation; distinct = distinct sequences of (operation kind, status, retransmission mode)")
	r.Assume("the fake directory/leaf tree stands in for the virtual file system: only calls that reach it (open, close, write, truncate, create) count as file-system side effects")
	r.Assume("server-side open/lock state is observed through: READ (4.0) / TEST_STATEID (4.1) validity of every state ID the client was ever given, LOCKT sweeps of every file, the number of draws from the program's random number generator, and the sizes of the programs' state tables (hook VerifStateCounts / VerifOpenedFilesPoolCounts: clients, sessions, owners, open/lock records, share, lock and hold counts, busy slots); a side effect that changes none of these (e.g. a sequence number moving inside a record) is only detected by its consequences for later in-order requests")
	r.Assume("a request that reuses the seqid (4.0) or slot and sequence ID (4.1) of the last request with the same operation type(s) but other arguments (file, name, byte range, lock-owner, share access) is a false retransmission of that request: the server may answer it with that request's cached reply (RFC 7530 9.1.9 / RFC 8881 2.10.6.1.3.1 only ask for a type / shape match; counted as false-retry-answered-with-originals-cached-reply) or with any error; it must not be executed, must not change anything, and must not get a reply that belongs to another owner or slot or an older request of the same one; requests that differ in operation type, state ID or operation list shape must be refused")
	r.Assume("a misordered or false-retry request only has to be rejected (any error status), must not be answered with the cached reply and must leave the fingerprint unchanged; the exact error code is recorded, not demanded")
	r.Assume("a CREATE_SESSION answered NFS4ERR_DELAY was not executed and nothing is cached for it: its retransmission must be executed (NFS4ERR_DELAY again, or a new session once the old incarnation is idle, within 3 attempts); any other reply is the reply of another sequence ID")
	r.Assume("a 4.0 request with an in-order seqid that fails consumes the seqid (and its reply is cached and replayed) unless the error is on the list of RFC 7530 9.1.7, in which case sending it again must behave identically and the next valid request uses the same seqid; which of the two applies is taken from the status the server returns; a refusal that happens after the owner's transaction started may drop the owner's previous cached reply (the client acknowledged it)")
	r.Assume("after 0xffffffff an owner seqid continues with 1 (this implementation) or 0: the first convention the server accepts is used for the rest of the case")
	r.Assume("hang verdicts are decided logically: the original has returned, the duplicate's goroutine is blocked on a channel inside /repo in three successive dumps and no other goroutine is inside /repo; wall time only paces the polling")
	r.Assume("virtual clock advances by at most a few seconds per case, far below the 2 minute lease: lease expiry during retransmission is left to C18")

	n := r.Pick(400, 6000)
	totalReq, totalDup := 0, 0
	only := -1
	if s := os.Getenv("VERIF_C19_CASE"); s != "" {
		only, _ = strconv.Atoi(s)
	}
	if f := r.ReplayFile(); f != "" {
		// ./check C19 --replay <witness>: re-run only the recorded case.
		var rep struct {
			Seed    uint64 `json:"seed"`
			Witness struct {
				Case int `json:"case"`
			} `json:"witness"`
		}
		if b, err := os.ReadFile(f); err == nil && json.Unmarshal(b, &rep) == nil {
			only = rep.Witness.Case
			if rep.Seed != r.Seed() {
				r.Inconclusive("replay file %s was recorded with VERIF_SEED=%d; re-run with that seed", f, rep.Seed)
			}
		}
	}
	if only >= 0 {
		// A single case cannot meet the floors of a whole run.
		floors = map[string]int{}
	}
	for name, f := range floors {
		r.Floor(name, r.Pick(f, 10*f))
	}
	for i := 0; i < n; i++ {
		if only >= 0 && i != only {
			continue
		}
		version := "4.0"
		if i%2 == 1 {
			version = "4.1"
		}
		r.Case("case %d version=%s", i, version)
		h := runCase(r, i, version)
		totalReq += h.requests
		totalDup += h.dups
		r.Hash(ev.HashOf(version, fmt.Sprint(h.shape)), len(h.sits) > 0)
		if r.WantSample() && len(h.sits) > 2 {
			log := h.log
			if len(log) > 60 {
				log = log[:60]
			}
			r.Sample(map[string]any{"case": i, "version": version, "events": log})
		}
	}
	r.Count("requests", totalReq)
	r.Count("retransmissions_and_probes_of_sequencing", totalDup)
	t.Logf("C19: %d cases, %d requests, %d retransmissions/sequencing probes, %d violations", n, totalReq, totalDup, r.Violations())
}

func runCase(r *ev.Run, i int, version string) *hist {
	rng := r.Rand(uint64(i))
	fs := newFakeFS(names40)
	clk := vclock.New(1000)
	gen := newCountingRNG(rng, rng.IntN(3) == 0)
	pool := nfsv4srv.NewOpenedFilesPool(fs.resolve)
	var prog nfsv4.Nfs4Program
	if version == "4.0" {
		prog = nfsv4srv.NewNFS40Program(fs.root, pool, gen,
			nfsv4.Verifier4{0x27, 0xa3, 0x1b, 0x72, 0xab, 0x10, 0xb4, 0xcd},
			[4]byte{0xde, 0xad, 0xbe, 0xef},
			clk, 2*time.Minute, time.Minute, path.UNIXFormat, nil)
	} else {
		prog = nfsv4srv.NewNFS41Program(fs.root, pool,
			nfsv4.ServerOwner4{SoMinorId: 7, SoMajorId: []byte("c19-server")},
			[]byte("c19-scope"),
			&nfsv4.ChannelAttrs4{CaMaxrequestsize: 1 << 20, CaMaxresponsesize: 1 << 20, CaMaxresponsesizeCached: 1 << 16, CaMaxoperations: 16, CaMaxrequests: 4},
			gen,
			nfsv4.Verifier4{0x27, 0xa3, 0x1b, 0x72, 0xab, 0x10, 0xb4, 0xcd},
			clk, 2*time.Minute, time.Minute, path.UNIXFormat, nil)
	}
	if rng.IntN(2) == 0 {
		// Production wiring: both minor versions behind one program.
		other := nfsv4srv.NewNFS41Program(fs.root, pool, nfsv4.ServerOwner4{}, nil, &nfsv4.ChannelAttrs4{CaMaxoperations: 1, CaMaxrequests: 1}, newCountingRNG(rng, false), nfsv4.Verifier4{}, clk, time.Minute, time.Minute, path.UNIXFormat, nil)
		if version == "4.1" {
			other = nfsv4srv.NewNFS40Program(fs.root, pool, newCountingRNG(rng, false), nfsv4.Verifier4{}, [4]byte{1, 2, 3, 4}, clk, time.Minute, time.Minute, path.UNIXFormat, nil)
		}
		prog = nfsv4srv.NewMinorVersionFallbackProgram([]nfsv4.Nfs4Program{other, prog})
	}
	h := &hist{r: r, rng: rng, caseIdx: i, version: version, fs: fs, srv: &server{prog: prog}, clk: clk, gen: gen, pool: pool, sits: map[string]int{}}
	if version == "4.0" {
		run40(h)
	} else {
		run41(h)
	}
	return h
}
