package c19

import (
	"bytes"
	"context"
	"fmt"
	"math/rand/v2"
	"regexp"
	"runtime"
	"strconv"
	"strings"
	"sync"
	"sync/atomic"
	"time"

	"github.com/buildbarn/go-xdr/pkg/protocols/nfsv4"
)

// --- XDR helpers -----------------------------------------------------

func encodeArgs(a *nfsv4.Compound4args) []byte {
	var b bytes.Buffer
	if _, err := a.WriteTo(&b); err != nil {
		panic(fmt.Sprintf("harness: cannot encode COMPOUND4args: %v", err))
	}
	return b.Bytes()
}

func decodeArgs(b []byte) *nfsv4.Compound4args {
	var a nfsv4.Compound4args
	if _, err := a.ReadFrom(bytes.NewReader(b)); err != nil {
		panic(fmt.Sprintf("harness: cannot decode COMPOUND4args: %v", err))
	}
	return &a
}

func encodeRes(r *nfsv4.Compound4res) []byte {
	var b bytes.Buffer
	if _, err := r.WriteTo(&b); err != nil {
		panic(fmt.Sprintf("harness: cannot encode COMPOUND4res: %v", err))
	}
	return b.Bytes()
}

func encodeResop(r nfsv4.NfsResop4) []byte {
	var b bytes.Buffer
	if _, err := r.WriteTo(&b); err != nil {
		panic(fmt.Sprintf("harness: cannot encode nfs_resop4: %v", err))
	}
	return b.Bytes()
}

func statusName(s nfsv4.Nfsstat4) string {
	if n, ok := nfsv4.Nfsstat4_name[s]; ok {
		return n
	}
	return "status" + strconv.Itoa(int(s))
}

func opName(o nfsv4.NfsOpnum4) string {
	if n, ok := nfsv4.NfsOpnum4_name[o]; ok {
		return n
	}
	return "op" + strconv.Itoa(int(o))
}

func opNames(a *nfsv4.Compound4args) []string {
	out := make([]string, 0, len(a.Argarray))
	for _, op := range a.Argarray {
		out = append(out, opName(op.GetArgop()))
	}
	return out
}

func resNames(r *nfsv4.Compound4res) []string {
	out := make([]string, 0, len(r.Resarray))
	for _, op := range r.Resarray {
		out = append(out, opName(op.GetResop()))
	}
	return out
}

// --- deterministic random number generator for the programs -----------

// countingRNG implements bb-storage's random.SingleThreadedGenerator. The
// programs draw client IDs, verifiers, session IDs and (NFSv4.0) state
// IDs from it, so the number of draws is a side-effect counter: a
// retransmission that allocates anything moves it.
type countingRNG struct {
	r      *rand.Rand
	calls  atomic.Int64
	first  atomic.Bool
	wrap32 bool // first Uint32() returns 0xffffffff (CREATE_SESSION sequence wrap)
}

func newCountingRNG(r *rand.Rand, wrap32 bool) *countingRNG {
	return &countingRNG{r: rand.New(rand.NewPCG(r.Uint64(), r.Uint64())), wrap32: wrap32}
}

func (g *countingRNG) Float64() float64     { g.calls.Add(1); return g.r.Float64() }
func (g *countingRNG) Int64N(n int64) int64 { g.calls.Add(1); return g.r.Int64N(n) }
func (g *countingRNG) IntN(n int) int       { g.calls.Add(1); return g.r.IntN(n) }
func (g *countingRNG) Read(p []byte) (int, error) {
	g.calls.Add(1)
	for i := range p {
		p[i] = byte(g.r.Uint32())
	}
	return len(p), nil
}
func (g *countingRNG) Shuffle(n int, swap func(i, j int)) { g.calls.Add(1); g.r.Shuffle(n, swap) }
func (g *countingRNG) Uint32() uint32 {
	g.calls.Add(1)
	if g.wrap32 && g.first.CompareAndSwap(false, true) {
		return 0xffffffff
	}
	return g.r.Uint32()
}
func (g *countingRNG) Uint64() uint64 { g.calls.Add(1); return g.r.Uint64() }

// --- calls with watchdog ------------------------------------------------

// callGrace is the wall-clock watchdog around an ordinary (not deliberately
// held) call. Its expiry alone is never a violation (HARNESS.md).
const callGrace = 30 * time.Second

type pending struct {
	gid   int
	req   []byte
	done  chan struct{}
	res   *nfsv4.Compound4res
	enc   []byte
	err   error
	label string
}

func (p *pending) finished() bool {
	select {
	case <-p.done:
		return true
	default:
		return false
	}
}

type server struct {
	prog  nfsv4.Nfs4Program
	calls atomic.Int64
}

var gidRe = regexp.MustCompile(`^goroutine (\d+)`)

func currentGID() int {
	var buf [64]byte
	n := runtime.Stack(buf[:], false)
	m := gidRe.FindSubmatch(buf[:n])
	if m == nil {
		return -1
	}
	id, _ := strconv.Atoi(string(m[1]))
	return id
}

// start sends one COMPOUND on its own goroutine. The request is decoded
// from its XDR bytes for every transmission (nothing is shared between a
// request and its retransmission) and the reply is encoded at once, as the
// RPC layer would.
//
// wantGID makes the call's goroutine report its ID (needed to find it in
// goroutine dumps while other calls are outstanding); ordinary calls, of
// which only one is outstanding at a time, are found by exclusion.
func (s *server) start(req []byte, label string, wantGID bool) *pending {
	p := &pending{req: req, done: make(chan struct{}), label: label}
	s.calls.Add(1)
	if !wantGID {
		go runCall(s.prog, p, nil)
		return p
	}
	gidCh := make(chan int, 1)
	go runCall(s.prog, p, gidCh)
	p.gid = <-gidCh
	return p
}

// outstanding holds the goroutine IDs of calls started with wantGID that
// have not returned yet.
var outstanding sync.Map

// runCall is a named function so that it is recognisable in goroutine
// dumps.
func runCall(prog nfsv4.Nfs4Program, p *pending, gidCh chan<- int) {
	gid := 0
	if gidCh != nil {
		gid = currentGID()
		outstanding.Store(gid, struct{}{})
		gidCh <- gid
	}
	args := decodeArgs(p.req)
	res, err := prog.NfsV4Nfsproc4Compound(context.Background(), args)
	p.res, p.err = res, err
	if err == nil && res != nil {
		p.enc = encodeRes(res)
	}
	if gidCh != nil {
		outstanding.Delete(gid)
	}
	close(p.done)
}

// wait blocks until the call finished or the watchdog expires.
func (p *pending) wait(d time.Duration) bool {
	select {
	case <-p.done:
		return true
	default:
	}
	t := time.NewTimer(d)
	defer t.Stop()
	select {
	case <-p.done:
		return true
	case <-t.C:
		return false
	}
}

// --- goroutine dumps ----------------------------------------------------

type gor struct {
	id     int
	state  string
	frames []string // function lines, innermost first
	text   string
}

var gorHeaderRe = regexp.MustCompile(`^goroutine (\d+)[^\[]*\[([^\]]*)\]:`)

// dumpBuf is reused between dumps (only the driver goroutine takes them).
var dumpBuf = make([]byte, 64<<10)

func takeDump() (string, []gor) {
	var text string
	for {
		n := runtime.Stack(dumpBuf, true)
		if n < len(dumpBuf) {
			text = string(dumpBuf[:n])
			break
		}
		dumpBuf = make([]byte, 2*len(dumpBuf))
	}
	var out []gor
	for _, blk := range strings.Split(text, "\n\n") {
		lines := strings.Split(strings.TrimSpace(blk), "\n")
		if len(lines) == 0 {
			continue
		}
		m := gorHeaderRe.FindStringSubmatch(lines[0])
		if m == nil {
			continue
		}
		id, _ := strconv.Atoi(m[1])
		state := m[2]
		if i := strings.Index(state, ","); i >= 0 {
			state = state[:i]
		}
		g := gor{id: id, state: strings.TrimSpace(state), text: blk}
		for _, l := range lines[1:] {
			if strings.HasPrefix(l, "\t") || strings.HasPrefix(l, "created by ") {
				continue
			}
			g.frames = append(g.frames, l)
		}
		out = append(out, g)
	}
	return text, out
}

const repoMarker = "github.com/buildbarn/bb-remote-execution/"

func (g gor) hasFrame(fragment string) bool {
	for _, f := range g.frames {
		if strings.Contains(f, fragment) {
			return true
		}
	}
	return false
}

func (g gor) hasRepoFrame() bool {
	for _, f := range g.frames {
		if strings.Contains(f, repoMarker) {
			return true
		}
	}
	return false
}

// topUserFrame returns the innermost frame that is not in the runtime or
// the sync packages.
func (g gor) topUserFrame() string {
	for _, f := range g.frames {
		if strings.HasPrefix(f, "runtime.") || strings.HasPrefix(f, "sync.") || strings.HasPrefix(f, "internal/") || strings.HasPrefix(f, "sync/atomic.") {
			continue
		}
		if i := strings.LastIndex(f, "("); i > 0 {
			f = f[:i]
		}
		return f
	}
	return ""
}

func blockedState(s string) bool {
	switch {
	case s == "chan receive", s == "chan send", s == "select",
		strings.HasPrefix(s, "sync.Mutex.Lock"), strings.HasPrefix(s, "sync.RWMutex"),
		strings.HasPrefix(s, "semacquire"), strings.HasPrefix(s, "sync.Cond.Wait"),
		strings.HasPrefix(s, "chan receive (nil chan)"), strings.HasPrefix(s, "select (no cases)"):
		return true
	}
	return false
}

// condemned lists goroutines already judged to be blocked forever; they
// cannot release anybody and are ignored by later hang decisions.
var condemned sync.Map // gid -> struct{}

type hangVerdict struct {
	gid    int
	kind   string // "returned", "hang", "unclear"
	site   string // innermost /repo function the goroutine is blocked in
	state  string
	reason string
	dump   string
}

// decideHang implements the hang policy of DESIGN §3.5 for a call whose
// documented wake-up condition has already been delivered: it is a hang
// violation only if repeated goroutine dumps show the call's goroutine
// blocked on a channel or lock inside a /repo function while no other
// goroutine is inside /repo that could release it. Anything else is
// "unclear" (inconclusive).
func decideHang(p *pending, rounds int, interval time.Duration) hangVerdict {
	var v hangVerdict
	agree := 0
	for i := 0; i < rounds+20 && agree < rounds; i++ {
		if p.wait(interval) {
			return hangVerdict{kind: "returned"}
		}
		text, gs := takeDump()
		gid := p.gid
		if gid == 0 {
			// An ordinary call: the only runCall goroutine that is
			// neither an outstanding in-flight call nor condemned.
			n := 0
			for j := range gs {
				if !gs[j].hasFrame("c19.runCall") {
					continue
				}
				if _, known := outstanding.Load(gs[j].id); known {
					continue
				}
				if _, dead := condemned.Load(gs[j].id); dead {
					continue
				}
				gid = gs[j].id
				n++
			}
			if n != 1 {
				if p.finished() {
					return hangVerdict{kind: "returned"}
				}
				return hangVerdict{kind: "unclear", reason: fmt.Sprintf("%d candidate goroutines for the call", n), dump: text}
			}
		}
		var subject *gor
		for j := range gs {
			if gs[j].id == gid {
				subject = &gs[j]
			}
		}
		if p.finished() {
			return hangVerdict{kind: "returned"}
		}
		if subject == nil {
			return hangVerdict{kind: "unclear", reason: "call goroutine not found in dump", dump: text}
		}
		site := subject.topUserFrame()
		if !blockedState(subject.state) {
			// Running or runnable: it is making progress (or waiting
			// for a CPU); look again later.
			agree = 0
			v = hangVerdict{kind: "unclear", reason: fmt.Sprintf("call goroutine is %q at %s", subject.state, site), dump: text}
			continue
		}
		if !strings.Contains(site, repoMarker) {
			return hangVerdict{kind: "unclear", reason: fmt.Sprintf("call goroutine is blocked (%s) outside /repo at %s", subject.state, site), dump: text}
		}
		var others []string
		for j := range gs {
			g := &gs[j]
			if g.id == gid || !g.hasRepoFrame() {
				continue
			}
			if _, dead := condemned.Load(g.id); dead {
				continue
			}
			if g.state == "chan receive" && subject.state == "chan receive" && g.topUserFrame() == site {
				// A fellow waiter at the same receive: it cannot
				// release anybody before it is released itself.
				continue
			}
			others = append(others, fmt.Sprintf("g%d[%s]@%s", g.id, g.state, g.topUserFrame()))
		}
		if len(others) > 0 {
			agree = 0
			v = hangVerdict{kind: "unclear", reason: "other goroutines are inside /repo: " + strings.Join(others, " "), dump: text}
			continue
		}
		if agree > 0 && (v.site != site || v.state != subject.state) {
			agree = 0
		}
		agree++
		v = hangVerdict{kind: "hang", site: site, state: subject.state, dump: subject.text, gid: gid}
	}
	if v.kind == "hang" && agree >= rounds {
		condemned.Store(v.gid, struct{}{})
		outstanding.Delete(v.gid)
		return v
	}
	if v.kind == "hang" {
		v.kind, v.reason = "unclear", "blocked state not stable over successive dumps"
	}
	if v.kind == "" {
		v = hangVerdict{kind: "unclear", reason: "no decisive dump"}
	}
	return v
}

// parkedInRepo reports whether the goroutines of all given calls are
// blocked on a channel receive inside a /repo function whose name contains
// the fragment (the in-flight duplicates have reached their waiting point).
func parkedInRepo(ps []*pending, fragment string) bool {
	_, gs := takeDump()
	byID := map[int]*gor{}
	for i := range gs {
		byID[gs[i].id] = &gs[i]
	}
	for _, p := range ps {
		g := byID[p.gid]
		if g == nil || g.state != "chan receive" || !strings.Contains(g.topUserFrame(), fragment) {
			return false
		}
	}
	return true
}

func shortSite(site string) string {
	if i := strings.LastIndex(site, "/"); i >= 0 {
		site = site[i+1:]
	}
	return site
}
