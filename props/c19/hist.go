package c19

import (
	"fmt"
	"math/rand/v2"
	"os"
	"sort"
	"strings"
	"time"

	nfsv4srv "github.com/buildbarn/bb-remote-execution/pkg/filesystem/virtual/nfsv4"
	"github.com/buildbarn/go-xdr/pkg/protocols/nfsv4"

	"verif/internal/ev"
	"verif/internal/vclock"
)

// debugLog (VERIF_C19_DEBUG=1) echoes the event log to stderr while the
// case runs, for cases that end in a process-fatal panic.
var debugLog = os.Getenv("VERIF_C19_DEBUG") != ""

// hist is what one generated history (case) shares between the client
// model, the retransmitting wrapper and the oracles.
type hist struct {
	r       *ev.Run
	rng     *rand.Rand
	caseIdx int
	version string // "4.0" or "4.1"
	fs      *fakeFS
	srv     *server
	clk     *vclock.Clock
	gen     *countingRNG
	pool    *nfsv4srv.OpenedFilesPool

	log   []string       // event log: witness and sample
	shape []string       // seed-independent shape of the history (hash input)
	sits  map[string]int // situations hit by this case
	abort bool           // the case cannot continue (hang, model desync)

	requests int
	dups     int

	// okReplies remembers every successful reply to a sequenced request
	// of this case and who it belonged to (owner / slot), so that a reply
	// served to somebody else, or an older one, is recognised.
	okReplies map[string]string
}

// remember records a successful reply of a sequence holder.
func (h *hist) remember(holder string, st nfsv4.Nfsstat4, enc []byte) {
	if st != nfsv4.NFS4_OK {
		return
	}
	if h.okReplies == nil {
		h.okReplies = map[string]string{}
	}
	h.okReplies[string(enc)] = holder
}

func (h *hist) logf(format string, args ...any) {
	if debugLog {
		fmt.Fprintf(os.Stderr, "[case %d %s] "+format+"\n", append([]any{h.caseIdx, time.Now().Format("05.000")}, args...)...)
	}
	if len(h.log) < 400 {
		h.log = append(h.log, fmt.Sprintf(format, args...))
	}
}

func (h *hist) sit(name string) {
	h.sits[name]++
	h.r.Situation(name)
}

func (h *hist) witness(extra map[string]any) map[string]any {
	w := map[string]any{
		"seed":    h.r.Seed(),
		"case":    h.caseIdx,
		"version": h.version,
		"history": append([]string(nil), h.log...),
		"replay":  fmt.Sprintf("VERIF_SEED=%d VERIF_C19_CASE=%d VERIF_C19_DEBUG=1 ./check C19 %s --keep (the case is regenerated from the seed and the case index; also ./check C19 --replay <this file>)", h.r.Seed(), h.caseIdx, tierName(h.r)),
	}
	for k, v := range extra {
		w[k] = v
	}
	return w
}

func (h *hist) violate(sig, detail string, extra map[string]any) {
	h.logf("VIOLATION %s: %s", sig, detail)
	h.r.Violation(sig, detail, h.witness(extra))
}

// send transmits one COMPOUND and waits for the reply under the watchdog.
// ok=false means the call did not return; the case is then abandoned.
func (h *hist) send(req []byte, label string) (*pending, bool) {
	h.requests++
	p := h.srv.start(req, label, false)
	if p.wait(callGrace) {
		if p.err != nil {
			h.violate("C19 transport-error v="+h.version, fmt.Sprintf("%s returned error %v", label, p.err), nil)
			h.abort = true
			return p, false
		}
		return p, true
	}
	h.judgeStuck(p, label, "call-never-returned", 3, time.Second)
	h.abort = true
	return p, false
}

// judgeStuck applies the hang policy to a call that has not returned
// although nothing is holding it any more.
func (h *hist) judgeStuck(p *pending, label, what string, rounds int, interval time.Duration) hangVerdict {
	v := decideHang(p, rounds, interval)
	switch v.kind {
	case "returned":
	case "hang":
		sig := fmt.Sprintf("C19 hang v=%s what=%s blocked=%s at=%s", h.version, what, strings.ReplaceAll(v.state, " ", "-"), shortSite(v.site))
		h.violate(sig,
			fmt.Sprintf("%s: the call is blocked forever (%s in %s); nothing inside /repo can release it", label, v.state, v.site),
			map[string]any{"goroutine": v.dump, "request": opNames(decodeArgs(p.req))})
	default:
		h.logf("INCONCLUSIVE %s %s: %s", label, what, v.reason)
		h.r.Inconclusive("C19 case %d %s: %s did not return and the goroutine dump is not decisive: %s", h.caseIdx, h.version, label, v.reason)
	}
	return v
}

func compound(minor uint32, tag string, ops ...nfsv4.NfsArgop4) *nfsv4.Compound4args {
	return &nfsv4.Compound4args{Tag: tag, Minorversion: minor, Argarray: ops}
}

func opPutFH(fh []byte) nfsv4.NfsArgop4 {
	return &nfsv4.NfsArgop4_OP_PUTFH{Opputfh: nfsv4.Putfh4args{Object: append([]byte(nil), fh...)}}
}

func lockRange(slot int) (uint64, uint64) {
	return uint64(16 * slot), 8
}

const maxU64 = ^uint64(0)

// stateidString renders a state ID for logs and fingerprints.
func stateidString(s nfsv4.Stateid4) string {
	return fmt.Sprintf("%d:%x", s.Seqid, s.Other)
}

func pick[T any](rng *rand.Rand, xs []T) T {
	return xs[rng.IntN(len(xs))]
}

type fileRef struct {
	name string
	fh   []byte
}

// files lists the files that currently exist, in a fixed order.
func (h *hist) files() []fileRef {
	var out []fileRef
	for _, n := range []string{"f0", "f1", "f2", "n0", "n1"} {
		if l := h.fs.leaf(n); l != nil {
			out = append(out, fileRef{n, l.handle})
		}
	}
	return out
}

// sweepLocks renders the byte-range lock table of every file as seen by a
// lock-owner that holds nothing: LOCKT for a write lock from the current
// offset to the end of the file names the first conflicting lock; the
// sweep continues behind it. Several files are swept by one COMPOUND as
// long as no lock is found (a denied LOCKT ends the COMPOUND). call sends
// the operations and returns the reply and the number of leading results
// to skip (SEQUENCE in NFSv4.1).
func (h *hist) sweepLocks(owner nfsv4.LockOwner4, call func(ops []nfsv4.NfsArgop4) (*nfsv4.Compound4res, int, bool)) string {
	files := h.files()
	out := make([]strings.Builder, len(files))
	idx, off := 0, uint64(0)
	for iter := 0; idx < len(files) && iter < 64; iter++ {
		var ops []nfsv4.NfsArgop4
		for j := idx; j < len(files); j++ {
			o := uint64(0)
			if j == idx {
				o = off
			}
			ops = append(ops, opPutFH(files[j].fh), &nfsv4.NfsArgop4_OP_LOCKT{Oplockt: nfsv4.Lockt4args{Locktype: nfsv4.WRITE_LT, Offset: o, Length: maxU64, Owner: owner}})
		}
		res, skip, ok := call(ops)
		if !ok {
			return "?"
		}
		rs := res.Resarray
		if skip > len(rs) {
			skip = len(rs)
		}
		rs = rs[skip:]
		if len(rs) == 0 {
			return "?" + statusName(res.Status)
		}
		j := idx
		for k := 0; k < len(rs) && j < len(files); k += 2 {
			if k+1 >= len(rs) {
				// PUTFH failed and ended the COMPOUND.
				fmt.Fprintf(&out[j], "putfh(%s)", statusName(res.Status))
				j, off = j+1, 0
				break
			}
			lt, is := rs[k+1].(*nfsv4.NfsResop4_OP_LOCKT)
			if !is {
				fmt.Fprintf(&out[j], "?%s", opName(rs[k+1].GetResop()))
				j, off = j+1, 0
				break
			}
			if d, denied := lt.Oplockt.(*nfsv4.Lockt4res_NFS4ERR_DENIED); denied {
				fmt.Fprintf(&out[j], "[%d+%d t%d %x/%s]", d.Denied.Offset, d.Denied.Length, d.Denied.Locktype, d.Denied.Owner.Clientid, d.Denied.Owner.Owner)
				cur := uint64(0)
				if j == idx {
					cur = off
				}
				next := d.Denied.Offset + d.Denied.Length
				if d.Denied.Length == maxU64 || next < d.Denied.Offset {
					j, off = j+1, 0
				} else {
					if next <= cur {
						next = cur + 1
					}
					off = next
				}
				idx = j
				goto nextCompound
			}
			if _, fine := lt.Oplockt.(*nfsv4.Lockt4res_NFS4_OK); fine {
				out[j].WriteString("end")
				j, off = j+1, 0
				continue
			}
			fmt.Fprintf(&out[j], "err(%s)", statusName(res.Status))
			j, off = j+1, 0
			break
		}
		idx = j
	nextCompound:
	}
	var sb strings.Builder
	for i := range files {
		fmt.Fprintf(&sb, " locks[%s]=%s", files[i].name, out[i].String())
	}
	return sb.String()
}

func tierName(r *ev.Run) string {
	if r.Thorough() {
		return "thorough"
	}
	return "quick"
}

// stateCounts renders the sizes of the programs' state tables (clients,
// sessions, open-owners, open and lock state records, share and lock
// counts, hold counts) and of the opened files pool, read through the
// verif hooks under the programs' own locks.
func (h *hist) stateCounts() string {
	counts, known := nfsv4srv.VerifStateCounts(h.srv.prog)
	for k, v := range nfsv4srv.VerifOpenedFilesPoolCounts(h.pool) {
		counts[k] = v
	}
	keys := make([]string, 0, len(counts))
	for k := range counts {
		keys = append(keys, k)
	}
	sort.Strings(keys)
	var sb strings.Builder
	if !known {
		sb.WriteString("unknown-program ")
	}
	for _, k := range keys {
		if counts[k] != 0 {
			fmt.Fprintf(&sb, "%s=%d ", k, counts[k])
		}
	}
	h.r.Count("hook_calls", 1)
	return sb.String()
}

// sameState compares two fingerprints; withCounts=false ignores the state
// table counts (the part behind the marker).
func sameState(a, b string, withCounts bool) bool {
	if withCounts {
		return a == b
	}
	cut := func(s string) string {
		if i := strings.Index(s, countsMarker); i >= 0 {
			return s[:i]
		}
		return s
	}
	return cut(a) == cut(b)
}

const countsMarker = " ## tables: "
