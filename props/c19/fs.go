package c19

import (
	"context"
	"fmt"
	"io"
	"sort"
	"strings"
	"sync"

	"github.com/buildbarn/bb-remote-execution/pkg/filesystem/virtual"
	"github.com/buildbarn/bb-storage/pkg/filesystem"
	"github.com/buildbarn/bb-storage/pkg/filesystem/path"
)

// gateKind says at which harness-owned callback a request is held in
// flight.
type gateKind int

const (
	gateNone gateKind = iota
	gateOpenChild
	gateWrite
	gateRead
)

func (k gateKind) String() string {
	switch k {
	case gateOpenChild:
		return "openchild"
	case gateWrite:
		return "write"
	case gateRead:
		return "read"
	}
	return "none"
}

// gate holds calls of one kind against one file name in flight until the
// driver opens it. It keeps counting matching calls until it is disarmed,
// so that a second execution of the gated request is observable even after
// the gate has been opened.
type gate struct {
	mu       sync.Mutex
	armed    bool
	opened   bool
	kind     gateKind
	target   string
	arrivals int
	reached  chan struct{}
	release  chan struct{}
}

func (g *gate) arm(kind gateKind, target string) {
	g.mu.Lock()
	g.armed = true
	g.opened = false
	g.kind = kind
	g.target = target
	g.arrivals = 0
	g.reached = make(chan struct{}, 64)
	g.release = make(chan struct{})
	g.mu.Unlock()
}

// pass is called from the fake file system callbacks.
func (g *gate) pass(kind gateKind, target string) {
	g.mu.Lock()
	if !g.armed || g.kind != kind || g.target != target {
		g.mu.Unlock()
		return
	}
	g.arrivals++
	opened := g.opened
	reached, release := g.reached, g.release
	g.mu.Unlock()
	select {
	case reached <- struct{}{}:
	default:
	}
	if !opened {
		<-release
	}
}

// open lets the held calls continue; later matching calls pass through
// but are still counted.
func (g *gate) open() {
	g.mu.Lock()
	if g.armed && !g.opened {
		g.opened = true
		close(g.release)
	}
	g.mu.Unlock()
}

// disarm stops counting and returns the number of matching calls seen.
func (g *gate) disarm() int {
	g.mu.Lock()
	defer g.mu.Unlock()
	if g.armed && !g.opened {
		g.opened = true
		close(g.release)
	}
	g.armed = false
	return g.arrivals
}

func (g *gate) count() int {
	g.mu.Lock()
	defer g.mu.Unlock()
	return g.arrivals
}

// fakeFS is a one-directory tree with instrumented leaves.
type fakeFS struct {
	mu      sync.Mutex
	root    *fakeDir
	byFH    map[string]*fakeLeaf
	nextIno uint64
	gate    gate
}

type fakeDir struct {
	fs       *fakeFS
	handle   []byte
	children map[string]*fakeLeaf
	changeID uint64

	creates    int
	openChilds int
}

type fakeLeaf struct {
	fs     *fakeFS
	name   string
	handle []byte
	ino    uint64

	// Side-effect counters, guarded by fs.mu. Index 0 = read bit,
	// 1 = write bit.
	opens    [2]int
	closes   [2]int
	writes   int
	truncs   int
	setattrs int
	size     uint64
	changeID uint64
}

func newFakeFS(names []string) *fakeFS {
	fs := &fakeFS{byFH: map[string]*fakeLeaf{}, nextIno: 100}
	fs.root = &fakeDir{
		fs:       fs,
		handle:   []byte{0x01, 'r', 'o', 'o', 't', 0, 0, 1},
		children: map[string]*fakeLeaf{},
		changeID: 7,
	}
	for _, n := range names {
		fs.newLeafLocked(n)
	}
	return fs
}

func (fs *fakeFS) newLeafLocked(name string) *fakeLeaf {
	fs.nextIno++
	l := &fakeLeaf{
		fs:     fs,
		name:   name,
		ino:    fs.nextIno,
		handle: []byte{0x02, 'f', byte(fs.nextIno >> 40), byte(fs.nextIno >> 32), byte(fs.nextIno >> 24), byte(fs.nextIno >> 16), byte(fs.nextIno >> 8), byte(fs.nextIno)},
		size:   64,
	}
	fs.root.children[name] = l
	fs.byFH[string(l.handle)] = l
	return l
}

func (fs *fakeFS) leaf(name string) *fakeLeaf {
	fs.mu.Lock()
	defer fs.mu.Unlock()
	return fs.root.children[name]
}

// resolve is the virtual.HandleResolver of the tree.
func (fs *fakeFS) resolve(r io.ByteReader) (virtual.DirectoryChild, virtual.Status) {
	var h []byte
	for {
		b, err := r.ReadByte()
		if err != nil {
			break
		}
		h = append(h, b)
	}
	if string(h) == string(fs.root.handle) {
		return virtual.DirectoryChild{}.FromDirectory(fs.root), virtual.StatusOK
	}
	fs.mu.Lock()
	l, ok := fs.byFH[string(h)]
	fs.mu.Unlock()
	if !ok {
		return virtual.DirectoryChild{}, virtual.StatusErrStale
	}
	return virtual.DirectoryChild{}.FromLeaf(l), virtual.StatusOK
}

// counters renders every side-effect counter of the tree.
func (fs *fakeFS) counters() string {
	fs.mu.Lock()
	defer fs.mu.Unlock()
	names := make([]string, 0, len(fs.root.children))
	for n := range fs.root.children {
		names = append(names, n)
	}
	sort.Strings(names)
	var sb strings.Builder
	fmt.Fprintf(&sb, "dir{creates=%d openchild=%d chg=%d}", fs.root.creates, fs.root.openChilds, fs.root.changeID)
	for _, n := range names {
		l := fs.root.children[n]
		fmt.Fprintf(&sb, " %s{o=%v c=%v w=%d t=%d sa=%d sz=%d}", n, l.opens, l.closes, l.writes, l.truncs, l.setattrs, l.size)
	}
	return sb.String()
}

// balance returns opens-closes per bit of one leaf.
func (fs *fakeFS) balance(name string) [2]int {
	fs.mu.Lock()
	defer fs.mu.Unlock()
	l := fs.root.children[name]
	if l == nil {
		return [2]int{}
	}
	return [2]int{l.opens[0] - l.closes[0], l.opens[1] - l.closes[1]}
}

func countShare(c *[2]int, m virtual.ShareMask) {
	if m&virtual.ShareMaskRead != 0 {
		c[0]++
	}
	if m&virtual.ShareMaskWrite != 0 {
		c[1]++
	}
}

// --- directory ---

func (d *fakeDir) VirtualGetAttributes(ctx context.Context, requested virtual.AttributesMask, a *virtual.Attributes) {
	d.fs.mu.Lock()
	chg := d.changeID
	d.fs.mu.Unlock()
	a.SetFileHandle(d.handle)
	a.SetFileType(filesystem.FileTypeDirectory)
	a.SetChangeID(chg)
	a.SetInodeNumber(1)
	a.SetLinkCount(2)
	a.SetPermissions(virtual.PermissionsRead | virtual.PermissionsWrite | virtual.PermissionsExecute)
	a.SetSizeBytes(0)
	a.SetHasNamedAttributes(false)
	a.SetIsInNamedAttributeDirectory(false)
}

func (d *fakeDir) VirtualSetAttributes(ctx context.Context, in *virtual.Attributes, requested virtual.AttributesMask, a *virtual.Attributes) virtual.Status {
	return virtual.StatusErrPerm
}

func (d *fakeDir) VirtualApply(data any) bool { return false }

func (d *fakeDir) VirtualOpenNamedAttributes(ctx context.Context, createDirectory bool, requested virtual.AttributesMask, a *virtual.Attributes) (virtual.Directory, virtual.Status) {
	return nil, virtual.StatusErrNoEnt
}

func (d *fakeDir) VirtualOpenChild(ctx context.Context, name path.Component, shareAccess virtual.ShareMask, createAttributes *virtual.Attributes, existingOptions *virtual.OpenExistingOptions, requested virtual.AttributesMask, out *virtual.Attributes) (virtual.Leaf, virtual.AttributesMask, virtual.ChangeInfo, virtual.Status) {
	n := name.String()
	// The gate is taken before any effect, without holding fs.mu: the
	// request is "in the file system" but has not changed anything.
	d.fs.gate.pass(gateOpenChild, n)

	d.fs.mu.Lock()
	defer d.fs.mu.Unlock()
	d.openChilds++
	l, ok := d.children[n]
	before := d.changeID
	var respected virtual.AttributesMask
	if ok {
		if existingOptions == nil {
			return nil, 0, virtual.ChangeInfo{}, virtual.StatusErrExist
		}
		if existingOptions.Truncate {
			l.truncs++
			l.size = 0
			l.changeID++
			respected |= virtual.AttributesMaskSizeBytes
		}
	} else {
		if createAttributes == nil {
			return nil, 0, virtual.ChangeInfo{}, virtual.StatusErrNoEnt
		}
		l = d.fs.newLeafLocked(n)
		l.size = 0
		d.creates++
		d.changeID++
	}
	countShare(&l.opens, shareAccess)
	out.SetFileHandle(l.handle)
	return l, respected, virtual.ChangeInfo{Before: before, After: d.changeID}, virtual.StatusOK
}

func (d *fakeDir) VirtualLink(ctx context.Context, name path.Component, leaf virtual.Leaf, requested virtual.AttributesMask, a *virtual.Attributes) (virtual.ChangeInfo, virtual.Status) {
	return virtual.ChangeInfo{}, virtual.StatusErrPerm
}

func (d *fakeDir) VirtualLookup(ctx context.Context, name path.Component, requested virtual.AttributesMask, out *virtual.Attributes) (virtual.DirectoryChild, virtual.Status) {
	d.fs.mu.Lock()
	l, ok := d.children[name.String()]
	d.fs.mu.Unlock()
	if !ok {
		return virtual.DirectoryChild{}, virtual.StatusErrNoEnt
	}
	l.VirtualGetAttributes(ctx, requested, out)
	return virtual.DirectoryChild{}.FromLeaf(l), virtual.StatusOK
}

func (d *fakeDir) VirtualMkdir(ctx context.Context, name path.Component, createAttributes *virtual.Attributes, requested virtual.AttributesMask, a *virtual.Attributes) (virtual.Directory, virtual.ChangeInfo, virtual.Status) {
	return nil, virtual.ChangeInfo{}, virtual.StatusErrPerm
}

func (d *fakeDir) VirtualMknod(ctx context.Context, name path.Component, createAttributes *virtual.Attributes, requested virtual.AttributesMask, a *virtual.Attributes) (virtual.Leaf, virtual.ChangeInfo, virtual.Status) {
	return nil, virtual.ChangeInfo{}, virtual.StatusErrPerm
}

func (d *fakeDir) VirtualReadDir(ctx context.Context, firstCookie uint64, requested virtual.AttributesMask, reporter virtual.DirectoryEntryReporter) virtual.Status {
	return virtual.StatusOK
}

func (d *fakeDir) VirtualRename(ctx context.Context, oldName path.Component, newDirectory virtual.Directory, newName path.Component) (virtual.ChangeInfo, virtual.ChangeInfo, virtual.Status) {
	return virtual.ChangeInfo{}, virtual.ChangeInfo{}, virtual.StatusErrPerm
}

func (d *fakeDir) VirtualRemove(ctx context.Context, name path.Component, removeDirectory, removeLeaf bool) (virtual.ChangeInfo, virtual.Status) {
	return virtual.ChangeInfo{}, virtual.StatusErrPerm
}

// --- leaf ---

func (l *fakeLeaf) VirtualGetAttributes(ctx context.Context, requested virtual.AttributesMask, a *virtual.Attributes) {
	l.fs.mu.Lock()
	size, chg := l.size, l.changeID
	l.fs.mu.Unlock()
	a.SetFileHandle(l.handle)
	a.SetFileType(filesystem.FileTypeRegularFile)
	a.SetChangeID(chg)
	a.SetInodeNumber(l.ino)
	a.SetLinkCount(1)
	a.SetPermissions(virtual.PermissionsRead | virtual.PermissionsWrite)
	a.SetSizeBytes(size)
	a.SetHasNamedAttributes(false)
	a.SetIsInNamedAttributeDirectory(false)
}

func (l *fakeLeaf) VirtualSetAttributes(ctx context.Context, in *virtual.Attributes, requested virtual.AttributesMask, a *virtual.Attributes) virtual.Status {
	l.fs.mu.Lock()
	l.setattrs++
	if sz, ok := in.GetSizeBytes(); ok {
		l.size = sz
		l.truncs++
	}
	l.changeID++
	l.fs.mu.Unlock()
	return virtual.StatusOK
}

func (l *fakeLeaf) VirtualApply(data any) bool { return false }

func (l *fakeLeaf) VirtualOpenNamedAttributes(ctx context.Context, createDirectory bool, requested virtual.AttributesMask, a *virtual.Attributes) (virtual.Directory, virtual.Status) {
	return nil, virtual.StatusErrNoEnt
}

func (l *fakeLeaf) VirtualAllocate(ctx context.Context, off, size uint64) virtual.Status {
	return virtual.StatusOK
}

func (l *fakeLeaf) VirtualSeek(ctx context.Context, offset uint64, regionType filesystem.RegionType) (*uint64, virtual.Status) {
	return nil, virtual.StatusOK
}

func (l *fakeLeaf) VirtualOpenSelf(ctx context.Context, shareAccess virtual.ShareMask, options *virtual.OpenExistingOptions, requested virtual.AttributesMask, a *virtual.Attributes) virtual.Status {
	l.fs.mu.Lock()
	countShare(&l.opens, shareAccess)
	if options != nil && options.Truncate {
		l.truncs++
		l.size = 0
		l.changeID++
	}
	l.fs.mu.Unlock()
	return virtual.StatusOK
}

func (l *fakeLeaf) VirtualRead(ctx context.Context, buf []byte, offset uint64) (int, bool, virtual.Status) {
	l.fs.gate.pass(gateRead, l.name)
	l.fs.mu.Lock()
	size := l.size
	l.fs.mu.Unlock()
	out, eof := virtual.BoundReadToFileSize(buf, offset, size)
	for i := range out {
		out[i] = byte(offset) + byte(i)
	}
	return len(out), eof, virtual.StatusOK
}

func (l *fakeLeaf) VirtualClose(shareAccess virtual.ShareMask) {
	l.fs.mu.Lock()
	countShare(&l.closes, shareAccess)
	l.fs.mu.Unlock()
}

func (l *fakeLeaf) VirtualWrite(ctx context.Context, buf []byte, offset uint64) (int, virtual.Status) {
	l.fs.gate.pass(gateWrite, l.name)
	l.fs.mu.Lock()
	l.writes++
	if end := offset + uint64(len(buf)); end > l.size {
		l.size = end
	}
	l.changeID++
	l.fs.mu.Unlock()
	return len(buf), virtual.StatusOK
}

var (
	_ virtual.Directory = (*fakeDir)(nil)
	_ virtual.Leaf      = (*fakeLeaf)(nil)
)
