package c19

import (
	"bytes"
	"fmt"
	"sort"
	"strings"
	"time"

	"github.com/buildbarn/go-xdr/pkg/protocols/nfsv4"
)

// Client-side protocol model and retransmitting wrapper for NFSv4.1.

const (
	k41Open       = "OPEN"
	k41OpenFH     = "OPEN_FH"
	k41OpenNoent  = "OPEN_NOENT"
	k41OpenClose  = "OPEN_CLOSE"
	k41Close      = "CLOSE"
	k41Downgrade  = "OPEN_DOWNGRADE"
	k41LockNew    = "LOCK_NEW"
	k41Lock       = "LOCK"
	k41Locku      = "LOCKU"
	k41Write      = "WRITE"
	k41Read       = "READ"
	k41LookupFail = "LOOKUP_FAIL"
	k41Noop       = "SEQUENCE_ONLY"
	k41FreeSid    = "FREE_STATEID"
	k41OpenPrev   = "OPEN_PREVIOUS"
	k41SeqTwice   = "SEQUENCE_TWICE"
	k41CloseBad   = "CLOSE_BAD_STATEID"
	k41OpenDeny   = "OPEN_SHARE_DENY"
	k41LockInval  = "LOCK_ZERO_LENGTH"
	k41DestroyS   = "DESTROY_SESSION"
)

type client41 struct {
	idx      int
	ownerID  []byte
	verifier [8]byte
	id       uint64
	csSeq    uint32 // csa_sequence of the last executed CREATE_SESSION
	csReq    []byte
	csReply  []byte
	sessions []*sess41
	owners   []*oo41
	probe    *slot41
	retired  []nfsv4.Stateid4
}

type sess41 struct {
	id    [16]byte
	slots []*slot41
}

type slot41 struct {
	sess *sess41
	idx  uint32
	seq  uint32 // last sequence ID executed on this slot

	// Retransmission memory.
	present bool
	op      *op41
	ops     []nfsv4.NfsArgop4
	req     []byte
	reply   []byte
	res     *nfsv4.Compound4res
	cache   bool
	probed  string
}

type oo41 struct {
	c     *client41
	name  []byte
	files map[string]*of41
	// Lock-owner names used only through this open-owner (see oo40).
	lockOwns []string
}

type of41 struct {
	o       *oo41
	fname   string
	fh      []byte
	stateid nfsv4.Stateid4
	access  uint32
	locks   map[string]*lf41
}

type lf41 struct {
	c       *client41
	lo      string
	of      *of41
	stateid nfsv4.Stateid4
	slots   map[int]bool
}

type op41 struct {
	kind    string
	c       *client41
	o       *oo41
	of      *of41
	fname   string
	fh      []byte
	access  uint32
	create  bool
	lo      string
	lf      *lf41
	slot    int
	ltype   nfsv4.NfsLockType4
	stateid nfsv4.Stateid4
	want    nfsv4.Nfsstat4
	gate    gateKind
	victim  *sess41 // DESTROY_SESSION: the session to destroy
}

func (op *op41) String() string {
	s := fmt.Sprintf("%s c%d", op.kind, op.c.idx)
	if op.o != nil {
		s += "/" + string(op.o.name)
	}
	if op.fname != "" {
		s += " file=" + op.fname
	}
	switch op.kind {
	case k41Open, k41OpenFH, k41OpenNoent, k41OpenClose:
		s += fmt.Sprintf(" access=%d create=%v", op.access, op.create)
	case k41Close, k41Write, k41Read:
		s += " sid=" + stateidString(op.stateid)
	case k41Downgrade:
		s += fmt.Sprintf(" to=%d sid=%s", op.access, stateidString(op.stateid))
	case k41LockNew, k41Lock, k41Locku:
		s += fmt.Sprintf(" lo=%s slot=%d type=%d sid=%s", op.lo, op.slot, op.ltype, stateidString(op.stateid))
	}
	return s
}

type v41 struct {
	*hist
	clients []*client41
	held    map[string]map[int]*lf41
}

var currentStateID41 = nfsv4.Stateid4{Seqid: 1}

func (v *v41) openArgs(op *op41, owner []byte, claim nfsv4.OpenClaim4) *nfsv4.NfsArgop4_OP_OPEN {
	var how nfsv4.Openflag4 = &nfsv4.Openflag4_default{Opentype: nfsv4.OPEN4_NOCREATE}
	if op.create {
		how = &nfsv4.Openflag4_OPEN4_CREATE{How: &nfsv4.Createhow4_UNCHECKED4{}}
	}
	return &nfsv4.NfsArgop4_OP_OPEN{Opopen: nfsv4.Open4args{
		ShareAccess: op.access,
		ShareDeny:   nfsv4.OPEN4_SHARE_DENY_NONE,
		Owner:       nfsv4.OpenOwner4{Clientid: op.c.id, Owner: owner},
		Openhow:     how,
		Claim:       claim,
	}}
}

// ops renders the operations that follow SEQUENCE.
func (v *v41) ops(op *op41) []nfsv4.NfsArgop4 {
	switch op.kind {
	case k41Open, k41OpenNoent:
		return []nfsv4.NfsArgop4{&nfsv4.NfsArgop4_OP_PUTROOTFH{}, v.openArgs(op, op.o.name, &nfsv4.OpenClaim4_CLAIM_NULL{File: op.fname}), &nfsv4.NfsArgop4_OP_GETFH{}}
	case k41OpenFH:
		return []nfsv4.NfsArgop4{opPutFH(op.fh), v.openArgs(op, op.o.name, &nfsv4.OpenClaim4_CLAIM_FH{})}
	case k41OpenClose:
		return []nfsv4.NfsArgop4{
			&nfsv4.NfsArgop4_OP_PUTROOTFH{},
			v.openArgs(op, []byte("tmp-owner"), &nfsv4.OpenClaim4_CLAIM_NULL{File: op.fname}),
			&nfsv4.NfsArgop4_OP_CLOSE{Opclose: nfsv4.Close4args{OpenStateid: currentStateID41}},
		}
	case k41Close:
		return []nfsv4.NfsArgop4{opPutFH(op.fh), &nfsv4.NfsArgop4_OP_CLOSE{Opclose: nfsv4.Close4args{OpenStateid: op.stateid}}}
	case k41Downgrade:
		return []nfsv4.NfsArgop4{opPutFH(op.fh), &nfsv4.NfsArgop4_OP_OPEN_DOWNGRADE{OpopenDowngrade: nfsv4.OpenDowngrade4args{OpenStateid: op.stateid, ShareAccess: op.access, ShareDeny: nfsv4.OPEN4_SHARE_DENY_NONE}}}
	case k41LockNew:
		off, length := lockRange(op.slot)
		return []nfsv4.NfsArgop4{opPutFH(op.fh), &nfsv4.NfsArgop4_OP_LOCK{Oplock: nfsv4.Lock4args{
			Locktype: op.ltype, Offset: off, Length: length,
			Locker: &nfsv4.Locker4_TRUE{OpenOwner: nfsv4.OpenToLockOwner4{
				OpenStateid: op.stateid,
				LockOwner:   nfsv4.LockOwner4{Clientid: op.c.id, Owner: []byte(op.lo)},
			}},
		}}}
	case k41Lock:
		off, length := lockRange(op.slot)
		return []nfsv4.NfsArgop4{opPutFH(op.fh), &nfsv4.NfsArgop4_OP_LOCK{Oplock: nfsv4.Lock4args{
			Locktype: op.ltype, Offset: off, Length: length,
			Locker: &nfsv4.Locker4_FALSE{LockOwner: nfsv4.ExistLockOwner4{LockStateid: op.stateid}},
		}}}
	case k41Locku:
		off, length := lockRange(op.slot)
		return []nfsv4.NfsArgop4{opPutFH(op.fh), &nfsv4.NfsArgop4_OP_LOCKU{Oplocku: nfsv4.Locku4args{Locktype: op.ltype, LockStateid: op.stateid, Offset: off, Length: length}}}
	case k41Write:
		return []nfsv4.NfsArgop4{opPutFH(op.fh), &nfsv4.NfsArgop4_OP_WRITE{Opwrite: nfsv4.Write4args{Stateid: op.stateid, Offset: 5, Stable: nfsv4.FILE_SYNC4, Data: []byte("payload")}}}
	case k41Read:
		return []nfsv4.NfsArgop4{opPutFH(op.fh), &nfsv4.NfsArgop4_OP_READ{Opread: nfsv4.Read4args{Stateid: op.stateid, Offset: 0, Count: 8}}}
	case k41LookupFail:
		return []nfsv4.NfsArgop4{&nfsv4.NfsArgop4_OP_PUTROOTFH{}, &nfsv4.NfsArgop4_OP_LOOKUP{Oplookup: nfsv4.Lookup4args{Objname: "missing"}}, &nfsv4.NfsArgop4_OP_GETFH{}}
	case k41Noop:
		return nil
	case k41FreeSid:
		return []nfsv4.NfsArgop4{&nfsv4.NfsArgop4_OP_FREE_STATEID{OpfreeStateid: nfsv4.FreeStateid4args{FsaStateid: op.stateid}}}
	case k41OpenPrev:
		return []nfsv4.NfsArgop4{opPutFH(op.fh), v.openArgs(op, op.o.name, &nfsv4.OpenClaim4_CLAIM_PREVIOUS{DelegateType: nfsv4.OPEN_DELEGATE_NONE})}
	case k41SeqTwice:
		return []nfsv4.NfsArgop4{&nfsv4.NfsArgop4_OP_SEQUENCE{Opsequence: nfsv4.Sequence4args{SaSessionid: op.c.sessions[0].id, SaSequenceid: 1}}, &nfsv4.NfsArgop4_OP_PUTROOTFH{}}
	case k41CloseBad:
		return []nfsv4.NfsArgop4{opPutFH(op.fh), &nfsv4.NfsArgop4_OP_CLOSE{Opclose: nfsv4.Close4args{OpenStateid: nfsv4.Stateid4{Seqid: 1, Other: [12]byte{0xee, 0xee, 0xee, 0xee, 0xee, 0xee, 0xee, 0xee}}}}}
	case k41OpenDeny:
		a := v.openArgs(op, op.o.name, &nfsv4.OpenClaim4_CLAIM_NULL{File: op.fname})
		a.Opopen.ShareDeny = nfsv4.OPEN4_SHARE_DENY_BOTH
		return []nfsv4.NfsArgop4{&nfsv4.NfsArgop4_OP_PUTROOTFH{}, a}
	case k41LockInval:
		return []nfsv4.NfsArgop4{opPutFH(op.fh), &nfsv4.NfsArgop4_OP_LOCK{Oplock: nfsv4.Lock4args{
			Locktype: nfsv4.WRITE_LT, Offset: 3, Length: 0,
			Locker: &nfsv4.Locker4_TRUE{OpenOwner: nfsv4.OpenToLockOwner4{
				OpenStateid: op.stateid,
				LockOwner:   nfsv4.LockOwner4{Clientid: op.c.id, Owner: []byte(op.lo)},
			}},
		}}}
	case k41DestroyS:
		return []nfsv4.NfsArgop4{&nfsv4.NfsArgop4_OP_DESTROY_SESSION{OpdestroySession: nfsv4.DestroySession4args{DsaSessionid: op.victim.id}}}
	}
	panic("harness: unknown op kind " + op.kind)
}

func (v *v41) request(s *slot41, seq uint32, cache bool, tag string, ops []nfsv4.NfsArgop4) []byte {
	all := append([]nfsv4.NfsArgop4{&nfsv4.NfsArgop4_OP_SEQUENCE{Opsequence: nfsv4.Sequence4args{
		SaSessionid:     s.sess.id,
		SaSequenceid:    seq,
		SaSlotid:        s.idx,
		SaHighestSlotid: v.highestSlotid(s),
		SaCachethis:     cache,
	}}}, ops...)
	return encodeArgs(compound(1, tag, all...))
}

// highestSlotid picks sa_highest_slotid: usually the last slot, sometimes
// the slot in use, a lower one, or one beyond the table. The programs do
// not shrink their slot table, so the value must not matter.
func (v *v41) highestSlotid(s *slot41) uint32 {
	switch v.rng.IntN(6) {
	case 0:
		return s.idx
	case 1:
		return 0
	case 2:
		return uint32(len(s.sess.slots)) + 3
	}
	return uint32(len(s.sess.slots) - 1)
}

func (v *v41) desync(what string, st nfsv4.Nfsstat4) {
	v.logf("DESYNC %s -> %s", what, statusName(st))
	v.r.Count("model_desync", 1)
	v.abort = true
}

func (v *v41) createSessionReq(c *client41, seq uint32) []byte {
	return encodeArgs(compound(1, "create_session", &nfsv4.NfsArgop4_OP_CREATE_SESSION{OpcreateSession: nfsv4.CreateSession4args{
		CsaClientid: c.id,
		CsaSequence: seq,
		CsaFlags:    0,
		CsaForeChanAttrs: nfsv4.ChannelAttrs4{
			CaHeaderpadsize: 0, CaMaxrequestsize: 1 << 20, CaMaxresponsesize: 1 << 20,
			CaMaxresponsesizeCached: 1 << 16, CaMaxoperations: 64, CaMaxrequests: 64,
		},
		CsaBackChanAttrs: nfsv4.ChannelAttrs4{CaMaxrequestsize: 4096, CaMaxresponsesize: 4096, CaMaxoperations: 2, CaMaxrequests: 1},
		CsaCbProgram:     0x40000000,
	}}))
}

// csRejected sends a CREATE_SESSION that must be refused without effect.
func (v *v41) csRejected(c *client41, seq uint32, what string) {
	before := v.fs.counters() + fmt.Sprint(v.gen.calls.Load())
	p, ok := v.send(v.createSessionReq(c, seq), "CREATE_SESSION "+what)
	if !ok {
		return
	}
	v.dups++
	after := v.fs.counters() + fmt.Sprint(v.gen.calls.Load())
	v.logf("  CREATE_SESSION c%d %s -> %s", c.idx, what, statusName(p.res.Status))
	v.shape = append(v.shape, "cs-"+what+":"+statusName(p.res.Status))
	v.sit("misordered-create-session")
	if p.res.Status == nfsv4.NFS4_OK {
		v.violate("C19 misordered-accepted v=4.1 op=CREATE_SESSION", fmt.Sprintf("CREATE_SESSION with csa_sequence %s was executed", what), nil)
		v.abort = true
		return
	}
	if c.csReply != nil && bytes.Equal(p.enc, c.csReply) {
		v.violate("C19 misordered-got-cached-reply v=4.1 op=CREATE_SESSION", fmt.Sprintf("CREATE_SESSION with csa_sequence %s was answered with the cached reply of another request", what), nil)
	}
	if before != after {
		v.violate("C19 misordered-side-effect v=4.1 op=CREATE_SESSION", fmt.Sprintf("CREATE_SESSION with csa_sequence %s was rejected with %s but allocated state", what, statusName(p.res.Status)), map[string]any{"before": before, "after": after})
	}
}

func (v *v41) csReplay(c *client41, how string) {
	before := v.fs.counters() + fmt.Sprint(v.gen.calls.Load())
	p, ok := v.send(c.csReq, "RETRANSMIT CREATE_SESSION")
	if !ok {
		return
	}
	v.dups++
	after := v.fs.counters() + fmt.Sprint(v.gen.calls.Load())
	v.logf("  retransmit(%s) CREATE_SESSION c%d -> %s", how, c.idx, statusName(p.res.Status))
	v.shape = append(v.shape, "cs-replay-"+how)
	v.sit("replay-create-session")
	if !bytes.Equal(p.enc, c.csReply) {
		v.violate(fmt.Sprintf("C19 replay-reply-differs v=4.1 op=CREATE_SESSION orig=NFS4_OK dup=%s", statusName(p.res.Status)),
			"retransmitted CREATE_SESSION (same client ID, same csa_sequence, identical bytes) got a different reply",
			map[string]any{"original_reply": fmt.Sprintf("%x", c.csReply), "retransmission_reply": fmt.Sprintf("%x", p.enc)})
	}
	if before != after {
		v.violate("C19 replay-side-effect v=4.1 op=CREATE_SESSION", "retransmitted CREATE_SESSION allocated state (random draws moved)", map[string]any{"before": before, "after": after})
	}
}

// createSession executes the next CREATE_SESSION of a client and plays
// retransmission games with it.
func (v *v41) createSession(c *client41) bool {
	seq := c.csSeq + 1
	if v.rng.IntN(2) == 0 {
		v.csRejected(c, seq+1, "+2")
		if v.abort {
			return false
		}
	}
	if v.rng.IntN(3) == 0 {
		v.csRejected(c, seq-2, "-1")
		if v.abort {
			return false
		}
	}
	req := v.createSessionReq(c, seq)
	p, ok := v.send(req, "CREATE_SESSION")
	if !ok {
		return false
	}
	r, is := p.res.Resarray[0].(*nfsv4.NfsResop4_OP_CREATE_SESSION).OpcreateSession.(*nfsv4.CreateSession4res_NFS4_OK)
	if !is {
		v.desync("CREATE_SESSION", p.res.Status)
		return false
	}
	v.logf("CREATE_SESSION c%d seq=%d -> NFS4_OK slots=%d", c.idx, seq, r.CsrResok4.CsrForeChanAttrs.CaMaxrequests)
	v.shape = append(v.shape, "CREATE_SESSION")
	c.csSeq, c.csReq, c.csReply = seq, req, p.enc
	s := &sess41{id: r.CsrResok4.CsrSessionid}
	for i := uint32(0); i < r.CsrResok4.CsrForeChanAttrs.CaMaxrequests; i++ {
		s.slots = append(s.slots, &slot41{sess: s, idx: i})
	}
	c.sessions = append(c.sessions, s)
	if c.probe == nil {
		c.probe = s.slots[len(s.slots)-1]
	}
	switch v.rng.IntN(4) {
	case 0:
	case 1, 2:
		v.csReplay(c, "now")
	case 3:
		v.csRejected(c, seq+2, "+2")
		if !v.abort {
			v.csRejected(c, seq-1, "-1")
		}
		if !v.abort {
			v.csReplay(c, "after-misordered")
		}
	}
	return !v.abort
}

func (v *v41) setup() bool {
	nClients := 1 + v.rng.IntN(2)
	for i := 0; i < nClients; i++ {
		c := &client41{idx: i, ownerID: []byte(fmt.Sprintf("client41-%d-%d", v.caseIdx, i))}
		for j := range c.verifier {
			c.verifier[j] = byte(v.rng.Uint32())
		}
		req := encodeArgs(compound(1, "exchange_id", &nfsv4.NfsArgop4_OP_EXCHANGE_ID{OpexchangeId: nfsv4.ExchangeId4args{
			EiaClientowner:  nfsv4.ClientOwner4{CoVerifier: c.verifier, CoOwnerid: c.ownerID},
			EiaStateProtect: &nfsv4.StateProtect4A_SP4_NONE{},
		}}))
		p, ok := v.send(req, "EXCHANGE_ID")
		if !ok {
			return false
		}
		r, is := p.res.Resarray[0].(*nfsv4.NfsResop4_OP_EXCHANGE_ID).OpexchangeId.(*nfsv4.ExchangeId4res_NFS4_OK)
		if !is {
			v.desync("EXCHANGE_ID", p.res.Status)
			return false
		}
		c.id = r.EirResok4.EirClientid
		c.csSeq = r.EirResok4.EirSequenceid - 1
		v.logf("EXCHANGE_ID c%d -> clientid=%x eir_sequenceid=%d", i, c.id, r.EirResok4.EirSequenceid)
		if !v.createSession(c) {
			return false
		}
		for j := 0; j < 2; j++ {
			c.owners = append(c.owners, &oo41{c: c, name: []byte(fmt.Sprintf("oo%d", j)), files: map[string]*of41{}, lockOwns: []string{fmt.Sprintf("oo%d-lo0", j), fmt.Sprintf("oo%d-lo1", j)}})
		}
		v.clients = append(v.clients, c)
	}
	return true
}

func (v *v41) trackedSlots(c *client41) []*slot41 {
	var out []*slot41
	for _, s := range c.sessions {
		for _, sl := range s.slots {
			if sl != c.probe {
				out = append(out, sl)
			}
		}
	}
	return out
}

func (v *v41) pickSlot(fname string, c *client41, lo string) (int, nfsv4.NfsLockType4, nfsv4.Nfsstat4, bool) {
	var free, foreign []int
	for s := 0; s < 6; s++ {
		h := v.held[fname][s]
		switch {
		case h == nil:
			free = append(free, s)
		case h.c != c || h.lo != lo:
			foreign = append(foreign, s)
		}
	}
	if len(foreign) > 0 && (len(free) == 0 || v.rng.IntN(10) < 3) {
		return pick(v.rng, foreign), nfsv4.WRITE_LT, nfsv4.NFS4ERR_DENIED, true
	}
	if len(free) == 0 {
		return 0, 0, 0, false
	}
	lt := nfsv4.NfsLockType4(nfsv4.WRITE_LT)
	if v.rng.IntN(3) == 0 {
		lt = nfsv4.READ_LT
	}
	return pick(v.rng, free), lt, nfsv4.NFS4_OK, true
}

func (v *v41) genOpen(o *oo41) *op41 {
	names := []string{"f0", "f1", "f2", "n0", "n1"}
	name := pick(v.rng, names)
	exists := v.fs.leaf(name) != nil
	create := !exists || v.rng.IntN(3) == 0
	access := pick(v.rng, []uint32{nfsv4.OPEN4_SHARE_ACCESS_READ, nfsv4.OPEN4_SHARE_ACCESS_WRITE, nfsv4.OPEN4_SHARE_ACCESS_BOTH, nfsv4.OPEN4_SHARE_ACCESS_BOTH})
	return &op41{kind: k41Open, c: o.c, o: o, fname: name, access: access, create: create, want: nfsv4.NFS4_OK, gate: gateOpenChild}
}

// next produces a protocol-valid state-changing (or at least sequenced)
// request of client c and the status the model expects for it.
func (v *v41) next(c *client41) *op41 {
	rng := v.rng
	type cand struct {
		w  int
		mk func() *op41
	}
	var cands []cand
	for _, o := range c.owners {
		o := o
		if len(o.files) < 3 {
			cands = append(cands, cand{4, func() *op41 { return v.genOpen(o) }})
		}
		for _, n := range sortedKeys(o.files) {
			of := o.files[n]
			cands = append(cands, cand{1, func() *op41 {
				op := v.genOpen(o)
				op.fname, op.create = of.fname, false
				return op
			}})
			cands = append(cands, cand{1, func() *op41 {
				access := pick(rng, []uint32{nfsv4.OPEN4_SHARE_ACCESS_READ, nfsv4.OPEN4_SHARE_ACCESS_WRITE, nfsv4.OPEN4_SHARE_ACCESS_BOTH})
				return &op41{kind: k41OpenFH, c: c, o: o, of: of, fname: of.fname, fh: of.fh, access: access, want: nfsv4.NFS4_OK}
			}})
			cands = append(cands, cand{3, func() *op41 {
				return &op41{kind: k41Close, c: c, o: o, of: of, fname: of.fname, fh: of.fh, stateid: of.stateid, want: nfsv4.NFS4_OK}
			}})
			cands = append(cands, cand{1, func() *op41 {
				access := pick(rng, []uint32{nfsv4.OPEN4_SHARE_ACCESS_READ, nfsv4.OPEN4_SHARE_ACCESS_WRITE, nfsv4.OPEN4_SHARE_ACCESS_BOTH})
				return &op41{kind: k41OpenPrev, c: c, o: o, of: of, fname: of.fname, fh: of.fh, access: access, want: nfsv4.NFS4_OK}
			}})
			cands = append(cands, cand{1, func() *op41 {
				if rng.IntN(2) == 0 {
					return &op41{kind: k41CloseBad, c: c, o: o, fname: of.fname, fh: of.fh, want: nfsv4.NFS4ERR_BAD_STATEID}
				}
				return &op41{kind: k41LockInval, c: c, o: o, of: of, fname: of.fname, fh: of.fh, lo: o.lockOwns[0], stateid: of.stateid, want: nfsv4.NFS4ERR_INVAL}
			}})
			if of.access == nfsv4.OPEN4_SHARE_ACCESS_BOTH {
				cands = append(cands, cand{2, func() *op41 {
					to := uint32(nfsv4.OPEN4_SHARE_ACCESS_READ)
					if rng.IntN(2) == 0 {
						to = nfsv4.OPEN4_SHARE_ACCESS_WRITE
					}
					return &op41{kind: k41Downgrade, c: c, o: o, of: of, fname: of.fname, fh: of.fh, access: to, stateid: of.stateid, want: nfsv4.NFS4_OK}
				}})
			}
			if of.access&nfsv4.OPEN4_SHARE_ACCESS_WRITE != 0 {
				cands = append(cands, cand{2, func() *op41 {
					return &op41{kind: k41Write, c: c, o: o, of: of, fname: of.fname, fh: of.fh, stateid: of.stateid, want: nfsv4.NFS4_OK, gate: gateWrite}
				}})
			}
			if of.access&nfsv4.OPEN4_SHARE_ACCESS_READ != 0 {
				cands = append(cands, cand{1, func() *op41 {
					return &op41{kind: k41Read, c: c, o: o, of: of, fname: of.fname, fh: of.fh, stateid: of.stateid, want: nfsv4.NFS4_OK, gate: gateRead}
				}})
			}
			for _, lo := range o.lockOwns {
				lo := lo
				lf := of.locks[lo]
				if lf == nil {
					cands = append(cands, cand{3, func() *op41 {
						slot, lt, want, ok := v.pickSlot(of.fname, c, lo)
						if !ok {
							return nil
						}
						return &op41{kind: k41LockNew, c: c, o: o, of: of, fname: of.fname, fh: of.fh, lo: lo, slot: slot, ltype: lt, stateid: of.stateid, want: want}
					}})
					continue
				}
				cands = append(cands, cand{3, func() *op41 {
					slot, lt, want, ok := v.pickSlot(of.fname, c, lo)
					if !ok {
						return nil
					}
					return &op41{kind: k41Lock, c: c, o: o, of: of, fname: of.fname, fh: of.fh, lo: lo, lf: lf, slot: slot, ltype: lt, stateid: lf.stateid, want: want}
				}})
				cands = append(cands, cand{1, func() *op41 {
					// FREE_STATEID of the lock state: refused while
					// it holds locks.
					want := nfsv4.Nfsstat4(nfsv4.NFS4_OK)
					if len(lf.slots) > 0 {
						want = nfsv4.NFS4ERR_LOCKS_HELD
					}
					return &op41{kind: k41FreeSid, c: c, o: o, of: of, fname: of.fname, lo: lo, lf: lf, stateid: lf.stateid, want: want}
				}})
				if len(lf.slots) > 0 {
					cands = append(cands, cand{3, func() *op41 {
						slots := make([]int, 0, len(lf.slots))
						for s := range lf.slots {
							slots = append(slots, s)
						}
						sort.Ints(slots)
						return &op41{kind: k41Locku, c: c, o: o, of: of, fname: of.fname, fh: of.fh, lo: lo, lf: lf, slot: pick(rng, slots), ltype: nfsv4.WRITE_LT, stateid: lf.stateid, want: nfsv4.NFS4_OK}
					}})
				}
			}
		}
	}
	o0 := c.owners[0]
	cands = append(cands,
		cand{1, func() *op41 {
			return &op41{kind: k41OpenNoent, c: c, o: o0, fname: "missing", access: nfsv4.OPEN4_SHARE_ACCESS_READ, want: nfsv4.NFS4ERR_NOENT, gate: gateOpenChild}
		}},
		cand{1, func() *op41 { return &op41{kind: k41LookupFail, c: c, want: nfsv4.NFS4ERR_NOENT} }},
		cand{1, func() *op41 { return &op41{kind: k41Noop, c: c, want: nfsv4.NFS4_OK} }},
		cand{1, func() *op41 { return &op41{kind: k41SeqTwice, c: c, want: nfsv4.NFS4ERR_SEQUENCE_POS} }},
		cand{1, func() *op41 {
			if rng.IntN(2) == 0 {
				return &op41{kind: k41OpenDeny, c: c, o: o0, fname: "f0", access: nfsv4.OPEN4_SHARE_ACCESS_READ, want: nfsv4.NFS4ERR_SHARE_DENIED}
			}
			// CLAIM_PREVIOUS of a file the owner does not have open.
			for _, n := range names40 {
				if o0.files[n] == nil {
					return &op41{kind: k41OpenPrev, c: c, o: o0, fname: n, fh: v.fs.leaf(n).handle, access: nfsv4.OPEN4_SHARE_ACCESS_READ, want: nfsv4.NFS4ERR_RECLAIM_BAD}
				}
			}
			return nil
		}},
		cand{1, func() *op41 {
			return &op41{kind: k41OpenClose, c: c, fname: pick(rng, names40), access: nfsv4.OPEN4_SHARE_ACCESS_READ, want: nfsv4.NFS4_OK}
		}},
	)
	total := 0
	for _, cd := range cands {
		total += cd.w
	}
	for try := 0; try < 8; try++ {
		x := rng.IntN(total)
		for _, cd := range cands {
			if x < cd.w {
				if op := cd.mk(); op != nil {
					return op
				}
				break
			}
			x -= cd.w
		}
	}
	return nil
}

func (c *client41) retire(id nfsv4.Stateid4) {
	c.retired = append(c.retired, id)
	if len(c.retired) > 5 {
		c.retired = c.retired[len(c.retired)-5:]
	}
}

func (v *v41) hold(fname string, slot int, lf *lf41) {
	if v.held[fname] == nil {
		v.held[fname] = map[int]*lf41{}
	}
	v.held[fname][slot] = lf
}

func (v *v41) apply(op *op41, res *nfsv4.Compound4res) bool {
	c := op.c
	sid, _, haveSid := replyStateid(res)
	switch op.kind {
	case k41FreeSid:
		if op.want == nfsv4.NFS4_OK {
			c.retire(op.lf.stateid)
			delete(op.of.locks, op.lo)
		}
	case k41OpenPrev:
		if op.want != nfsv4.NFS4_OK {
			break
		}
		if !haveSid {
			v.desync("OPEN reply without state ID", res.Status)
			return false
		}
		c.retire(op.of.stateid)
		op.of.stateid = sid
		op.of.access |= op.access
	case k41Open, k41OpenFH:
		if !haveSid {
			v.desync(op.kind+" reply without state ID", res.Status)
			return false
		}
		of := op.o.files[op.fname]
		if of == nil {
			l := v.fs.leaf(op.fname)
			if l == nil {
				v.desync("OPEN succeeded but the file does not exist", res.Status)
				return false
			}
			of = &of41{o: op.o, fname: op.fname, fh: l.handle, locks: map[string]*lf41{}}
			op.o.files[op.fname] = of
		} else {
			c.retire(of.stateid)
		}
		of.stateid = sid
		of.access |= op.access
	case k41Close:
		of := op.of
		for _, lf := range of.locks {
			for s := range lf.slots {
				delete(v.held[of.fname], s)
			}
			c.retire(lf.stateid)
		}
		c.retire(of.stateid)
		delete(op.o.files, of.fname)
	case k41Downgrade:
		if !haveSid {
			v.desync("OPEN_DOWNGRADE reply without state ID", res.Status)
			return false
		}
		c.retire(op.of.stateid)
		op.of.stateid = sid
		op.of.access = op.access
	case k41LockNew:
		if op.want == nfsv4.NFS4_OK {
			if !haveSid {
				v.desync("LOCK reply without state ID", res.Status)
				return false
			}
			lf := &lf41{c: c, lo: op.lo, of: op.of, stateid: sid, slots: map[int]bool{op.slot: true}}
			op.of.locks[op.lo] = lf
			v.hold(op.fname, op.slot, lf)
		}
	case k41Lock:
		if op.want == nfsv4.NFS4_OK {
			if !haveSid {
				v.desync("LOCK reply without state ID", res.Status)
				return false
			}
			c.retire(op.lf.stateid)
			op.lf.stateid = sid
			op.lf.slots[op.slot] = true
			v.hold(op.fname, op.slot, op.lf)
		}
	case k41Locku:
		if !haveSid {
			v.desync("LOCKU reply without state ID", res.Status)
			return false
		}
		c.retire(op.lf.stateid)
		op.lf.stateid = sid
		delete(op.lf.slots, op.slot)
		delete(v.held[op.fname], op.slot)
	}
	return true
}

// seqResultOK checks that the first result is a successful SEQUENCE
// echoing the slot and sequence ID.
func seqResultOK(res *nfsv4.Compound4res, s *slot41, seq uint32) bool {
	if len(res.Resarray) == 0 {
		return false
	}
	r, is := res.Resarray[0].(*nfsv4.NfsResop4_OP_SEQUENCE)
	if !is {
		return false
	}
	ok, is := r.Opsequence.(*nfsv4.Sequence4res_NFS4_OK)
	return is && ok.SrResok4.SrSequenceid == seq && ok.SrResok4.SrSlotid == s.idx && ok.SrResok4.SrSessionid == s.sess.id
}

func (v *v41) runTracked(op *op41, allowDup bool) {
	slots := v.trackedSlots(op.c)
	s := pick(v.rng, slots)
	seq := s.seq + 1
	cache := v.rng.Float64() < 0.65
	ops := v.ops(op)
	req := v.request(s, seq, cache, op.kind, ops)
	probedBefore := s.probed
	label := fmt.Sprintf("%s [sess %x slot %d seq %d cachethis=%v]", op, s.sess.id[:2], s.idx, seq, cache)
	inflight := allowDup && op.gate != gateNone && v.rng.Float64() < 0.4 && !v.inflightDisabled("4.1")
	var p *pending
	if inflight {
		p = v.inflight(op, s, req, label, cache)
		if p == nil {
			return
		}
	} else {
		var ok bool
		p, ok = v.send(req, label)
		if !ok {
			return
		}
	}
	st := p.res.Status
	v.logf("%s -> %s %v", label, statusName(st), resNames(p.res))
	v.shape = append(v.shape, fmt.Sprintf("%s:%v:%s", op.kind, cache, statusName(st)))
	if st != op.want || !seqResultOK(p.res, s, seq) {
		if probedBefore != "" && (sequencingStatus[st] || !seqResultOK(p.res, s, seq)) {
			v.violate(fmt.Sprintf("C19 valid-request-rejected v=4.1 op=%s got=%s after=%s", op.kind, statusName(st), probedBefore),
				fmt.Sprintf("%s is the next in-order request of its slot and must get %s, but after a %s probe on the same slot it got %s %v: the probe had a side effect on the slot", label, statusName(op.want), probedBefore, statusName(st), resNames(p.res)), nil)
			v.abort = true
			return
		}
		v.desync(label, st)
		return
	}
	if !v.apply(op, p.res) {
		return
	}
	s.seq = seq
	s.present, s.op, s.ops, s.req, s.reply, s.res, s.cache, s.probed = true, op, ops, req, p.enc, p.res, cache, ""
	v.remember(fmt.Sprintf("sess %x slot %d", s.sess.id[:4], s.idx), st, p.enc)
	if !allowDup || inflight {
		return
	}
	x := v.rng.Float64()
	switch {
	case x < 0.30:
	case x < 0.50:
		v.checkReplay(s, "now")
	case x < 0.62:
		v.unrelated(s)
		if !v.abort {
			v.checkReplay(s, "after-unrelated")
		}
	case x < 0.74:
		v.checkMisordered(s)
	case x < 0.88:
		v.checkFalseRetry(s)
	default:
		v.checkSlotTable(s)
	}
}

// --- observation of side effects ---------------------------------------

func (v *v41) probeCall(c *client41, tag string, ops ...nfsv4.NfsArgop4) (*nfsv4.Compound4res, bool) {
	s := c.probe
	p, ok := v.send(v.request(s, s.seq+1, false, tag, ops), "probe "+tag)
	if !ok {
		return nil, false
	}
	v.r.Count("probes", 1)
	if seqResultOK(p.res, s, s.seq+1) {
		s.seq++
	}
	return p.res, true
}

// fingerprint renders everything observable about the server's open and
// lock state: the instrumented tree, the number of random draws, the
// validity of every state ID the clients ever got (TEST_STATEID) and the
// lock table of every file (LOCKT sweeps). Probes use a dedicated slot.
func (v *v41) fingerprint() string {
	var sb strings.Builder
	sb.WriteString(v.fs.counters())
	fmt.Fprintf(&sb, " rng=%d", v.gen.calls.Load())
	for _, c := range v.clients {
		var ids []nfsv4.Stateid4
		for _, o := range c.owners {
			for _, n := range sortedKeys(o.files) {
				of := o.files[n]
				ids = append(ids, of.stateid)
				for _, k := range sortedKeys(of.locks) {
					ids = append(ids, of.locks[k].stateid)
				}
			}
		}
		ids = append(ids, c.retired...)
		if len(ids) == 0 {
			continue
		}
		res, ok := v.probeCall(c, "test_stateid", &nfsv4.NfsArgop4_OP_TEST_STATEID{OptestStateid: nfsv4.TestStateid4args{TsStateids: ids}})
		if !ok {
			return ""
		}
		fmt.Fprintf(&sb, " c%d:%s", c.idx, statusName(res.Status))
		if len(res.Resarray) == 2 {
			if t, is := res.Resarray[1].(*nfsv4.NfsResop4_OP_TEST_STATEID); is {
				if okr, is := t.OptestStateid.(*nfsv4.TestStateid4res_NFS4_OK); is {
					for i, code := range okr.TsrResok4.TsrStatusCodes {
						fmt.Fprintf(&sb, " sid[%s]=%s", stateidString(ids[i]), statusName(code))
					}
				}
			}
		}
	}
	c0 := v.clients[0]
	sb.WriteString(v.sweepLocks(nfsv4.LockOwner4{Clientid: c0.id, Owner: []byte("probe-owner")}, func(ops []nfsv4.NfsArgop4) (*nfsv4.Compound4res, int, bool) {
		res, ok := v.probeCall(c0, "lockt", ops...)
		return res, 1, ok
	}))
	sb.WriteString(countsMarker)
	sb.WriteString(v.stateCounts())
	return sb.String()
}

// --- the retransmitting wrapper ------------------------------------------

// uncachedForm tells whether dup is the reply RFC 8881 2.10.6.1.3 allows
// for a retransmission of a request sent with sa_cachethis=false: the
// original SEQUENCE result followed by the first operation failing with
// NFS4ERR_RETRY_UNCACHED_REP.
func uncachedForm(dup, orig *nfsv4.Compound4res) bool {
	if dup.Status != nfsv4.NFS4ERR_RETRY_UNCACHED_REP || len(dup.Resarray) != 2 || len(orig.Resarray) < 2 {
		return false
	}
	if !bytes.Equal(encodeResop(dup.Resarray[0]), encodeResop(orig.Resarray[0])) {
		return false
	}
	if dup.Resarray[1].GetResop() != orig.Resarray[1].GetResop() {
		return false
	}
	e := encodeResop(dup.Resarray[1])
	want := []byte{0, 0, byte(nfsv4.NFS4ERR_RETRY_UNCACHED_REP >> 8), byte(nfsv4.NFS4ERR_RETRY_UNCACHED_REP & 0xff)}
	return len(e) == 8 && bytes.Equal(e[4:], want)
}

func (v *v41) checkReplay(s *slot41, how string) {
	if !s.present {
		return
	}
	before := v.fingerprint()
	if v.abort {
		return
	}
	p, ok := v.send(s.req, "RETRANSMIT "+s.op.String())
	if !ok {
		return
	}
	v.dups++
	after := v.fingerprint()
	if v.abort {
		return
	}
	v.logf("  retransmit(%s) %s slot %d seq %d -> %s %v", how, s.op.kind, s.idx, s.seq, statusName(p.res.Status), resNames(p.res))
	v.shape = append(v.shape, "replay-"+how)
	v.sit("replay-41-" + s.op.kind)
	if how != "now" {
		v.sit("replay-after-unrelated-41")
	}
	switch {
	case bytes.Equal(p.enc, s.reply):
		if s.cache {
			v.sit("replay-41-cached")
		}
	case !s.cache && uncachedForm(p.res, s.res):
		v.sit("replay-41-uncached")
	default:
		v.violate(fmt.Sprintf("C19 replay-reply-differs v=4.1 op=%s cachethis=%v orig=%s dup=%s", s.op.kind, s.cache, statusName(s.res.Status), statusName(p.res.Status)),
			fmt.Sprintf("retransmission (%s) of %s (same session, slot %d, sequence %d, identical bytes) was answered %s %v, the original got %s %v", how, s.op, s.idx, s.seq, statusName(p.res.Status), resNames(p.res), statusName(s.res.Status), resNames(s.res)),
			map[string]any{"original_reply": fmt.Sprintf("%x", s.reply), "retransmission_reply": fmt.Sprintf("%x", p.enc)})
	}
	if before != after {
		v.violate(fmt.Sprintf("C19 replay-side-effect v=4.1 op=%s", s.op.kind),
			fmt.Sprintf("retransmission (%s) of %s changed observable state", how, s.op),
			map[string]any{"before": before, "after": after})
	}
}

// rejected checks a request on slot s that the server must refuse.
func (v *v41) rejected(what string, s *slot41, req []byte, detail string) {
	before := v.fingerprint()
	if v.abort {
		return
	}
	p, ok := v.send(req, what)
	if !ok {
		return
	}
	v.dups++
	after := v.fingerprint()
	if v.abort {
		return
	}
	s.probed = what
	st := p.res.Status
	v.logf("  %s: %s -> %s %v", what, detail, statusName(st), resNames(p.res))
	v.shape = append(v.shape, what+":"+statusName(st))
	if st == nfsv4.NFS4_OK {
		v.violate(fmt.Sprintf("C19 %s-accepted v=4.1", what), fmt.Sprintf("%s: the request was executed (NFS4_OK %v) instead of being rejected", detail, resNames(p.res)), map[string]any{"request": opNames(decodeArgs(req))})
		v.abort = true
		return
	}
	if s.present && (bytes.Equal(p.enc, s.reply) || (!s.cache && uncachedForm(p.res, s.res))) {
		v.violate(fmt.Sprintf("C19 %s-got-cached-reply v=4.1 cached=%s", what, s.op.kind),
			fmt.Sprintf("%s: the request was answered with the cached reply of %s", detail, s.op), map[string]any{"request": opNames(decodeArgs(req))})
	}
	if before != after {
		v.violate(fmt.Sprintf("C19 %s-side-effect v=4.1", what),
			fmt.Sprintf("%s: rejected with %s but changed observable state", detail, statusName(st)),
			map[string]any{"before": before, "after": after})
	}
	if s.present && v.rng.IntN(3) == 0 && !strings.HasPrefix(what, "too-many-ops") {
		// (A request with the next sequence ID acknowledges the previous
		// reply, so a server may drop it even if it then refuses the
		// request for having too many operations.)
		v.checkReplay(s, "after-"+what)
	}
}

func (v *v41) checkMisordered(s *slot41) {
	c := s.op.c
	op := v.next(c)
	if op == nil {
		return
	}
	delta, seq := "+2", s.seq+2
	if v.rng.IntN(2) == 0 {
		delta, seq = "-1", s.seq-1
	}
	v.sit("misordered-41" + delta)
	req := v.request(s, seq, true, op.kind, v.ops(op))
	v.rejected("misordered", s, req, fmt.Sprintf("%s with sequence %s relative to slot %d's last request", op, delta, s.idx))
}

// checkFalseRetry reuses the slot and sequence ID of the last request
// with a different operation list.
func (v *v41) checkFalseRetry(s *slot41) {
	if !s.present {
		return
	}
	nres := len(s.res.Resarray) - 1
	other := func(o nfsv4.NfsArgop4) nfsv4.NfsArgop4 {
		if o.GetArgop() == nfsv4.OP_GETFH {
			return &nfsv4.NfsArgop4_OP_PUTROOTFH{}
		}
		return &nfsv4.NfsArgop4_OP_GETFH{}
	}
	type variant struct {
		name string
		ops  []nfsv4.NfsArgop4
	}
	var vs []variant
	if nres >= 1 {
		cut := 0
		if s.cache {
			cut = nres - 1
		}
		vs = append(vs, variant{"fewer-ops", append([]nfsv4.NfsArgop4(nil), s.ops[:cut]...)})
		i := 0
		if s.cache {
			i = v.rng.IntN(nres)
		}
		alt := append([]nfsv4.NfsArgop4(nil), s.ops...)
		alt[i] = other(alt[i])
		vs = append(vs, variant{"other-optype", alt})
	}
	if s.res.Status == nfsv4.NFS4_OK && (s.cache || nres == 0) {
		vs = append(vs, variant{"more-ops", append(append([]nfsv4.NfsArgop4(nil), s.ops...), &nfsv4.NfsArgop4_OP_PUTROOTFH{})})
	}
	if alt, ok := v.otherArguments(s); ok && s.cache && v.rng.IntN(3) == 0 {
		// Same operation types, other arguments: not a retransmission
		// either, although its shape matches the cached reply.
		req := v.request(s, s.seq, s.cache, s.op.kind, alt)
		if !bytes.Equal(req, s.req) {
			v.sit("false-retry-41-same-shape-other-arguments")
			v.differentRequestCheck(s, req)
			return
		}
	}
	if len(vs) == 0 {
		return
	}
	vr := pick(v.rng, vs)
	v.sit("false-retry-41-" + vr.name)
	req := v.request(s, s.seq, s.cache, "false-retry", vr.ops)
	v.rejected("false-retry", s, req, fmt.Sprintf("same slot %d and sequence %d as %s but %s %v", s.idx, s.seq, s.op.kind, vr.name, opNames(decodeArgs(req))))
}

// unrelated produces traffic on other slots, sessions and clients.
func (v *v41) unrelated(s *slot41) {
	n := 1 + v.rng.IntN(3)
	for i := 0; i < n && !v.abort; i++ {
		switch v.rng.IntN(3) {
		case 0:
			v.clk.Advance(time.Second, nil)
			v.logf("  (clock +1s)")
		default:
			c := pick(v.rng, v.clients)
			op := v.next(c)
			if op == nil {
				continue
			}
			v.logf("  (unrelated request follows)")
			v.runTrackedAvoiding(op, s)
		}
	}
}

// runTrackedAvoiding runs op (without retransmission games) on a slot
// other than avoid.
func (v *v41) runTrackedAvoiding(op *op41, avoid *slot41) {
	var slots []*slot41
	for _, sl := range v.trackedSlots(op.c) {
		if sl != avoid {
			slots = append(slots, sl)
		}
	}
	s := pick(v.rng, slots)
	seq := s.seq + 1
	cache := v.rng.IntN(2) == 0
	ops := v.ops(op)
	req := v.request(s, seq, cache, op.kind, ops)
	label := fmt.Sprintf("%s [sess %x slot %d seq %d cachethis=%v]", op, s.sess.id[:2], s.idx, seq, cache)
	p, ok := v.send(req, label)
	if !ok {
		return
	}
	st := p.res.Status
	v.logf("%s -> %s", label, statusName(st))
	v.shape = append(v.shape, op.kind+":"+statusName(st))
	if st != op.want || !seqResultOK(p.res, s, seq) {
		if s.probed != "" && (sequencingStatus[st] || !seqResultOK(p.res, s, seq)) {
			v.violate(fmt.Sprintf("C19 valid-request-rejected v=4.1 op=%s got=%s after=%s", op.kind, statusName(st), s.probed),
				fmt.Sprintf("%s must get %s but got %s after a %s probe on the same slot", label, statusName(op.want), statusName(st), s.probed), nil)
			v.abort = true
			return
		}
		v.desync(label, st)
		return
	}
	if !v.apply(op, p.res) {
		return
	}
	s.seq = seq
	s.present, s.op, s.ops, s.req, s.reply, s.res, s.cache, s.probed = true, op, ops, req, p.enc, p.res, cache, ""
}

// inflight sends a request that is held inside the file system and
// retransmits it (same slot, same sequence ID, identical bytes) while the
// original is being processed.
func (v *v41) inflight(op *op41, s *slot41, req []byte, label string, cache bool) *pending {
	g := &v.fs.gate
	g.arm(op.gate, op.fname)
	defer g.disarm()
	v.requests++
	orig := v.srv.start(req, label, true)
	select {
	case <-g.reached:
	case <-orig.done:
		return orig
	case <-time.After(callGrace):
		v.judgeStuck(orig, label, "held-request-never-reached-gate", 3, time.Second)
		v.abort = true
		return nil
	}
	nd := 2 + v.rng.IntN(3) // at least two parked duplicates
	dups := make([]*pending, nd)
	for i := range dups {
		v.requests++
		dups[i] = v.srv.start(req, "INFLIGHT-RETRANSMIT "+label, true)
	}
	parked := waitParked(dups, g, "opSequence")
	v.logf("%s held at %s gate; %d concurrent retransmissions (parked=%v)", label, op.gate, nd, parked)
	if parked {
		v.sit("inflight-dup-41")
		v.sit("inflight-two-or-more-waiters-41")
		if !cache {
			v.sit("inflight-dup-41-uncached")
		}
	}
	if v.rng.IntN(2) == 0 {
		// Unrelated traffic on another slot while the original is held.
		var others []*slot41
		for _, sl := range v.trackedSlots(op.c) {
			if sl != s {
				others = append(others, sl)
			}
		}
		o := pick(v.rng, others)
		p, ok := v.send(v.request(o, o.seq+1, true, "noop", nil), "SEQUENCE on another slot while held")
		if !ok {
			return nil
		}
		if seqResultOK(p.res, o, o.seq+1) {
			o.seq++
			o.present = false
		}
	}
	g.open()
	if !orig.wait(callGrace) {
		v.judgeStuck(orig, label, "released-request-never-returned", 3, time.Second)
		v.abort = true
		return nil
	}
	v.shape = append(v.shape, fmt.Sprintf("inflight%d", nd))
	var acceptAlt func(d *pending) bool
	if !cache && !parked {
		// A duplicate that arrived after completion of an uncached
		// request may get the RETRY_UNCACHED_REP form.
		acceptAlt = func(d *pending) bool { return uncachedForm(d.res, orig.res) }
	}
	v.judgeInflightDups("4.1", op.kind, orig, dups, true, acceptAlt)
	if n := g.count(); n != 1 && !v.abort {
		v.violate(fmt.Sprintf("C19 inflight-dup-reexecuted v=4.1 op=%s", op.kind),
			fmt.Sprintf("%s and its %d concurrent retransmissions reached the file system %d times; must be once", label, nd, n), nil)
	}
	return orig
}

func run41(h *hist) {
	v := &v41{hist: h, held: map[string]map[int]*lf41{}}
	if !v.setup() {
		return
	}
	steps := 14 + h.rng.IntN(14)
	for i := 0; i < steps && !v.abort; i++ {
		c := pick(h.rng, v.clients)
		if i > 0 && h.rng.IntN(10) == 0 && len(c.sessions) < 2 {
			v.createSession(c)
			continue
		}
		if len(c.sessions) == 2 && h.rng.IntN(5) == 0 {
			v.destroySession(c)
			continue
		}
		if i > 1 && h.rng.IntN(14) == 0 {
			v.reboot(c)
			continue
		}
		op := v.next(c)
		if op == nil {
			continue
		}
		v.runTracked(op, true)
	}
}

// csSessionOK tells whether a reply is a successful CREATE_SESSION.
func csSessionOK(res *nfsv4.Compound4res) (*nfsv4.CreateSession4res_NFS4_OK, bool) {
	if res.Status != nfsv4.NFS4_OK || len(res.Resarray) != 1 {
		return nil, false
	}
	r, is := res.Resarray[0].(*nfsv4.NfsResop4_OP_CREATE_SESSION)
	if !is {
		return nil, false
	}
	ok, is := r.OpcreateSession.(*nfsv4.CreateSession4res_NFS4_OK)
	return ok, is
}

// reboot plays a client restart while a request of the old incarnation is
// still being processed: the client owner registers a new incarnation
// (EXCHANGE_ID with a new verifier) and sends CREATE_SESSION for it while
// an operation of the confirmed incarnation is held inside the file
// system. The server must answer NFS4ERR_DELAY without consuming the
// CREATE_SESSION sequence ID or changing anything; a retransmission of the
// identical CREATE_SESSION is (re)executed: NFS4ERR_DELAY again while the
// old request is still running, a new session once it has finished. It is
// never answered from the replay cache of another sequence ID.
func (v *v41) reboot(c *client41) {
	// 1. An operation of the confirmed incarnation, held at the gate.
	var op *op41
	if o := pick(v.rng, c.owners); len(o.files) < 3 && v.rng.IntN(2) == 0 {
		op = v.genOpen(o)
	} else {
		op = &op41{kind: k41OpenNoent, c: c, o: c.owners[0], fname: "missing", access: nfsv4.OPEN4_SHARE_ACCESS_READ, want: nfsv4.NFS4ERR_NOENT, gate: gateOpenChild}
	}
	s := pick(v.rng, v.trackedSlots(c))
	seq := s.seq + 1
	cache := v.rng.IntN(2) == 0
	ops := v.ops(op)
	req := v.request(s, seq, cache, op.kind, ops)
	label := fmt.Sprintf("%s [sess %x slot %d seq %d cachethis=%v]", op, s.sess.id[:2], s.idx, seq, cache)
	g := &v.fs.gate
	g.arm(op.gate, op.fname)
	defer g.disarm()
	v.requests++
	orig := v.srv.start(req, label, true)
	select {
	case <-g.reached:
	case <-orig.done:
		v.desync(label+" did not reach the file system", orig.res.Status)
		return
	case <-time.After(callGrace):
		v.judgeStuck(orig, label, "held-request-never-reached-gate", 3, time.Second)
		v.abort = true
		return
	}
	v.logf("%s held at %s gate; the client owner restarts", label, op.gate)
	v.shape = append(v.shape, "reboot")

	// finish lets the held request complete and books it in the model.
	finished := false
	finish := func() bool {
		if finished {
			return true
		}
		finished = true
		g.open()
		if !orig.wait(callGrace) {
			v.judgeStuck(orig, label, "released-request-never-returned", 3, time.Second)
			v.abort = true
			return false
		}
		st := orig.res.Status
		v.logf("%s -> %s %v", label, statusName(st), resNames(orig.res))
		if st != op.want || !seqResultOK(orig.res, s, seq) {
			v.desync(label, st)
			return false
		}
		if !v.apply(op, orig.res) {
			return false
		}
		s.seq = seq
		s.present, s.op, s.ops, s.req, s.reply, s.res, s.cache, s.probed = true, op, ops, req, orig.enc, orig.res, cache, ""
		return true
	}
	defer finish()

	// 2. New incarnation of the same client owner.
	b := &client41{idx: c.idx, ownerID: c.ownerID}
	for j := range b.verifier {
		b.verifier[j] = byte(v.rng.Uint32())
	}
	p, ok := v.send(encodeArgs(compound(1, "exchange_id", &nfsv4.NfsArgop4_OP_EXCHANGE_ID{OpexchangeId: nfsv4.ExchangeId4args{
		EiaClientowner:  nfsv4.ClientOwner4{CoVerifier: b.verifier, CoOwnerid: b.ownerID},
		EiaStateProtect: &nfsv4.StateProtect4A_SP4_NONE{},
	}})), "EXCHANGE_ID (restart)")
	if !ok {
		return
	}
	er, is := p.res.Resarray[0].(*nfsv4.NfsResop4_OP_EXCHANGE_ID).OpexchangeId.(*nfsv4.ExchangeId4res_NFS4_OK)
	if !is {
		v.desync("EXCHANGE_ID (restart)", p.res.Status)
		return
	}
	b.id = er.EirResok4.EirClientid
	csSeq := er.EirResok4.EirSequenceid
	b.csSeq = csSeq - 1
	v.logf("EXCHANGE_ID c%d new verifier -> clientid=%x eir_sequenceid=%d", c.idx, b.id, csSeq)

	// 3. CREATE_SESSION while the old incarnation is busy.
	csReq := v.createSessionReq(b, csSeq)
	before := v.fingerprint()
	if v.abort {
		return
	}
	first, ok := v.send(csReq, "CREATE_SESSION (restart, old incarnation busy)")
	if !ok {
		return
	}
	after := v.fingerprint()
	if v.abort {
		return
	}
	v.logf("CREATE_SESSION c%d new incarnation seq=%d while old request is held -> %s", c.idx, csSeq, statusName(first.res.Status))
	if first.res.Status != nfsv4.NFS4ERR_DELAY {
		v.desync("CREATE_SESSION while the old incarnation is busy", first.res.Status)
		return
	}
	v.sit("create-session-delay-41")
	if before != after {
		v.violate("C19 create-session-delay-side-effect v=4.1",
			"CREATE_SESSION answered NFS4ERR_DELAY (old incarnation busy) changed observable state",
			map[string]any{"before": before, "after": after})
	}

	// judge classifies the reply to a retransmission of the delayed
	// CREATE_SESSION. adopted=true if it created the session.
	judge := func(d *pending, when string) (created *nfsv4.CreateSession4res_NFS4_OK, delayed bool) {
		v.dups++
		if r, is := csSessionOK(d.res); is {
			return r, false
		}
		if bytes.Equal(d.enc, first.enc) {
			return nil, true
		}
		v.violate(fmt.Sprintf("C19 create-session-retransmission-answered-with-other-reply v=4.1 when=%s got=%s", when, statusName(d.res.Status)),
			fmt.Sprintf("CREATE_SESSION (client ID %x, csa_sequence %d) was answered NFS4ERR_DELAY, i.e. not executed; its retransmission %s must be executed (NFS4ERR_DELAY again or a new session) but was answered %s %v, which is neither: the reply of another sequence ID was served from the replay cache", b.id, csSeq, when, statusName(d.res.Status), resNames(d.res)),
			map[string]any{"first_reply": fmt.Sprintf("%x", first.enc), "retransmission_reply": fmt.Sprintf("%x", d.enc)})
		return nil, false
	}

	// 4. Retransmission while still delayed.
	var created *nfsv4.CreateSession4res_NFS4_OK
	var createdReply []byte
	if v.rng.IntN(3) != 0 {
		before = v.fingerprint()
		d, ok := v.send(csReq, "RETRANSMIT CREATE_SESSION (old incarnation still busy)")
		if !ok || v.abort {
			return
		}
		after = v.fingerprint()
		if v.abort {
			return
		}
		v.logf("  retransmit(while-delayed) CREATE_SESSION -> %s", statusName(d.res.Status))
		v.sit("create-session-delay-retransmit-held-41")
		var delayed bool
		created, delayed = judge(d, "while-old-request-is-held")
		if created != nil {
			createdReply = d.enc
			v.violate("C19 create-session-executed-while-old-incarnation-busy v=4.1", "the retransmitted CREATE_SESSION replaced the confirmed incarnation although one of its requests is still being processed", nil)
			v.abort = true
			return
		}
		if delayed && before != after {
			v.violate("C19 create-session-delay-side-effect v=4.1",
				"retransmitted CREATE_SESSION answered NFS4ERR_DELAY changed observable state",
				map[string]any{"before": before, "after": after})
		}
	}

	// 5. The old request finishes.
	if !finish() {
		return
	}
	if v.rng.IntN(2) == 0 {
		// The sequence ID must not have been consumed by the delayed
		// request: csa_sequence+1 is still misordered.
		v.csRejected(b, csSeq+1, "+2")
		if v.abort {
			return
		}
	}

	// 6. Retransmission after the old request finished.
	for try := 0; try < 3 && created == nil; try++ {
		d, ok := v.send(csReq, "RETRANSMIT CREATE_SESSION (old incarnation idle)")
		if !ok {
			return
		}
		v.logf("  retransmit(after-old-request-finished) CREATE_SESSION -> %s", statusName(d.res.Status))
		v.sit("create-session-delay-retransmit-after-41")
		var delayed bool
		created, delayed = judge(d, "after-old-request-finished")
		if created != nil {
			createdReply = d.enc
		}
		if !delayed && created == nil {
			break
		}
	}
	if created == nil {
		v.violate("C19 create-session-never-executes-after-delay v=4.1",
			fmt.Sprintf("after the old incarnation became idle, retransmissions of the delayed CREATE_SESSION (csa_sequence %d) still do not create a session", csSeq), nil)
		// The old incarnation is still the confirmed one; carry on with it.
		return
	}

	// 7. The new incarnation replaces the old one: all of its sessions,
	// opens and locks are gone.
	for _, slots := range v.held {
		for sl, lf := range slots {
			if lf.c == c {
				delete(slots, sl)
			}
		}
	}
	c.verifier, c.id, c.csSeq, c.csReq, c.csReply = b.verifier, b.id, csSeq, csReq, createdReply
	c.retired = nil
	for _, o := range c.owners {
		o.files = map[string]*of41{}
	}
	sess := &sess41{id: created.CsrResok4.CsrSessionid}
	for i := uint32(0); i < created.CsrResok4.CsrForeChanAttrs.CaMaxrequests; i++ {
		sess.slots = append(sess.slots, &slot41{sess: sess, idx: i})
	}
	c.sessions = []*sess41{sess}
	c.probe = sess.slots[len(sess.slots)-1]
	v.logf("c%d continues as clientid=%x", c.idx, c.id)
	v.csReplay(c, "after-delay")
}

// checkSlotTable sends requests that the session and slot machinery has to
// refuse before executing anything: unknown session, slot beyond the
// table, too many operations, operations outside a session, session
// management operations that are not alone in their COMPOUND, DESTROY of a
// busy client ID, CREATE_SESSION for an unknown client ID. None of them may
// execute, change state, consume a sequence ID, or be answered from a
// reply cache. It also retransmits EXCHANGE_ID, which must be idempotent.
func (v *v41) checkSlotTable(s *slot41) {
	c := s.op.c
	op := v.next(c)
	if op == nil {
		return
	}
	ops := v.ops(op)
	if op.kind == k41SeqTwice {
		// (Its operation list starts with a SEQUENCE of its own.)
		ops = []nfsv4.NfsArgop4{&nfsv4.NfsArgop4_OP_PUTROOTFH{}}
	}
	what := pick(v.rng, []string{"bad-session", "bad-slot", "too-many-ops", "no-sequence", "create-session-not-only-op", "destroy-session-not-only-op", "exchange-id-not-only-op", "destroy-clientid-not-only-op", "destroy-clientid-busy", "create-session-stale-clientid", "exchange-id-again"})
	var req []byte
	switch what {
	case "bad-session":
		fake := &slot41{sess: &sess41{id: s.sess.id, slots: s.sess.slots}, idx: s.idx}
		fake.sess.id[3] ^= 0x5a
		req = v.request(fake, s.seq+1, true, op.kind, ops)
	case "bad-slot":
		fake := &slot41{sess: s.sess, idx: uint32(len(s.sess.slots) + v.rng.IntN(3))}
		req = v.request(fake, 1, true, op.kind, ops)
	case "too-many-ops":
		many := make([]nfsv4.NfsArgop4, 0, 20)
		for len(many) < 14 {
			many = append(many, &nfsv4.NfsArgop4_OP_PUTROOTFH{})
		}
		req = v.request(s, s.seq+1, true, "too-many", append(many, ops...))
		if 1+len(many)+len(ops) <= 16 {
			req = v.request(s, s.seq+1, true, "too-many", append(append(many, &nfsv4.NfsArgop4_OP_PUTROOTFH{}, &nfsv4.NfsArgop4_OP_PUTROOTFH{}), ops...))
		}
	case "no-sequence":
		if len(ops) == 0 {
			ops = []nfsv4.NfsArgop4{&nfsv4.NfsArgop4_OP_PUTROOTFH{}}
		}
		req = encodeArgs(compound(1, "no-sequence", ops...))
	case "create-session-not-only-op":
		a := decodeArgs(v.createSessionReq(c, c.csSeq+1))
		a.Argarray = append(a.Argarray, &nfsv4.NfsArgop4_OP_PUTROOTFH{})
		req = encodeArgs(a)
	case "destroy-session-not-only-op":
		req = encodeArgs(compound(1, "destroy", &nfsv4.NfsArgop4_OP_DESTROY_SESSION{OpdestroySession: nfsv4.DestroySession4args{DsaSessionid: s.sess.id}}, &nfsv4.NfsArgop4_OP_PUTROOTFH{}))
	case "exchange-id-not-only-op":
		req = encodeArgs(compound(1, "exchange_id", &nfsv4.NfsArgop4_OP_EXCHANGE_ID{OpexchangeId: nfsv4.ExchangeId4args{
			EiaClientowner:  nfsv4.ClientOwner4{CoVerifier: [8]byte{9, 9, 9}, CoOwnerid: c.ownerID},
			EiaStateProtect: &nfsv4.StateProtect4A_SP4_NONE{},
		}}, &nfsv4.NfsArgop4_OP_PUTROOTFH{}))
	case "destroy-clientid-not-only-op":
		req = encodeArgs(compound(1, "destroy_clientid", &nfsv4.NfsArgop4_OP_DESTROY_CLIENTID{OpdestroyClientid: nfsv4.DestroyClientid4args{DcaClientid: c.id}}, &nfsv4.NfsArgop4_OP_PUTROOTFH{}))
	case "destroy-clientid-busy":
		req = encodeArgs(compound(1, "destroy_clientid", &nfsv4.NfsArgop4_OP_DESTROY_CLIENTID{OpdestroyClientid: nfsv4.DestroyClientid4args{DcaClientid: c.id}}))
	case "create-session-stale-clientid":
		bogus := *c
		bogus.id ^= 0x5a5a
		req = v.createSessionReq(&bogus, c.csSeq+1)
	case "exchange-id-again":
		v.exchangeIDAgain(c)
		return
	}
	v.sit("slot-table-" + what + "-41")
	v.rejected(what, s, req, what+" "+fmt.Sprint(opNames(decodeArgs(req))))
	if what == "too-many-ops" {
		s.present = false
	}
}

// exchangeIDAgain retransmits the EXCHANGE_ID of a client: same client ID,
// nothing allocated.
func (v *v41) exchangeIDAgain(c *client41) {
	req := encodeArgs(compound(1, "exchange_id", &nfsv4.NfsArgop4_OP_EXCHANGE_ID{OpexchangeId: nfsv4.ExchangeId4args{
		EiaClientowner:  nfsv4.ClientOwner4{CoVerifier: c.verifier, CoOwnerid: c.ownerID},
		EiaStateProtect: &nfsv4.StateProtect4A_SP4_NONE{},
	}}))
	before := v.fingerprint()
	if v.abort {
		return
	}
	p, ok := v.send(req, "RETRANSMIT EXCHANGE_ID")
	if !ok {
		return
	}
	v.dups++
	after := v.fingerprint()
	if v.abort {
		return
	}
	v.sit("exchange-id-again-41")
	v.logf("  EXCHANGE_ID c%d again -> %s", c.idx, statusName(p.res.Status))
	v.shape = append(v.shape, "exchange-id-again")
	r, is := p.res.Resarray[0].(*nfsv4.NfsResop4_OP_EXCHANGE_ID).OpexchangeId.(*nfsv4.ExchangeId4res_NFS4_OK)
	if !is || r.EirResok4.EirClientid != c.id || before != after {
		v.violate("C19 exchange-id-retransmission-not-idempotent v=4.1",
			fmt.Sprintf("EXCHANGE_ID with the same owner and verifier returned %s (same client ID: %v) and changed state: %v", statusName(p.res.Status), is && r.EirResok4.EirClientid == c.id, before != after),
			map[string]any{"before": before, "after": after})
	}
}

// destroySession destroys the second session of a client: from outside any
// session, from the other session, or from the session itself; possibly
// while a request on one of the victim's slots is held in the file system
// with retransmissions of it parked behind it. The held request and its
// duplicates must complete as usual; afterwards the session refuses
// everything without side effects.
func (v *v41) destroySession(c *client41) {
	victim, other := c.sessions[1], c.sessions[0]
	mode := pick(v.rng, []string{"standalone", "from-other-session", "from-own-session"})
	busy := v.rng.IntN(2) == 0
	held := victim.slots[0]
	g := &v.fs.gate
	var orig *pending
	var dups []*pending
	var heldReq []byte
	heldOp := &op41{kind: k41OpenNoent, c: c, o: c.owners[0], fname: "missing", access: nfsv4.OPEN4_SHARE_ACCESS_READ, want: nfsv4.NFS4ERR_NOENT, gate: gateOpenChild}
	heldSeq := held.seq + 1
	heldLabel := fmt.Sprintf("%s [sess %x slot %d seq %d] (its session is about to be destroyed)", heldOp, victim.id[:2], held.idx, heldSeq)
	if busy {
		heldReq = v.request(held, heldSeq, true, heldOp.kind, v.ops(heldOp))
		g.arm(gateOpenChild, "missing")
		defer g.disarm()
		v.requests++
		orig = v.srv.start(heldReq, heldLabel, true)
		select {
		case <-g.reached:
		case <-orig.done:
			v.desync(heldLabel+" did not reach the file system", orig.res.Status)
			return
		case <-time.After(callGrace):
			v.judgeStuck(orig, heldLabel, "held-request-never-reached-gate", 3, time.Second)
			v.abort = true
			return
		}
		for i := 0; i < 1+v.rng.IntN(2); i++ {
			v.requests++
			dups = append(dups, v.srv.start(heldReq, "INFLIGHT-RETRANSMIT "+heldLabel, true))
		}
		parked := waitParked(dups, g, "opSequence")
		v.logf("%s held; %d retransmissions parked=%v", heldLabel, len(dups), parked)
		if parked {
			v.sit("destroy-session-busy-slot-41")
		}
	}
	op := &op41{kind: k41DestroyS, c: c, victim: victim, want: nfsv4.NFS4_OK}
	var via *slot41
	var req []byte
	cache := v.rng.IntN(2) == 0
	switch mode {
	case "standalone":
		req = encodeArgs(compound(1, "destroy_session", v.ops(op)...))
	case "from-other-session":
		via = other.slots[v.rng.IntN(len(other.slots)-1)] // not the probe slot
		req = v.request(via, via.seq+1, cache, op.kind, v.ops(op))
	case "from-own-session":
		via = victim.slots[1+v.rng.IntN(len(victim.slots)-1)]
		req = v.request(via, via.seq+1, cache, op.kind, v.ops(op))
	}
	p, ok := v.send(req, "DESTROY_SESSION "+mode)
	if !ok {
		return
	}
	v.logf("DESTROY_SESSION c%d sess %x %s busy=%v -> %s %v", c.idx, victim.id[:2], mode, busy, statusName(p.res.Status), resNames(p.res))
	v.shape = append(v.shape, "destroy-session-"+mode)
	v.sit("destroy-session-" + mode + "-41")
	if p.res.Status != nfsv4.NFS4_OK || (via != nil && !seqResultOK(p.res, via, via.seq+1)) {
		v.desync("DESTROY_SESSION "+mode, p.res.Status)
		return
	}
	c.sessions = []*sess41{other}
	if via != nil {
		via.seq++
		via.present, via.op, via.ops, via.req, via.reply, via.res, via.cache, via.probed = true, op, v.ops(op), req, p.enc, p.res, cache, ""
	}
	if busy {
		g.open()
		if !orig.wait(callGrace) {
			v.judgeStuck(orig, heldLabel, "released-request-never-returned", 3, time.Second)
			v.abort = true
			return
		}
		v.logf("%s -> %s %v", heldLabel, statusName(orig.res.Status), resNames(orig.res))
		if orig.res.Status != heldOp.want || !seqResultOK(orig.res, held, heldSeq) {
			v.violate(fmt.Sprintf("C19 request-in-flight-across-destroy-session-lost v=4.1 got=%s", statusName(orig.res.Status)),
				fmt.Sprintf("%s was being processed when its session was destroyed (%s); it returned %s %v instead of its own result", heldLabel, mode, statusName(orig.res.Status), resNames(orig.res)), nil)
		}
		v.judgeInflightDups("4.1", "OPEN_NOENT-across-DESTROY_SESSION", orig, dups, true, func(d *pending) bool {
			// A duplicate that was not parked yet finds the session gone.
			return d.res.Status == nfsv4.NFS4ERR_BADSESSION
		})
		if n := g.count(); n != 1 && !v.abort {
			v.violate("C19 inflight-dup-reexecuted v=4.1 op=OPEN_NOENT-across-DESTROY_SESSION",
				fmt.Sprintf("%s and its retransmissions reached the file system %d times; must be once", heldLabel, n), nil)
		}
		if v.abort {
			return
		}
	}
	// The destroyed session refuses new requests and retransmissions.
	probeSlot := victim.slots[len(victim.slots)-1]
	before := v.fingerprint()
	if v.abort {
		return
	}
	d, ok := v.send(v.request(probeSlot, probeSlot.seq+1, true, "noop", []nfsv4.NfsArgop4{&nfsv4.NfsArgop4_OP_PUTROOTFH{}}), "request on destroyed session")
	if !ok {
		return
	}
	v.dups++
	var d2 *pending
	if via != nil && mode == "from-own-session" {
		if d2, ok = v.send(req, "RETRANSMIT DESTROY_SESSION from its own session"); !ok {
			return
		}
		v.dups++
	}
	if mode == "standalone" {
		// Not sequenced, nothing cached: the session is gone, any
		// answer will do as long as nothing changes.
		if _, ok = v.send(req, "RETRANSMIT DESTROY_SESSION standalone"); !ok {
			return
		}
		v.dups++
	}
	after := v.fingerprint()
	if v.abort {
		return
	}
	v.sit("request-on-destroyed-session-41")
	if d.res.Status == nfsv4.NFS4_OK {
		v.violate("C19 destroyed-session-still-executes v=4.1", "a request on a destroyed session was executed", nil)
	}
	if d2 != nil {
		v.logf("  retransmit DESTROY_SESSION (own session) -> %s", statusName(d2.res.Status))
		// The reply cache went away with the session: the original
		// reply or an error are both acceptable, a re-execution is not
		// observable as anything but "no state change".
		if d2.res.Status == nfsv4.NFS4_OK && !bytes.Equal(d2.enc, p.enc) {
			v.violate("C19 replay-reply-differs v=4.1 op=DESTROY_SESSION cachethis="+fmt.Sprint(cache)+" orig=NFS4_OK dup=NFS4_OK",
				"retransmitted DESTROY_SESSION (from its own session) succeeded with a different reply", nil)
		}
		via.present = false
	}
	if before != after {
		v.violate("C19 destroyed-session-side-effect v=4.1", "requests on a destroyed session changed observable state",
			map[string]any{"before": before, "after": after})
	}
	if via != nil && mode == "from-other-session" && v.rng.IntN(2) == 0 {
		v.checkReplay(via, "now")
	}
}

// otherArguments returns the operation list of the slot's last request
// with the arguments of one operation changed (other file, name, offset,
// state ID, share access); operation types and count stay the same.
func (v *v41) otherArguments(s *slot41) ([]nfsv4.NfsArgop4, bool) {
	if !s.present || len(s.ops) == 0 {
		return nil, false
	}
	ops := decodeArgs(s.req).Argarray[1:] // private copy
	for i := len(ops) - 1; i >= 0; i-- {
		switch o := ops[i].(type) {
		case *nfsv4.NfsArgop4_OP_OPEN:
			if c, is := o.Opopen.Claim.(*nfsv4.OpenClaim4_CLAIM_NULL); is {
				if c.File == "f0" {
					c.File = "f1"
				} else {
					c.File = "f0"
				}
			} else {
				o.Opopen.ShareAccess = o.Opopen.ShareAccess%3 + 1
			}
			return ops, true
		case *nfsv4.NfsArgop4_OP_LOCK:
			o.Oplock.Offset += 64
			return ops, true
		case *nfsv4.NfsArgop4_OP_LOCKU:
			o.Oplocku.Offset += 64
			return ops, true
		case *nfsv4.NfsArgop4_OP_WRITE:
			o.Opwrite.Offset += 1
			return ops, true
		case *nfsv4.NfsArgop4_OP_READ:
			o.Opread.Offset += 1
			return ops, true
		case *nfsv4.NfsArgop4_OP_OPEN_DOWNGRADE:
			o.OpopenDowngrade.ShareAccess = o.OpopenDowngrade.ShareAccess%3 + 1
			return ops, true
		case *nfsv4.NfsArgop4_OP_CLOSE:
			o.Opclose.OpenStateid.Other[0] ^= 0x40
			return ops, true
		case *nfsv4.NfsArgop4_OP_FREE_STATEID:
			o.OpfreeStateid.FsaStateid.Other[0] ^= 0x40
			return ops, true
		case *nfsv4.NfsArgop4_OP_LOOKUP:
			o.Oplookup.Objname = "f0"
			return ops, true
		}
	}
	return nil, false
}

// differentRequestCheck: a request on the slot and sequence ID of the
// slot's last request that is not that request may be refused, but must
// not be executed nor answered with the cached reply.
func (v *v41) differentRequestCheck(s *slot41, req []byte) {
	before := v.fingerprint()
	if v.abort {
		return
	}
	p, ok := v.send(req, "SAME-SLOT-SEQUENCE-OTHER-ARGUMENTS")
	if !ok {
		return
	}
	v.dups++
	after := v.fingerprint()
	if v.abort {
		return
	}
	s.probed = "same-shape-other-arguments"
	st := p.res.Status
	v.logf("  same slot %d and sequence %d as %s, same operation types, other arguments -> %s %v", s.idx, s.seq, s.op.kind, statusName(st), resNames(p.res))
	v.shape = append(v.shape, "other-arguments:"+statusName(st))
	if bytes.Equal(p.enc, s.reply) {
		// Treated as a (false) retry of the slot's last request and
		// answered with that request's reply: allowed, false-retry
		// detection beyond the operation list shape is optional.
		v.sit("false-retry-answered-with-originals-cached-reply-41")
	} else if st == nfsv4.NFS4_OK {
		if whose, known := v.okReplies[string(p.enc)]; known {
			how := "other-slot"
			if whose == fmt.Sprintf("sess %x slot %d", s.sess.id[:4], s.idx) {
				how = "older-reply"
			}
			v.violate(fmt.Sprintf("C19 different-request-answered-with-cached-reply v=4.1 op=%s via=%s", s.op.kind, how),
				fmt.Sprintf("a request reusing slot %d and sequence ID %d with other arguments was answered with a reply given earlier on %s, which is not the slot's cached reply", s.idx, s.seq, whose), nil)
		} else {
			v.violate("C19 false-retry-accepted v=4.1", "a request reusing a slot and sequence ID with other arguments was executed", nil)
			v.abort = true
			return
		}
	}
	if before != after {
		v.violate("C19 false-retry-side-effect v=4.1", "a request reusing a slot and sequence ID with other arguments changed observable state",
			map[string]any{"before": before, "after": after})
	}
	if s.present && v.rng.IntN(3) == 0 {
		v.checkReplay(s, "after-other-arguments")
	}
}
