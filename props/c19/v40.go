package c19

import (
	"bytes"
	"fmt"
	"sort"
	"strings"
	"time"

	"github.com/buildbarn/go-xdr/pkg/protocols/nfsv4"
)

// Client-side protocol model and retransmitting wrapper for NFSv4.0.

const (
	kOpen         = "OPEN"
	kOpenNoent    = "OPEN_NOENT"
	kOpenConfirm  = "OPEN_CONFIRM"
	kClose        = "CLOSE"
	kCloseOld     = "CLOSE_OLD_STATEID" // in-order seqid, superseded state ID: fails, seqid consumed, reply cached
	kCloseBad     = "CLOSE_BAD_STATEID" // in-order seqid, future state ID: fails, seqid NOT consumed (RFC 7530 9.1.7)
	kDowngrade    = "OPEN_DOWNGRADE"
	kOpenErr      = "OPEN_ERR"           // OPEN that fails with an error that consumes the seqid (reply cached)
	kOpenPrev     = "OPEN_PREVIOUS"      // OPEN with CLAIM_PREVIOUS of a file the owner has open
	kDowngradeErr = "OPEN_DOWNGRADE_ERR" // OPEN_DOWNGRADE that asks for more access / a deny mode
	kLockNew      = "LOCK_NEW"
	kLock         = "LOCK"
	kLocku        = "LOCKU"
)

type client40 struct {
	idx      int
	longID   []byte
	verifier [8]byte
	id       uint64
	owners   []*oo40
}

// retx is the retransmission memory of one sequence holder (open-owner or
// lock-owner): the last state-changing request and the reply it got.
type retx struct {
	op      *op40
	req     []byte
	reply   []byte
	status  nfsv4.Nfsstat4
	probed  string // last probe sent on this holder since its last new request
	present bool
}

type oo40 struct {
	c         *client40
	name      []byte
	started   bool
	confirmed bool
	seq       uint32 // last sequence ID the server completed
	files     map[string]*of40
	pending   *of40
	last      retx
	// Lock-owners driven by this open-owner. A lock-owner is never used
	// through two open-owners: the programs do not support one
	// lock-owner locking the same file through two open-owners (their
	// CLOSE then fails an internal assertion); that belongs to C20.
	lockOwners []*lo40
}

type of40 struct {
	o       *oo40
	fname   string
	fh      []byte
	stateid nfsv4.Stateid4
	access  uint32
	locks   map[string]*lf40
}

type lo40 struct {
	c     *client40
	name  []byte
	known bool // the server currently has a record of this lock-owner
	seq   uint32
	files int
	last  retx
}

type lf40 struct {
	lo      *lo40
	of      *of40
	stateid nfsv4.Stateid4
	slots   map[int]bool
}

type op40 struct {
	kind    string
	o       *oo40
	of      *of40
	fname   string
	fh      []byte
	access  uint32
	create  bool
	lo      *lo40
	lf      *lf40
	slot    int
	ltype   nfsv4.NfsLockType4
	seq     uint32
	lseq    uint32
	stateid nfsv4.Stateid4
	want    nfsv4.Nfsstat4

	variant  string  // flavour of an error-provoking request
	noFH     bool    // send without PUTFH
	clientID *uint64 // client ID to put in the owner instead of the client's
	nearWrap bool    // the seqid is 0xffffffff or the first one after it
}

func (op *op40) String() string {
	s := fmt.Sprintf("%s c%d/%s", op.kind, op.o.c.idx, op.o.name)
	if op.fname != "" {
		s += " file=" + op.fname
	}
	if op.variant != "" {
		s += " variant=" + op.variant
	}
	switch op.kind {
	case kOpen, kOpenNoent, kOpenErr, kOpenPrev:
		s += fmt.Sprintf(" access=%d create=%v seq=%d", op.access, op.create, op.seq)
	case kOpenConfirm, kClose, kCloseOld, kCloseBad:
		s += fmt.Sprintf(" seq=%d sid=%s", op.seq, stateidString(op.stateid))
	case kDowngrade, kDowngradeErr:
		s += fmt.Sprintf(" to=%d seq=%d sid=%s", op.access, op.seq, stateidString(op.stateid))
	case kLockNew:
		s += fmt.Sprintf(" lo=%s slot=%d type=%d seq=%d lseq=%d sid=%s", op.lo.name, op.slot, op.ltype, op.seq, op.lseq, stateidString(op.stateid))
	case kLock, kLocku:
		s += fmt.Sprintf(" lo=%s slot=%d type=%d lseq=%d sid=%s", op.lo.name, op.slot, op.ltype, op.lseq, stateidString(op.stateid))
	}
	return s
}

// lockSequenced tells whether the request is ordered by the lock-owner's
// sequence ID rather than the open-owner's.
func (op *op40) lockSequenced() bool { return op.kind == kLock || op.kind == kLocku }

type probeID struct {
	fh []byte
	id nfsv4.Stateid4
}

// follower40 is the next in-order request of an open-owner, sent while an
// OPEN of that owner is still being processed.
type follower40 struct {
	op  *op40
	req []byte
	p   *pending
}

type v40 struct {
	*hist
	follower *follower40
	clients  []*client40
	held     map[string]map[int]*lf40
	retired  []probeID
	desyncs  int
	wrapTo   uint32 // successor of sequence ID 0xffffffff
}

var names40 = []string{"f0", "f1", "f2"}

func (v *v40) build(op *op40) []byte {
	var ops []nfsv4.NfsArgop4
	cid := op.o.c.id
	if op.clientID != nil {
		cid = *op.clientID
	}
	putfh := func() []nfsv4.NfsArgop4 {
		if op.noFH {
			return nil
		}
		return []nfsv4.NfsArgop4{opPutFH(op.fh)}
	}
	off, length := lockRange(op.slot)
	if op.variant == "len0" {
		length = 0
	}
	switch op.kind {
	case kOpen, kOpenNoent, kOpenErr, kOpenPrev:
		var how nfsv4.Openflag4 = &nfsv4.Openflag4_default{Opentype: nfsv4.OPEN4_NOCREATE}
		if op.create {
			how = &nfsv4.Openflag4_OPEN4_CREATE{How: &nfsv4.Createhow4_UNCHECKED4{}}
		}
		var claim nfsv4.OpenClaim4 = &nfsv4.OpenClaim4_CLAIM_NULL{File: op.fname}
		deny := uint32(nfsv4.OPEN4_SHARE_DENY_NONE)
		first := []nfsv4.NfsArgop4{&nfsv4.NfsArgop4_OP_PUTROOTFH{}}
		switch {
		case op.kind == kOpenPrev, op.variant == "reclaim-bad":
			claim = &nfsv4.OpenClaim4_CLAIM_PREVIOUS{DelegateType: nfsv4.OPEN_DELEGATE_NONE}
			first = putfh()
		case op.variant == "deny":
			deny = nfsv4.OPEN4_SHARE_DENY_READ
		case op.variant == "deleg-cur":
			claim = &nfsv4.OpenClaim4_CLAIM_DELEGATE_CUR{DelegateCurInfo: nfsv4.OpenClaimDelegateCur4{File: op.fname}}
		case op.variant == "deleg-prev":
			claim = &nfsv4.OpenClaim4_CLAIM_DELEGATE_PREV{FileDelegatePrev: op.fname}
		case op.variant == "guarded-exist":
			how = &nfsv4.Openflag4_OPEN4_CREATE{How: &nfsv4.Createhow4_GUARDED4{}}
		}
		ops = append(first, &nfsv4.NfsArgop4_OP_OPEN{Opopen: nfsv4.Open4args{
			Seqid:       op.seq,
			ShareAccess: op.access,
			ShareDeny:   deny,
			Owner:       nfsv4.OpenOwner4{Clientid: cid, Owner: op.o.name},
			Openhow:     how,
			Claim:       claim,
		}})
	case kOpenConfirm:
		ops = append(putfh(), &nfsv4.NfsArgop4_OP_OPEN_CONFIRM{OpopenConfirm: nfsv4.OpenConfirm4args{OpenStateid: op.stateid, Seqid: op.seq}})
	case kClose, kCloseOld, kCloseBad:
		ops = append(putfh(), &nfsv4.NfsArgop4_OP_CLOSE{Opclose: nfsv4.Close4args{Seqid: op.seq, OpenStateid: op.stateid}})
	case kDowngrade, kDowngradeErr:
		deny := uint32(nfsv4.OPEN4_SHARE_DENY_NONE)
		if op.variant == "deny" {
			deny = nfsv4.OPEN4_SHARE_DENY_WRITE
		}
		ops = append(putfh(), &nfsv4.NfsArgop4_OP_OPEN_DOWNGRADE{OpopenDowngrade: nfsv4.OpenDowngrade4args{OpenStateid: op.stateid, Seqid: op.seq, ShareAccess: op.access, ShareDeny: deny}})
	case kLockNew:
		ops = append(putfh(), &nfsv4.NfsArgop4_OP_LOCK{Oplock: nfsv4.Lock4args{
			Locktype: op.ltype, Offset: off, Length: length,
			Locker: &nfsv4.Locker4_TRUE{OpenOwner: nfsv4.OpenToLockOwner4{
				OpenSeqid: op.seq, OpenStateid: op.stateid, LockSeqid: op.lseq,
				LockOwner: nfsv4.LockOwner4{Clientid: cid, Owner: op.lo.name},
			}},
		}})
	case kLock:
		ops = append(putfh(), &nfsv4.NfsArgop4_OP_LOCK{Oplock: nfsv4.Lock4args{
			Locktype: op.ltype, Offset: off, Length: length,
			Locker: &nfsv4.Locker4_FALSE{LockOwner: nfsv4.ExistLockOwner4{LockStateid: op.stateid, LockSeqid: op.lseq}},
		}})
	case kLocku:
		ops = append(putfh(), &nfsv4.NfsArgop4_OP_LOCKU{Oplocku: nfsv4.Locku4args{Locktype: op.ltype, Seqid: op.lseq, LockStateid: op.stateid, Offset: off, Length: length}})
	default:
		panic("harness: unknown op kind " + op.kind)
	}
	return encodeArgs(compound(0, op.kind, ops...))
}

// nx is the successor of an owner sequence ID. The programs skip zero when
// the 32-bit value wraps (0xffffffff -> 1); a server that wraps to 0 is
// accepted too (see runTracked).
func (v *v40) nx(x uint32) uint32 {
	if x == 0xffffffff {
		return v.wrapTo
	}
	return x + 1
}

// seq0 picks the first sequence ID of a new owner; one in five starts just
// below the 32-bit wrap-around.
func (v *v40) seq0() uint32 {
	if v.rng.IntN(5) == 0 {
		return 0xfffffff9 + v.rng.Uint32N(7)
	}
	return 1 + v.rng.Uint32N(1<<30)
}

// replyStateid extracts the state ID (and OPEN result flags) carried by
// the last result of a reply, if it is a successful state-changing one.
func replyStateid(res *nfsv4.Compound4res) (nfsv4.Stateid4, uint32, bool) {
	for i := len(res.Resarray) - 1; i >= 0; i-- {
		switch r := res.Resarray[i].(type) {
		case *nfsv4.NfsResop4_OP_OPEN:
			if ok, is := r.Opopen.(*nfsv4.Open4res_NFS4_OK); is {
				return ok.Resok4.Stateid, ok.Resok4.Rflags, true
			}
			return nfsv4.Stateid4{}, 0, false
		case *nfsv4.NfsResop4_OP_OPEN_CONFIRM:
			if ok, is := r.OpopenConfirm.(*nfsv4.OpenConfirm4res_NFS4_OK); is {
				return ok.Resok4.OpenStateid, 0, true
			}
			return nfsv4.Stateid4{}, 0, false
		case *nfsv4.NfsResop4_OP_CLOSE:
			if ok, is := r.Opclose.(*nfsv4.Close4res_NFS4_OK); is {
				return ok.OpenStateid, 0, true
			}
			return nfsv4.Stateid4{}, 0, false
		case *nfsv4.NfsResop4_OP_OPEN_DOWNGRADE:
			if ok, is := r.OpopenDowngrade.(*nfsv4.OpenDowngrade4res_NFS4_OK); is {
				return ok.Resok4.OpenStateid, 0, true
			}
			return nfsv4.Stateid4{}, 0, false
		case *nfsv4.NfsResop4_OP_LOCK:
			if ok, is := r.Oplock.(*nfsv4.Lock4res_NFS4_OK); is {
				return ok.Resok4.LockStateid, 0, true
			}
			return nfsv4.Stateid4{}, 0, false
		case *nfsv4.NfsResop4_OP_LOCKU:
			if ok, is := r.Oplocku.(*nfsv4.Locku4res_NFS4_OK); is {
				return ok.LockStateid, 0, true
			}
			return nfsv4.Stateid4{}, 0, false
		}
	}
	return nfsv4.Stateid4{}, 0, false
}

func (v *v40) setup() bool {
	for i := 0; i < 2; i++ {
		c := &client40{idx: i, longID: []byte(fmt.Sprintf("client-%d-%d", v.caseIdx, i))}
		for j := range c.verifier {
			c.verifier[j] = byte(v.rng.Uint32())
		}
		req := encodeArgs(compound(0, "setclientid", &nfsv4.NfsArgop4_OP_SETCLIENTID{Opsetclientid: nfsv4.Setclientid4args{
			Client:        nfsv4.NfsClientId4{Verifier: c.verifier, Id: c.longID},
			Callback:      nfsv4.CbClient4{CbProgram: 1, CbLocation: nfsv4.Clientaddr4{NaRNetid: "tcp", NaRAddr: "127.0.0.1.0.1"}},
			CallbackIdent: 1,
		}}))
		p, ok := v.send(req, "SETCLIENTID")
		if !ok {
			return false
		}
		r, is := p.res.Resarray[0].(*nfsv4.NfsResop4_OP_SETCLIENTID).Opsetclientid.(*nfsv4.Setclientid4res_NFS4_OK)
		if !is {
			v.desync("SETCLIENTID", p.res.Status)
			return false
		}
		c.id = r.Resok4.Clientid
		req = encodeArgs(compound(0, "setclientid_confirm", &nfsv4.NfsArgop4_OP_SETCLIENTID_CONFIRM{OpsetclientidConfirm: nfsv4.SetclientidConfirm4args{
			Clientid: c.id, SetclientidConfirm: r.Resok4.SetclientidConfirm,
		}}))
		p, ok = v.send(req, "SETCLIENTID_CONFIRM")
		if !ok {
			return false
		}
		if p.res.Status != nfsv4.NFS4_OK {
			v.desync("SETCLIENTID_CONFIRM", p.res.Status)
			return false
		}
		nOwners := 2
		if i == 0 {
			nOwners = 2 + v.rng.IntN(2)
		}
		for j := 0; j < nOwners; j++ {
			o := &oo40{c: c, name: []byte(fmt.Sprintf("oo%d", j)), files: map[string]*of40{}}
			for k := 0; k < 2; k++ {
				o.lockOwners = append(o.lockOwners, &lo40{c: c, name: []byte(fmt.Sprintf("oo%d-lo%d", j, k))})
			}
			c.owners = append(c.owners, o)
		}
		v.clients = append(v.clients, c)
	}
	return true
}

func (v *v40) desync(what string, st nfsv4.Nfsstat4) {
	v.logf("DESYNC %s -> %s", what, statusName(st))
	v.r.Count("model_desync", 1)
	v.desyncs++
	v.abort = true
}

func (v *v40) allOwners() []*oo40 {
	var out []*oo40
	for _, c := range v.clients {
		out = append(out, c.owners...)
	}
	return out
}

// next produces a protocol-valid next request of open-owner o (or one of
// the lock-owners it can drive) together with the status the model
// expects.
func (v *v40) next(o *oo40) *op40 {
	rng := v.rng
	if !o.started {
		return v.genOpen(o, v.seq0())
	}
	if !o.confirmed {
		if o.pending == nil || rng.Float64() < 0.1 {
			// A second OPEN on an unconfirmed open-owner: the
			// server forgets the first one (RFC 7530, 16.18.5).
			return v.genOpen(o, v.nx(o.seq))
		}
		of := o.pending
		return &op40{kind: kOpenConfirm, o: o, of: of, fname: of.fname, fh: of.fh, seq: v.nx(o.seq), stateid: of.stateid, want: nfsv4.NFS4_OK}
	}

	type cand struct {
		w  int
		mk func() *op40
	}
	var cands []cand
	if len(o.files) < 3 {
		cands = append(cands, cand{4, func() *op40 { return v.genOpen(o, v.nx(o.seq)) }})
	}
	cands = append(cands, cand{1, func() *op40 {
		return &op40{kind: kOpenNoent, o: o, fname: "missing", access: nfsv4.OPEN4_SHARE_ACCESS_READ, seq: v.nx(o.seq), want: nfsv4.NFS4ERR_NOENT}
	}})
	cands = append(cands, cand{2, func() *op40 {
		// OPENs that fail with an error that consumes the seqid.
		op := &op40{kind: kOpenErr, o: o, fname: "f0", access: nfsv4.OPEN4_SHARE_ACCESS_READ, seq: v.nx(o.seq)}
		switch op.variant = pick(rng, []string{"deny", "access0", "deleg-cur", "deleg-prev", "guarded-exist", "reclaim-bad"}); op.variant {
		case "deny":
			op.want = nfsv4.NFS4ERR_SHARE_DENIED
		case "access0":
			op.access, op.want = 0, nfsv4.NFS4ERR_INVAL
		case "deleg-cur":
			op.want = nfsv4.NFS4ERR_RECLAIM_BAD
		case "deleg-prev":
			op.want = nfsv4.NFS4ERR_NOTSUPP
		case "guarded-exist":
			op.create, op.want = true, nfsv4.NFS4ERR_EXIST
		case "reclaim-bad":
			// CLAIM_PREVIOUS of a file this owner does not have open.
			for _, n := range names40 {
				if o.files[n] == nil {
					op.fname, op.fh, op.want = n, v.fs.leaf(n).handle, nfsv4.NFS4ERR_RECLAIM_BAD
					return op
				}
			}
			return nil
		}
		return op
	}})
	fnames := make([]string, 0, len(o.files))
	for n := range o.files {
		fnames = append(fnames, n)
	}
	sort.Strings(fnames)
	for _, n := range fnames {
		of := o.files[n]
		cands = append(cands, cand{2, func() *op40 {
			// Upgrade/re-open of a file this owner already has open.
			op := v.genOpen(o, v.nx(o.seq))
			op.fname, op.create = of.fname, false
			return op
		}})
		cands = append(cands, cand{3, func() *op40 {
			return &op40{kind: kClose, o: o, of: of, fname: of.fname, fh: of.fh, seq: v.nx(o.seq), stateid: of.stateid, want: nfsv4.NFS4_OK}
		}})
		cands = append(cands, cand{1, func() *op40 {
			access := pick(rng, []uint32{nfsv4.OPEN4_SHARE_ACCESS_READ, nfsv4.OPEN4_SHARE_ACCESS_WRITE, nfsv4.OPEN4_SHARE_ACCESS_BOTH})
			return &op40{kind: kOpenPrev, o: o, of: of, fname: of.fname, fh: of.fh, access: access, seq: v.nx(o.seq), want: nfsv4.NFS4_OK}
		}})
		cands = append(cands, cand{1, func() *op40 {
			op := &op40{kind: kDowngradeErr, o: o, of: of, fname: of.fname, fh: of.fh, access: nfsv4.OPEN4_SHARE_ACCESS_BOTH, seq: v.nx(o.seq), stateid: of.stateid, want: nfsv4.NFS4ERR_INVAL}
			if of.access == nfsv4.OPEN4_SHARE_ACCESS_BOTH {
				op.variant, op.access = "deny", nfsv4.OPEN4_SHARE_ACCESS_READ
			}
			return op
		}})
		if of.stateid.Seqid >= 2 {
			cands = append(cands, cand{1, func() *op40 {
				sid := of.stateid
				sid.Seqid--
				return &op40{kind: kCloseOld, o: o, of: of, fname: of.fname, fh: of.fh, seq: v.nx(o.seq), stateid: sid, want: nfsv4.NFS4ERR_OLD_STATEID}
			}})
		}
		cands = append(cands, cand{1, func() *op40 {
			sid := of.stateid
			sid.Seqid += 7
			return &op40{kind: kCloseBad, o: o, of: of, fname: of.fname, fh: of.fh, seq: v.nx(o.seq), stateid: sid, want: nfsv4.NFS4ERR_BAD_STATEID}
		}})
		if of.access == nfsv4.OPEN4_SHARE_ACCESS_BOTH {
			cands = append(cands, cand{2, func() *op40 {
				to := uint32(nfsv4.OPEN4_SHARE_ACCESS_READ)
				if rng.IntN(2) == 0 {
					to = nfsv4.OPEN4_SHARE_ACCESS_WRITE
				}
				return &op40{kind: kDowngrade, o: o, of: of, fname: of.fname, fh: of.fh, access: to, seq: v.nx(o.seq), stateid: of.stateid, want: nfsv4.NFS4_OK}
			}})
		}
		for _, lo := range o.lockOwners {
			lo := lo
			lf := of.locks[string(lo.name)]
			if lf == nil {
				cands = append(cands, cand{3, func() *op40 {
					slot, ltype, want, ok := v.pickSlot(of.fname, lo)
					if !ok {
						return nil
					}
					lseq := v.seq0()
					if lo.known {
						lseq = v.nx(lo.seq)
					}
					op := &op40{kind: kLockNew, o: o, of: of, fname: of.fname, fh: of.fh, lo: lo, slot: slot, ltype: ltype, seq: v.nx(o.seq), lseq: lseq, stateid: of.stateid, want: want}
					switch rng.IntN(12) {
					case 0:
						// Zero-length range: refused by the lock code
						// after both owners started their transaction.
						op.variant, op.want = "len0", nfsv4.NFS4ERR_INVAL
					case 1:
						// Lock-owner of another client: refused before
						// the lock-owner is looked up.
						other := o.c.id + 1
						op.variant, op.clientID, op.want = "clientid", &other, nfsv4.NFS4ERR_INVAL
					}
					return op
				}})
				continue
			}
			cands = append(cands, cand{5, func() *op40 {
				slot, ltype, want, ok := v.pickSlot(of.fname, lo)
				if !ok {
					return nil
				}
				op := &op40{kind: kLock, o: o, of: of, fname: of.fname, fh: of.fh, lo: lo, lf: lf, slot: slot, ltype: ltype, lseq: v.nx(lo.seq), stateid: lf.stateid, want: want}
				if rng.IntN(10) == 0 {
					op.variant, op.want = "len0", nfsv4.NFS4ERR_INVAL
				}
				return op
			}})
			if len(lf.slots) > 0 {
				cands = append(cands, cand{5, func() *op40 {
					slots := make([]int, 0, len(lf.slots))
					for s := range lf.slots {
						slots = append(slots, s)
					}
					sort.Ints(slots)
					op := &op40{kind: kLocku, o: o, of: of, fname: of.fname, fh: of.fh, lo: lo, lf: lf, slot: pick(rng, slots), ltype: nfsv4.WRITE_LT, lseq: v.nx(lo.seq), stateid: lf.stateid, want: nfsv4.NFS4_OK}
					if rng.IntN(8) == 0 {
						op.variant, op.want = "len0", nfsv4.NFS4ERR_INVAL
					}
					return op
				}})
			}
		}
	}
	total := 0
	for _, c := range cands {
		total += c.w
	}
	for try := 0; try < 8; try++ {
		x := rng.IntN(total)
		for _, c := range cands {
			if x < c.w {
				if op := c.mk(); op != nil {
					return op
				}
				break
			}
			x -= c.w
		}
	}
	return nil
}

func (v *v40) genOpen(o *oo40, seq uint32) *op40 {
	rng := v.rng
	names := append(append([]string{}, names40...), "n0", "n1")
	name := pick(rng, names)
	exists := v.fs.leaf(name) != nil
	create := !exists || rng.IntN(3) == 0
	access := pick(rng, []uint32{nfsv4.OPEN4_SHARE_ACCESS_READ, nfsv4.OPEN4_SHARE_ACCESS_WRITE, nfsv4.OPEN4_SHARE_ACCESS_BOTH, nfsv4.OPEN4_SHARE_ACCESS_BOTH})
	return &op40{kind: kOpen, o: o, fname: name, access: access, create: create, seq: seq, want: nfsv4.NFS4_OK}
}

// pickSlot chooses a byte range for lock-owner lo on a file: mostly a free
// one (lock granted), sometimes one held by another lock-owner (denied).
func (v *v40) pickSlot(fname string, lo *lo40) (int, nfsv4.NfsLockType4, nfsv4.Nfsstat4, bool) {
	var free, foreign []int
	for s := 0; s < 6; s++ {
		h := v.held[fname][s]
		switch {
		case h == nil:
			free = append(free, s)
		case h.lo != lo:
			foreign = append(foreign, s)
		}
	}
	if len(foreign) > 0 && (len(free) == 0 || v.rng.IntN(10) < 3) {
		return pick(v.rng, foreign), nfsv4.WRITE_LT, nfsv4.NFS4ERR_DENIED, true
	}
	if len(free) == 0 {
		return 0, 0, 0, false
	}
	lt := nfsv4.NfsLockType4(nfsv4.WRITE_LT)
	if v.rng.IntN(3) == 0 {
		lt = nfsv4.READ_LT
	}
	return pick(v.rng, free), lt, nfsv4.NFS4_OK, true
}

func (v *v40) retire(fh []byte, id nfsv4.Stateid4) {
	v.retired = append(v.retired, probeID{fh: fh, id: id})
	if len(v.retired) > 5 {
		v.retired = v.retired[len(v.retired)-5:]
	}
}

// apply updates the client model with the reply of a request that had the
// expected status.
func (v *v40) apply(op *op40, res *nfsv4.Compound4res) bool {
	o := op.o
	sid, rflags, haveSid := replyStateid(res)
	if op.want == nfsv4.NFS4_OK && !haveSid {
		v.desync(op.kind+" reply without state ID", res.Status)
		return false
	}
	switch op.kind {
	case kOpen:
		if !o.confirmed {
			// Whatever the unconfirmed owner had open is gone.
			for _, of := range o.files {
				v.retire(of.fh, of.stateid)
			}
			o.files = map[string]*of40{}
			o.pending = nil
		}
		o.started = true
		o.seq = op.seq
		needConfirm := rflags&nfsv4.OPEN4_RESULT_CONFIRM != 0
		if needConfirm == o.confirmed {
			v.desync(fmt.Sprintf("OPEN confirm flag=%v but owner confirmed=%v", needConfirm, o.confirmed), res.Status)
			return false
		}
		of := o.files[op.fname]
		if of == nil {
			l := v.fs.leaf(op.fname)
			if l == nil {
				v.desync("OPEN succeeded but the file does not exist", res.Status)
				return false
			}
			of = &of40{o: o, fname: op.fname, fh: l.handle, locks: map[string]*lf40{}}
			o.files[op.fname] = of
		} else {
			v.retire(of.fh, of.stateid)
		}
		of.stateid = sid
		of.access |= op.access
		if !o.confirmed {
			o.pending = of
		}
	case kOpenNoent, kCloseOld, kOpenErr, kDowngradeErr:
		o.seq = op.seq
	case kOpenPrev:
		o.seq = op.seq
		v.retire(op.of.fh, op.of.stateid)
		op.of.stateid = sid
		op.of.access |= op.access
	case kCloseBad:
		// NFS4ERR_BAD_STATEID does not consume the seqid: the next
		// request of this owner uses the same one again.
	case kOpenConfirm:
		o.seq = op.seq
		o.confirmed = true
		o.pending = nil
		v.retire(op.of.fh, op.of.stateid)
		op.of.stateid = sid
	case kClose:
		o.seq = op.seq
		of := op.of
		for _, lf := range of.locks {
			for s := range lf.slots {
				delete(v.held[of.fname], s)
			}
			lf.lo.files--
			if lf.lo.files == 0 {
				lf.lo.known = false
				lf.lo.last = retx{}
			}
			v.retire(of.fh, lf.stateid)
		}
		v.retire(of.fh, of.stateid)
		v.retire(of.fh, sid)
		delete(o.files, of.fname)
	case kDowngrade:
		o.seq = op.seq
		v.retire(op.of.fh, op.of.stateid)
		op.of.stateid = sid
		op.of.access = op.access
	case kLockNew:
		o.seq = op.seq
		lo := op.lo
		if op.want == nfsv4.NFS4_OK {
			lo.known = true
			lo.seq = op.lseq
			lo.files++
			lf := &lf40{lo: lo, of: op.of, stateid: sid, slots: map[int]bool{op.slot: true}}
			op.of.locks[string(lo.name)] = lf
			v.hold(op.of.fname, op.slot, lf)
		} else if lo.known && op.variant != "clientid" {
			lo.seq = op.lseq
		}
		lo.last = retx{}
	case kLock:
		op.lo.seq = op.lseq
		if op.want == nfsv4.NFS4_OK {
			v.retire(op.fh, op.lf.stateid)
			op.lf.stateid = sid
			op.lf.slots[op.slot] = true
			v.hold(op.of.fname, op.slot, op.lf)
		}
	case kLocku:
		op.lo.seq = op.lseq
		if op.want != nfsv4.NFS4_OK {
			break
		}
		v.retire(op.fh, op.lf.stateid)
		op.lf.stateid = sid
		delete(op.lf.slots, op.slot)
		delete(v.held[op.of.fname], op.slot)
	}
	return true
}

func (v *v40) hold(fname string, slot int, lf *lf40) {
	if v.held[fname] == nil {
		v.held[fname] = map[int]*lf40{}
	}
	v.held[fname][slot] = lf
}

// holderName names the owner that sequences a request.
func (v *v40) holderName(op *op40) string {
	if op.lockSequenced() {
		return fmt.Sprintf("c%d/%s", op.lo.c.idx, op.lo.name)
	}
	return fmt.Sprintf("c%d/%s", op.o.c.idx, op.o.name)
}

func (v *v40) holderOf(op *op40) *retx {
	if op.lockSequenced() {
		return &op.lo.last
	}
	return &op.o.last
}

var sequencingStatus = map[nfsv4.Nfsstat4]bool{
	nfsv4.NFS4ERR_BAD_SEQID:          true,
	nfsv4.NFS4ERR_BAD_STATEID:        true,
	nfsv4.NFS4ERR_OLD_STATEID:        true,
	nfsv4.NFS4ERR_STALE_STATEID:      true,
	nfsv4.NFS4ERR_SEQ_MISORDERED:     true,
	nfsv4.NFS4ERR_SEQ_FALSE_RETRY:    true,
	nfsv4.NFS4ERR_RETRY_UNCACHED_REP: true,
	nfsv4.NFS4ERR_BADSLOT:            true,
	nfsv4.NFS4ERR_BADSESSION:         true,
}

// runTracked sends one state-changing request, checks it against the
// model, and then lets the retransmitting wrapper play with it.
func (v *v40) runTracked(op *op40, allowDup bool) {
	req := v.build(op)
	h := v.holderOf(op)
	probedBefore := h.probed
	const maxSeq = 0xffffffff
	ownerWraps := !op.lockSequenced() && op.o.started && op.o.seq == maxSeq
	lockWraps := (op.lockSequenced() || op.kind == kLockNew) && op.lo != nil && op.lo.known && op.lo.seq == maxSeq
	v.follower = nil
	op.nearWrap = ownerWraps || lockWraps || (!op.lockSequenced() && op.seq == maxSeq) || (op.lo != nil && op.lseq == maxSeq)
	inflight := allowDup && op.kind == kOpen && v.rng.Float64() < 0.3 && !v.inflightDisabled("4.0")
	var p *pending
	if inflight {
		p = v.inflight(op, req)
		if p == nil {
			return
		}
	} else {
		var ok bool
		p, ok = v.send(req, op.String())
		if !ok {
			return
		}
	}
	st := p.res.Status
	if st == nfsv4.NFS4ERR_BAD_SEQID && op.want != nfsv4.NFS4ERR_BAD_SEQID && (ownerWraps || lockWraps) && v.wrapTo == 1 && !inflight {
		// The successor of 0xffffffff is not specified uniformly: this
		// server refused 1, so it may continue with 0. Try that once
		// and keep whichever convention it accepts.
		v.logf("%s -> %s; retrying with sequence ID 0 after the wrap", op, statusName(st))
		v.wrapTo = 0
		if ownerWraps {
			op.seq = 0
		}
		if lockWraps {
			op.lseq = 0
		}
		req = v.build(op)
		var ok bool
		if p, ok = v.send(req, op.String()); !ok {
			return
		}
		st = p.res.Status
	}
	v.logf("%s -> %s", op, statusName(st))
	v.shape = append(v.shape, op.kind+":"+statusName(st))
	if (ownerWraps || lockWraps) && st == op.want {
		v.sit("seqid-wrap-40")
		v.sit(fmt.Sprintf("seqid-wrap-40-to-%d", v.wrapTo))
	}
	if st != op.want {
		if probedBefore != "" && sequencingStatus[st] {
			v.violate(fmt.Sprintf("C19 valid-request-rejected v=4.0 op=%s got=%s after=%s", op.kind, statusName(st), probedBefore),
				fmt.Sprintf("%s is the next in-order request of its owner and must get %s, but after a %s probe on the same owner it got %s: the probe had a side effect on the owner's sequencing state", op, statusName(op.want), probedBefore, statusName(st)), nil)
			v.abort = true
			return
		}
		v.desync(op.String(), st)
		return
	}
	if !v.apply(op, p.res) {
		return
	}
	if op.kind == kCloseBad {
		// Nothing is cached for this request. Sending it again is a
		// new execution that must fail the same way, again without
		// consuming the seqid or touching anything.
		*h = retx{probed: "bad-stateid-request"}
		if allowDup && v.rng.IntN(2) == 0 {
			before := v.fingerprint()
			p2, ok := v.send(req, "RESEND "+op.String())
			if !ok || v.abort {
				return
			}
			v.dups++
			after := v.fingerprint()
			v.sit("resend-unconsumed-seqid-40")
			if !bytes.Equal(p2.enc, p.enc) || before != after {
				v.violate("C19 resend-of-unconsumed-seqid-differs v=4.0 op="+op.kind,
					fmt.Sprintf("%s failed with %s, which does not consume the seqid; sending it again returned %s / changed state=%v", op, statusName(st), statusName(p2.res.Status), before != after),
					map[string]any{"before": before, "after": after})
			}
		}
		return
	}
	*h = retx{op: op, req: req, reply: p.enc, status: st, present: true}
	v.remember(v.holderName(op), st, p.enc)
	if f := v.follower; f != nil && f.p != nil && f.p.finished() {
		// The owner's next request, which waited behind the OPEN.
		v.follower = nil
		fst := f.p.res.Status
		v.logf("%s (sent while the OPEN was held) -> %s", f.op, statusName(fst))
		v.shape = append(v.shape, "follower:"+statusName(fst))
		if fst != f.op.want {
			if sequencingStatus[fst] {
				v.violate(fmt.Sprintf("C19 valid-request-rejected v=4.0 op=%s got=%s after=waiting-behind-open", f.op.kind, statusName(fst)),
					fmt.Sprintf("%s is the owner's next in-order request; it arrived while %s was being processed and must be executed after it, but got %s", f.op, op, statusName(fst)), nil)
				v.abort = true
				return
			}
			v.desync(f.op.String(), fst)
			return
		}
		if !v.apply(f.op, f.p.res) {
			return
		}
		*h = retx{op: f.op, req: f.req, reply: f.p.enc, status: fst, present: true}
	}
	if !allowDup || inflight {
		return
	}

	x := v.rng.Float64()
	switch {
	case x < 0.30:
	case x < 0.50:
		v.checkReplay(h, "now")
	case x < 0.62:
		v.unrelated(op)
		if !v.abort {
			v.checkReplay(h, "after-unrelated")
		}
	case x < 0.76:
		v.checkMisordered(op)
	case x < 0.84:
		v.checkDiffOp(op)
	case x < 0.92:
		v.checkDiffStateid(op)
	default:
		v.checkDiffContent(op)
	}
}

// --- observation of side effects ---------------------------------------

// fingerprint renders everything observable about the server's open and
// lock state: the instrumented tree, the number of random draws (state ID,
// client ID allocation), the validity of every state ID the client ever
// got (READ probes) and the lock table of every file (LOCKT sweeps).
func (v *v40) fingerprint() string {
	var sb strings.Builder
	sb.WriteString(v.fs.counters())
	fmt.Fprintf(&sb, " rng=%d", v.gen.calls.Load())
	var ids []probeID
	for _, o := range v.allOwners() {
		fn := make([]string, 0, len(o.files))
		for n := range o.files {
			fn = append(fn, n)
		}
		sort.Strings(fn)
		for _, n := range fn {
			of := o.files[n]
			ids = append(ids, probeID{of.fh, of.stateid})
			ln := make([]string, 0, len(of.locks))
			for k := range of.locks {
				ln = append(ln, k)
			}
			sort.Strings(ln)
			for _, k := range ln {
				ids = append(ids, probeID{of.fh, of.locks[k].stateid})
			}
		}
	}
	ids = append(ids, v.retired...)
	// READ probes, several per COMPOUND (an error ends the COMPOUND;
	// the sweep then continues behind it).
	for k := 0; k < len(ids); {
		var ops []nfsv4.NfsArgop4
		for _, id := range ids[k:] {
			ops = append(ops, opPutFH(id.fh), &nfsv4.NfsArgop4_OP_READ{Opread: nfsv4.Read4args{Stateid: id.id, Offset: 0, Count: 1}})
		}
		p, ok := v.send(encodeArgs(compound(0, "probe-read", ops...)), "probe READ")
		if !ok {
			return ""
		}
		v.r.Count("probes", 1)
		rs := p.res.Resarray
		n := (len(rs) + 1) / 2
		if n == 0 {
			return "?"
		}
		for i := 0; i < n; i++ {
			st := nfsv4.NFS4_OK
			if i == n-1 {
				st = p.res.Status
			}
			what := "sid"
			if i == n-1 && len(rs)%2 == 1 {
				what = "putfh"
			}
			fmt.Fprintf(&sb, " %s[%s]=%s", what, stateidString(ids[k+i].id), statusName(st))
		}
		k += n
	}
	sb.WriteString(v.sweepLocks(nfsv4.LockOwner4{Clientid: v.clients[0].id, Owner: []byte("probe-owner")}, func(ops []nfsv4.NfsArgop4) (*nfsv4.Compound4res, int, bool) {
		p, ok := v.send(encodeArgs(compound(0, "probe-lockt", ops...)), "probe LOCKT")
		if !ok {
			return nil, 0, false
		}
		v.r.Count("probes", 1)
		return p.res, 0, true
	}))
	sb.WriteString(countsMarker)
	sb.WriteString(v.stateCounts())
	return sb.String()
}

// --- the retransmitting wrapper ------------------------------------------

func (v *v40) checkReplay(h *retx, how string) {
	if !h.present {
		return
	}
	op := h.op
	before := v.fingerprint()
	if v.abort {
		return
	}
	p, ok := v.send(h.req, "RETRANSMIT "+op.String())
	if !ok {
		return
	}
	v.dups++
	after := v.fingerprint()
	if v.abort {
		return
	}
	v.logf("  retransmit(%s) %s -> %s", how, op.kind, statusName(p.res.Status))
	v.shape = append(v.shape, "replay-"+how)
	v.sit("replay-40-" + op.kind)
	if how != "now" {
		v.sit("replay-after-unrelated-40")
	}
	if op.nearWrap {
		v.sit("replay-at-seqid-wrap-40")
	}
	if !bytes.Equal(p.enc, h.reply) {
		v.violate(fmt.Sprintf("C19 replay-reply-differs v=4.0 op=%s orig=%s dup=%s", op.kind, statusName(h.status), statusName(p.res.Status)),
			fmt.Sprintf("retransmission (%s) of %s (same owner, same seqid, identical bytes) was answered %s %v, the original got %s; XDR replies differ", how, op, statusName(p.res.Status), resNames(p.res), statusName(h.status)),
			map[string]any{"original_reply": fmt.Sprintf("%x", h.reply), "retransmission_reply": fmt.Sprintf("%x", p.enc)})
	}
	if before != after {
		v.violate(fmt.Sprintf("C19 replay-side-effect v=4.0 op=%s", op.kind),
			fmt.Sprintf("retransmission (%s) of %s changed observable state", how, op),
			map[string]any{"before": before, "after": after})
	}
}

// rejected checks a probe that the server must refuse: an error status,
// not the cached reply of the holder's last request, no side effects.
func (v *v40) rejected(what string, h *retx, alt *op40, cacheSurvives bool, detail string) {
	req := v.build(alt)
	before := v.fingerprint()
	if v.abort {
		return
	}
	p, ok := v.send(req, what+" "+alt.String())
	if !ok {
		return
	}
	v.dups++
	after := v.fingerprint()
	if v.abort {
		return
	}
	h.probed = what
	st := p.res.Status
	v.logf("  %s: %s -> %s", what, alt, statusName(st))
	v.shape = append(v.shape, what+":"+statusName(st))
	if st == nfsv4.NFS4_OK {
		v.violate(fmt.Sprintf("C19 %s-accepted v=4.0 op=%s", what, alt.kind),
			fmt.Sprintf("%s: %s was executed (NFS4_OK) instead of being rejected", detail, alt), nil)
		v.abort = true // the model no longer matches the server
		return
	}
	if h.present && bytes.Equal(p.enc, h.reply) {
		v.violate(fmt.Sprintf("C19 %s-got-cached-reply v=4.0 op=%s cached=%s", what, alt.kind, h.op.kind),
			fmt.Sprintf("%s: %s was answered with the cached reply of %s", detail, alt, h.op), nil)
	}
	// A request whose open-owner seqid is in order legitimately starts a
	// new open-owner transaction (dropping the previous cached reply and
	// a closed state ID) even if it is then refused by the lock-owner's
	// sequencing: the table counts are not compared in that case.
	if !sameState(before, after, cacheSurvives) {
		v.violate(fmt.Sprintf("C19 %s-side-effect v=4.0 op=%s", what, alt.kind),
			fmt.Sprintf("%s: %s was rejected with %s but changed observable state", detail, alt, statusName(st)),
			map[string]any{"before": before, "after": after})
	}
	// The cache of the holder must have survived the probe.
	if !cacheSurvives {
		// The owner's transaction started: its previous cached reply is
		// legitimately gone.
		*h = retx{probed: what}
		return
	}
	if h.present && v.rng.IntN(3) == 0 {
		v.checkReplay(h, "after-"+what)
	}
}

func (v *v40) checkMisordered(last *op40) {
	o := last.o
	delta := "+2"
	bump := func(cur uint32) uint32 {
		if cur >= 0xfffffffd {
			// Stay clear of both wrap-around conventions.
			return cur + 5
		}
		return cur + 2
	}
	if v.rng.IntN(2) == 0 {
		delta = "-1"
		bump = func(cur uint32) uint32 { return cur - 1 }
	}
	if !o.confirmed {
		// Unconfirmed open-owner: OPEN_CONFIRM is sequenced, anything
		// else but OPEN must be refused whatever its seqid.
		of := o.pending
		if of == nil || !o.last.present {
			return
		}
		var alt *op40
		if v.rng.IntN(2) == 0 {
			alt = &op40{kind: kOpenConfirm, o: o, of: of, fname: of.fname, fh: of.fh, seq: bump(o.seq), stateid: of.stateid}
		} else {
			delta = "in-order"
			alt = &op40{kind: pick(v.rng, []string{kClose, kDowngrade}), o: o, of: of, fname: of.fname, fh: of.fh, access: nfsv4.OPEN4_SHARE_ACCESS_READ, seq: v.nx(o.seq), stateid: of.stateid}
		}
		v.sit("misordered-unconfirmed-owner-40")
		v.rejected("misordered", &o.last, alt, true, "request on an unconfirmed open-owner (seqid "+delta+")")
		return
	}
	op := v.next(o)
	if op == nil || op.kind == kOpenNoent {
		return
	}
	alt := *op
	cacheSurvives := true
	switch {
	case op.lockSequenced():
		alt.lseq = bump(op.lo.seq)
	case op.kind == kLockNew && op.lo.known && op.variant == "" && v.rng.IntN(2) == 0:
		// In-order open-owner seqid, misordered lock-owner seqid: the
		// open-owner legitimately starts a new transaction (and may
		// drop its cached reply), the lock-owner must refuse.
		alt.lseq = bump(op.lo.seq)
		delta += "(lock-seqid)"
		cacheSurvives = false
	default:
		alt.seq = bump(o.seq)
	}
	v.sit("misordered-40" + delta[:2])
	// The holder whose cache must not be returned is the one that
	// sequences the probe.
	v.rejected("misordered", v.holderOf(&alt), &alt, cacheSurvives, "seqid "+delta+" relative to the owner's last request")
}

func (v *v40) checkDiffOp(last *op40) {
	h := v.holderOf(last)
	if !h.present {
		return
	}
	var alt *op40
	o := last.o
	switch last.kind {
	case kOpen, kOpenNoent, kOpenErr, kOpenPrev:
		for _, n := range sortedKeys(o.files) {
			of := o.files[n]
			alt = &op40{kind: kClose, o: o, of: of, fname: of.fname, fh: of.fh, seq: o.seq, stateid: of.stateid}
			break
		}
	case kLock:
		alt = &op40{kind: kLocku, o: o, of: last.of, fname: last.fname, fh: last.fh, lo: last.lo, lf: last.lf, slot: last.slot, ltype: nfsv4.WRITE_LT, lseq: last.lo.seq, stateid: last.lf.stateid}
	case kLocku:
		alt = &op40{kind: kLock, o: o, of: last.of, fname: last.fname, fh: last.fh, lo: last.lo, lf: last.lf, slot: last.slot, ltype: nfsv4.WRITE_LT, lseq: last.lo.seq, stateid: last.lf.stateid}
	default:
		alt = &op40{kind: kOpen, o: o, fname: "f0", access: nfsv4.OPEN4_SHARE_ACCESS_READ, seq: o.seq}
	}
	if alt == nil {
		return
	}
	v.sit("diff-optype-40")
	v.rejected("same-seqid-other-op", h, alt, true, "same seqid as the owner's last request ("+last.kind+") but a different operation")
}

func (v *v40) checkDiffStateid(last *op40) {
	h := v.holderOf(last)
	if !h.present || h.status != nfsv4.NFS4_OK {
		return
	}
	switch last.kind {
	case kOpenConfirm, kClose, kDowngrade, kLock, kLocku:
	default:
		return
	}
	alt := *last
	alt.stateid.Seqid += 3
	v.sit("diff-stateid-40")
	v.rejected("same-seqid-other-stateid", h, &alt, true, "same seqid and operation as the owner's last request but a different state ID")
}

// xdrOpName is the protocol operation behind a request kind.
func xdrOpName(kind string) string {
	switch kind {
	case kOpen, kOpenNoent, kOpenErr, kOpenPrev:
		return "OPEN"
	case kLockNew, kLock:
		return "LOCK"
	case kLocku:
		return "LOCKU"
	case kDowngrade, kDowngradeErr:
		return "OPEN_DOWNGRADE"
	case kClose, kCloseOld, kCloseBad:
		return "CLOSE"
	}
	return kind
}

// differentRequestCheck judges the reply to a request that reuses the
// sequence ID of the holder's last (successful, cached) request but is not
// that request: it may be refused (any error) and must leave everything
// unchanged; it must not be executed, and it must not be answered with the
// cached reply of the other request.
func (v *v40) differentRequestCheck(h *retx, alt *op40, via, detail string) {
	req := v.build(alt)
	if bytes.Equal(req, h.req) {
		return
	}
	before := v.fingerprint()
	if v.abort {
		return
	}
	p, ok := v.send(req, "SAME-SEQID-OTHER-CONTENT "+alt.String())
	if !ok {
		return
	}
	v.dups++
	after := v.fingerprint()
	if v.abort {
		return
	}
	h.probed = "same-seqid-other-content"
	st := p.res.Status
	v.logf("  same-seqid-other-content (%s): %s -> %s", via, alt, statusName(st))
	v.shape = append(v.shape, "diff-content:"+statusName(st))
	v.sit("diff-content-40")
	v.sit("diff-content-40-" + xdrOpName(alt.kind) + "-" + via)
	switch {
	case bytes.Equal(p.enc, h.reply):
		// Treated as a (false) retransmission of the owner's last
		// request and answered with that request's reply: allowed, the
		// server only has to compare operation type and state ID.
		v.sit("false-retry-answered-with-originals-cached-reply-40")
	case st == nfsv4.NFS4_OK:
		if whose, known := v.okReplies[string(p.enc)]; known {
			how := "other-owner"
			if whose == v.holderName(alt) {
				how = "older-reply"
			}
			v.violate(fmt.Sprintf("C19 different-request-answered-with-cached-reply v=4.0 op=%s via=%s", xdrOpName(alt.kind), how),
				fmt.Sprintf("%s: %s was answered with a reply that was given earlier to %s and is not the cached reply of the owner's last request", detail, alt, whose), nil)
			break
		}
		v.violate(fmt.Sprintf("C19 same-seqid-other-content-accepted v=4.0 op=%s via=%s", xdrOpName(alt.kind), via),
			fmt.Sprintf("%s: %s was executed", detail, alt), nil)
		v.abort = true
		return
	}
	if before != after {
		v.violate(fmt.Sprintf("C19 same-seqid-other-content-side-effect v=4.0 op=%s via=%s", xdrOpName(alt.kind), via),
			fmt.Sprintf("%s: %s changed observable state", detail, alt), map[string]any{"before": before, "after": after})
	}
	if h.present && v.rng.IntN(3) == 0 {
		v.checkReplay(h, "after-same-seqid-other-content")
	}
}

// checkDiffContent reuses the seqid (and, where there is one, the state
// ID) of the owner's last successful request for a request of the same
// operation type whose other arguments differ: another file, byte range,
// lock-owner or share access.
func (v *v40) checkDiffContent(last *op40) {
	h := v.holderOf(last)
	if !h.present || h.status != nfsv4.NFS4_OK {
		return
	}
	alt := *last
	via := "open-owner-seqid"
	switch last.kind {
	case kOpen:
		for _, n := range names40 {
			if n != last.fname {
				alt.fname, alt.create = n, false
			}
		}
	case kOpenPrev, kDowngrade:
		// Same file and state ID, other share access.
		alt.access = last.access%3 + 1
	case kLockNew:
		alt.slot = (last.slot + 1) % 6
		if v.rng.IntN(2) == 0 {
			for _, lo := range last.o.lockOwners {
				if lo != last.lo {
					alt.lo, alt.lseq = lo, v.seq0()
				}
			}
		}
	case kLock, kLocku:
		via = "lock-owner-seqid"
		alt.slot = (last.slot + 1) % 6
	default:
		return
	}
	v.differentRequestCheck(h, &alt, via, "same seqid and operation type as the owner's last request")
}

func sortedKeys[T any](m map[string]T) []string {
	out := make([]string, 0, len(m))
	for k := range m {
		out = append(out, k)
	}
	sort.Strings(out)
	return out
}

// unrelated produces traffic that does not involve the sequence holder of
// op: requests of other owners, lease renewal, I/O, passing time.
func (v *v40) unrelated(op *op40) {
	n := 1 + v.rng.IntN(3)
	for i := 0; i < n && !v.abort; i++ {
		switch v.rng.IntN(4) {
		case 0:
			v.clk.Advance(time.Second, nil)
			v.logf("  (clock +1s)")
		case 1:
			c := pick(v.rng, v.clients)
			if _, ok := v.send(encodeArgs(compound(0, "renew", &nfsv4.NfsArgop4_OP_RENEW{Oprenew: nfsv4.Renew4args{Clientid: c.id}})), "RENEW"); !ok {
				return
			}
			v.logf("  (RENEW c%d)", c.idx)
		case 2:
			var cands []*oo40
			for _, o := range v.allOwners() {
				if o == op.o {
					continue
				}
				if op.lockSequenced() && o.c == op.o.c {
					// Another open-owner of the same client could
					// drive the same lock-owner.
					continue
				}
				cands = append(cands, o)
			}
			if len(cands) == 0 {
				continue
			}
			o := pick(v.rng, cands)
			if other := v.next(o); other != nil {
				if !op.lockSequenced() || other.lo == nil || other.lo != op.lo {
					v.logf("  (unrelated request follows)")
					v.runTracked(other, false)
				}
			}
		case 3:
			v.io(op.o)
		}
	}
}

// io sends a WRITE or READ with an open state ID of an owner other than
// avoid.
func (v *v40) io(avoid *oo40) {
	for _, o := range v.allOwners() {
		if o == avoid || !o.confirmed {
			continue
		}
		for _, n := range sortedKeys(o.files) {
			of := o.files[n]
			var arg nfsv4.NfsArgop4
			if of.access&nfsv4.OPEN4_SHARE_ACCESS_WRITE != 0 {
				arg = &nfsv4.NfsArgop4_OP_WRITE{Opwrite: nfsv4.Write4args{Stateid: of.stateid, Offset: 3, Stable: nfsv4.FILE_SYNC4, Data: []byte("abc")}}
			} else {
				arg = &nfsv4.NfsArgop4_OP_READ{Opread: nfsv4.Read4args{Stateid: of.stateid, Offset: 0, Count: 4}}
			}
			v.send(encodeArgs(compound(0, "io", opPutFH(of.fh), arg)), "IO")
			v.logf("  (I/O by c%d/%s on %s)", o.c.idx, o.name, of.fname)
			return
		}
	}
}

// inflight sends an OPEN that is held inside VirtualOpenChild and
// retransmits it while it is being processed.
func (v *v40) inflight(op *op40, req []byte) *pending {
	g := &v.fs.gate
	g.arm(gateOpenChild, op.fname)
	defer g.disarm()
	v.requests++
	orig := v.srv.start(req, op.String(), true)
	select {
	case <-g.reached:
	case <-orig.done:
		// Did not reach the file system (the model will judge the status).
		return orig
	case <-time.After(callGrace):
		v.judgeStuck(orig, op.String(), "held-request-never-reached-gate", 3, time.Second)
		v.abort = true
		return nil
	}
	// 2-4 requests of the same open-owner arrive while the OPEN is being
	// processed: identical retransmissions and, for a confirmed owner,
	// possibly its next in-order request.
	nd := 2 + v.rng.IntN(3)
	v.follower = nil
	if op.o.confirmed && v.rng.IntN(2) == 0 {
		nd--
		fop := &op40{kind: kOpenNoent, o: op.o, fname: "missing", access: nfsv4.OPEN4_SHARE_ACCESS_READ, seq: v.nx(op.seq), want: nfsv4.NFS4ERR_NOENT}
		// Two times out of three, if the owner has another file open, the
		// next request is a CLOSE of that file instead: it finds the owner
		// through its state ID (not through the owner name as OPEN does)
		// and has to wait for the OPEN there.
		for _, n := range sortedKeys(op.o.files) {
			if of := op.o.files[n]; n != op.fname && v.rng.IntN(3) != 0 {
				fop = &op40{kind: kClose, o: op.o, of: of, fname: of.fname, fh: of.fh, seq: v.nx(op.seq), stateid: of.stateid, want: nfsv4.NFS4_OK}
				break
			}
		}
		v.follower = &follower40{op: fop, req: v.build(fop)}
	}
	dups := make([]*pending, nd)
	for i := range dups {
		v.requests++
		dups[i] = v.srv.start(req, "INFLIGHT-RETRANSMIT "+op.String(), true)
	}
	waiting := dups
	if v.follower != nil {
		v.requests++
		v.follower.p = v.srv.start(v.follower.req, "NEXT-REQUEST-BEHIND "+v.follower.op.String(), true)
		waiting = append(append([]*pending{}, dups...), v.follower.p)
	}
	parked := waitParked(waiting, g, "waitForCurrentTransactionCompletion")
	v.logf("%s held at gate; %d concurrent retransmissions, next in-order request behind them: %v (parked=%v)", op, nd, v.follower != nil, parked)
	if parked {
		v.sit("inflight-dup-40")
		if len(waiting) >= 2 {
			v.sit("inflight-two-or-more-waiters-40")
		}
		if v.follower != nil {
			v.sit("inflight-next-request-behind-open-40")
			if v.follower.op.kind == kClose {
				v.sit("inflight-next-request-by-stateid-behind-open-40")
			}
		}
	}
	if v.rng.IntN(2) == 0 {
		c := pick(v.rng, v.clients)
		if _, ok := v.send(encodeArgs(compound(0, "renew", &nfsv4.NfsArgop4_OP_RENEW{Oprenew: nfsv4.Renew4args{Clientid: c.id}})), "RENEW while held"); !ok {
			return nil
		}
	}
	g.open()
	if !orig.wait(callGrace) {
		v.judgeStuck(orig, op.String(), "released-request-never-returned", 3, time.Second)
		v.abort = true
		return nil
	}
	v.shape = append(v.shape, fmt.Sprintf("inflight%d/%v", nd, v.follower != nil))
	var acceptAlt func(d *pending) bool
	if v.follower != nil {
		// A retransmission that is served after the owner's next request
		// has executed is an old request: it is refused.
		acceptAlt = func(d *pending) bool { return d.res.Status != nfsv4.NFS4_OK }
	}
	v.judgeInflightDups("4.0", op.kind, orig, dups, true, acceptAlt)
	if f := v.follower; f != nil && !v.abort && !f.p.wait(50*time.Millisecond) {
		rounds, interval := 3, time.Second
		if hangFast["4.0"] {
			rounds, interval = 3, 30*time.Millisecond
		}
		if hv := v.judgeStuck(f.p, f.p.label, "request-behind-open-transaction-never-returns", rounds, interval); hv.kind != "returned" {
			if hv.kind == "hang" {
				hangFast["4.0"] = true
				hangCount["4.0"]++
				v.r.Count("hung_duplicates", 1)
				if hangCount["4.0"] >= maxHangs {
					for name := range floors {
						if strings.HasPrefix(name, "inflight-") && strings.HasSuffix(name, "-40") {
							v.r.Floor(name, 0)
						}
					}
				}
			}
			v.follower = nil
			v.abort = true // the owner's sequence is no longer known
		}
	}
	if n := g.count(); n != 1 && !v.abort {
		v.violate(fmt.Sprintf("C19 inflight-dup-reexecuted v=4.0 op=%s", op.kind),
			fmt.Sprintf("%s and its %d concurrent retransmissions reached the file system %d times; must be once", op, nd, n), nil)
	}
	return orig
}

// waitParked polls until every duplicate is either finished or blocked on
// a channel inside the named /repo function. It returns true if all of
// them were seen parked.
func waitParked(dups []*pending, g *gate, fragment string) bool {
	for i := 0; i < 400; i++ {
		for _, d := range dups {
			if d.finished() {
				return false
			}
		}
		if parkedInRepo(dups, fragment) {
			return true
		}
		if g.count() > 1 {
			return false
		}
		time.Sleep(500 * time.Microsecond)
	}
	return false
}

// hangFast is set once an in-flight duplicate hang has been established
// with the long schedule; later occurrences of the same situation use a
// short one so that a present defect does not make the check slow.
var hangFast = map[string]bool{}

// hangCount counts established in-flight duplicate hangs per protocol
// version. Every hung duplicate is a goroutine that stays blocked for the
// rest of the process; after maxHangs of them the wrapper stops sending
// in-flight duplicates for that version (the defect is established, more
// witnesses add nothing and only make goroutine dumps slow) and the floors
// of the in-flight situations of that version are waived.
var hangCount = map[string]int{}

const maxHangs = 4

func (h *hist) inflightDisabled(ver string) bool { return hangCount[ver] >= maxHangs }

// judgeInflightDups: the original has returned; every duplicate must now
// return too, with the original's reply. acceptAlt (may be nil) tells
// whether a differing reply is one the statement also allows (uncached
// NFSv4.1 reply for a duplicate that arrived after completion).
func (h *hist) judgeInflightDups(ver, kind string, orig *pending, dups []*pending, mustEqual bool, acceptAlt func(d *pending) bool) {
	for i, d := range dups {
		if !d.wait(50 * time.Millisecond) {
			rounds, interval := 3, time.Second
			if hangFast[ver] {
				rounds, interval = 3, 30*time.Millisecond
			}
			hv := h.judgeStuck(d, d.label, "inflight-duplicate-never-returns", rounds, interval)
			if hv.kind == "hang" {
				hangFast[ver] = true
				h.r.Count("hung_duplicates", 1)
				hangCount[ver]++
				if hangCount[ver] == maxHangs {
					h.r.Count("inflight_duplicates_disabled_after_hangs_v"+ver, 1)
					for name := range floors {
						if strings.HasPrefix(name, "inflight-") && strings.Contains(name+"-", "-"+strings.ReplaceAll(ver, ".", "")+"-") {
							h.r.Floor(name, 0)
						}
					}
				}
				continue
			}
			if hv.kind != "returned" {
				h.abort = true
				return
			}
		}
		if d.err != nil {
			h.violate("C19 transport-error v="+ver, fmt.Sprintf("in-flight retransmission returned error %v", d.err), nil)
			continue
		}
		h.dups++
		if bytes.Equal(d.enc, orig.enc) {
			continue
		}
		if acceptAlt != nil && acceptAlt(d) {
			continue
		}
		h.violate(fmt.Sprintf("C19 inflight-dup-reply-differs v=%s op=%s orig=%s dup=%s", ver, kind, statusName(orig.res.Status), statusName(d.res.Status)),
			fmt.Sprintf("retransmission #%d sent while the original was being processed returned %s %v; the original returned %s %v", i, statusName(d.res.Status), resNames(d.res), statusName(orig.res.Status), resNames(orig.res)),
			map[string]any{"original_reply": fmt.Sprintf("%x", orig.enc), "retransmission_reply": fmt.Sprintf("%x", d.enc)})
	}
}

func run40(h *hist) {
	v := &v40{hist: h, held: map[string]map[int]*lf40{}, wrapTo: 1}
	if !v.setup() {
		return
	}
	steps := 14 + h.rng.IntN(14)
	for i := 0; i < steps && !v.abort; i++ {
		if i > 1 && h.rng.IntN(16) == 0 {
			v.reboot(pick(h.rng, v.clients))
			continue
		}
		if i > 2 && h.rng.IntN(5) == 0 {
			// Prefer an owner that holds lock state.
			o := pick(h.rng, v.allOwners())
			for _, cand := range v.allOwners() {
				for _, n := range sortedKeys(cand.files) {
					if len(cand.files[n].locks) > 0 && len(cand.files) > 1 && h.rng.IntN(2) == 0 {
						o = cand
					}
				}
			}
			v.checkRefused(o)
			continue
		}
		o := pick(h.rng, v.allOwners())
		op := v.next(o)
		if op == nil {
			continue
		}
		v.runTracked(op, true)
	}
}

// reboot plays a client restart (SETCLIENTID with a new verifier followed
// by SETCLIENTID_CONFIRM) while an OPEN of the confirmed client record is
// still being processed. SETCLIENTID_CONFIRM must answer NFS4ERR_DELAY
// without touching any state, behave the same when it is sent again, and
// be executed once the old request has finished.
func (v *v40) reboot(c *client40) {
	o := pick(v.rng, c.owners)
	var op *op40
	switch {
	case !o.started:
		op = v.genOpen(o, v.seq0())
	case !o.confirmed || (len(o.files) < 3 && v.rng.IntN(2) == 0):
		op = v.genOpen(o, v.nx(o.seq))
	default:
		op = &op40{kind: kOpenNoent, o: o, fname: "missing", access: nfsv4.OPEN4_SHARE_ACCESS_READ, seq: v.nx(o.seq), want: nfsv4.NFS4ERR_NOENT}
	}
	req := v.build(op)
	g := &v.fs.gate
	g.arm(gateOpenChild, op.fname)
	defer g.disarm()
	v.requests++
	orig := v.srv.start(req, op.String(), true)
	select {
	case <-g.reached:
	case <-orig.done:
		v.desync(op.String()+" did not reach the file system", orig.res.Status)
		return
	case <-time.After(callGrace):
		v.judgeStuck(orig, op.String(), "held-request-never-reached-gate", 3, time.Second)
		v.abort = true
		return
	}
	v.logf("%s held at gate; client c%d restarts", op, c.idx)
	v.shape = append(v.shape, "reboot")
	finished := false
	finish := func() bool {
		if finished {
			return true
		}
		finished = true
		g.open()
		if !orig.wait(callGrace) {
			v.judgeStuck(orig, op.String(), "released-request-never-returned", 3, time.Second)
			v.abort = true
			return false
		}
		st := orig.res.Status
		v.logf("%s -> %s", op, statusName(st))
		if st != op.want {
			v.desync(op.String(), st)
			return false
		}
		if !v.apply(op, orig.res) {
			return false
		}
		o.last = retx{op: op, req: req, reply: orig.enc, status: st, present: true}
		return true
	}
	defer finish()

	var verifier [8]byte
	for j := range verifier {
		verifier[j] = byte(v.rng.Uint32())
	}
	p, ok := v.send(encodeArgs(compound(0, "setclientid", &nfsv4.NfsArgop4_OP_SETCLIENTID{Opsetclientid: nfsv4.Setclientid4args{
		Client:        nfsv4.NfsClientId4{Verifier: verifier, Id: c.longID},
		Callback:      nfsv4.CbClient4{CbProgram: 1, CbLocation: nfsv4.Clientaddr4{NaRNetid: "tcp", NaRAddr: "127.0.0.1.0.1"}},
		CallbackIdent: 1,
	}})), "SETCLIENTID (restart)")
	if !ok {
		return
	}
	r, is := p.res.Resarray[0].(*nfsv4.NfsResop4_OP_SETCLIENTID).Opsetclientid.(*nfsv4.Setclientid4res_NFS4_OK)
	if !is {
		v.desync("SETCLIENTID (restart)", p.res.Status)
		return
	}
	newID := r.Resok4.Clientid
	confirm := encodeArgs(compound(0, "setclientid_confirm", &nfsv4.NfsArgop4_OP_SETCLIENTID_CONFIRM{OpsetclientidConfirm: nfsv4.SetclientidConfirm4args{
		Clientid: newID, SetclientidConfirm: r.Resok4.SetclientidConfirm,
	}}))

	before := v.fingerprint()
	if v.abort {
		return
	}
	if v.rng.IntN(2) == 0 {
		// An OPEN under the not yet confirmed client ID is refused
		// without creating an open-owner.
		other := c.owners[len(c.owners)-1]
		if other == o {
			other = c.owners[0]
		}
		if other != o {
			early := &op40{kind: kOpen, o: other, fname: "f1", access: nfsv4.OPEN4_SHARE_ACCESS_READ, seq: v.seq0(), clientID: &newID}
			pe, ok := v.send(v.build(early), "OPEN with unconfirmed client ID")
			if !ok {
				return
			}
			v.dups++
			mid := v.fingerprint()
			if v.abort {
				return
			}
			v.sit("open-with-unconfirmed-clientid-40")
			if pe.res.Status == nfsv4.NFS4_OK || mid != before {
				v.violate("C19 refused-request-side-effect v=4.0 what=unconfirmed-clientid op=OPEN status="+statusName(pe.res.Status),
					"OPEN under a client ID that was not confirmed yet was executed or changed state", map[string]any{"before": before, "after": mid})
			}
		}
	}
	first, ok := v.send(confirm, "SETCLIENTID_CONFIRM (restart, old record busy)")
	if !ok {
		return
	}
	after := v.fingerprint()
	if v.abort {
		return
	}
	v.logf("SETCLIENTID_CONFIRM c%d new verifier while OPEN is held -> %s", c.idx, statusName(first.res.Status))
	if first.res.Status != nfsv4.NFS4ERR_DELAY {
		v.desync("SETCLIENTID_CONFIRM while the old record is busy", first.res.Status)
		return
	}
	v.sit("setclientid-confirm-delay-40")
	if before != after {
		v.violate("C19 setclientid-confirm-delay-side-effect v=4.0",
			"SETCLIENTID_CONFIRM answered NFS4ERR_DELAY (old client record busy) changed observable state",
			map[string]any{"before": before, "after": after})
	}
	if v.rng.IntN(3) != 0 {
		d, ok := v.send(confirm, "RETRANSMIT SETCLIENTID_CONFIRM (old record still busy)")
		if !ok {
			return
		}
		v.dups++
		again := v.fingerprint()
		if v.abort {
			return
		}
		v.logf("  retransmit(while-delayed) SETCLIENTID_CONFIRM -> %s", statusName(d.res.Status))
		if !bytes.Equal(d.enc, first.enc) || again != after {
			v.violate(fmt.Sprintf("C19 setclientid-confirm-delay-retransmission-differs v=4.0 got=%s", statusName(d.res.Status)),
				fmt.Sprintf("retransmitted SETCLIENTID_CONFIRM while the old record is still busy: reply %s, state changed=%v", statusName(d.res.Status), again != after),
				map[string]any{"before": after, "after": again})
			if d.res.Status == nfsv4.NFS4_OK {
				v.abort = true
				return
			}
		}
	}
	if !finish() {
		return
	}
	done := false
	for try := 0; try < 3 && !done; try++ {
		d, ok := v.send(confirm, "RETRANSMIT SETCLIENTID_CONFIRM (old record idle)")
		if !ok {
			return
		}
		v.dups++
		v.logf("  retransmit(after-old-request-finished) SETCLIENTID_CONFIRM -> %s", statusName(d.res.Status))
		v.sit("setclientid-confirm-delay-retransmit-after-40")
		switch {
		case d.res.Status == nfsv4.NFS4_OK:
			done = true
		case bytes.Equal(d.enc, first.enc):
		default:
			try = 3
		}
	}
	if !done {
		v.violate("C19 setclientid-confirm-never-executes-after-delay v=4.0",
			"after the old client record became idle, the delayed SETCLIENTID_CONFIRM is still not executed", nil)
		return
	}
	// The new record replaces the old one: every open-owner, open and
	// lock of the client is gone.
	for _, slots := range v.held {
		for sl, lf := range slots {
			if lf.lo.c == c {
				delete(slots, sl)
			}
		}
	}
	c.id, c.verifier = newID, verifier
	for j, old := range c.owners {
		for _, of := range old.files {
			v.retire(of.fh, of.stateid)
		}
		n := &oo40{c: c, name: old.name, files: map[string]*of40{}}
		for k := 0; k < 2; k++ {
			n.lockOwners = append(n.lockOwners, &lo40{c: c, name: old.lockOwners[k].name})
		}
		c.owners[j] = n
	}
	v.logf("c%d continues as clientid=%x", c.idx, c.id)
	// Confirming again is idempotent.
	before = v.fingerprint()
	if v.abort {
		return
	}
	d, ok := v.send(confirm, "RETRANSMIT SETCLIENTID_CONFIRM (executed)")
	if !ok {
		return
	}
	v.dups++
	after = v.fingerprint()
	if v.abort {
		return
	}
	if d.res.Status != nfsv4.NFS4_OK || before != after {
		v.violate(fmt.Sprintf("C19 setclientid-confirm-replay-differs v=4.0 got=%s", statusName(d.res.Status)),
			"retransmission of an executed SETCLIENTID_CONFIRM was not answered NFS4_OK without side effects",
			map[string]any{"before": before, "after": after})
	}
}

// noAdvanceStatus is the list of RFC 7530, section 9.1.7: a request that
// fails with one of these errors does not consume the owner's sequence ID
// and nothing is cached for it.
var noAdvanceStatus = map[nfsv4.Nfsstat4]bool{
	nfsv4.NFS4ERR_STALE_CLIENTID: true,
	nfsv4.NFS4ERR_STALE_STATEID:  true,
	nfsv4.NFS4ERR_BAD_STATEID:    true,
	nfsv4.NFS4ERR_BAD_SEQID:      true,
	nfsv4.NFS4ERR_BADXDR:         true,
	nfsv4.NFS4ERR_RESOURCE:       true,
	nfsv4.NFS4ERR_NOFILEHANDLE:   true,
	nfsv4.NFS4ERR_MOVED:          true,
}

// checkRefused sends a seqid-bearing request with an in-order seqid that
// the server has to refuse because its state ID, file handle, client ID or
// lock-owner is wrong. Whatever the error is, the request must not change
// the open/lock state; if the error is on the RFC 7530 9.1.7 list it must
// not consume the seqid either (sending it again behaves the same and the
// next valid request of the owner still uses this seqid); otherwise the
// seqid is consumed and the error reply is cached like any other.
func (v *v40) checkRefused(o *oo40) {
	if !o.confirmed || len(o.files) == 0 {
		return
	}
	of := o.files[pick(v.rng, sortedKeys(o.files))]
	// Prefer a file next to which a lock-owner of this open-owner holds
	// lock state on another file: the rarest flavours need that.
	for _, n := range sortedKeys(o.files) {
		for _, m := range sortedKeys(o.files) {
			for _, k := range sortedKeys(o.files[m].locks) {
				if m != n && o.files[n].locks[k] == nil && v.rng.IntN(2) == 0 {
					of = o.files[n]
				}
			}
		}
	}
	// Base request: one of the six seqid-bearing operations on of.
	type base struct {
		op   *op40
		lock bool // presents a lock state ID
	}
	var bases []base
	bases = append(bases,
		base{&op40{kind: kClose, o: o, of: of, fname: of.fname, fh: of.fh, seq: v.nx(o.seq), stateid: of.stateid}, false},
		base{&op40{kind: kOpenConfirm, o: o, of: of, fname: of.fname, fh: of.fh, seq: v.nx(o.seq), stateid: of.stateid}, false},
		base{&op40{kind: kDowngrade, o: o, of: of, fname: of.fname, fh: of.fh, access: of.access, seq: v.nx(o.seq), stateid: of.stateid}, false},
	)
	var freeLO, usedLO *lo40
	for _, lo := range o.lockOwners {
		if of.locks[string(lo.name)] == nil {
			freeLO = lo
		} else {
			usedLO = lo
		}
	}
	if freeLO != nil {
		lseq := v.seq0()
		if freeLO.known {
			lseq = v.nx(freeLO.seq)
		}
		bases = append(bases, base{&op40{kind: kLockNew, o: o, of: of, fname: of.fname, fh: of.fh, lo: freeLO, slot: 5, ltype: nfsv4.READ_LT, seq: v.nx(o.seq), lseq: lseq, stateid: of.stateid}, false})
	}
	if usedLO != nil {
		lf := of.locks[string(usedLO.name)]
		bases = append(bases,
			base{&op40{kind: kLock, o: o, of: of, fname: of.fname, fh: of.fh, lo: usedLO, lf: lf, slot: 5, ltype: nfsv4.READ_LT, lseq: v.nx(usedLO.seq), stateid: lf.stateid}, true},
			base{&op40{kind: kLocku, o: o, of: of, fname: of.fname, fh: of.fh, lo: usedLO, lf: lf, slot: 5, ltype: nfsv4.WRITE_LT, lseq: v.nx(usedLO.seq), stateid: lf.stateid}, true},
		)
	}
	b := pick(v.rng, bases)
	if usedLO != nil && v.rng.IntN(3) == 0 {
		b = bases[len(bases)-1-v.rng.IntN(2)] // LOCK or LOCKU with the lock state ID
	}
	alt := *b.op
	// inTx: the owner's transaction starts before the request is
	// refused, which legitimately drops the owner's previous cached
	// reply (the client acknowledged it by using the next seqid).
	inTx := true
	variants := []string{"future-stateid", "no-filehandle", "other-file", "anonymous-stateid", "special-stateid", "stale-stateid", "unknown-stateid", "stale-clientid"}
	if usedLO != nil && !b.lock {
		variants = append(variants, "lock-owner-already-on-file")
	}
	var otherLF *lf40
	for _, n := range sortedKeys(o.files) {
		if f := o.files[n]; f != of {
			for _, k := range sortedKeys(f.locks) {
				if of.locks[k] == nil {
					otherLF = f.locks[k]
				}
			}
		}
	}
	if otherLF != nil {
		variants = append(variants, "lock-seqid-replayed-in-new-lock")
	}
	what := pick(v.rng, variants)
	// The two lock-owner flavours are rarely applicable: prefer them.
	if last := variants[len(variants)-1]; strings.HasPrefix(last, "lock-") && v.rng.IntN(2) == 0 {
		what = last
		if prev := variants[len(variants)-2]; strings.HasPrefix(prev, "lock-") && v.rng.IntN(2) == 0 {
			what = prev
		}
	}
	switch what {
	case "future-stateid":
		alt.stateid.Seqid += 7
	case "no-filehandle":
		alt.noFH = true
	case "other-file":
		alt.fh = nil
		for _, n := range []string{"f0", "f1", "f2"} {
			if n != of.fname {
				alt.fh = v.fs.leaf(n).handle
			}
		}
	case "anonymous-stateid":
		alt.stateid, inTx = nfsv4.Stateid4{}, false
	case "special-stateid":
		// READ bypass state ID, or a malformed special one.
		alt.stateid = nfsv4.Stateid4{Seqid: 0xffffffff, Other: [12]byte{0xff, 0xff, 0xff, 0xff, 0xff, 0xff, 0xff, 0xff, 0xff, 0xff, 0xff, 0xff}}
		switch v.rng.IntN(3) {
		case 0:
			alt.stateid.Seqid = 5
		case 1:
			alt.stateid = nfsv4.Stateid4{Seqid: 3}
		}
		inTx = false
	case "stale-stateid":
		alt.stateid.Other[0] ^= 0x55 // state ID of "another server instance"
		inTx = false
	case "unknown-stateid":
		alt.stateid.Other[11] ^= 0x55
		inTx = false
	case "stale-clientid":
		bogus := o.c.id ^ 0x5555
		alt = op40{kind: kOpen, o: o, fname: "f1", access: nfsv4.OPEN4_SHARE_ACCESS_READ, seq: v.nx(o.seq), clientID: &bogus}
		inTx = false
	case "lock-owner-already-on-file":
		lseq := v.nx(usedLO.seq)
		alt = op40{kind: kLockNew, o: o, of: of, fname: of.fname, fh: of.fh, lo: usedLO, slot: 5, ltype: nfsv4.READ_LT, seq: v.nx(o.seq), lseq: lseq, stateid: of.stateid}
	case "lock-seqid-replayed-in-new-lock":
		// In-order open-owner seqid, but the lock-owner's seqid is that
		// of its last request.
		lo := otherLF.lo
		alt = op40{kind: kLockNew, o: o, of: of, fname: of.fname, fh: of.fh, lo: lo, slot: 5, ltype: nfsv4.READ_LT, seq: v.nx(o.seq), lseq: lo.seq, stateid: of.stateid}
	}
	h := v.holderOf(&alt)
	req := v.build(&alt)
	before := v.fingerprint()
	if v.abort {
		return
	}
	p, ok := v.send(req, "REFUSED("+what+") "+alt.String())
	if !ok {
		return
	}
	v.dups++
	after := v.fingerprint()
	if v.abort {
		return
	}
	st := p.res.Status
	v.logf("  refused(%s): %s -> %s", what, &alt, statusName(st))
	v.shape = append(v.shape, "refused-"+what+":"+statusName(st))
	v.sit("refused-in-order-" + what + "-40")
	// Did a LOCK for this file come back with the lock state ID the
	// lock-owner holds for another file (its cached last reply)?
	servedLockOwnerCache := false
	if what == "lock-seqid-replayed-in-new-lock" {
		if sid, _, ok := replyStateid(p.res); ok {
			for _, n := range sortedKeys(o.files) {
				if f := o.files[n]; f != of {
					if lf := f.locks[string(alt.lo.name)]; lf != nil && lf.stateid.Other == sid.Other {
						servedLockOwnerCache = true
					}
				}
			}
		}
	}
	if servedLockOwnerCache {
		// The lock-owner treats the request as a retransmission of its
		// last LOCK and serves that request's reply: allowed (see
		// differentRequestCheck); the open-owner consumes its seqid.
		v.sit("false-retry-answered-with-originals-cached-reply-40")
	}
	if st == nfsv4.NFS4_OK && !servedLockOwnerCache {
		v.violate(fmt.Sprintf("C19 invalid-request-executed v=4.0 what=%s op=%s", what, alt.kind),
			fmt.Sprintf("%s (%s) was executed", &alt, what), nil)
		v.abort = true
		return
	}
	if !sameState(before, after, !inTx) {
		v.violate(fmt.Sprintf("C19 refused-request-side-effect v=4.0 what=%s op=%s status=%s", what, alt.kind, statusName(st)),
			fmt.Sprintf("%s (%s) was refused with %s but changed observable state", &alt, what, statusName(st)),
			map[string]any{"before": before, "after": after})
	}
	if noAdvanceStatus[st] {
		// Not consumed, not cached: a second transmission is a new
		// execution with the same outcome.
		p2, ok := v.send(req, "RESEND "+alt.String())
		if !ok {
			return
		}
		v.dups++
		again := v.fingerprint()
		if v.abort {
			return
		}
		if !bytes.Equal(p2.enc, p.enc) || !sameState(after, again, true) {
			v.violate(fmt.Sprintf("C19 resend-of-unconsumed-seqid-differs v=4.0 what=%s op=%s", what, alt.kind),
				fmt.Sprintf("%s failed with %s, which does not consume the seqid; sending it again returned %s / changed state=%v", &alt, statusName(st), statusName(p2.res.Status), after != again),
				map[string]any{"before": after, "after": again})
		}
		if inTx {
			*h = retx{probed: "refused-" + what}
		} else {
			h.probed = "refused-" + what
			if h.present && v.rng.IntN(2) == 0 {
				v.checkReplay(h, "after-refused-"+what)
			}
		}
		return
	}
	// Any other error consumes the seqid of the owner that sequences the
	// request, and its reply is cached.
	v.r.Count("refused_request_consumed_seqid_"+what+"_"+statusName(st), 1)
	if servedLockOwnerCache {
		v.r.Count("new_lock_answered_with_lock_owner_cached_reply", 1)
	}
	if alt.lockSequenced() {
		alt.lo.seq = alt.lseq
	} else {
		o.seq = alt.seq
	}
	alt.want = st
	*h = retx{op: &alt, req: req, reply: p.enc, status: st, present: true}
	if v.rng.IntN(2) == 0 {
		v.checkReplay(h, "now")
	}
}
