package c07

// Monitor 2 of C07: well-formed choices.
//
// The real FeedbackDrivenAnalyzer (over a hand-written MutableProtoStore, a
// scripted random number source and the virtual clock), the real
// PageRankStrategyCalculator / SmallestSizeClassStrategyCalculator and the
// real FallbackAnalyzer are driven over generated and hostile
// PreviousExecutionStats messages. Every case walks complete
// selector -> learner chains the way the scheduler does (Select, then
// Succeeded / Failed / Abandoned, following every learner that is returned,
// including the background-learning learner), several chains per stored
// message, some of them interleaved on the same shared message.
//
// Oracles (all at the API boundary): index in range, timeouts within
// [0, the action's own], expected durations non-negative (when no stored or
// reported duration is negative), strategy probabilities each in [0,1] and
// summing to at most one, documented strategy count, Outcomes.IsFaster
// strictly inside (0,1) and complementary, termination (watchdog), the
// handle obtained from the store released exactly once per chain and never
// used afterwards, dirty whenever something was recorded, and the recorded
// statistics equal to what a small reference model of the documented learner
// behaviour appends (bounded history, nothing dropped, no NaN written).

import (
	"context"
	"fmt"
	"math"
	"math/rand/v2"
	"runtime"
	"runtime/debug"
	"sort"
	"strings"
	"sync"
	"sync/atomic"
	"time"

	remoteexecution "github.com/bazelbuild/remote-apis/build/bazel/remote/execution/v2"
	re_blobstore "github.com/buildbarn/bb-remote-execution/pkg/blobstore"
	"github.com/buildbarn/bb-remote-execution/pkg/scheduler/initialsizeclass"
	"github.com/buildbarn/bb-storage/pkg/digest"
	"github.com/buildbarn/bb-storage/pkg/proto/iscc"
	"google.golang.org/grpc/codes"
	"google.golang.org/grpc/status"
	"google.golang.org/protobuf/encoding/prototext"
	"google.golang.org/protobuf/proto"
	"google.golang.org/protobuf/types/known/durationpb"
	"google.golang.org/protobuf/types/known/emptypb"
	"google.golang.org/protobuf/types/known/timestamppb"

	"verif/internal/ev"
	"verif/internal/vclock"
)

const ruleChoices = "choices: case i = (1-6 size classes, analyzer/calculator parameters, stored PreviousExecutionStats drawn from profiles " +
	"{nil, fresh, realistic, failure-prone, progressive, lopsided, random} overlaid with hostile probabilities/durations/timestamps/unknown classes/huge histories; " +
	"all wire round-tripped) from PRNG(seed, 2, i); strategies and IsFaster are checked directly and 1-5 selector->learner chains (up to 3 interleaved on " +
	"the shared message) are walked; non-trivial = at least one learner reached a terminal call; distinct = hash of the (chain, call, learner kind, index) sequence"

const choicesStream = 2

// ---------------------------------------------------------------------
// Fakes
// ---------------------------------------------------------------------

// fakeStatsStore is a MutableProtoStore holding a single message, shared by
// all handles (as the real store shares one message per digest).
type fakeStatsStore struct {
	msg     *iscc.PreviousExecutionStats
	getErr  error
	gets    int
	handles []*fakeStatsHandle
}

type fakeStatsHandle struct {
	store           *fakeStatsStore
	released        int
	dirty           bool
	useAfterRelease int
}

func (s *fakeStatsStore) Get(ctx context.Context, d digest.Digest) (re_blobstore.MutableProtoHandle[*iscc.PreviousExecutionStats], error) {
	s.gets++
	if s.getErr != nil {
		err := s.getErr
		s.getErr = nil
		return nil, err
	}
	h := &fakeStatsHandle{store: s}
	s.handles = append(s.handles, h)
	return h, nil
}

func (h *fakeStatsHandle) GetMutableProto() *iscc.PreviousExecutionStats {
	if h.released > 0 {
		h.useAfterRelease++
	}
	return h.store.msg
}

func (h *fakeStatsHandle) Release(isDirty bool) {
	h.released++
	if h.released == 1 {
		h.dirty = isDirty
	}
}

// scriptedRNG implements random.SingleThreadedGenerator. Float64 returns
// the scripted value if one is set (always in [0,1)), else a PRNG draw.
type scriptedRNG struct {
	rng   *rand.Rand
	next  *float64
	draws int
}

func (g *scriptedRNG) Float64() float64 {
	g.draws++
	if g.next != nil {
		v := *g.next
		g.next = nil
		return v
	}
	return g.rng.Float64()
}
func (g *scriptedRNG) Int64N(n int64) int64 { return g.rng.Int64N(n) }
func (g *scriptedRNG) IntN(n int) int       { return g.rng.IntN(n) }
func (g *scriptedRNG) Read(p []byte) (int, error) {
	for i := range p {
		p[i] = byte(g.rng.Uint32())
	}
	return len(p), nil
}
func (g *scriptedRNG) Shuffle(n int, swap func(i, j int)) { g.rng.Shuffle(n, swap) }
func (g *scriptedRNG) Uint32() uint32                     { return g.rng.Uint32() }
func (g *scriptedRNG) Uint64() uint64                     { return g.rng.Uint64() }

// ---------------------------------------------------------------------
// Case description and generators
// ---------------------------------------------------------------------

type choiceCfg struct {
	Case           int           `json:"case"`
	SizeClasses    []uint32      `json:"size_classes"`
	Calc           string        `json:"calculator"` // pagerank | smallest | fallback
	MinTimeout     time.Duration `json:"pagerank_minimum_execution_timeout_ns"`
	Exponent       float64       `json:"pagerank_exponent"`
	Multiplier     float64       `json:"pagerank_timeout_multiplier"`
	ConvErr        float64       `json:"pagerank_maximum_convergence_error"`
	HistorySize    int           `json:"history_size"`
	FailureCache   time.Duration `json:"failure_cache_duration_ns"`
	DefaultTimeout time.Duration `json:"default_timeout_ns"`
	MaxTimeout     time.Duration `json:"maximum_timeout_ns"`
	ActionTimeout  *int64        `json:"action_timeout_ns"` // nil = not set in the Action
	Own            time.Duration `json:"own_timeout_ns"`
	Profile        string        `json:"profile"`
	Overlays       []string      `json:"overlays"`
	Chains         int           `json:"chains"`
	MaxOpen        int           `json:"max_open_chains"`
	NegativeStored bool          `json:"negative_or_overflowing_durations"`
}

func pickDur(rng *rand.Rand, ds ...time.Duration) time.Duration { return ds[rng.IntN(len(ds))] }
func pickF(rng *rand.Rand, fs ...float64) float64               { return fs[rng.IntN(len(fs))] }

func genSizeClasses(rng *rand.Rand) []uint32 {
	weights := []int{10, 20, 20, 25, 10, 15}
	x := rng.IntN(100)
	n := 1
	for i, w := range weights {
		if x < w {
			n = i + 1
			break
		}
		x -= w
	}
	if n == 1 {
		return []uint32{[]uint32{0, 1, 8, math.MaxUint32}[rng.IntN(4)]}
	}
	out := make([]uint32, 0, n)
	switch rng.IntN(4) {
	case 0: // powers of two
		v := uint32(1) << rng.IntN(3)
		for i := 0; i < n; i++ {
			out = append(out, v)
			v <<= 1
		}
	case 1: // irregular increasing
		v := uint32(1 + rng.IntN(4))
		for i := 0; i < n; i++ {
			out = append(out, v)
			v += uint32(1 + rng.IntN(16))
		}
	case 2: // extreme values
		pool := []uint32{1, 2, 3, 1000, 65536, 1 << 31, math.MaxUint32 - 1, math.MaxUint32}
		rng.Shuffle(len(pool), func(i, j int) { pool[i], pool[j] = pool[j], pool[i] })
		out = append(out, pool[:n]...)
		sort.Slice(out, func(i, j int) bool { return out[i] < out[j] })
	default: // consecutive
		for i := 0; i < n; i++ {
			out = append(out, uint32(i+1))
		}
	}
	return out
}

func genCfg(rng *rand.Rand, i int) choiceCfg {
	cfg := choiceCfg{Case: i}
	cfg.SizeClasses = genSizeClasses(rng)
	switch x := rng.IntN(100); {
	case x < 78:
		cfg.Calc = "pagerank"
	case x < 92:
		cfg.Calc = "smallest"
	default:
		cfg.Calc = "fallback"
	}
	cfg.MinTimeout = pickDur(rng, 0, time.Second, 5*time.Second, 10*time.Minute)
	cfg.Exponent = pickF(rng, 0, 0.5, 1, 2)
	cfg.Multiplier = pickF(rng, 1, 1.5, 3)
	cfg.ConvErr = pickF(rng, 0.1, 0.002, 0.001, 1e-6)
	cfg.HistorySize = []int{1, 2, 5, 5, 32, 100}[rng.IntN(6)]
	cfg.FailureCache = pickDur(rng, 0, time.Hour, 24*time.Hour)
	cfg.DefaultTimeout = 30 * time.Minute
	cfg.MaxTimeout = time.Hour
	switch rng.IntN(8) {
	case 0: // unset: the default applies
	case 1:
		v := int64(0)
		cfg.ActionTimeout = &v
	case 2:
		v := int64(1)
		cfg.ActionTimeout = &v
	case 3:
		v := int64(time.Hour)
		cfg.ActionTimeout = &v
	default:
		v := int64(pickDur(rng, time.Second, 10*time.Second, 3*time.Minute, 15*time.Minute)) + rng.Int64N(int64(time.Second))
		cfg.ActionTimeout = &v
	}
	if cfg.Calc == "pagerank" && rng.IntN(8) == 0 {
		// The action's own timeout at, just below and just above the
		// calculator's minimum execution timeout.
		if v := int64(cfg.MinTimeout) + int64(rng.IntN(3)) - 1; v >= 0 {
			cfg.ActionTimeout = &v
			cfg.Overlays = append(cfg.Overlays, "timeout-at-minimum")
		}
	}
	cfg.Own = cfg.DefaultTimeout
	if cfg.ActionTimeout != nil {
		cfg.Own = time.Duration(*cfg.ActionTimeout)
	}
	cfg.Chains = 1 + rng.IntN(5)
	cfg.MaxOpen = 1 + rng.IntN(3)
	return cfg
}

func succ(d time.Duration) *iscc.PreviousExecution {
	return &iscc.PreviousExecution{Outcome: &iscc.PreviousExecution_Succeeded{Succeeded: durationpb.New(d)}}
}

func timedOut(d time.Duration) *iscc.PreviousExecution {
	return &iscc.PreviousExecution{Outcome: &iscc.PreviousExecution_TimedOut{TimedOut: durationpb.New(d)}}
}

func failed() *iscc.PreviousExecution {
	return &iscc.PreviousExecution{Outcome: &iscc.PreviousExecution_Failed{Failed: &emptypb.Empty{}}}
}

func jitter(rng *rand.Rand, d time.Duration, lo, hi float64) time.Duration {
	return time.Duration(float64(d) * (lo + (hi-lo)*rng.Float64()))
}

var hostileProbabilities = []float64{
	math.NaN(), math.Inf(1), math.Inf(-1), -0.5, 0, 1, 1.5, 0.999999, 1e-300, 0.9, 0.99,
	math.Copysign(0, -1), math.MaxFloat64, math.SmallestNonzeroFloat64, 0.5, 0.75,
}

var hostileDurations = []*durationpb.Duration{
	{}, {Nanos: 1}, {Seconds: -1}, {Seconds: math.MaxInt64}, {Seconds: math.MinInt64},
	{Seconds: 10000000000, Nanos: 999999999}, {Seconds: 1, Nanos: -5}, {Nanos: 2000000000},
	{Seconds: math.MaxInt64 / 1000000000}, {Seconds: 315576000000}, {Seconds: -315576000000},
}

// genStats generates the stored message of a case. now is the virtual time
// at the start of the case.
func genStats(rng *rand.Rand, cfg *choiceCfg, now time.Time) *iscc.PreviousExecutionStats {
	classes := cfg.SizeClasses
	n := len(classes)
	largest := classes[n-1]
	stats := &iscc.PreviousExecutionStats{}
	ensure := func(c uint32) *iscc.PerSizeClassStats {
		if stats.SizeClasses == nil {
			stats.SizeClasses = map[uint32]*iscc.PerSizeClassStats{}
		}
		p, ok := stats.SizeClasses[c]
		if !ok {
			p = &iscc.PerSizeClassStats{}
			stats.SizeClasses[c] = p
		}
		return p
	}
	base := pickDur(rng, 10*time.Millisecond, time.Second, 30*time.Second, 10*time.Minute, cfg.Own/2+1, cfg.Own*2+1)
	factor := func(c uint32) float64 {
		if c == 0 {
			return 1
		}
		return math.Pow(float64(largest)/float64(c), cfg.Exponent)
	}
	switch x := rng.IntN(100); {
	case x < 8:
		cfg.Profile = "nil"
	case x < 15:
		cfg.Profile = "fresh"
		for _, c := range classes {
			if rng.IntN(4) != 0 {
				ensure(c)
			}
		}
	case x < 50:
		cfg.Profile = "realistic"
		p := ensure(largest)
		for k := 1 + rng.IntN(10); k > 0; k-- {
			p.PreviousExecutions = append(p.PreviousExecutions, succ(jitter(rng, base, 0.8, 1.2)))
		}
		for _, c := range classes[:n-1] {
			if rng.IntN(4) == 0 {
				continue
			}
			p := ensure(c)
			for k := rng.IntN(11); k > 0; k-- {
				p.PreviousExecutions = append(p.PreviousExecutions, succ(jitter(rng, time.Duration(float64(base)*factor(c)), 0.4, 1.3)))
			}
			for k := rng.IntN(4); k > 0; k-- {
				p.PreviousExecutions = append(p.PreviousExecutions, failed())
			}
			for k := rng.IntN(3); k > 0; k-- {
				p.PreviousExecutions = append(p.PreviousExecutions, timedOut(jitter(rng, time.Duration(float64(base)*factor(c)), 0.5, 3)))
			}
			rng.Shuffle(len(p.PreviousExecutions), func(i, j int) {
				p.PreviousExecutions[i], p.PreviousExecutions[j] = p.PreviousExecutions[j], p.PreviousExecutions[i]
			})
		}
	case x < 65:
		cfg.Profile = "failure-prone"
		p := ensure(largest)
		for k := 1 + rng.IntN(8); k > 0; k-- {
			p.PreviousExecutions = append(p.PreviousExecutions, succ(jitter(rng, base, 0.9, 1.1)))
		}
		bad := rng.IntN(n) // classes below this index fail
		for i, c := range classes[:n-1] {
			if i < bad {
				p := ensure(c)
				for k := 1 + rng.IntN(6); k > 0; k-- {
					if rng.IntN(2) == 0 {
						p.PreviousExecutions = append(p.PreviousExecutions, failed())
					} else {
						p.PreviousExecutions = append(p.PreviousExecutions, timedOut(jitter(rng, base, 1, 4)))
					}
				}
				if rng.IntN(3) == 0 {
					p.PreviousExecutions = append(p.PreviousExecutions, succ(jitter(rng, base, 0.8, 1.5)))
				}
			} else if rng.IntN(3) == 0 {
				p := ensure(c)
				for k := 1 + rng.IntN(4); k > 0; k-- {
					p.PreviousExecutions = append(p.PreviousExecutions, succ(jitter(rng, time.Duration(float64(base)*factor(c)), 0.5, 1.0)))
				}
			}
		}
	case x < 77:
		cfg.Profile = "progressive"
		// The k smallest classes have samples, the largest never succeeded.
		k := rng.IntN(n)
		for _, c := range classes[:k] {
			p := ensure(c)
			for j := 1 + rng.IntN(3); j > 0; j-- {
				switch rng.IntN(3) {
				case 0:
					p.PreviousExecutions = append(p.PreviousExecutions, succ(jitter(rng, base, 0.5, 2)))
				case 1:
					p.PreviousExecutions = append(p.PreviousExecutions, failed())
				default:
					p.PreviousExecutions = append(p.PreviousExecutions, timedOut(jitter(rng, base, 0.5, 2)))
				}
			}
		}
		if rng.IntN(3) == 0 {
			p := ensure(largest)
			for j := 1 + rng.IntN(3); j > 0; j-- {
				p.PreviousExecutions = append(p.PreviousExecutions, failed())
			}
		}
	case x < 79:
		cfg.Profile = "lopsided"
		// Everything but the largest class fails, many times over, and
		// the restored probabilities are individually in range but do
		// not form a distribution.
		cfg.Chains = 1
		p := ensure(largest)
		for k := 1 + rng.IntN(30); k > 0; k-- {
			p.PreviousExecutions = append(p.PreviousExecutions, succ(jitter(rng, base, 0.9, 1.1)))
		}
		fails := 200 + rng.IntN(800)
		for _, c := range classes[:n-1] {
			p := ensure(c)
			for k := fails; k > 0; k-- {
				p.PreviousExecutions = append(p.PreviousExecutions, failed())
			}
		}
		if rng.IntN(4) != 0 {
			v := pickF(rng, 0.9, 0.999999, 0.75)
			for _, c := range classes {
				ensure(c).InitialPageRankProbability = v
			}
		}
	default:
		cfg.Profile = "random"
		for _, c := range classes {
			if rng.IntN(5) == 0 {
				continue
			}
			p := ensure(c)
			for k := rng.IntN(13); k > 0; k-- {
				d := time.Duration(rng.Int64N(int64(2*time.Hour))) >> rng.IntN(30)
				switch rng.IntN(4) {
				case 0:
					p.PreviousExecutions = append(p.PreviousExecutions, failed())
				case 1:
					p.PreviousExecutions = append(p.PreviousExecutions, timedOut(d))
				default:
					p.PreviousExecutions = append(p.PreviousExecutions, succ(d))
				}
			}
		}
	}

	// Plausible restored probabilities.
	if rng.IntN(2) == 0 && stats.SizeClasses != nil && cfg.Profile != "lopsided" {
		for _, p := range stats.SizeClasses {
			p.InitialPageRankProbability = rng.Float64() / float64(n)
		}
	}

	overlay := func(name string) { cfg.Overlays = append(cfg.Overlays, name) }
	if rng.IntN(4) == 0 {
		overlay("hostile-probability")
		for _, c := range classes {
			if rng.IntN(3) != 0 {
				ensure(c).InitialPageRankProbability = hostileProbabilities[rng.IntN(len(hostileProbabilities))]
			}
		}
		if rng.IntN(3) == 0 {
			// In-range values whose sum exceeds one.
			for _, c := range classes {
				ensure(c).InitialPageRankProbability = pickF(rng, 0.9, 0.99, 0.999999, 0.5)
			}
		}
	}
	if rng.IntN(5) == 0 {
		overlay("unknown-size-class")
		for k := 1 + rng.IntN(3); k > 0; k-- {
			c := []uint32{0, 7, 13, 99, 1 << 20, math.MaxUint32, largest + 1, largest - 1}[rng.IntN(8)]
			p := ensure(c)
			p.InitialPageRankProbability = hostileProbabilities[rng.IntN(len(hostileProbabilities))]
			for j := rng.IntN(4); j > 0; j-- {
				p.PreviousExecutions = append(p.PreviousExecutions, succ(jitter(rng, base, 0.1, 10)))
			}
		}
	}
	if rng.IntN(7) == 0 && stats.SizeClasses != nil {
		overlay("extreme-duration")
		for _, p := range stats.SizeClasses {
			for _, pe := range p.PreviousExecutions {
				if rng.IntN(3) != 0 {
					continue
				}
				d := proto.Clone(hostileDurations[rng.IntN(len(hostileDurations))]).(*durationpb.Duration)
				switch o := pe.Outcome.(type) {
				case *iscc.PreviousExecution_Succeeded:
					o.Succeeded = d
				case *iscc.PreviousExecution_TimedOut:
					o.TimedOut = d
				}
			}
			if rng.IntN(4) == 0 {
				p.PreviousExecutions = append(p.PreviousExecutions, &iscc.PreviousExecution{}) // oneof not set
			}
		}
	}
	if rng.IntN(8) == 0 && cfg.Profile != "lopsided" {
		// One history one short of, exactly at and one beyond the
		// configured history size.
		overlay("history-at-capacity")
		p := ensure(classes[rng.IntN(n)])
		want := cfg.HistorySize + rng.IntN(3) - 1
		for len(p.PreviousExecutions) < want {
			p.PreviousExecutions = append(p.PreviousExecutions, succ(jitter(rng, base, 0.5, 1.5)))
		}
		p.PreviousExecutions = p.PreviousExecutions[:want]
	}
	if rng.IntN(80) == 0 && cfg.Profile != "lopsided" {
		overlay("huge-history")
		cfg.Chains = 1 + rng.IntN(2)
		for _, c := range classes {
			if rng.IntN(3) == 0 {
				continue
			}
			p := ensure(c)
			for k := 200 + rng.IntN(1000); k > 0; k-- {
				switch rng.IntN(8) {
				case 0:
					p.PreviousExecutions = append(p.PreviousExecutions, failed())
				case 1:
					p.PreviousExecutions = append(p.PreviousExecutions, timedOut(jitter(rng, base, 0.5, 3)))
				default:
					// Many ties on purpose.
					p.PreviousExecutions = append(p.PreviousExecutions, succ(time.Duration(float64(base)*factor(c))+time.Duration(rng.IntN(5))*time.Millisecond))
				}
			}
		}
	}
	switch rng.IntN(10) {
	case 0:
		overlay("failure-recent")
		stats.LastSeenFailure = timestamppb.New(now.Add(-cfg.FailureCache / 2))
	case 1:
		overlay("failure-old")
		stats.LastSeenFailure = timestamppb.New(now.Add(-2*cfg.FailureCache - time.Hour))
	case 2:
		overlay("failure-future")
		stats.LastSeenFailure = timestamppb.New(now.Add(1000 * time.Hour))
	case 3:
		overlay("failure-invalid-timestamp")
		stats.LastSeenFailure = []*timestamppb.Timestamp{
			{Seconds: 1, Nanos: -1}, {Seconds: 1, Nanos: 1000000000}, {Seconds: math.MaxInt64}, {Seconds: math.MinInt64}, {Seconds: 253402300800},
		}[rng.IntN(5)]
	case 4:
		overlay("failure-epoch")
		stats.LastSeenFailure = &timestamppb.Timestamp{}
	case 5:
		// Exactly at, one nanosecond before and after the instant the
		// failure cache entry expires.
		overlay("failure-at-expiry")
		stats.LastSeenFailure = timestamppb.New(now.Add(-cfg.FailureCache + time.Duration(rng.IntN(3)-1)))
	}

	// Everything the analyzer sees came off the wire.
	b, err := proto.Marshal(stats)
	if err != nil {
		panic(fmt.Sprintf("harness: cannot marshal generated stats: %v", err))
	}
	out := &iscc.PreviousExecutionStats{}
	if err := proto.Unmarshal(b, out); err != nil {
		panic(fmt.Sprintf("harness: cannot unmarshal generated stats: %v", err))
	}
	for _, p := range out.SizeClasses {
		for _, pe := range p.PreviousExecutions {
			var d *durationpb.Duration
			switch o := pe.Outcome.(type) {
			case *iscc.PreviousExecution_Succeeded:
				d = o.Succeeded
			case *iscc.PreviousExecution_TimedOut:
				d = o.TimedOut
			}
			if d != nil && (d.AsDuration() < 0 || d.AsDuration() > 1000*time.Hour) {
				cfg.NegativeStored = true
			}
		}
	}
	return out
}

// ---------------------------------------------------------------------
// Snapshots and the reference model of what learners record
// ---------------------------------------------------------------------

type entry struct {
	kind  byte // S, T, F or - (oneof unset)
	secs  int64
	nanos int32
}

func (e entry) String() string {
	if e.kind == 'F' || e.kind == '-' {
		return string(e.kind)
	}
	return fmt.Sprintf("%c(%ds,%dns)", e.kind, e.secs, e.nanos)
}

func entryOf(pe *iscc.PreviousExecution) entry {
	switch o := pe.GetOutcome().(type) {
	case *iscc.PreviousExecution_Failed:
		return entry{kind: 'F'}
	case *iscc.PreviousExecution_TimedOut:
		return entry{'T', o.TimedOut.GetSeconds(), o.TimedOut.GetNanos()}
	case *iscc.PreviousExecution_Succeeded:
		return entry{'S', o.Succeeded.GetSeconds(), o.Succeeded.GetNanos()}
	}
	return entry{kind: '-'}
}

func entryFromDuration(kind byte, d time.Duration) entry {
	p := durationpb.New(d)
	return entry{kind, p.Seconds, p.Nanos}
}

// classSnap is a compact snapshot of one size class' history: its length,
// a hash over all entries and the last snapTail entries (all of them for
// short histories). History sizes used by the cases are below snapTail, so
// every list the reference model predicts after an append is fully known.
const snapTail = 128

type classSnap struct {
	n    int
	h    uint64
	tail []entry
}

func hashEntries(h uint64, es []entry) uint64 {
	for _, e := range es {
		h = (h ^ uint64(e.kind) ^ uint64(e.secs)*0x9E3779B97F4A7C15 ^ uint64(uint32(e.nanos))*0xC2B2AE3D27D4EB4F) * 1099511628211
	}
	return h
}

func (a classSnap) equal(b classSnap) bool { return a.n == b.n && a.h == b.h }

func (a classSnap) String() string {
	const k = 6
	es := a.tail
	if len(es) > k {
		es = es[len(es)-k:]
	}
	parts := make([]string, 0, k)
	for _, e := range es {
		parts = append(parts, e.String())
	}
	return fmt.Sprintf("len=%d tail=[%s]", a.n, strings.Join(parts, " "))
}

// appendTo predicts the history after appending entries with the given
// history size (historySize < snapTail).
func (a classSnap) appendTo(appended []entry, historySize int) classSnap {
	all := append(append(make([]entry, 0, len(a.tail)+len(appended)), a.tail...), appended...)
	n := a.n + len(appended)
	if n > historySize {
		all = all[len(all)-historySize:]
		n = historySize
	}
	return classSnap{n: n, h: hashEntries(14695981039346656037, all), tail: all}
}

type statsSnapshot struct {
	classes map[uint32]classSnap
	probs   map[uint32]uint64
	lsf     string
}

func tsKey(ts *timestamppb.Timestamp) string {
	if ts == nil {
		return "nil"
	}
	return fmt.Sprintf("%d.%d", ts.Seconds, ts.Nanos)
}

func snapshotOf(m *iscc.PreviousExecutionStats) statsSnapshot {
	s := statsSnapshot{classes: map[uint32]classSnap{}, probs: map[uint32]uint64{}, lsf: tsKey(m.GetLastSeenFailure())}
	for c, p := range m.GetSizeClasses() {
		pes := p.GetPreviousExecutions()
		cs := classSnap{n: len(pes), h: 14695981039346656037}
		start := 0
		if len(pes) > snapTail {
			start = len(pes) - snapTail
		}
		var one [1]entry
		for _, pe := range pes[:start] {
			one[0] = entryOf(pe)
			cs.h = hashEntries(cs.h, one[:])
		}
		cs.tail = make([]entry, 0, len(pes)-start)
		for _, pe := range pes[start:] {
			cs.tail = append(cs.tail, entryOf(pe))
		}
		cs.h = hashEntries(cs.h, cs.tail)
		s.classes[c] = cs
		s.probs[c] = math.Float64bits(p.GetInitialPageRankProbability())
	}
	return s
}

type appendExp struct {
	class uint32
	e     entry
}

// ---------------------------------------------------------------------
// Worker
// ---------------------------------------------------------------------

type chain struct {
	id       int
	handle   *fakeStatsHandle
	selector initialsizeclass.Selector
	learner  initialsizeclass.Learner
	kind     string
	classes  []uint32 // the list of the call that started the current run
	runIdx   int
	runTO    time.Duration
	// reference-model state
	smallerClass   uint32
	smallerTimeout time.Duration
	largestClass   uint32
	pending        entry // outcome of the failed run on the smaller class
	retries        int
	backgrounds    int
	terminals      int
}

type choiceWorker struct {
	r     *ev.Run
	id    int
	clock *vclock.Clock
	// per case
	cfg      choiceCfg
	rng      *rand.Rand
	store    *fakeStatsStore
	srng     *scriptedRNG
	analyzer initialsizeclass.Analyzer
	calc     initialsizeclass.StrategyCalculator
	initProb map[uint32]uint64
	steps    []stepRec
	hist     []any
	durSeq   int64
	sits     map[string]int
	counts   map[string]int
	reached  bool
	stamped  bool // a chain of this case recorded a failure on the largest class
	// watchdog
	curCase atomic.Int64
	since   atomic.Int64 // unix nanos (wall clock; watchdog only, never an oracle)
}

var choicesSampled atomic.Bool

var choiceSigCount sync.Map

var learnerKinds = []string{
	"smallerForegroundLearner", "largestForegroundLearner", "largestBackgroundLearner",
	"smallerBackgroundLearner", "largestLearner", "smallerFallbackLearner", "largestFallbackLearner",
}

func kindOf(l initialsizeclass.Learner) string {
	s := fmt.Sprintf("%T", l)
	if i := strings.LastIndex(s, "."); i >= 0 {
		s = s[i+1:]
	}
	return s
}

func (w *choiceWorker) sit(name string) { w.sits["choices:"+name]++ }

// count batches plain counters per case (the recorder takes a lock).
func (w *choiceWorker) count(name string, n int) { w.counts[name] += n }

// stepRec is a step of the case, formatted only when a witness or sample
// is written.
type stepRec struct {
	format string
	args   []any
}

func (w *choiceWorker) step(format string, args ...any) {
	if len(w.steps) < 200 {
		w.steps = append(w.steps, stepRec{format, args})
	}
}

func (w *choiceWorker) stepStrings() []string {
	out := make([]string, len(w.steps))
	for i, s := range w.steps {
		out[i] = fmt.Sprintf(s.format, s.args...)
	}
	return out
}

func (w *choiceWorker) violate(rule, facts, detail string) {
	sig := "C07 choices " + rule
	if facts != "" {
		sig += " " + facts
	}
	// ev keeps three witnesses per signature; do not build more.
	cnt, _ := choiceSigCount.LoadOrStore(sig, new(atomic.Int64))
	if cnt.(*atomic.Int64).Add(1) > 3 {
		w.r.Violation(sig, detail, nil)
		return
	}
	w.r.Violation(sig, detail, map[string]any{
		"monitor":                    "choices",
		"case":                       w.cfg.Case,
		"config":                     w.cfg,
		"stored_stats_at_case_start": w.initialStatsText(),
		"steps":                      w.stepStrings(),
		"detail":                     detail,
		"replay":                     "VERIF_SEED=<seed> ./check C07 quick --replay <this file> re-runs exactly this case",
	})
}

// initialStatsText regenerates the stored message of the current case from
// the seed (cheaper than formatting it for every case up front).
func (w *choiceWorker) initialStatsText() string {
	rng := w.r.Rand(choicesStream, uint64(w.cfg.Case))
	cfg := genCfg(rng, w.cfg.Case)
	stats := genStats(rng, &cfg, vclock.New(1700000000+int64(w.cfg.Case)).Now())
	return truncate(prototext.MarshalOptions{}.Format(stats), 6000)
}

func truncate(s string, n int) string {
	if len(s) > n {
		return s[:n] + fmt.Sprintf("...(%d bytes more)", len(s)-n)
	}
	return s
}

func (w *choiceWorker) newCalculator() initialsizeclass.StrategyCalculator {
	if w.cfg.Calc == "smallest" {
		return initialsizeclass.SmallestSizeClassStrategyCalculator
	}
	return initialsizeclass.NewPageRankStrategyCalculator(w.cfg.MinTimeout, w.cfg.Exponent, w.cfg.Multiplier, w.cfg.ConvErr)
}

func (w *choiceWorker) action() *remoteexecution.Action {
	a := &remoteexecution.Action{
		CommandDigest:   &remoteexecution.Digest{Hash: fmt.Sprintf("%032x", w.cfg.Case+1), SizeBytes: 100},
		InputRootDigest: &remoteexecution.Digest{Hash: "9a0be105e682022830da33578b909521", SizeBytes: 951},
	}
	if w.cfg.ActionTimeout != nil {
		a.Timeout = durationpb.New(time.Duration(*w.cfg.ActionTimeout))
	}
	return a
}

var choicesDigestFunction = digest.MustNewFunction("c07", remoteexecution.DigestFunction_MD5)

// runCase executes case i completely. Panics inside the code under test are
// turned into violations (with the stack) so that the remaining cases of a
// high-volume run are still checked.
func (w *choiceWorker) runCase(i int) {
	w.curCase.Store(int64(i))
	w.since.Store(time.Now().UnixNano())
	defer w.curCase.Store(-1)

	rng := w.r.Rand(choicesStream, uint64(i))
	w.rng = rng
	// A fresh virtual clock per case: case i is the same no matter which
	// worker runs it or what ran before.
	w.clock = vclock.New(1700000000 + int64(i))
	w.cfg = genCfg(rng, i)
	w.steps = w.steps[:0]
	w.hist = w.hist[:0]
	w.sits = map[string]int{}
	w.counts = map[string]int{}
	w.reached = false
	w.stamped = false
	now := w.clock.Now()
	stats := genStats(rng, &w.cfg, now)
	w.initProb = snapshotOf(stats).probs
	w.r.Case("choices case=%d n=%d calc=%s hist=%d profile=%s overlays=%v own=%s", i, len(w.cfg.SizeClasses), w.cfg.Calc, w.cfg.HistorySize, w.cfg.Profile, w.cfg.Overlays, w.cfg.Own)

	defer func() {
		if p := recover(); p != nil {
			stack := string(debug.Stack())
			fn := firstRepoFrame(stack)
			if fn == "" {
				// Not inside the code under test: a harness bug.
				panic(p)
			}
			w.step("PANIC %v", p)
			w.violate("panic", "fn="+fn, fmt.Sprintf("panic inside /repo code: %v\n%s", p, truncate(stack, 4000)))
		}
		for k, v := range w.sits {
			w.r.SituationN(k, v)
		}
		for k, v := range w.counts {
			w.r.Count(k, v)
		}
		w.r.Hash(ev.HashOf(w.hist...), w.reached)
		if w.reached && len(w.steps) > 6 && choicesSampled.CompareAndSwap(false, true) {
			w.r.Sample(map[string]any{"monitor": "choices", "config": w.cfg, "steps": w.stepStrings()})
		}
	}()

	w.sit(fmt.Sprintf("size-classes=%d", len(w.cfg.SizeClasses)))
	w.sit("profile=" + w.cfg.Profile)
	for _, o := range w.cfg.Overlays {
		w.sit("overlay=" + o)
	}

	if w.cfg.Calc != "fallback" {
		w.calc = w.newCalculator()
		w.checkStrategies(stats)
		w.checkOutcomes(stats)
	}

	// Chains.
	w.store = &fakeStatsStore{msg: stats}
	w.srng = &scriptedRNG{rng: rng}
	extractor := initialsizeclass.NewActionTimeoutExtractor(w.cfg.DefaultTimeout, w.cfg.MaxTimeout)
	if w.cfg.Calc == "fallback" {
		w.analyzer = initialsizeclass.NewFallbackAnalyzer(extractor)
	} else {
		w.analyzer = initialsizeclass.NewFeedbackDrivenAnalyzer(w.store, w.srng, w.clock, extractor, w.cfg.FailureCache, w.calc, w.cfg.HistorySize)
	}
	w.walkChains()
}

func firstRepoFrame(stack string) string {
	for _, line := range strings.Split(stack, "\n") {
		if strings.HasPrefix(line, "github.com/buildbarn/bb-remote-execution/") {
			s := line
			if j := strings.LastIndex(s, "("); j > 0 {
				s = s[:j]
			}
			if j := strings.LastIndex(s, "/"); j >= 0 {
				s = s[j+1:]
			}
			return s
		}
	}
	return ""
}

// ---------------------------------------------------------------------
// Direct checks of the strategy calculator and of Outcomes
// ---------------------------------------------------------------------

func largestHasMedian(m map[uint32]*iscc.PerSizeClassStats, largest uint32) bool {
	for _, pe := range m[largest].GetPreviousExecutions() {
		if _, ok := pe.Outcome.(*iscc.PreviousExecution_Succeeded); ok {
			return true
		}
	}
	return false
}

func (w *choiceWorker) checkStrategies(stats *iscc.PreviousExecutionStats) {
	classes := w.cfg.SizeClasses
	n := len(classes)
	own := w.cfg.Own
	m := proto.Clone(stats).(*iscc.PreviousExecutionStats).SizeClasses
	if m == nil {
		m = map[uint32]*iscc.PerSizeClassStats{}
	}
	before := snapshotOf(&iscc.PreviousExecutionStats{SizeClasses: m})
	hadMedian := largestHasMedian(m, classes[n-1])
	allSmallerSampled := true
	for _, c := range classes[:n-1] {
		if len(m[c].GetPreviousExecutions()) == 0 {
			allSmallerSampled = false
		}
	}
	strategies := w.calc.GetStrategies(m, classes, own)
	w.count("choices:GetStrategies calls", 1)
	w.step("GetStrategies(n=%d) -> %d strategies %v", n, len(strategies), strategies)
	facts := "calc=" + w.cfg.Calc

	// Count as documented: n-1 (or fewer, the missing tail having
	// probability zero); exactly n only in the corner the upstream test
	// "UnknownExpectedDuration/8" documents: never succeeded on the
	// largest class and every smaller class already has samples.
	switch {
	case n <= 1 && len(strategies) != 0:
		w.violate("strategy-count", facts+" classes=1", fmt.Sprintf("%d strategies for a single size class", len(strategies)))
	case len(strategies) > n:
		w.violate("strategy-count", facts+" more-than-n", fmt.Sprintf("%d strategies for %d size classes", len(strategies), n))
	case n > 1 && len(strategies) == n:
		if hadMedian || !allSmallerSampled {
			w.violate("strategy-count", facts+" n-outside-documented-corner", fmt.Sprintf("%d strategies for %d size classes although medianOnLargest=%v allSmallerSampled=%v", len(strategies), n, hadMedian, allSmallerSampled))
		} else {
			w.sit("n-strategies-corner")
		}
	}
	sum := 0.0
	for i, s := range strategies {
		if math.IsNaN(s.Probability) || s.Probability < -1e-12 || s.Probability > 1+1e-12 {
			w.violate("probability-out-of-range", facts, fmt.Sprintf("strategy %d of %d has probability %v (all: %v)", i, len(strategies), s.Probability, strategies))
		}
		sum += s.Probability
		if s.ForegroundExecutionTimeout < 0 || s.ForegroundExecutionTimeout > own {
			w.violate("timeout-out-of-range", facts+" call=GetStrategies", fmt.Sprintf("strategy %d has foreground timeout %s outside [0,%s]", i, s.ForegroundExecutionTimeout, own))
		}
		if s.RunInBackground {
			w.sit("strategy-background")
		}
	}
	if math.IsNaN(sum) || sum > 1+1e-9 {
		w.violate("probability-sum", facts, fmt.Sprintf("probabilities sum to %v: %v", sum, strategies))
	}
	if len(strategies) > 0 && sum < 1-1e-9 {
		w.sit("strategy-remainder-on-largest")
	}

	// Stored execution history must not be touched by GetStrategies, and
	// whatever probability it writes back must be a finite probability.
	after := snapshotOf(&iscc.PreviousExecutionStats{SizeClasses: m})
	for c, es := range before.classes {
		if !es.equal(after.classes[c]) {
			w.violate("history-changed", facts+" call=GetStrategies", fmt.Sprintf("size class %d: %s -> %s", c, es, after.classes[c]))
		}
	}
	w.checkWrittenProbabilities(before.probs, after, "GetStrategies")

	// The background timeout is only defined once the largest size class
	// has a median (largestBackgroundLearner records one first).
	if hadMedian && w.cfg.Calc == "pagerank" {
		for i := 0; i < n-1; i++ {
			to := w.calc.GetBackgroundExecutionTimeout(m, classes, i, own)
			if to < 0 || to > own {
				w.violate("timeout-out-of-range", facts+" call=GetBackgroundExecutionTimeout", fmt.Sprintf("index %d: %s outside [0,%s]", i, to, own))
			}
		}
	}
}

// checkWrittenProbabilities: a stored probability is either left exactly as
// it was (possibly hostile) or is a finite value in [0,1].
func (w *choiceWorker) checkWrittenProbabilities(before map[uint32]uint64, after statsSnapshot, call string) {
	for c, bits := range after.probs {
		if old, ok := before[c]; ok && old == bits {
			continue
		}
		if orig, ok := w.initProb[c]; ok && orig == bits {
			continue
		}
		p := math.Float64frombits(bits)
		if math.IsNaN(p) || math.IsInf(p, 0) || p < -1e-12 || p > 1+1e-12 {
			w.violate("stored-probability-malformed", "call="+call, fmt.Sprintf("size class %d: initial_page_rank_probability written as %v", c, p))
		}
	}
}

func outcomesOf(p *iscc.PerSizeClassStats) (initialsizeclass.Outcomes, int, int) {
	var ds []time.Duration
	failures := 0
	for _, pe := range p.GetPreviousExecutions() {
		switch o := pe.Outcome.(type) {
		case *iscc.PreviousExecution_Succeeded:
			ds = append(ds, o.Succeeded.AsDuration())
		case *iscc.PreviousExecution_Failed, *iscc.PreviousExecution_TimedOut:
			failures++
		}
	}
	return initialsizeclass.NewOutcomes(ds, failures), len(ds), failures
}

func (w *choiceWorker) checkOutcomes(stats *iscc.PreviousExecutionStats) {
	type oc struct {
		o    initialsizeclass.Outcomes
		s, f int
	}
	var list []oc
	keys := make([]uint32, 0, len(stats.GetSizeClasses()))
	for c := range stats.GetSizeClasses() {
		keys = append(keys, c)
	}
	sort.Slice(keys, func(i, j int) bool { return keys[i] < keys[j] })
	for _, c := range keys {
		o, s, f := outcomesOf(stats.SizeClasses[c])
		list = append(list, oc{o, s, f})
	}
	// A few synthetic sets with many ties and failures only.
	for k := 0; k < 2; k++ {
		nS, nF := w.rng.IntN(8), w.rng.IntN(5)
		ds := make([]time.Duration, nS)
		for i := range ds {
			ds[i] = time.Duration(w.rng.IntN(4)) * time.Second
		}
		list = append(list, oc{initialsizeclass.NewOutcomes(ds, nF), nS, nF})
	}
	if len(list) > 7 {
		list = list[:7]
	}
	for i := range list {
		for j := i; j < len(list); j++ {
			a, b := list[i], list[j]
			v, u := a.o.IsFaster(b.o), b.o.IsFaster(a.o)
			w.count("choices:IsFaster pairs", 1)
			shape := fmt.Sprintf("A=(%d successes,%d failures) B=(%d successes,%d failures)", a.s, a.f, b.s, b.f)
			if !(v > 0 && v < 1) || !(u > 0 && u < 1) {
				w.violate("isfaster-not-in-open-unit-interval", "", fmt.Sprintf("%s: A.IsFaster(B)=%v B.IsFaster(A)=%v", shape, v, u))
			}
			if math.Abs(v+u-1) > 1e-9 {
				w.violate("isfaster-not-complementary", "", fmt.Sprintf("%s: A.IsFaster(B)+B.IsFaster(A)=%v+%v", shape, v, u))
			}
			if i == j && v != 0.5 {
				w.violate("isfaster-identity", "", fmt.Sprintf("%s: x.IsFaster(x)=%v", shape, v))
			}
		}
	}
}

// ---------------------------------------------------------------------
// Chain walking
// ---------------------------------------------------------------------

func (w *choiceWorker) walkChains() {
	rng := w.rng
	var open []*chain
	started := 0
	for started < w.cfg.Chains || len(open) > 0 {
		if rng.IntN(3) == 0 {
			w.clock.Advance(pickDur(rng, time.Second, time.Minute, time.Hour, 2*w.cfg.FailureCache+time.Second), nil)
		}
		if started < w.cfg.Chains && len(open) < w.cfg.MaxOpen && (len(open) == 0 || rng.IntN(2) == 0) {
			c := w.startChain(started)
			started++
			if c != nil {
				if len(open) > 0 {
					w.sit("interleaved-chains")
				}
				open = append(open, c)
			}
		} else if len(open) > 0 {
			k := rng.IntN(len(open))
			c := open[k]
			if !w.stepChain(c) {
				open = append(open[:k], open[k+1:]...)
				w.finishChain(c)
			}
		}
		if len(open) == 0 && w.store != nil {
			w.writeBack()
		}
	}
	if w.cfg.Calc != "fallback" {
		for i, h := range w.store.handles {
			if h.released != 1 {
				w.violate("handle-release-count", fmt.Sprintf("released=%d", min(h.released, 2)), fmt.Sprintf("handle %d of the case was released %d times after all chains ended", i, h.released))
			}
		}
	}
}

// writeBack emulates the store writing a quiescent dirty message to the
// ISCC and reading it back later, and checks that what would be written is
// well formed.
func (w *choiceWorker) writeBack() {
	if w.cfg.Calc == "fallback" {
		return
	}
	dirty := false
	for _, h := range w.store.handles {
		if h.released > 0 && h.dirty {
			dirty = true
		}
	}
	if !dirty || w.rng.IntN(3) != 0 {
		return
	}
	b, err := proto.Marshal(w.store.msg)
	if err != nil {
		w.violate("stats-not-marshalable", "", err.Error())
		return
	}
	out := &iscc.PreviousExecutionStats{}
	if err := proto.Unmarshal(b, out); err != nil {
		w.violate("stats-not-unmarshalable", "", err.Error())
		return
	}
	w.store.msg = out
	w.count("choices:stats write-backs", 1)
}

func (w *choiceWorker) startChain(id int) *chain {
	rng := w.rng
	c := &chain{id: id}
	action := w.action()
	handlesBefore, getsBefore := len(w.store.handles), w.store.gets

	// Analyze failures: invalid timeout, store failure.
	switch x := rng.IntN(40); {
	case x == 0:
		action.Timeout = durationpb.New(w.cfg.MaxTimeout + time.Nanosecond)
	case x == 1:
		action.Timeout = durationpb.New(-time.Second)
	case x == 2:
		action.Timeout = &durationpb.Duration{Seconds: 1, Nanos: -1}
	case x == 3 && w.cfg.Calc != "fallback":
		w.store.getErr = status.Error(codes.Unavailable, "ISCC unreachable")
	}
	bad := action.Timeout != nil && (action.Timeout.CheckValid() != nil || action.Timeout.AsDuration() < 0 || action.Timeout.AsDuration() > w.cfg.MaxTimeout)
	storeFails := w.store.getErr != nil
	sel, err := w.analyzer.Analyze(context.Background(), choicesDigestFunction, action)
	w.count("choices:Analyze calls", 1)
	if bad || storeFails {
		w.store.getErr = nil
		if err == nil {
			what := "invalid-timeout"
			if !bad {
				what = "store-failure"
			}
			w.violate("analyze-accepted", "input="+what, fmt.Sprintf("Analyze succeeded for timeout=%v storeFails=%v", action.Timeout, storeFails))
			if sel != nil {
				sel.Abandoned()
			}
			return nil
		}
		if bad && w.store.gets != getsBefore {
			w.violate("analyze-store-access-before-validation", "", "the ISCC was read for an action whose timeout is invalid")
		}
		if len(w.store.handles) != handlesBefore {
			w.violate("handle-leak", "call=Analyze-error", "Analyze failed but kept a handle")
		}
		w.sit("analyze-error")
		w.step("chain %d: Analyze -> error %v", id, err)
		w.hist = append(w.hist, id, "AnalyzeError")
		return nil
	}
	if err != nil {
		w.violate("analyze-failed", "", fmt.Sprintf("Analyze failed for a valid action: %v", err))
		return nil
	}
	c.selector = sel
	if w.cfg.Calc != "fallback" {
		if len(w.store.handles) != handlesBefore+1 {
			w.violate("handle-count", "call=Analyze", fmt.Sprintf("Analyze obtained %d handles", len(w.store.handles)-handlesBefore))
			return nil
		}
		c.handle = w.store.handles[handlesBefore]
	}
	w.step("chain %d: Analyze ok", id)
	return c
}

// checkChoice applies the range oracles to one (index, expected duration,
// timeout) triple.
func (w *choiceWorker) checkChoice(call, kind string, idx, n int, expected, timeout time.Duration, checkIdx bool) {
	own := w.cfg.Own
	facts := fmt.Sprintf("call=%s learner=%s", call, kind)
	if checkIdx && (idx < 0 || idx >= n) {
		w.violate("index-out-of-range", facts, fmt.Sprintf("size class index %d with %d size classes", idx, n))
	}
	if timeout < 0 || timeout > own {
		w.violate("timeout-out-of-range", facts, fmt.Sprintf("timeout %s outside [0,%s]", timeout, own))
	}
	if expected < 0 && !w.cfg.NegativeStored {
		w.violate("expected-duration-negative", facts, fmt.Sprintf("expected duration %s", expected))
	}
}

func (w *choiceWorker) checkHandle(c *chain, call string, wantReleased bool, wantDirty bool) {
	if c.handle == nil {
		return
	}
	h := c.handle
	facts := fmt.Sprintf("call=%s learner=%s", call, c.kind)
	if c.kind == "" {
		facts = "call=" + call
	}
	switch {
	case wantReleased && h.released == 0:
		w.violate("handle-leak", facts, "the chain ended but its ISCC handle was not released")
	case wantReleased && h.released > 1:
		w.violate("handle-released-twice", facts, fmt.Sprintf("released %d times", h.released))
	case !wantReleased && h.released > 0:
		w.violate("handle-released-early", facts, "the handle was released although the chain continues with another learner")
	case wantReleased && h.dirty != wantDirty:
		w.violate("handle-dirty-flag", facts+fmt.Sprintf(" want=%v", wantDirty), fmt.Sprintf("Release(%v), want Release(%v): recorded statistics would be %s", h.dirty, wantDirty, map[bool]string{true: "written without a change", false: "dropped"}[wantDirty]))
	}
	if h.useAfterRelease > 0 {
		w.violate("handle-used-after-release", facts, "GetMutableProto called on a released handle")
		h.useAfterRelease = 0
	}
}

// checkDelta compares the stored message before and after a call with what
// the reference model says the call records.
func (w *choiceWorker) checkDelta(c *chain, call string, before statsSnapshot, appended []appendExp, wantFailureStamp bool) {
	after := snapshotOf(w.store.msg)
	facts := fmt.Sprintf("call=%s learner=%s", call, c.kind)
	if c.kind == "" {
		facts = "call=" + call
	}
	want := map[uint32]classSnap{}
	touched := map[uint32]bool{}
	for cl, es := range before.classes {
		want[cl] = es
	}
	perClass := map[uint32][]entry{}
	for _, a := range appended {
		perClass[a.class] = append(perClass[a.class], a.e)
	}
	for cl, es := range perClass {
		base, ok := want[cl]
		if !ok {
			base = classSnap{h: 14695981039346656037}
		}
		want[cl] = base.appendTo(es, w.cfg.HistorySize)
		touched[cl] = true
		switch total := base.n + len(es); {
		case base.n == w.cfg.HistorySize:
			w.sit("append-to-full-history")
		case total == w.cfg.HistorySize:
			w.sit("append-fills-history-exactly")
		case total > w.cfg.HistorySize:
			w.sit("append-to-overfull-history")
		}
	}
	seen := map[uint32]bool{}
	for cl, es := range after.classes {
		seen[cl] = true
		wc, ok := want[cl]
		if !ok {
			wc = classSnap{h: 14695981039346656037}
		}
		if !es.equal(wc) {
			rule := "recorded-stats-mismatch"
			if touched[cl] && es.n > w.cfg.HistorySize {
				rule = "history-not-bounded"
			}
			w.violate(rule, facts, fmt.Sprintf("size class %d: stored %s, reference model %s (history size %d, before the call %s)", cl, es, wc, w.cfg.HistorySize, before.classes[cl]))
		}
	}
	for cl, es := range want {
		if !seen[cl] && es.n > 0 {
			w.violate("recorded-stats-mismatch", facts, fmt.Sprintf("size class %d disappeared from the stored message (%s)", cl, es))
		}
	}
	wantLSF := before.lsf
	if wantFailureStamp {
		wantLSF = tsKey(timestamppb.New(w.clock.Now()))
		w.stamped = true
	}
	if after.lsf != wantLSF {
		w.violate("last-seen-failure-mismatch", facts, fmt.Sprintf("last_seen_failure = %s, reference model %s", after.lsf, wantLSF))
	}
	w.checkWrittenProbabilities(before.probs, after, call)
}

func (w *choiceWorker) mutateClasses(orig []uint32) []uint32 {
	rng := w.rng
	n := len(orig)
	if n == 1 || rng.IntN(10) < 6 {
		return append([]uint32(nil), orig...)
	}
	largest := orig[n-1]
	set := map[uint32]bool{}
	for _, c := range orig[:n-1] {
		if rng.IntN(3) != 0 {
			set[c] = true
		}
	}
	for k := rng.IntN(3); k > 0; k-- {
		if largest > 1 {
			set[1+uint32(rng.Uint64N(uint64(largest-1)))] = true
		}
	}
	out := make([]uint32, 0, len(set)+1)
	for c := range set {
		if c >= 1 && c < largest {
			out = append(out, c)
		}
	}
	sort.Slice(out, func(i, j int) bool { return out[i] < out[j] })
	if len(out) > 5 {
		out = out[len(out)-5:]
	}
	return append(out, largest)
}

func (w *choiceWorker) nextDuration() time.Duration {
	rng := w.rng
	switch rng.IntN(12) {
	case 0:
		return 0
	case 1:
		return 1000 * time.Hour
	}
	w.durSeq++
	// Unique within the case so that the recorded sample is identifiable.
	return time.Duration(rng.Int64N(int64(2*w.cfg.Own)/1000+2))*1000 + time.Duration(w.durSeq%1000)
}

func containsClass(cs []uint32, c uint32) int {
	for i, x := range cs {
		if x == c {
			return i
		}
	}
	return -1
}

// stepChain performs the next call of chain c. It returns false once the
// chain has ended.
func (w *choiceWorker) stepChain(c *chain) bool {
	rng := w.rng
	fb := w.cfg.Calc == "fallback"
	var before statsSnapshot
	if !fb {
		before = snapshotOf(w.store.msg)
	}

	if c.learner == nil {
		// Selector stage.
		if rng.IntN(12) == 0 {
			c.selector.Abandoned()
			w.count("choices:selector calls", 1)
			w.sit("selector.Abandoned")
			w.step("chain %d: selector.Abandoned", c.id)
			w.hist = append(w.hist, c.id, "SelAbandoned")
			if !fb {
				w.checkDelta(c, "Selector.Abandoned", before, nil, false)
				w.checkHandle(c, "Selector.Abandoned", true, false)
			}
			return false
		}
		classes := append([]uint32(nil), w.cfg.SizeClasses...)
		var rv float64
		switch rng.IntN(6) {
		case 0:
			rv = 0
		case 1:
			rv = math.Nextafter(1, 0)
		default:
			rv = rng.Float64()
		}
		if !fb {
			w.srng.next = &rv
		}
		idx, exp, to, l := c.selector.Select(classes)
		w.count("choices:selector calls", 1)
		if !fb {
			w.srng.next = nil
		}
		w.sit("selector.Select")
		n := len(classes)
		kind := "nil"
		if l != nil {
			kind = kindOf(l)
		}
		w.step("chain %d: Select(%v, r=%v) -> idx=%d expected=%s timeout=%s learner=%s", c.id, classes, rv, idx, exp, to, kind)
		w.hist = append(w.hist, c.id, "Select", kind, idx, n)
		w.checkChoice("Select", kind, idx, n, exp, to, true)
		if l == nil {
			w.violate("nil-learner", "call=Select", "Select returned no learner")
			return false
		}
		if idx < 0 || idx >= n {
			// Cannot continue this chain meaningfully.
			l.Abandoned()
			return false
		}
		c.learner, c.kind, c.classes, c.runIdx, c.runTO = l, kind, classes, idx, to
		c.largestClass = classes[n-1]
		switch kind {
		case "smallerForegroundLearner":
			c.smallerClass, c.smallerTimeout = classes[idx], to
		case "largestBackgroundLearner", "largestLearner":
			if idx != n-1 {
				w.violate("learner-index-mismatch", "call=Select learner="+kind, fmt.Sprintf("%s returned with index %d of %d", kind, idx, n))
			}
			if to != w.cfg.Own {
				w.sit("largest-timeout-differs-from-own")
			}
		case "smallerFallbackLearner", "largestFallbackLearner":
		default:
			w.sit("unknown-learner-kind")
		}
		if !fb {
			w.checkDelta(c, "Select", before, nil, false)
			w.checkHandle(c, "Select", false, false)
			if ts := w.store.msg.GetLastSeenFailure(); ts.CheckValid() == nil {
				expiry := ts.AsTime().Add(w.cfg.FailureCache)
				now := w.clock.Now()
				active := !now.After(expiry)
				if active {
					w.sit("failure-cache-active")
				}
				if d := now.Sub(expiry); d >= -1 && d <= 1 {
					w.sit("failure-cache-expiry-boundary")
				}
				if w.stamped && active {
					w.sit("select-while-recorded-failure-cached")
				} else if w.stamped {
					w.sit("select-after-recorded-failure-expired")
				}
			}
		}
		return true
	}

	// Learner stage.
	kind := c.kind
	n := len(c.classes)
	onLargest := c.runIdx == n-1
	switch x := rng.IntN(100); {
	case x < 45:
		d := w.nextDuration()
		classes2 := w.mutateClasses(c.classes)
		idx2, exp2, to2, l2 := c.learner.Succeeded(d, classes2)
		w.count("choices:learner calls", 1)
		w.sit(kind + ".Succeeded")
		c.terminals++
		w.reached = true
		kind2 := "nil"
		if l2 != nil {
			kind2 = kindOf(l2)
		}
		w.step("chain %d: %s.Succeeded(%s, %v) -> idx=%d expected=%s timeout=%s learner=%s", c.id, kind, d, classes2, idx2, exp2, to2, kind2)
		w.hist = append(w.hist, c.id, kind, "Succeeded", kind2, idx2, len(classes2))
		var appended []appendExp
		switch kind {
		case "smallerForegroundLearner":
			appended = []appendExp{{c.smallerClass, entryFromDuration('S', d)}}
		case "largestForegroundLearner":
			appended = []appendExp{{c.smallerClass, c.pending}, {c.largestClass, entryFromDuration('S', d)}}
			if c.smallerClass == c.largestClass {
				w.sit("retry-on-same-class-succeeded")
			}
		case "largestBackgroundLearner", "largestLearner":
			appended = []appendExp{{c.largestClass, entryFromDuration('S', d)}}
		case "smallerBackgroundLearner":
			appended = []appendExp{{c.smallerClass, entryFromDuration('S', d)}}
		}
		if l2 != nil {
			// Background learning requested.
			c.backgrounds++
			w.checkChoice("Succeeded", kind, idx2, len(classes2), exp2, to2, true)
			if c.backgrounds > 1 || kind != "largestBackgroundLearner" {
				w.violate("unexpected-background-run", "learner="+kind, fmt.Sprintf("Succeeded on %s returned learner %s (background runs of this chain: %d)", kind, kind2, c.backgrounds))
			}
			if idx2 < 0 || idx2 >= len(classes2) {
				l2.Abandoned()
				return false
			}
			if !fb {
				w.checkDelta(c, "Succeeded", before, appended, false)
				w.checkHandle(c, "Succeeded", false, false)
			}
			c.learner, c.kind, c.classes, c.runIdx, c.runTO = l2, kind2, classes2, idx2, to2
			c.smallerClass, c.smallerTimeout = classes2[idx2], to2
			if idx2 == len(classes2)-1 {
				w.sit("background-run-on-largest")
			}
			return true
		}
		if kind == "largestBackgroundLearner" {
			w.sit("background-smaller-class-gone")
			if !fb && containsClass(classes2, c.largestClass) < 0 {
				w.sit("largest-class-changed")
			}
		}
		if !fb {
			w.checkDelta(c, "Succeeded", before, appended, false)
			w.checkHandle(c, "Succeeded", true, true)
		}
		return false

	case x < 85:
		to := rng.IntN(2) == 0
		exp2, to2, l2 := c.learner.Failed(to)
		w.count("choices:learner calls", 1)
		w.sit(kind + ".Failed")
		c.terminals++
		w.reached = true
		kind2 := "nil"
		if l2 != nil {
			kind2 = kindOf(l2)
		}
		w.step("chain %d: %s.Failed(timedOut=%v) -> expected=%s timeout=%s learner=%s", c.id, kind, to, exp2, to2, kind2)
		w.hist = append(w.hist, c.id, kind, "Failed", to, kind2)
		if l2 != nil {
			c.retries++
			w.checkChoice("Failed", kind, 0, 0, exp2, to2, false)
			if c.retries > 1 {
				w.violate("retried-more-than-once", "learner="+kind, fmt.Sprintf("a second failure of the same chain asked for yet another run (learner %s)", kind2))
				l2.Abandoned()
				return false
			}
			if kind == "smallerBackgroundLearner" || kind == "largestBackgroundLearner" || kind == "largestLearner" || kind == "largestFallbackLearner" {
				w.violate("unexpected-retry", "learner="+kind, fmt.Sprintf("Failed on %s returned learner %s", kind, kind2))
			}
			if !fb {
				w.checkDelta(c, "Failed", before, nil, false)
				w.checkHandle(c, "Failed", false, false)
			}
			c.pending = entry{kind: 'F'}
			if to {
				c.pending = entryFromDuration('T', c.smallerTimeout)
			}
			c.learner, c.kind = l2, kind2
			c.runIdx, c.runTO = n-1, to2
			return true
		}
		// Definitive failure.
		if !onLargest && kind != "smallerBackgroundLearner" {
			w.violate("no-retry-on-largest", "learner="+kind, fmt.Sprintf("a foreground failure on size class index %d of %d was not retried on the largest size class", c.runIdx, n))
		}
		if !fb {
			var appended []appendExp
			stamp := true
			if kind == "smallerBackgroundLearner" {
				stamp = false
				e := entry{kind: 'F'}
				if to {
					e = entryFromDuration('T', c.smallerTimeout)
				}
				appended = []appendExp{{c.smallerClass, e}}
			}
			w.checkDelta(c, "Failed", before, appended, stamp)
			w.checkHandle(c, "Failed", true, true)
		}
		return false

	default:
		c.learner.Abandoned()
		w.count("choices:learner calls", 1)
		w.sit(kind + ".Abandoned")
		c.terminals++
		w.reached = true
		w.step("chain %d: %s.Abandoned", c.id, kind)
		w.hist = append(w.hist, c.id, kind, "Abandoned")
		if !fb {
			w.checkDelta(c, "Abandoned", before, nil, false)
			// Only the background learner on the smaller class has
			// something to persist (the sample of the largest class).
			w.checkHandle(c, "Abandoned", true, kind == "smallerBackgroundLearner")
		}
		return false
	}
}

func (w *choiceWorker) finishChain(c *chain) {
	if c.terminals > 3 {
		w.violate("chain-too-long", "", fmt.Sprintf("%d learner calls in one chain", c.terminals))
	}
}

// ---------------------------------------------------------------------
// Driver with termination watchdog
// ---------------------------------------------------------------------

// runChoices returns false if a case hung: worker goroutines are then still
// spinning inside the code under test and the rest of the process is starved.
func runChoices(r *ev.Run) bool {
	r.Assume("choices: the scheduler keeps the largest size class of a platform queue fixed (predeclared) and only adds/removes smaller ones between Select and Succeeded; size class lists are strictly increasing and do not contain 0 unless they have one element (RegisterPredeclaredPlatformQueue enforces both)")
	r.Assume("choices: calculator parameters are sane configuration (minimum timeout >= 0, multiplier >= 1, convergence error > 0); only stored statistics, size class lists, action timeouts and outcome sequences are hostile")
	r.Assume("choices: stored statistics are wire-expressible (every generated message is marshalled and unmarshalled before use)")
	r.Assume("choices: expected durations are required to be non-negative only when no stored duration is negative or overflowing; the property statement does not bound expected durations")
	r.Assume("choices: a strategy list of length n (instead of n-1) is accepted in the one corner the upstream test UnknownExpectedDuration/8 documents (no success on the largest class, all smaller classes sampled)")

	t0 := time.Now()
	defer func() { r.Count("choices:wall_ms", int(time.Since(t0).Milliseconds())) }()
	// The workload allocates many small messages; under the race detector
	// the collector dominates otherwise.
	defer debug.SetGCPercent(debug.SetGCPercent(400))
	total := r.Pick(20000, 200000)
	nWorkers := 12
	workers := make([]*choiceWorker, nWorkers)
	for i := range workers {
		workers[i] = &choiceWorker{r: r, id: i, clock: vclock.New(1700000000 + int64(i)*1000)}
		workers[i].curCase.Store(-1)
	}
	var next atomic.Int64
	var wg sync.WaitGroup
	done := make(chan struct{})
	for _, w := range workers {
		wg.Add(1)
		go func(w *choiceWorker) {
			defer wg.Done()
			for {
				i := int(next.Add(1) - 1)
				if i >= total {
					return
				}
				w.runCase(i)
			}
		}(w)
	}
	go func() { wg.Wait(); close(done) }()

	// Termination watchdog (wall clock; can only yield inconclusive or,
	// with three dumps showing the same /repo function spinning, a hang).
	tick := time.NewTicker(2 * time.Second)
	defer tick.Stop()
	for {
		select {
		case <-done:
			declareChoiceFloors(r)
			return true
		case <-tick.C:
			for _, w := range workers {
				ci := w.curCase.Load()
				if ci < 0 || time.Since(time.Unix(0, w.since.Load())) < 30*time.Second {
					continue
				}
				fn, dumps := spinningRepoFunction(3, 2*time.Second)
				if w.curCase.Load() != ci {
					continue
				}
				if fn != "" {
					r.Violation("C07 choices hang fn="+fn, fmt.Sprintf("case %d made no progress for more than 36 s; three goroutine dumps 2 s apart show a goroutine running inside %s", ci, fn),
						map[string]any{"monitor": "choices", "case": ci, "dumps": dumps})
				} else {
					r.Inconclusive("choices: case %d did not finish within the watchdog and the goroutine dumps do not show a /repo function spinning", ci)
				}
				return false
			}
		}
	}
}

// spinningRepoFunction takes k goroutine dumps and returns the innermost
// initialsizeclass function that appears in all of them.
func spinningRepoFunction(k int, gap time.Duration) (string, []string) {
	var dumps []string
	common := map[string]int{}
	for i := 0; i < k; i++ {
		buf := make([]byte, 1<<20)
		buf = buf[:runtime.Stack(buf, true)]
		dumps = append(dumps, truncate(string(buf), 20000))
		seen := map[string]bool{}
		for _, g := range strings.Split(string(buf), "\n\n") {
			if fn := firstRepoFrame(g); fn != "" && strings.Contains(fn, "initialsizeclass") {
				seen[fn] = true
			}
		}
		for fn := range seen {
			common[fn]++
		}
		if i < k-1 {
			time.Sleep(gap)
		}
	}
	for fn, c := range common {
		if c == k {
			return fn, dumps
		}
	}
	return "", dumps
}

func declareChoiceFloors(r *ev.Run) {
	for _, k := range learnerKinds {
		for _, call := range []string{"Succeeded", "Failed", "Abandoned"} {
			r.Floor("choices:"+k+"."+call, 20)
		}
	}
	r.Floor("choices:selector.Abandoned", 100)
	r.Floor("choices:selector.Select", 5000)
	for n := 1; n <= 6; n++ {
		r.Floor(fmt.Sprintf("choices:size-classes=%d", n), 300)
	}
	for _, o := range []string{"hostile-probability", "unknown-size-class", "extreme-duration", "huge-history", "failure-recent", "failure-invalid-timestamp"} {
		r.Floor("choices:overlay="+o, 50)
	}
	r.Floor("choices:n-strategies-corner", 20)
	r.Floor("choices:strategy-background", 200)
	r.Floor("choices:background-smaller-class-gone", 10)
	r.Floor("choices:interleaved-chains", 500)
	r.Floor("choices:failure-cache-active", 100)
	r.Floor("choices:analyze-error", 100)
	for _, o := range []string{"timeout-at-minimum", "failure-at-expiry", "history-at-capacity"} {
		r.Floor("choices:overlay="+o, 200)
	}
	r.Floor("choices:append-to-full-history", 500)
	r.Floor("choices:append-fills-history-exactly", 300)
	r.Floor("choices:append-to-overfull-history", 50)
	r.Floor("choices:failure-cache-expiry-boundary", 100)
	r.Floor("choices:select-while-recorded-failure-cached", 300)
	r.Floor("choices:select-after-recorded-failure-expired", 300)
	r.Floor("choices:retry-on-same-class-succeeded", 20)
}

func replayChoices(r *ev.Run, i int) {
	w := &choiceWorker{r: r, clock: vclock.New(1700000000)}
	w.curCase.Store(-1)
	w.runCase(i)
}
