package c07

// Monitor 3 of C07: persistence of BlobAccessMutableProtoStore.
//
// The real store runs over the fake ISCC of store_fake_test.go. Clients do
// Get -> (under the one global mutex the MutableProtoStore API demands)
// append a unique marker -> Release(dirty) or read -> Release(clean) on 2-3
// digests while writes of earlier versions are held in flight, fail, are
// cancelled or overlap; then a fault-free drain (Gets on fresh digests until
// a Get performs no write). Stepped rounds follow schedule templates whose
// parameters come from the PRNG; stress rounds are truly concurrent.
//
// Oracles: every applied Put of a digest extends the previous one (no
// regression); after the drain the stored message is exactly the markers
// released dirty, once each, in append order; handles created = destroyed
// and queued = dequeued (Prometheus counters) and no handle survives the
// drain (behavioural probe); every history is linearizable with respect to
// a register-with-append model (porcupine, 20 s cap).

import (
	"context"
	"fmt"
	"math/rand/v2"
	"runtime"
	"strconv"
	"strings"
	"sync"
	"sync/atomic"
	"time"

	"github.com/anishathalye/porcupine"
	remoteexecution "github.com/bazelbuild/remote-apis/build/bazel/remote/execution/v2"
	re_blobstore "github.com/buildbarn/bb-remote-execution/pkg/blobstore"
	"github.com/buildbarn/bb-storage/pkg/digest"
	"github.com/buildbarn/bb-storage/pkg/proto/iscc"
	"github.com/prometheus/client_golang/prometheus"

	"verif/internal/ev"
)

const ruleStore = "store: round j = one history of the real BlobAccessMutableProtoStore over a gated/failing fake ISCC, from PRNG(seed, 3, j): " +
	"stepped schedule templates {dirty-release-during-write, overlapping-writes, read-racing-destruction (one or two racing readers), write-failure-retry, cancelled-write, queue-churn, get-fails-with-existing-handle, release-orders (3 holders x every order x every dirty mask, enumerated), long-queue (more than 3 queued)} " +
	"with PRNG-chosen variants, and concurrent stress rounds (3-8 clients, 2-3 of 5 digests, injected Put/Get failures and delays, GOMAXPROCS varied); " +
	"non-trivial = a dirty release happened while a write of the same digest was in flight, a write failed and was retried, or a Get raced a handle's destruction; " +
	"distinct = hash of the per-digest applied Put sequences relative to the append order plus the store-level event order"

const storeStream = 3

type handleT = re_blobstore.MutableProtoHandle[*iscc.PreviousExecutionStats]

type markerRec struct {
	marker int64
	client int
}

// storeRound is one history.
type storeRound struct {
	r        *ev.Run
	idx      int
	rng      *rand.Rand
	schedule string
	variant  string
	fake     *fakeISCC
	store    re_blobstore.MutableProtoStore[*iscc.PreviousExecutionStats]

	global    sync.Mutex // the global lock of the MutableProtoStore API
	markerSeq int64
	appended  map[string][]markerRec // per digest, append order (guarded by global)
	preloaded map[string][]int64

	ts     atomic.Int64 // logical clock of the history
	mu     sync.Mutex   // guards ops, events, sits
	ops    []porcupine.Operation
	events []string
	sits   map[string]int
	freshN int
	digs   []digest.Digest

	inconclusive bool
}

type regInput struct {
	key    string
	kind   int // 0 append, 1 read, 2 final read
	marker int64
}

func seqString(ms []int64) string {
	parts := make([]string, len(ms))
	for i, m := range ms {
		parts[i] = strconv.FormatInt(m, 10)
	}
	return strings.Join(parts, ",")
}

var registerModel = porcupine.Model{
	Partition: func(history []porcupine.Operation) [][]porcupine.Operation {
		byKey := map[string][]porcupine.Operation{}
		var keys []string
		for _, op := range history {
			k := op.Input.(regInput).key
			if _, ok := byKey[k]; !ok {
				keys = append(keys, k)
			}
			byKey[k] = append(byKey[k], op)
		}
		out := make([][]porcupine.Operation, 0, len(keys))
		for _, k := range keys {
			out = append(out, byKey[k])
		}
		return out
	},
	Init: func() interface{} { return "" },
	Step: func(state, input, output interface{}) (bool, interface{}) {
		st, in, observed := state.(string), input.(regInput), output.(string)
		if observed != st {
			return false, st
		}
		if in.kind == 0 {
			if st == "" {
				return true, strconv.FormatInt(in.marker, 10)
			}
			return true, st + "," + strconv.FormatInt(in.marker, 10)
		}
		return true, st
	},
	Equal: func(a, b interface{}) bool { return a.(string) == b.(string) },
	DescribeOperation: func(input, output interface{}) string {
		in := input.(regInput)
		return fmt.Sprintf("%s(%s,%d) saw [%s]", [...]string{"append", "read", "final"}[in.kind], short(in.key), in.marker, output.(string))
	},
}

func (rd *storeRound) eventf(format string, args ...any) {
	rd.mu.Lock()
	if len(rd.events) < 400 {
		rd.events = append(rd.events, fmt.Sprintf("%d ", rd.ts.Add(1))+fmt.Sprintf(format, args...))
	}
	rd.mu.Unlock()
}

func (rd *storeRound) sit(name string) {
	rd.mu.Lock()
	rd.sits["store:"+name]++
	rd.mu.Unlock()
}

func (rd *storeRound) dig(i int) digest.Digest { return rd.digs[i] }

func mkDigest(round, n int) digest.Digest {
	return digest.MustNewDigest("c07", remoteexecution.DigestFunction_MD5, fmt.Sprintf("%020x%06x%06x", 0xc07, round&0xffffff, n), 100)
}

func (rd *storeRound) fresh() digest.Digest {
	rd.mu.Lock()
	rd.freshN++
	n := rd.freshN
	rd.mu.Unlock()
	return mkDigest(rd.idx, 0x1000+n)
}

func (rd *storeRound) witness(extra map[string]any) map[string]any {
	rd.fake.mu.Lock()
	backend := append([]string(nil), rd.fake.events...)
	applied := map[string][]string{}
	for k, prs := range rd.fake.applied {
		for _, pr := range prs {
			applied[short(k)] = append(applied[short(k)], fmt.Sprintf("[%s] %s", seqString(pr.markers), pr.outcome))
		}
	}
	rd.fake.mu.Unlock()
	rd.mu.Lock()
	evs := append([]string(nil), rd.events...)
	rd.mu.Unlock()
	w := map[string]any{
		"monitor": "store", "case": rd.idx, "schedule": rd.schedule, "variant": rd.variant,
		"client_events": evs, "backend_events": backend, "applied_puts_per_digest": applied,
		"replay": "VERIF_SEED=<seed> ./check C07 quick --replay <this file> re-runs this round (stepped rounds are deterministic; stress rounds re-run the same workload under the Go scheduler)",
	}
	for k, v := range extra {
		w[k] = v
	}
	return w
}

func (rd *storeRound) violate(rule, detail string, extra map[string]any) {
	sig := fmt.Sprintf("C07 store %s schedule=%s", rule, rd.schedule)
	rd.r.Violation(sig, detail, rd.witness(map[string]any{"detail": detail, "extra": extra}))
}

// ---------------------------------------------------------------------
// Client primitives
// ---------------------------------------------------------------------

type heldHandle struct {
	rd       *storeRound
	client   int
	d        digest.Digest
	key      string
	h        handleT
	call     int64
	observed []int64
	marker   int64
	viewed   bool
}

// get calls the real store without holding any lock, as the API requires.
func (rd *storeRound) get(client int, d digest.Digest) (*heldHandle, error) {
	key := digestKey(d)
	call := rd.ts.Add(1)
	rd.eventf("c%d Get(%s) call", client, short(key))
	h, err := rd.store.Get(context.Background(), d)
	if err != nil {
		rd.eventf("c%d Get(%s) -> error %v", client, short(key), err)
		return nil, err
	}
	rd.eventf("c%d Get(%s) -> handle", client, short(key))
	return &heldHandle{rd: rd, client: client, d: d, key: key, h: h, call: call}, nil
}

// view reads the shared message under the global lock and, if asked,
// appends a fresh unique marker.
func (hh *heldHandle) view(doAppend bool) {
	rd := hh.rd
	rd.global.Lock()
	msg := hh.h.GetMutableProto()
	if !hh.viewed {
		hh.observed = append([]int64(nil), markersOf(msg)...)
		hh.viewed = true
	}
	if doAppend && hh.marker == 0 {
		rd.markerSeq++
		hh.marker = int64(rd.idx%1000)*1000000 + rd.markerSeq
		appendMarker(msg, hh.marker)
		rd.appended[hh.key] = append(rd.appended[hh.key], markerRec{hh.marker, hh.client})
	}
	rd.global.Unlock()
	if doAppend && rd.fake.putInFlight(hh.key) {
		rd.sit("update-during-write-in-flight")
	}
	rd.fake.progress.Add(1)
	rd.eventf("c%d view(%s) saw [%s] appended %d", hh.client, short(hh.key), seqString(hh.observed), hh.marker)
}

// release releases the handle (dirty iff a marker was appended) under the
// global lock and records the operation for the history checker.
func (hh *heldHandle) release() {
	rd := hh.rd
	if !hh.viewed {
		hh.view(false)
	}
	dirty := hh.marker != 0
	during := dirty && rd.fake.putInFlight(hh.key)
	rd.global.Lock()
	hh.h.Release(dirty)
	rd.global.Unlock()
	rd.fake.progress.Add(1)
	ret := rd.ts.Add(1)
	if during {
		rd.sit("dirty-release-during-write-in-flight")
	}
	rd.eventf("c%d Release(%s, dirty=%v)", hh.client, short(hh.key), dirty)
	kind := 1
	if dirty {
		kind = 0
	}
	rd.mu.Lock()
	rd.ops = append(rd.ops, porcupine.Operation{
		ClientId: hh.client, Input: regInput{hh.key, kind, hh.marker}, Call: hh.call, Output: seqString(hh.observed), Return: ret,
	})
	rd.mu.Unlock()
}

// use is Get + view + release in one go.
func (rd *storeRound) use(client int, d digest.Digest, doAppend bool) error {
	hh, err := rd.get(client, d)
	if err != nil {
		return err
	}
	hh.view(doAppend)
	hh.release()
	return nil
}

type pendingGet struct {
	done chan struct{}
	hh   *heldHandle
	err  error
}

func (rd *storeRound) goGet(client int, d digest.Digest) *pendingGet {
	p := &pendingGet{done: make(chan struct{})}
	go func() {
		defer close(p.done)
		p.hh, p.err = rd.get(client, d)
	}()
	return p
}

// gatePut / gateGet install a one-shot parking rule.
func (rd *storeRound) gatePut(d digest.Digest) *gate {
	g := newGate("put " + short(digestKey(d)))
	rd.fake.addRule(&rule{kind: "put", key: digestKey(d), gate: g})
	return g
}

func (rd *storeRound) gateGet(d digest.Digest, readAtArrival bool) *gate {
	g := newGate("get " + short(digestKey(d)))
	rd.fake.addRule(&rule{kind: "get", key: digestKey(d), gate: g, readAtArrival: readAtArrival})
	return g
}

func (rd *storeRound) failNext(kind string, d digest.Digest, o opOutcome) {
	rd.fake.addRule(&rule{kind: kind, key: digestKey(d), outcome: o})
}

const stepWatchdog = 30 * time.Second

// await waits until gate g is reached. It returns false if the call that
// was supposed to reach it finished first (the code under test did not do
// what the template expected; the round still drains and is judged).
func (rd *storeRound) await(g *gate, p *pendingGet) bool {
	select {
	case <-g.arrived:
		return true
	case <-p.done:
		// Both may be ready: prefer the gate.
		select {
		case <-g.arrived:
			return true
		default:
		}
		rd.fake.cancelGate(g)
		rd.sit("template-gate-not-reached")
		rd.eventf("gate %s not reached: the call finished first", g.name)
		return false
	case <-time.After(stepWatchdog):
		rd.fake.cancelGate(g)
		rd.hang("gate " + g.name + " neither reached nor the call finished")
		return false
	}
}

func (p *pendingGet) wait(rd *storeRound) (*heldHandle, error) {
	select {
	case <-p.done:
	case <-time.After(stepWatchdog):
		rd.hang("store.Get did not return after all its backend calls were released")
		return nil, fmt.Errorf("hang")
	}
	return p.hh, p.err
}

// hang applies the hang policy: a violation only if the dump shows a store
// goroutine blocked on the store mutex; otherwise inconclusive.
func (rd *storeRound) hang(what string) {
	buf := make([]byte, 1<<20)
	buf = buf[:runtime.Stack(buf, true)]
	dump := string(buf)
	blocked := false
	for _, g := range strings.Split(dump, "\n\n") {
		if strings.Contains(g, "pkg/blobstore.(*blobAccessMutableProto") && strings.Contains(g, "sync.(*Mutex).Lock") {
			blocked = true
		}
	}
	rd.inconclusive = true
	if blocked {
		rd.violate("hang", what+": a store goroutine is blocked on the store mutex", map[string]any{"dump": truncate(dump, 30000)})
	} else {
		rd.r.Inconclusive("store round %d (%s): %s; dump shows no store goroutine blocked on a lock", rd.idx, rd.schedule, what)
	}
}

// ---------------------------------------------------------------------
// Drain and oracles
// ---------------------------------------------------------------------

type storeCounterValues struct{ created, destroyed, queued, dequeued float64 }

func readStoreCounters() storeCounterValues {
	var v storeCounterValues
	mfs, err := prometheus.DefaultGatherer.Gather()
	if err != nil {
		return v
	}
	for _, mf := range mfs {
		if len(mf.Metric) == 0 || mf.Metric[0].Counter == nil {
			continue
		}
		x := mf.Metric[0].Counter.GetValue()
		switch mf.GetName() {
		case "buildbarn_blobstore_blob_access_mutable_proto_handles_created_total":
			v.created = x
		case "buildbarn_blobstore_blob_access_mutable_proto_handles_destroyed_total":
			v.destroyed = x
		case "buildbarn_blobstore_blob_access_mutable_proto_handles_queued_total":
			v.queued = x
		case "buildbarn_blobstore_blob_access_mutable_proto_handles_dequeued_total":
			v.dequeued = x
		}
	}
	return v
}

// drain performs fault-free Gets on fresh digests until one of them causes
// no write. Returns false if that does not happen within the bound.
func (rd *storeRound) drain() bool {
	rd.fake.clearRules()
	for i := 0; i < 30; i++ {
		before := rd.fake.putCalls.Load()
		hh, err := rd.get(90, rd.fresh())
		if err != nil {
			rd.violate("drain-get-failed", fmt.Sprintf("a Get with a fault-free backend failed: %v", err), nil)
			return false
		}
		hh.release()
		if rd.fake.putCalls.Load() == before {
			return true
		}
	}
	rd.violate("drain-not-converging", "30 fault-free Gets on fresh digests each still caused writes", nil)
	return false
}

func isPrefix(a, b []int64) bool {
	if len(a) > len(b) {
		return false
	}
	for i := range a {
		if a[i] != b[i] {
			return false
		}
	}
	return true
}

// verify runs all end-of-round oracles. c0 are the counters at round start.
func (rd *storeRound) verify(c0 storeCounterValues) {
	if rd.inconclusive {
		return
	}
	drained := rd.drain()
	c1 := readStoreCounters()

	rd.global.Lock()
	appended := map[string][]markerRec{}
	for k, v := range rd.appended {
		appended[k] = append([]markerRec(nil), v...)
	}
	rd.global.Unlock()

	keys := map[string]bool{}
	for k := range appended {
		keys[k] = true
	}
	for k := range rd.preloaded {
		keys[k] = true
	}

	// (a) applied Puts never regress.
	rd.fake.mu.Lock()
	appliedAll := map[string][]putRecord{}
	for k, v := range rd.fake.applied {
		appliedAll[k] = append([]putRecord(nil), v...)
	}
	rd.fake.mu.Unlock()
	for k, prs := range appliedAll {
		for i := 1; i < len(prs); i++ {
			if !isPrefix(prs[i-1].markers, prs[i].markers) {
				rd.violate("put-regression", fmt.Sprintf("digest %s: the stored message [%s] was overwritten with [%s], which does not extend it", short(k), seqString(prs[i-1].markers), seqString(prs[i].markers)), nil)
				break
			}
		}
	}

	// (b) final content = preloaded + every marker released dirty, once, in append order.
	if drained {
		for k := range keys {
			want := append([]int64(nil), rd.preloaded[k]...)
			for _, m := range appended[k] {
				want = append(want, m.marker)
			}
			got, _ := rd.fake.stored(k)
			if seqString(got) != seqString(want) {
				rule := "final-content-mismatch"
				gotSet := map[int64]int{}
				for _, m := range got {
					gotSet[m]++
				}
				var missing []int64
				dup := false
				for _, m := range want {
					if gotSet[m] == 0 {
						missing = append(missing, m)
					}
					if gotSet[m] > 1 {
						dup = true
					}
				}
				switch {
				case len(missing) > 0:
					rule = "lost-update"
				case dup:
					rule = "duplicated-update"
				}
				rd.violate(rule, fmt.Sprintf("digest %s after the drain: stored [%s], released dirty in this order [%s], missing [%s]", short(k), seqString(got), seqString(want), seqString(missing)), nil)
			}
		}
	}

	// (c) conservation of handles.
	if drained {
		if d := (c1.created - c0.created) - (c1.destroyed - c0.destroyed); d != 0 {
			rd.violate("handle-conservation", fmt.Sprintf("handles created %v, destroyed %v during the round (after the drain nothing is referenced or dirty)", c1.created-c0.created, c1.destroyed-c0.destroyed), nil)
		}
		if d := (c1.queued - c0.queued) - (c1.dequeued - c0.dequeued); d != 0 {
			rd.violate("queue-conservation", fmt.Sprintf("handles queued %v, dequeued %v during the round although the write queue is empty", c1.queued-c0.queued, c1.dequeued-c0.dequeued), nil)
		}
	}

	// (d) behavioural probe: no handle survived, and a new Get sees storage.
	if drained {
		for k := range keys {
			var d digest.Digest
			for _, x := range rd.digs {
				if digestKey(x) == k {
					d = x
				}
			}
			rd.fake.mu.Lock()
			before := rd.fake.getsByK[k]
			rd.fake.mu.Unlock()
			hh, err := rd.get(91, d)
			if err != nil {
				rd.violate("probe-get-failed", err.Error(), nil)
				continue
			}
			hh.view(false)
			rd.fake.mu.Lock()
			after := rd.fake.getsByK[k]
			rd.fake.mu.Unlock()
			stored, _ := rd.fake.stored(k)
			if after == before {
				rd.violate("handle-leak", fmt.Sprintf("digest %s: after the drain a Get was served from a cached handle (saw [%s]) instead of the ISCC", short(k), seqString(hh.observed)), nil)
			} else if seqString(hh.observed) != seqString(stored) {
				rd.violate("probe-content-mismatch", fmt.Sprintf("digest %s: Get returned [%s], the ISCC holds [%s]", short(k), seqString(hh.observed), seqString(stored)), nil)
			}
			hh.release()
		}
	}

	// (e) linearizability of the client-visible history.
	rd.mu.Lock()
	ops := append([]porcupine.Operation(nil), rd.ops...)
	rd.mu.Unlock()
	if drained {
		for k := range keys {
			got, _ := rd.fake.stored(k)
			t := rd.ts.Add(1)
			ops = append(ops, porcupine.Operation{ClientId: 99, Input: regInput{k, 2, 0}, Call: t, Output: seqString(got), Return: rd.ts.Add(1)})
		}
	}
	// Preloaded content is an initial append-free state: model it by
	// prefixing the observed strings? Simpler: preloaded digests start the
	// register at that content through a first pseudo operation.
	for k, pre := range rd.preloaded {
		for i, m := range pre {
			ops = append(ops, porcupine.Operation{ClientId: 98, Input: regInput{k, 0, m}, Call: int64(-2*len(pre) + 2*i), Output: seqString(pre[:i]), Return: int64(-2*len(pre) + 2*i + 1)})
		}
	}
	switch porcupine.CheckOperationsTimeout(registerModel, ops, 20*time.Second) {
	case porcupine.Illegal:
		rd.violate("not-linearizable", "the history of appends/reads (and the final stored content) is not linearizable as a register with append", map[string]any{"operations": describeOps(ops)})
	case porcupine.Unknown:
		rd.r.Inconclusive("store round %d: porcupine timed out after 20 s on %d operations", rd.idx, len(ops))
	}
	rd.r.Count("store:porcupine histories", 1)
	rd.r.Count("store:operations", len(ops))
}

func describeOps(ops []porcupine.Operation) []string {
	out := make([]string, 0, len(ops))
	for _, op := range ops {
		out = append(out, fmt.Sprintf("client %d [%d,%d] %s", op.ClientId, op.Call, op.Return, registerModel.DescribeOperation(op.Input, op.Output)))
	}
	return out
}

// ---------------------------------------------------------------------
// Stepped schedule templates
// ---------------------------------------------------------------------

var storeSchedules = []string{
	"dirty-release-during-write", "overlapping-writes", "read-racing-destruction",
	"write-failure-retry", "cancelled-write", "queue-churn", "stress",
	"get-fails-with-existing-handle", "release-orders", "long-queue",
}

func (rd *storeRound) pickOutcome() opOutcome {
	return []opOutcome{outOK, outOK, outFail, outFailAfterApply}[rd.rng.IntN(4)]
}

// maybePreload stores an initial message for digest i.
func (rd *storeRound) maybePreload(i int) {
	if rd.rng.IntN(3) == 0 {
		k := digestKey(rd.dig(i))
		n := 1 + rd.rng.IntN(3)
		var ms []int64
		for j := 0; j < n; j++ {
			rd.markerSeq++
			ms = append(ms, int64(rd.idx%1000)*1000000+900000+rd.markerSeq)
		}
		rd.preloaded[k] = ms
		rd.fake.preload(k, ms)
	}
}

// releaseGate lets a parked Put finish.
func (rd *storeRound) releaseGate(g *gate, d digest.Digest, o opOutcome) {
	rd.eventf("release gate %s with %s", g.name, o)
	g.release <- o
	_ = d
}

// dirtyReleaseDuringWrite: version 1 of A is being written; meanwhile A is
// updated and released dirty (optionally with a second holder); the write
// then succeeds, fails, or is stored but reported as failed.
func (rd *storeRound) dirtyReleaseDuringWrite() {
	rng := rd.rng
	A := rd.dig(0)
	rd.maybePreload(0)
	second := []string{"none", "clean-after-write", "dirty-after-write", "clean-before-write-ends"}[rng.IntN(4)]
	outcome := rd.pickOutcome()
	updates := 1 + rng.IntN(2)
	rd.variant = fmt.Sprintf("second=%s outcome=%s updates=%d", second, outcome, updates)

	if rd.use(1, A, true) != nil {
		return
	}
	g := rd.gatePut(A)
	p := rd.goGet(2, rd.fresh())
	held := rd.await(g, p)
	var h3 *heldHandle
	if second != "none" {
		h3, _ = rd.get(3, A)
	}
	for u := 0; u < updates; u++ {
		rd.use(4+u, A, true) // dirty release while the write is in flight
	}
	if h3 != nil && second == "clean-before-write-ends" {
		h3.release()
		h3 = nil
	}
	if held {
		rd.releaseGate(g, A, outcome)
		if outcome != outOK {
			rd.sit("write-failed")
		}
	}
	if hh, err := p.wait(rd); err == nil && hh != nil {
		hh.release()
	}
	if h3 != nil {
		h3.view(second == "dirty-after-write")
		h3.release()
	}
	if rng.IntN(2) == 0 {
		rd.use(7, A, rng.IntN(2) == 0)
	}
}

// overlappingWrites: while the write of version 1 is in flight the handle
// is updated, queued again and a second write of the same digest starts;
// the two writes complete in either order.
func (rd *storeRound) overlappingWrites() {
	rng := rd.rng
	A := rd.dig(0)
	rd.maybePreload(0)
	firstFirst := rng.IntN(2) == 0
	o1, o2 := rd.pickOutcome(), rd.pickOutcome()
	between := rng.IntN(2) == 0
	rd.variant = fmt.Sprintf("first-completes-first=%v outcomes=%s,%s update-between=%v", firstFirst, o1, o2, between)

	if rd.use(1, A, true) != nil {
		return
	}
	g1 := rd.gatePut(A)
	p1 := rd.goGet(2, rd.fresh())
	held1 := rd.await(g1, p1)
	rd.use(3, A, true)
	if held1 {
		rd.sit("next-get-while-write-in-flight-and-handle-dirty")
	}
	g2 := rd.gatePut(A)
	p2 := rd.goGet(4, rd.fresh())
	held2 := rd.await(g2, p2)
	if held1 && held2 {
		rd.sit("two-writes-of-one-digest-in-flight")
	}
	finish := func(g *gate, p *pendingGet, held bool, o opOutcome) {
		if held {
			rd.releaseGate(g, A, o)
			if o != outOK {
				rd.sit("write-failed")
			}
		}
		if hh, err := p.wait(rd); err == nil && hh != nil {
			hh.release()
		}
	}
	if firstFirst {
		finish(g1, p1, held1, o1)
		if between {
			rd.use(5, A, true)
		}
		finish(g2, p2, held2, o2)
	} else {
		finish(g2, p2, held2, o2)
		if between {
			rd.use(5, A, true)
		}
		finish(g1, p1, held1, o1)
	}
	if rng.IntN(2) == 0 {
		rd.use(6, A, true)
	}
}

// readRacingDestruction: a Get's backend read of A is in flight while
// another client creates, updates, writes back and thereby destroys a
// handle for A; the read then completes (with the content of its arrival or
// of its completion) and the first client updates A too.
func (rd *storeRound) readRacingDestruction() {
	rng := rd.rng
	A := rd.dig(0)
	rd.maybePreload(0)
	early := rng.IntN(2) == 0
	destroy := rng.IntN(3) != 0
	readOutcome := outOK
	if rng.IntN(4) == 0 {
		readOutcome = outFail
	}
	// A second reader of the same digest, parked as well; the two reads
	// complete in either order and the second may fail too.
	twoReaders := rng.IntN(3) == 0
	secondFirst := rng.IntN(2) == 0
	secondOutcome := outOK
	if rng.IntN(3) == 0 {
		secondOutcome = outFail
	}
	rd.variant = fmt.Sprintf("read-linearized-at-arrival=%v handle-destroyed-before-read-returns=%v read=%s", early, destroy, readOutcome)
	if twoReaders {
		rd.variant += fmt.Sprintf(" second-reader=%s second-completes-first=%v", secondOutcome, secondFirst)
	}

	gr := rd.gateGet(A, early)
	p1 := rd.goGet(1, A)
	if !rd.await(gr, p1) {
		p1.wait(rd)
		return
	}
	var gr2 *gate
	var p2 *pendingGet
	if twoReaders {
		gr2 = rd.gateGet(A, early)
		p2 = rd.goGet(5, A)
		if !rd.await(gr2, p2) {
			p2.wait(rd)
			p2 = nil
		} else {
			rd.sit("two-reads-of-one-digest-in-flight")
		}
	}
	rd.use(2, A, true) // another handle: the parked readers' are not registered yet
	if destroy {
		rd.use(3, rd.fresh(), false) // writes A; its handle is destroyed (or kept for the readers)
		rd.sit("get-racing-handle-destruction")
	} else {
		rd.sit("get-racing-handle-creation")
	}
	finish := func(g *gate, p *pendingGet, o opOutcome) {
		rd.releaseGate(g, A, o)
		if hh, err := p.wait(rd); err == nil && hh != nil {
			hh.view(true)
			hh.release()
		} else {
			rd.sit("racing-read-failed")
		}
	}
	if p2 != nil && secondFirst {
		finish(gr2, p2, secondOutcome)
		p2 = nil
	}
	finish(gr, p1, readOutcome)
	if p2 != nil {
		finish(gr2, p2, secondOutcome)
	}
}

// writeFailureRetry: writes fail (before or after taking effect) and are
// retried by later Gets, with updates in between.
func (rd *storeRound) writeFailureRetry() {
	rng := rd.rng
	n := 1 + rng.IntN(3)
	failures := 1 + rng.IntN(3)
	rd.variant = fmt.Sprintf("digests=%d failures=%d", n, failures)
	rd.dirtyAll(n)
	for f := 0; f < failures; f++ {
		i := rng.IntN(n)
		o := []opOutcome{outFail, outFailAfterApply}[rng.IntN(2)]
		rd.failNext("put", rd.dig(i), o)
		if err := rd.use(2, rd.fresh(), false); err != nil {
			rd.sit("write-failed")
			rd.sit("get-failed-because-write-failed")
		}
		if rng.IntN(2) == 0 {
			rd.use(3, rd.dig(rng.IntN(n)), rng.IntN(3) != 0)
		}
	}
	rd.sit("write-retried-after-failure")
}

// cancelledWrite: the read of a Get fails, which cancels the writes that
// the same Get started; the writes are parked until their context ends.
func (rd *storeRound) cancelledWrite() {
	rng := rd.rng
	A := rd.dig(0)
	rd.maybePreload(0)
	updateDuring := rng.IntN(2) == 0
	rd.variant = fmt.Sprintf("update-while-parked=%v", updateDuring)
	if rd.use(1, A, true) != nil {
		return
	}
	F := rd.fresh()
	g := rd.gatePut(A) // never released: ends through cancellation
	gr := rd.gateGet(F, false)
	p := rd.goGet(2, F)
	heldW := rd.await(g, p)
	heldR := rd.await(gr, p)
	if updateDuring {
		rd.use(3, A, true)
	}
	if heldW {
	}
	if heldR {
		rd.releaseGate(gr, F, outFail)
	}
	if hh, err := p.wait(rd); err == nil && hh != nil {
		hh.release()
	} else {
		rd.sit("write-cancelled-by-failed-read")
	}
	if rng.IntN(2) == 0 {
		rd.use(4, A, true)
	}
}

// queueChurn: several digests are updated, re-obtained while queued (which
// removes them from the middle of the write queue), released clean while
// dirty, and written three at a time.
func (rd *storeRound) queueChurn() {
	rng := rd.rng
	n := 3
	steps := 6 + rng.IntN(10)
	rd.variant = fmt.Sprintf("steps=%d", steps)
	for i := 0; i < n; i++ {
		rd.maybePreload(i)
	}
	var held []*heldHandle
	for s := 0; s < steps; s++ {
		switch x := rng.IntN(10); {
		case x < 5:
			rd.use(1, rd.dig(rng.IntN(n)), rng.IntN(4) != 0)
		case x < 7:
			if hh, err := rd.get(2, rd.dig(rng.IntN(n))); err == nil {
				hh.view(rng.IntN(2) == 0)
				held = append(held, hh)
			}
		case x < 9 && len(held) > 0:
			k := rng.IntN(len(held))
			held[k].release()
			held = append(held[:k], held[k+1:]...)
		default:
			if rng.IntN(3) == 0 {
				rd.failNext("put", rd.dig(rng.IntN(n)), outFail)
			}
			if err := rd.use(3, rd.fresh(), false); err != nil {
				rd.sit("write-failed")
			}
		}
	}
	for _, hh := range held {
		hh.release()
	}
}

// getFailsWithExistingHandle: a Get for a digest whose handle already
// exists fails because the write of ANOTHER handle, started by the same Get,
// fails. The use count taken by the failed Get must be given back: the
// handle may be dirty, queued before, or held by somebody else.
func (rd *storeRound) getFailsWithExistingHandle() {
	rng := rd.rng
	A, B := rd.dig(0), rd.dig(1)
	rd.maybePreload(0)
	rd.maybePreload(1)
	heldByOther := rng.IntN(2) == 0
	aDirty := rng.IntN(3) != 0
	o := []opOutcome{outFail, outFailAfterApply}[rng.IntN(2)]
	repeats := 1 + rng.IntN(2)
	rd.variant = fmt.Sprintf("held-by-other=%v existing-handle-dirty=%v failure=%s repeats=%d", heldByOther, aDirty, o, repeats)

	// Every Get writes back what is queued, so B's handle is obtained
	// first and released (dirty) last: only then are A and B queued
	// together.
	hB, err := rd.get(1, B)
	if err != nil {
		return
	}
	var h0 *heldHandle
	if aDirty {
		rd.use(1, A, true)
	}
	if heldByOther || !aDirty {
		// Without a holder a clean handle would not exist at all.
		h0, _ = rd.get(2, A)
	}
	hB.view(true)
	hB.release()
	for i := 0; i < repeats; i++ {
		rd.failNext("put", B, o)
		if hh, err := rd.get(3, A); err != nil {
			rd.sit("get-failed-with-existing-handle")
			rd.sit("write-failed")
		} else {
			rd.sit("template-gate-not-reached")
			hh.release()
		}
	}
	if h0 != nil {
		h0.view(rng.IntN(2) == 0)
		h0.release()
	}
	if rng.IntN(2) == 0 {
		rd.use(4, A, true)
	}
}

var releaseOrderPerms = [][3]int{{0, 1, 2}, {0, 2, 1}, {1, 0, 2}, {1, 2, 0}, {2, 0, 1}, {2, 1, 0}}

// releaseOrderCombos records which (order, dirty mask, write in flight)
// combinations ran (driver goroutine only).
var releaseOrderCombos = map[string]bool{}

// releaseOrders: three holders of the same handle, each dirty or clean,
// released in every order; enumerated by the round number, not drawn, so
// that every combination occurs. Optionally a write of the previous version
// of the handle is in flight meanwhile and completes after the second
// release.
func (rd *storeRound) releaseOrders() {
	t := rd.idx / len(storeSchedules)
	perm := releaseOrderPerms[t%6]
	mask := (t / 6) % 8
	inflight := (t/48)%2 == 1
	outcome := outOK
	if inflight {
		outcome = rd.pickOutcome()
	}
	rd.variant = fmt.Sprintf("order=%v dirty-mask=%03b write-in-flight=%v outcome=%s", perm, mask, inflight, outcome)
	releaseOrderCombos[fmt.Sprintf("%v/%d", perm, mask)] = true
	A := rd.dig(0)
	rd.maybePreload(0)

	var g *gate
	var p *pendingGet
	held := false
	if inflight {
		rd.use(1, A, true)
		g = rd.gatePut(A)
		p = rd.goGet(2, rd.fresh())
		held = rd.await(g, p)
	}
	var hs [3]*heldHandle
	for i := range hs {
		hs[i], _ = rd.get(10+i, A)
	}
	for i, hh := range hs {
		if hh != nil {
			hh.view(mask&(1<<i) != 0)
		}
	}
	for n, i := range perm {
		if hs[i] != nil {
			hs[i].release()
		}
		if n == 1 && inflight {
			if held {
				rd.releaseGate(g, A, outcome)
				if outcome != outOK {
					rd.sit("write-failed")
				}
			}
			if hh, err := p.wait(rd); err == nil && hh != nil {
				hh.release()
			}
		}
	}
	rd.sit("release-order-combo")
	if mask != 0 && mask&(1<<perm[2]) == 0 {
		rd.sit("clean-release-last-after-dirty-release")
	}
}

// dirtyAll updates the first n digests such that all n handles are queued
// for writing at the same time. Every Get writes back what is queued, so
// all handles are obtained before the first one is released.
func (rd *storeRound) dirtyAll(n int) {
	var hs []*heldHandle
	for i := 0; i < n; i++ {
		rd.maybePreload(i)
		if hh, err := rd.get(1, rd.dig(i)); err == nil {
			hs = append(hs, hh)
		}
	}
	for _, hh := range hs {
		hh.view(true)
		hh.release()
	}
}

// longQueue: more handles are queued than one Get writes back (three), one
// of the writes may fail, a queued handle is re-obtained from the middle of
// the queue, and the rest must still be written by later Gets.
func (rd *storeRound) longQueue() {
	rng := rd.rng
	n := 4 + rng.IntN(2)
	failOne := rng.IntN(2) == 0
	reobtain := rng.IntN(2) == 0
	rd.variant = fmt.Sprintf("queued=%d fail-one=%v re-obtain-queued=%v", n, failOne, reobtain)
	rd.dirtyAll(n)
	if failOne {
		rd.failNext("put", rd.dig(rng.IntN(n)), []opOutcome{outFail, outFailAfterApply}[rng.IntN(2)])
	}
	before := rd.fake.putCalls.Load()
	var err error
	if reobtain {
		// Taken out of the middle of the queue (the first digest sits at
		// the bottom); the same Get writes back three others.
		err = rd.use(2, rd.dig(rng.IntN(n-1)), rng.IntN(2) == 0)
	} else {
		err = rd.use(3, rd.fresh(), false)
	}
	if err != nil {
		rd.sit("write-failed")
	}
	if rd.fake.putCalls.Load()-before == 3 {
		rd.sit("queue-longer-than-one-get-writes")
	}
	if rng.IntN(2) == 0 {
		rd.use(4, rd.dig(rng.IntN(n)), true)
	}
}

// stress: truly concurrent clients; the fake delays and fails calls by PRNG.
func (rd *storeRound) stress() {
	rng := rd.rng
	clients := 3 + rng.IntN(6)
	opsPer := 2 + rng.IntN(4)
	nd := 2 + rng.IntN(2)
	procs := []int{2, 4, 16}[rng.IntN(3)]
	rd.variant = fmt.Sprintf("clients=%d ops=%d digests=%d gomaxprocs=%d", clients, opsPer, nd, procs)
	for i := 0; i < nd; i++ {
		rd.maybePreload(i)
	}
	var faults atomic.Bool
	faults.Store(true)
	rd.fake.mu.Lock()
	rd.fake.policy = stressPolicy(rand.New(rand.NewPCG(rng.Uint64(), rng.Uint64())), &faults)
	rd.fake.mu.Unlock()
	old := runtime.GOMAXPROCS(procs)
	defer runtime.GOMAXPROCS(old)

	var wg sync.WaitGroup
	done := make(chan struct{})
	for c := 0; c < clients; c++ {
		crng := rand.New(rand.NewPCG(rng.Uint64(), rng.Uint64()))
		wg.Add(1)
		go func(c int) {
			defer wg.Done()
			for o := 0; o < opsPer; o++ {
				var d digest.Digest
				doAppend := false
				switch x := crng.IntN(10); {
				case x < 6:
					d, doAppend = rd.dig(crng.IntN(nd)), true
				case x < 8:
					d = rd.dig(crng.IntN(nd))
				default:
					d = rd.fresh()
				}
				hh, err := rd.get(c, d)
				if err != nil {
					rd.sit("get-failed")
					continue
				}
				for y := crng.IntN(3); y > 0; y-- {
					runtime.Gosched()
				}
				hh.view(doAppend)
				if crng.IntN(3) == 0 {
					for y := crng.IntN(20); y > 0; y-- {
						runtime.Gosched()
					}
				}
				hh.release()
			}
		}(c)
	}
	go func() { wg.Wait(); close(done) }()
	select {
	case <-done:
	case <-time.After(2 * stepWatchdog):
		rd.hang("stress clients did not finish")
	}
	faults.Store(false)
}

// ---------------------------------------------------------------------
// Driver
// ---------------------------------------------------------------------

// runStoreRound returns false if the round had to be abandoned (hang
// policy): its goroutines may still be running, so no further round can be
// judged in this process.
func runStoreRound(r *ev.Run, j int, schedule string) bool {
	rng := r.Rand(storeStream, uint64(j))
	rd := &storeRound{
		r: r, idx: j, rng: rng, schedule: schedule,
		fake:      newFakeISCC(),
		appended:  map[string][]markerRec{},
		preloaded: map[string][]int64{},
		sits:      map[string]int{},
	}
	for i := 0; i < 5; i++ {
		rd.digs = append(rd.digs, mkDigest(j, i))
	}
	rd.store = re_blobstore.NewBlobAccessMutableProtoStore[iscc.PreviousExecutionStats](rd.fake, 1<<20)
	r.Case("store round=%d schedule=%s", j, schedule)
	t0 := time.Now()
	defer func() { r.Count("store:wall_ms schedule="+schedule, int(time.Since(t0).Milliseconds())) }()
	c0 := readStoreCounters()
	switch schedule {
	case "dirty-release-during-write":
		rd.dirtyReleaseDuringWrite()
	case "overlapping-writes":
		rd.overlappingWrites()
	case "read-racing-destruction":
		rd.readRacingDestruction()
	case "write-failure-retry":
		rd.writeFailureRetry()
	case "cancelled-write":
		rd.cancelledWrite()
	case "queue-churn":
		rd.queueChurn()
	case "get-fails-with-existing-handle":
		rd.getFailsWithExistingHandle()
	case "release-orders":
		rd.releaseOrders()
	case "long-queue":
		rd.longQueue()
	default:
		rd.stress()
	}
	rd.verify(c0)

	// Bookkeeping for the evidence.
	nontrivial := false
	rd.fake.mu.Lock()
	failedPuts := 0
	for _, e := range rd.fake.shape {
		if strings.HasPrefix(e, "P-") && (strings.HasSuffix(e, "fail") || strings.HasSuffix(e, "fail-after-apply")) {
			failedPuts++
		}
	}
	rd.fake.mu.Unlock()
	if failedPuts > 0 && schedule == "stress" {
		rd.sit("write-failed")
	}
	rd.mu.Lock()
	for k, v := range rd.sits {
		r.SituationN(k, v)
		switch k {
		case "store:dirty-release-during-write-in-flight", "store:update-during-write-in-flight", "store:write-failed",
			"store:get-racing-handle-destruction", "store:write-cancelled-by-failed-read", "store:two-writes-of-one-digest-in-flight", "store:next-get-while-write-in-flight-and-handle-dirty",
			"store:get-failed-with-existing-handle", "store:release-order-combo", "store:queue-longer-than-one-get-writes", "store:two-reads-of-one-digest-in-flight":
			nontrivial = true
		}
	}
	rd.mu.Unlock()
	r.SituationN("store:schedule="+schedule, 1)
	rd.fake.mu.Lock()
	var parts []any
	parts = append(parts, schedule, rd.variant)
	for _, d := range rd.digs {
		k := digestKey(d)
		// Relative shape: length of every applied Put and its outcome.
		for _, pr := range rd.fake.applied[k] {
			parts = append(parts, short(k)[5:], len(pr.markers), pr.outcome)
		}
	}
	for _, e := range rd.fake.shape {
		parts = append(parts, e)
	}
	puts := int(rd.fake.putCalls.Load())
	gets := int(rd.fake.getCalls.Load())
	rd.fake.mu.Unlock()
	r.Hash(ev.HashOf(parts...), nontrivial)
	r.Count("store:backend Put calls", puts)
	r.Count("store:backend Get calls", gets)
	if nontrivial && !storeSampled && r.WantSample() {
		storeSampled = true
		r.Sample(rd.witness(nil))
	}
	return !rd.inconclusive
}

var storeSampled bool

func scheduleOf(j int) string { return storeSchedules[j%len(storeSchedules)] }

func runStore(r *ev.Run) {
	r.Assume("store: the ISCC backend is linearizable (each Put/Get takes effect at one point between call and return); a failed Put may or may not have been stored")
	r.Assume("store: clients follow the MutableProtoStore contract: Get without locks, every handle method under one global mutex, Release(true) iff the message was modified")
	r.Assume("store: 'eventually written' is judged as: after faults stop, Gets on fresh digests until one causes no write (at most 30); the Prometheus counters of the store are process-global, so no other user of BlobAccessMutableProtoStore may run concurrently with this monitor")
	total := r.Pick(600, 6000)
	for j := 0; j < total; j++ {
		if !runStoreRound(r, j, scheduleOf(j)) {
			return
		}
	}
	r.SituationN("store:release-order-combos-distinct", len(releaseOrderCombos))
	r.Floor("store:release-order-combos-distinct", 48)
	r.Floor("store:clean-release-last-after-dirty-release", 10)
	r.Floor("store:get-failed-with-existing-handle", 40)
	r.Floor("store:queue-longer-than-one-get-writes", 30)
	r.Floor("store:two-reads-of-one-digest-in-flight", 8)
	r.Floor("store:racing-read-failed", 5)
	r.Floor("store:dirty-release-during-write-in-flight", 40)
	r.Floor("store:update-during-write-in-flight", 40)
	r.Floor("store:write-failed", 40)
	r.Floor("store:write-retried-after-failure", 20)
	r.Floor("store:get-racing-handle-destruction", 15)
	r.Floor("store:get-racing-handle-creation", 4)
	r.Floor("store:write-cancelled-by-failed-read", 20)
	r.Floor("store:next-get-while-write-in-flight-and-handle-dirty", 20)
	for _, s := range storeSchedules {
		r.Floor("store:schedule="+s, 30)
	}
}

func replayStore(r *ev.Run, j int) {
	runStoreRound(r, j, scheduleOf(j))
}
