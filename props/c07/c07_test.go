// Package c07 checks property C07 (size-class selection: linear protocol,
// valid choices, no lost stats) by runtime monitoring of the real code.
//
// Three monitors share this package; TestCheck calls one function per
// monitor, each living in its own file:
//
//	runProtocol(r)  monitor 1, linear Selector/Learner protocol inside the
//	                scheduler harness            (protocol_test.go, coordinator)
//	runChoices(r)   monitor 2, well-formed choices of the real analyzers and
//	                strategy calculators         (choices_test.go); returns
//	                false if a case hung (its goroutines keep spinning)
//	runStore(r)     monitor 3, persistence of BlobAccessMutableProtoStore
//	                                             (store_test.go, store_fake_test.go)
//
// Situation and counter names are prefixed with the monitor ("choices:",
// "store:") so that the monitors cannot collide.
package c07

import (
	"encoding/json"
	"os"
	"strings"
	"testing"

	"verif/internal/ev"
	"verif/internal/sched"
)

// replayRequest is what a witness written by monitors 2 and 3 contains to
// identify the failing case: the monitor name and the case index (the PRNG
// of a case is derived from VERIF_SEED and that index only).
type replayRequest struct {
	Seed    uint64 `json:"seed"`
	Witness struct {
		Monitor string `json:"monitor"`
		Case    int    `json:"case"`
	} `json:"witness"`
}

// loadReplay parses the replay file named by VERIF_REPLAY, if any.
func loadReplay(r *ev.Run) *replayRequest {
	p := r.ReplayFile()
	if p == "" {
		return nil
	}
	b, err := os.ReadFile(p)
	if err != nil {
		r.Inconclusive("replay file %s unreadable: %v", p, err)
		return nil
	}
	var rq replayRequest
	if err := json.Unmarshal(b, &rq); err != nil || rq.Witness.Monitor == "" {
		r.Inconclusive("replay file %s carries no monitor/case (panic and race witnesses are text): re-run the seed instead", p)
		return nil
	}
	return &rq
}

func TestCheck(t *testing.T) {
	r := ev.Start("C07")
	defer r.Finish()
	r.SetRule(ruleProtocol + " || " + ruleChoices + " || " + ruleStore)

	if isProtocolReplay(r) {
		// Witness of monitor 1: a stepped scheduler history.
		sched.RunStepped(r, "C07", 0)
		return
	}
	if rq := loadReplay(r); rq != nil {
		// Re-run exactly one recorded case of monitor 2 or 3. No floors
		// are declared in this mode.
		switch rq.Witness.Monitor {
		case "choices":
			replayChoices(r, rq.Witness.Case)
		case "store":
			replayStore(r, rq.Witness.Case)
		case "":
		default:
			r.Inconclusive("replay for monitor %q is not handled by this package", rq.Witness.Monitor)
		}
		return
	}

	// Monitor 1: linear Selector/Learner protocol inside the scheduler
	// harness. (Runs before, never concurrently with, runStore: runStore
	// reads process-global Prometheus counters.)
	if monitorEnabled("protocol") {
		runProtocol(r)
	}

	// Monitor 2: well-formed choices (pure, high volume).
	if !monitorEnabled("choices") {
		// diagnostic run of a subset of the monitors
	} else if !runChoices(r) {
		// A case hung (already reported): its goroutines keep spinning
		// and would starve and distort the concurrency rounds below.
		r.Inconclusive("store monitor not run: a choices case hung and still occupies its goroutine")
		return
	}

	// Monitor 3: persistence of the mutable proto store.
	if monitorEnabled("store") {
		runStore(r)
	}
}

// monitorEnabled implements the diagnostic switch VERIF_C07_MONITORS (a
// comma-separated subset of protocol,choices,store; unset = all). It exists
// to attribute statement coverage to a monitor (tools/coverage.sh); ./check
// never sets it.
func monitorEnabled(name string) bool {
	v := os.Getenv("VERIF_C07_MONITORS")
	if v == "" {
		return true
	}
	for _, m := range strings.Split(v, ",") {
		if strings.TrimSpace(m) == name {
			return true
		}
	}
	return false
}
