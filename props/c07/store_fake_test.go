package c07

// Fake Initial Size Class Cache (a bb-storage BlobAccess) for monitor 3.
//
// It is a linearizable in-memory store: every Put takes effect at one point
// between its call and its return, every Get reads at one point between its
// call and its return. Where those points lie, whether the call is parked at
// a gate in between, and whether it fails, is decided by one-shot rules the
// stepped driver installs, or by a PRNG policy in stress rounds. Everything
// the store does is logged (call order and apply order) for the oracles.

import (
	"context"
	"fmt"
	"math/rand/v2"
	"runtime"
	"sync"
	"sync/atomic"

	remoteexecution "github.com/bazelbuild/remote-apis/build/bazel/remote/execution/v2"
	"github.com/buildbarn/bb-storage/pkg/blobstore/buffer"
	"github.com/buildbarn/bb-storage/pkg/blobstore/slicing"
	"github.com/buildbarn/bb-storage/pkg/digest"
	"github.com/buildbarn/bb-storage/pkg/proto/iscc"
	"google.golang.org/grpc/codes"
	"google.golang.org/grpc/status"
	"google.golang.org/protobuf/proto"
	"google.golang.org/protobuf/types/known/durationpb"
)

type opOutcome int

const (
	outOK             opOutcome = iota
	outFail                     // returns an error, nothing stored / nothing read
	outFailAfterApply           // Put only: stored, but an error is returned
	outCancelled                // the caller's context ended while the call was parked
)

func (o opOutcome) String() string {
	return [...]string{"ok", "fail", "fail-after-apply", "cancelled"}[o]
}

// gate parks one backend call until the driver releases it.
type gate struct {
	name    string
	arrived chan struct{}  // closed when the call has parked
	release chan opOutcome // buffered; the driver's decision
	// filled in on arrival
	markers []int64
}

func newGate(name string) *gate {
	return &gate{name: name, arrived: make(chan struct{}), release: make(chan opOutcome, 1)}
}

// rule matches the next backend call of a kind on a digest (one shot).
type rule struct {
	kind          string // "get" | "put"
	key           string
	gate          *gate     // park here, or
	outcome       opOutcome // finish immediately with this outcome
	readAtArrival bool      // Get only: linearize at arrival instead of at release
	used          bool
}

type putRecord struct {
	seq     int64
	markers []int64
	outcome opOutcome
}

type fakeISCC struct {
	mu      sync.Mutex
	blobs   map[string][]byte
	rules   []*rule
	applied map[string][]putRecord // in apply order
	events  []string

	putCalls atomic.Int64
	getCalls atomic.Int64
	getsByK  map[string]int
	inflight map[string]int // Puts of a digest between call and return
	shape    []string       // marker-free event order, for history hashing
	seq      atomic.Int64

	// Stress policy (nil in stepped rounds). Called without f.mu.
	policy func(kind, key string) (spins int, outcome opOutcome)
	// progress is advanced by clients after every critical section; parked
	// stress calls wait for it to move (bounded), which holds writes in
	// flight while other clients use the same handle.
	progress atomic.Int64
}

func newFakeISCC() *fakeISCC {
	return &fakeISCC{blobs: map[string][]byte{}, applied: map[string][]putRecord{}, getsByK: map[string]int{}, inflight: map[string]int{}}
}

func digestKey(d digest.Digest) string { return d.GetHashString() }

func (f *fakeISCC) logf(format string, args ...any) {
	// caller holds f.mu
	if len(f.events) < 400 {
		f.events = append(f.events, fmt.Sprintf(format, args...))
	}
}

// keyClass names a digest independently of the round: the ordinal of the
// round's shared digests, or "f" for a fresh one.
func keyClass(key string) string {
	if len(key) >= 6 && key[len(key)-6:len(key)-1] == "00000" {
		return key[len(key)-1:]
	}
	return "f"
}

func (f *fakeISCC) shapef(format string, args ...any) {
	// caller holds f.mu
	if len(f.shape) < 400 {
		f.shape = append(f.shape, fmt.Sprintf(format, args...))
	}
}

// putInFlight tells whether a Put of the digest is between call and return.
func (f *fakeISCC) putInFlight(key string) bool {
	f.mu.Lock()
	defer f.mu.Unlock()
	return f.inflight[key] > 0
}

func (f *fakeISCC) addRule(r *rule) {
	f.mu.Lock()
	f.rules = append(f.rules, r)
	f.mu.Unlock()
}

// clearRules removes all rules and releases every gate that is still
// parked or may still be reached (fault-free from here on).
func (f *fakeISCC) clearRules() {
	f.mu.Lock()
	rules := f.rules
	f.rules = nil
	f.policy = nil
	f.mu.Unlock()
	for _, r := range rules {
		if r.gate != nil {
			select {
			case r.gate.release <- outOK:
			default:
			}
		}
	}
}

// cancelGate disables the rule of a gate that was not reached.
func (f *fakeISCC) cancelGate(g *gate) {
	f.mu.Lock()
	for _, r := range f.rules {
		if r.gate == g {
			r.used = true
		}
	}
	f.mu.Unlock()
}

func (f *fakeISCC) match(kind, key string) *rule {
	// caller holds f.mu
	for _, r := range f.rules {
		if !r.used && r.kind == kind && r.key == key {
			r.used = true
			return r
		}
	}
	return nil
}

func markersOf(m *iscc.PreviousExecutionStats) []int64 {
	var out []int64
	for _, pe := range m.GetSizeClasses()[1].GetPreviousExecutions() {
		out = append(out, pe.GetSucceeded().GetSeconds())
	}
	return out
}

func appendMarker(m *iscc.PreviousExecutionStats, marker int64) {
	if m.SizeClasses == nil {
		m.SizeClasses = map[uint32]*iscc.PerSizeClassStats{}
	}
	p := m.SizeClasses[1]
	if p == nil {
		p = &iscc.PerSizeClassStats{}
		m.SizeClasses[1] = p
	}
	p.PreviousExecutions = append(p.PreviousExecutions, &iscc.PreviousExecution{
		Outcome: &iscc.PreviousExecution_Succeeded{Succeeded: &durationpb.Duration{Seconds: marker}},
	})
}

func markersOfBytes(b []byte) []int64 {
	var m iscc.PreviousExecutionStats
	if err := proto.Unmarshal(b, &m); err != nil {
		return []int64{-1}
	}
	return markersOf(&m)
}

func (f *fakeISCC) preload(key string, markers []int64) {
	m := &iscc.PreviousExecutionStats{}
	for _, x := range markers {
		appendMarker(m, x)
	}
	b, _ := proto.Marshal(m)
	f.mu.Lock()
	f.blobs[key] = b
	f.applied[key] = append(f.applied[key], putRecord{seq: f.seq.Add(1), markers: append([]int64(nil), markers...)})
	f.mu.Unlock()
}

func (f *fakeISCC) stored(key string) ([]int64, bool) {
	f.mu.Lock()
	defer f.mu.Unlock()
	b, ok := f.blobs[key]
	if !ok {
		return nil, false
	}
	return markersOfBytes(b), true
}

// waitProgress yields until the progress counter moved by n, the context
// ended or the spin budget is used up.
func (f *fakeISCC) waitProgress(ctx context.Context, n int64, spins int) bool {
	start := f.progress.Load()
	for i := 0; i < spins; i++ {
		if f.progress.Load()-start >= n {
			return true
		}
		if ctx.Err() != nil {
			return false
		}
		runtime.Gosched()
	}
	return true
}

// park handles gate / policy for one call and returns its outcome.
func (f *fakeISCC) park(ctx context.Context, kind, key string, r *rule, markers []int64) opOutcome {
	if r != nil {
		if r.gate == nil {
			return r.outcome
		}
		r.gate.markers = markers
		close(r.gate.arrived)
		select {
		case o := <-r.gate.release:
			return o
		case <-ctx.Done():
			return outCancelled
		}
	}
	f.mu.Lock()
	policy := f.policy
	f.mu.Unlock()
	if policy != nil {
		spins, o := policy(kind, key)
		if spins > 0 {
			if !f.waitProgress(ctx, 1+int64(spins%3), spins) {
				return outCancelled
			}
		}
		if ctx.Err() != nil && o == outOK && spins > 0 {
			return outCancelled
		}
		return o
	}
	return outOK
}

func (f *fakeISCC) Get(ctx context.Context, d digest.Digest) buffer.Buffer {
	key := digestKey(d)
	f.getCalls.Add(1)
	f.mu.Lock()
	f.getsByK[key]++
	r := f.match("get", key)
	var data []byte
	var present bool
	early := r != nil && r.readAtArrival
	if early {
		data, present = f.blobs[key]
	}
	f.logf("%d get %s call early=%v", f.seq.Add(1), short(key), early)
	f.shapef("G+%s", keyClass(key))
	f.mu.Unlock()

	o := f.park(ctx, "get", key, r, nil)

	f.mu.Lock()
	if !early {
		data, present = f.blobs[key]
	}
	f.logf("%d get %s return %s present=%v %v", f.seq.Add(1), short(key), o, present, markersOfBytes(data))
	f.shapef("G-%s%s%v", keyClass(key), o, present)
	f.mu.Unlock()
	switch o {
	case outFail, outFailAfterApply:
		return buffer.NewBufferFromError(status.Error(codes.Unavailable, "injected ISCC read failure"))
	case outCancelled:
		return buffer.NewBufferFromError(status.Error(codes.Canceled, "request cancelled"))
	}
	if !present {
		return buffer.NewBufferFromError(status.Error(codes.NotFound, "blob not found"))
	}
	return buffer.NewProtoBufferFromByteSlice(&iscc.PreviousExecutionStats{}, append([]byte(nil), data...), buffer.UserProvided)
}

func (f *fakeISCC) Put(ctx context.Context, d digest.Digest, b buffer.Buffer) error {
	key := digestKey(d)
	f.putCalls.Add(1)
	data, err := b.ToByteSlice(1 << 24)
	if err != nil {
		return err
	}
	markers := markersOfBytes(data)
	f.mu.Lock()
	r := f.match("put", key)
	f.logf("%d put %s call %v", f.seq.Add(1), short(key), markers)
	f.shapef("P+%s%d", keyClass(key), len(markers))
	f.inflight[key]++
	f.mu.Unlock()

	o := f.park(ctx, "put", key, r, markers)

	f.mu.Lock()
	if o == outOK || o == outFailAfterApply {
		f.blobs[key] = data
		f.applied[key] = append(f.applied[key], putRecord{seq: f.seq.Add(1), markers: markers, outcome: o})
	}
	f.logf("%d put %s return %s %v", f.seq.Add(1), short(key), o, markers)
	f.shapef("P-%s%d%s", keyClass(key), len(markers), o)
	f.inflight[key]--
	f.mu.Unlock()
	switch o {
	case outFail, outFailAfterApply:
		return status.Error(codes.Unavailable, "injected ISCC write failure")
	case outCancelled:
		return status.Error(codes.Canceled, "request cancelled")
	}
	return nil
}

func (f *fakeISCC) GetFromComposite(ctx context.Context, parentDigest, childDigest digest.Digest, slicer slicing.BlobSlicer) buffer.Buffer {
	return buffer.NewBufferFromError(status.Error(codes.Unimplemented, "not used by the mutable proto store"))
}

func (f *fakeISCC) FindMissing(ctx context.Context, digests digest.Set) (digest.Set, error) {
	return digest.EmptySet, status.Error(codes.Unimplemented, "not used by the mutable proto store")
}

func (f *fakeISCC) GetCapabilities(ctx context.Context, instanceName digest.InstanceName) (*remoteexecution.ServerCapabilities, error) {
	return nil, status.Error(codes.Unimplemented, "not used by the mutable proto store")
}

// stressPolicy returns a PRNG policy. Only used by one round at a time; the
// PRNG is guarded because backend calls arrive concurrently.
func stressPolicy(rng *rand.Rand, faults *atomic.Bool) func(kind, key string) (int, opOutcome) {
	var mu sync.Mutex
	return func(kind, key string) (int, opOutcome) {
		mu.Lock()
		defer mu.Unlock()
		spins := 0
		switch rng.IntN(4) {
		case 0:
			spins = 1 + rng.IntN(30)
		case 1:
			spins = 200 + rng.IntN(2000)
		}
		o := outOK
		if faults.Load() {
			x := rng.IntN(100)
			switch {
			case kind == "put" && x < 10:
				o = outFail
			case kind == "put" && x < 15:
				o = outFailAfterApply
			case kind == "get" && x < 8:
				o = outFail
			}
		}
		return spins, o
	}
}

func short(key string) string {
	if len(key) > 6 {
		return key[len(key)-6:]
	}
	return key
}
