package c07

import (
	"bytes"
	"os"

	"verif/internal/ev"
	"verif/internal/sched"
)

// Monitor 1 of C07: the linear protocol between the scheduler and the
// size-class analyzer. The scheduler harness (internal/sched) wraps every
// selector and learner it hands to the scheduler and logs each call; in
// stepped histories the per-request call sequences are compared with the
// reference model's prediction (exactly one of Select/Abandoned per selector;
// exactly one terminal call per learner, of the kind that matches what
// happened; a failure on a smaller size class leads to exactly one retry on
// the largest one; background learning tasks are do_not_cache, bounded in
// number and scheduled only after the client's task completed), and the
// timeout sent to workers stays within [0, the action's own]. Stress rounds
// check exactly-once per object without a model.
const ruleProtocol = "protocol: stepped scheduler histories (profile C07: retry-heavy worlds with scripted size-class selectors, kills, cancellations, worker loss, deduplication, background learning) where every call on a selector/learner is logged and compared per request with the reference model, plus concurrent stress rounds checked for exactly-once terminal calls; non-trivial = hit a named situation"

func runProtocol(r *ev.Run) {
	sched.DeclareFloors(r, "C07")
	sched.RunStepped(r, "C07", r.Pick(80, 2500))
	sched.RunStress(r, "C07", r.Pick(3, 80))
}

// isProtocolReplay tells whether the replay file is a witness written by the
// scheduler harness (it carries the generated world).
func isProtocolReplay(r *ev.Run) bool {
	p := r.ReplayFile()
	if p == "" {
		return false
	}
	b, err := os.ReadFile(p)
	return err == nil && bytes.Contains(b, []byte("\"world\""))
}
