package c17

// In-memory Content Addressable Storage with a write log, a call log and
// scripted faults. It hands out buffers that reference the stored byte slices
// directly, so that in-place modification by a consumer shows up in the
// content hash taken before and after a case.

import (
	"context"
	"crypto/sha256"
	"encoding/hex"
	"sort"
	"sync"

	remoteexecution "github.com/bazelbuild/remote-apis/build/bazel/remote/execution/v2"
	"github.com/buildbarn/bb-storage/pkg/blobstore/buffer"
	"github.com/buildbarn/bb-storage/pkg/blobstore/slicing"
	"github.com/buildbarn/bb-storage/pkg/digest"

	"google.golang.org/grpc/codes"
	"google.golang.org/grpc/status"
)

type casFault struct {
	key       string // digest key the fault applies to ("" = any)
	remaining int
	err       error
}

type fakeCAS struct {
	mu          sync.Mutex
	blobs       map[string][]byte
	writeLog    []string
	gets        int
	getsByKey   map[string]int
	fault       *casFault
	faultsFired int
	integrity   int // data integrity callbacks reporting corruption
}

func newFakeCAS() *fakeCAS {
	return &fakeCAS{blobs: map[string][]byte{}, getsByKey: map[string]int{}}
}

func casKey(d digest.Digest) string { return d.GetKey(digest.KeyWithoutInstance) }

// putRaw places bytes under a digest without any validation (harness side
// population; not part of the write log).
func (c *fakeCAS) putRaw(d digest.Digest, data []byte) {
	c.mu.Lock()
	c.blobs[casKey(d)] = data
	c.mu.Unlock()
}

func (c *fakeCAS) arm(d digest.Digest, n int, err error) {
	c.mu.Lock()
	c.fault = &casFault{key: casKey(d), remaining: n, err: err}
	c.faultsFired = 0
	c.mu.Unlock()
}

func (c *fakeCAS) armAny(n int, err error) {
	c.mu.Lock()
	c.fault = &casFault{remaining: n, err: err}
	c.faultsFired = 0
	c.mu.Unlock()
}

// disarm removes the fault and tells how often it fired.
func (c *fakeCAS) disarm() int {
	c.mu.Lock()
	defer c.mu.Unlock()
	c.fault = nil
	n := c.faultsFired
	c.faultsFired = 0
	return n
}

func (c *fakeCAS) getCount(d digest.Digest) int {
	c.mu.Lock()
	defer c.mu.Unlock()
	return c.getsByKey[casKey(d)]
}

func (c *fakeCAS) totalGets() int {
	c.mu.Lock()
	defer c.mu.Unlock()
	return c.gets
}

func (c *fakeCAS) writes() []string {
	c.mu.Lock()
	defer c.mu.Unlock()
	return append([]string(nil), c.writeLog...)
}

// contentHash hashes all keys and bytes.
func (c *fakeCAS) contentHash() string {
	c.mu.Lock()
	defer c.mu.Unlock()
	keys := make([]string, 0, len(c.blobs))
	for k := range c.blobs {
		keys = append(keys, k)
	}
	sort.Strings(keys)
	h := sha256.New()
	for _, k := range keys {
		h.Write([]byte(k))
		h.Write([]byte{0})
		h.Write(c.blobs[k])
		h.Write([]byte{1})
	}
	return hex.EncodeToString(h.Sum(nil))
}

func (c *fakeCAS) GetCapabilities(ctx context.Context, instanceName digest.InstanceName) (*remoteexecution.ServerCapabilities, error) {
	return &remoteexecution.ServerCapabilities{CacheCapabilities: &remoteexecution.CacheCapabilities{}}, nil
}

func (c *fakeCAS) Get(ctx context.Context, d digest.Digest) buffer.Buffer {
	if err := ctx.Err(); err != nil {
		return buffer.NewBufferFromError(status.FromContextError(err).Err())
	}
	k := casKey(d)
	c.mu.Lock()
	c.gets++
	c.getsByKey[k]++
	if f := c.fault; f != nil && f.remaining > 0 && (f.key == "" || f.key == k) {
		f.remaining--
		c.faultsFired++
		err := f.err
		c.mu.Unlock()
		return buffer.NewBufferFromError(err)
	}
	data, ok := c.blobs[k]
	c.mu.Unlock()
	if !ok {
		return buffer.NewBufferFromError(status.Errorf(codes.NotFound, "Blob %s not found", d))
	}
	return buffer.NewCASBufferFromByteSlice(d, data, buffer.BackendProvided(func(dataIsValid bool) {
		if !dataIsValid {
			c.mu.Lock()
			c.integrity++
			c.mu.Unlock()
		}
	}))
}

func (c *fakeCAS) GetFromComposite(ctx context.Context, parentDigest, childDigest digest.Digest, slicer slicing.BlobSlicer) buffer.Buffer {
	b, _ := slicer.Slice(c.Get(ctx, parentDigest), childDigest)
	return b
}

func (c *fakeCAS) Put(ctx context.Context, d digest.Digest, b buffer.Buffer) error {
	data, err := b.ToByteSlice(1 << 30)
	c.mu.Lock()
	c.writeLog = append(c.writeLog, casKey(d))
	c.mu.Unlock()
	if err != nil {
		return err
	}
	// Deliberately not stored under the digest: a write must not be able
	// to replace what readers see. The write log is the evidence.
	_ = data
	return nil
}

func (c *fakeCAS) FindMissing(ctx context.Context, digests digest.Set) (digest.Set, error) {
	sb := digest.NewSetBuilder(0)
	c.mu.Lock()
	for _, d := range digests.Items() {
		if _, ok := c.blobs[casKey(d)]; !ok {
			sb.Add(d)
		}
	}
	c.mu.Unlock()
	return sb.Build(), nil
}
