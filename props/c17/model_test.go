package c17

// Reference model of one action's own copy of the input root, plus the
// comparison primitives of the oracle.

import (
	"bytes"
	"fmt"
	"math/rand/v2"
	"sort"
	"strings"
	"sync"

	"github.com/buildbarn/bb-remote-execution/pkg/builder"
	"github.com/buildbarn/bb-remote-execution/pkg/filesystem/virtual"
	"github.com/buildbarn/bb-storage/pkg/filesystem"

	"verif/internal/ev"
)

type localFile struct {
	data []byte
}

// mnode is a node of the model. Directories that still have their CAS
// contents are expanded lazily from the refDir, independently of whether the
// real directory has been loaded.
type mnode struct {
	kind int

	ref        *refDir
	expanded   bool
	children   map[string]*mnode
	realLoaded bool

	blob  *blob
	exec  bool
	local *localFile

	target string

	ftype filesystem.FileType // kindOther
}

func newLazyDir(ref *refDir) *mnode { return &mnode{kind: kindDir, ref: ref} }

func newLocalDir() *mnode {
	return &mnode{kind: kindDir, expanded: true, realLoaded: true, children: map[string]*mnode{}}
}

// bad tells whether loading this directory must fail.
func (m *mnode) bad() bool {
	return m.kind == kindDir && !m.expanded && m.ref != nil && m.ref.bad != ""
}

func (m *mnode) expand() {
	if m.expanded {
		return
	}
	if m.bad() {
		panic("harness bug: expanding a malformed directory")
	}
	m.children = map[string]*mnode{}
	for _, e := range m.ref.entries {
		switch e.kind {
		case kindDir:
			m.children[e.name] = newLazyDir(e.dir)
		case kindFile:
			m.children[e.name] = &mnode{kind: kindFile, blob: e.blob, exec: e.exec}
		case kindSymlink:
			m.children[e.name] = &mnode{kind: kindSymlink, target: e.target}
		}
	}
	m.expanded = true
}

func (m *mnode) names() []string {
	out := make([]string, 0, len(m.children))
	for n := range m.children {
		out = append(out, n)
	}
	sort.Strings(out)
	return out
}

func (m *mnode) namesOfKind(kind int, pred func(*mnode) bool) []string {
	var out []string
	for _, n := range m.names() {
		c := m.children[n]
		if c.kind == kind && (pred == nil || pred(c)) {
			out = append(out, n)
		}
	}
	return out
}

func (m *mnode) isCASFile() bool { return m.kind == kindFile && m.blob != nil }

func (m *mnode) fileData() []byte {
	if m.blob != nil {
		return m.blob.data
	}
	return m.local.data
}

// contains tells whether x is m or lies below m (only expanded parts).
func (m *mnode) contains(x *mnode) bool {
	if m == x {
		return true
	}
	for _, c := range m.children {
		if c.kind == kindDir && c.contains(x) {
			return true
		}
	}
	return false
}

// ---- case / action state ---------------------------------------------------

type caseProfile struct {
	Case          int      `json:"case"`
	Malformed     string   `json:"malformed,omitempty"`
	RootMalformed bool     `json:"root_malformed,omitempty"`
	BrokenBlobs   bool     `json:"broken_blobs,omitempty"`
	Polyglot      bool     `json:"polyglot,omitempty"`
	PolyglotFirst string   `json:"polyglot_first,omitempty"`
	Deep          bool     `json:"deep,omitempty"`
	Budget        int      `json:"budget"`
	Ops           int      `json:"ops"`
	Concurrent    bool     `json:"concurrent,omitempty"`
	SameRoot      bool     `json:"same_root"`
	Faults        bool     `json:"faults"`
	FinalWalk     bool     `json:"final_walk"`
	Placed        []string `json:"placed,omitempty"`
}

type caseRun struct {
	r    *ev.Run
	idx  int
	rng  *rand.Rand
	cfg  envCfg
	prof caseProfile
	g    *gen
	e    *env

	actions []*action

	mu       sync.Mutex
	modified map[string]int // directory digest key -> index of an action that changed its copy
	sits     map[string]int
	violated bool
}

func (c *caseRun) situation(name string) {
	c.mu.Lock()
	c.sits[name]++
	c.mu.Unlock()
	c.r.Situation(name)
}

type action struct {
	c       *caseRun
	idx     int
	name    string
	ir      builder.BuildDirectory
	irDir   virtual.PrepopulatedDirectory
	rootRef *refDir
	model   *mnode
	rng     *rand.Rand
	log     []string
	hist    []string
	// pathsByDigest records at which paths a CAS directory was loaded.
	pathsByDigest map[string]map[string]bool
	nlocal        int
	dead          bool
}

func (a *action) logf(format string, args ...any) {
	s := fmt.Sprintf(format, args...)
	if len(s) > 300 {
		s = s[:300] + "..."
	}
	a.log = append(a.log, s)
}

func (a *action) h(op string, status any) {
	a.hist = append(a.hist, fmt.Sprintf("%s:%v", op, status))
}

func pathString(p []string) string { return "/" + strings.Join(p, "/") }

// violate records an oracle hit with everything needed to re-run the case.
func (a *action) violate(sig, detail string, extra map[string]any) {
	c := a.c
	c.mu.Lock()
	c.violated = true
	c.mu.Unlock()
	a.dead = true
	tail := a.log
	if len(tail) > 120 {
		tail = tail[len(tail)-120:]
	}
	w := map[string]any{
		"seed":     c.r.Seed(),
		"case":     c.idx,
		"profile":  c.prof,
		"config":   c.cfg,
		"action":   a.name,
		"ops_tail": tail,
		"errors":   c.e.errLog.tail(),
	}
	for k, v := range extra {
		w[k] = v
	}
	c.r.Violation("C17 "+sig, fmt.Sprintf("case %d action %s: %s", c.idx, a.name, detail), w)
}

func statusName(s virtual.Status) string {
	names := map[virtual.Status]string{
		virtual.StatusOK: "OK", virtual.StatusErrAccess: "EACCES", virtual.StatusErrBadHandle: "EBADHANDLE",
		virtual.StatusErrExist: "EEXIST", virtual.StatusErrInval: "EINVAL", virtual.StatusErrIO: "EIO",
		virtual.StatusErrIsDir: "EISDIR", virtual.StatusErrNoEnt: "ENOENT", virtual.StatusErrNotDir: "ENOTDIR",
		virtual.StatusErrNotEmpty: "ENOTEMPTY", virtual.StatusErrNXIO: "ENXIO", virtual.StatusErrPerm: "EPERM",
		virtual.StatusErrROFS: "EROFS", virtual.StatusErrStale: "ESTALE", virtual.StatusErrSymlink: "ELOOP",
		virtual.StatusErrWrongType: "EWRONGTYPE", virtual.StatusErrXDev: "EXDEV", virtual.StatusErrNameTooLong: "ENAMETOOLONG",
	}
	if n, ok := names[s]; ok {
		return n
	}
	return fmt.Sprintf("status(%d)", int(s))
}

// ---- attribute comparison --------------------------------------------------

const maskAll = virtual.AttributesMaskChangeID | virtual.AttributesMaskDeviceNumber | virtual.AttributesMaskFileHandle |
	virtual.AttributesMaskFileType | virtual.AttributesMaskHasNamedAttributes | virtual.AttributesMaskInodeNumber |
	virtual.AttributesMaskIsInNamedAttributeDirectory | virtual.AttributesMaskLastAccessTime |
	virtual.AttributesMaskLastDataModificationTime | virtual.AttributesMaskLastStatusChangeTime |
	virtual.AttributesMaskLinkCount | virtual.AttributesMaskOwnerGroupID | virtual.AttributesMaskOwnerUserID |
	virtual.AttributesMaskPermissions | virtual.AttributesMaskSizeBytes | virtual.AttributesMaskSymlinkTarget

const maskCompare = virtual.AttributesMaskFileType | virtual.AttributesMaskPermissions | virtual.AttributesMaskSizeBytes | virtual.AttributesMaskSymlinkTarget

func (a *action) randomMask() virtual.AttributesMask {
	switch a.rng.IntN(4) {
	case 0:
		return maskCompare
	case 1:
		return maskAll
	}
	m := virtual.AttributesMaskFileType
	opts := []virtual.AttributesMask{
		virtual.AttributesMaskPermissions, virtual.AttributesMaskSizeBytes, virtual.AttributesMaskSymlinkTarget,
		virtual.AttributesMaskInodeNumber, virtual.AttributesMaskLinkCount, virtual.AttributesMaskChangeID,
		virtual.AttributesMaskLastDataModificationTime, virtual.AttributesMaskOwnerUserID, virtual.AttributesMaskFileHandle,
	}
	for _, o := range opts {
		if a.rng.IntN(2) == 0 {
			m |= o
		}
	}
	return m
}

// attrSummary renders the compared attributes (for snapshots/witnesses).
func attrSummary(at *virtual.Attributes, mask virtual.AttributesMask) string {
	var sb strings.Builder
	fmt.Fprintf(&sb, "type=%d", at.GetFileType())
	if mask&virtual.AttributesMaskPermissions != 0 {
		p, ok := at.GetPermissions()
		fmt.Fprintf(&sb, " perm=%d/%v", p, ok)
	}
	if mask&virtual.AttributesMaskSizeBytes != 0 {
		s, ok := at.GetSizeBytes()
		fmt.Fprintf(&sb, " size=%d/%v", s, ok)
	}
	if mask&virtual.AttributesMaskSymlinkTarget != 0 {
		if t, ok := at.GetSymlinkTarget(); ok {
			fmt.Fprintf(&sb, " target=%q", parserString(t))
		}
	}
	return sb.String()
}

// checkNode compares kind and attributes of an observed directory entry with
// the model node. It returns false after reporting a violation.
func (a *action) checkNode(op string, p []string, name string, child virtual.DirectoryChild, at *virtual.Attributes, mask virtual.AttributesMask, want *mnode) bool {
	where := pathString(append(append([]string(nil), p...), name))
	dir, leaf := child.GetPair()
	gotKind := 0
	ft := at.GetFileType()
	switch {
	case dir != nil:
		gotKind = kindDir
	case leaf != nil && ft == filesystem.FileTypeSymlink:
		gotKind = kindSymlink
	case leaf != nil && ft == filesystem.FileTypeRegularFile:
		gotKind = kindFile
	case leaf != nil:
		gotKind = kindOther
	}
	if gotKind != want.kind || (want.kind == kindDir && ft != filesystem.FileTypeDirectory) {
		a.violate("fidelity kind-mismatch op="+op+" want="+kindName(want.kind)+" got="+kindName(gotKind),
			fmt.Sprintf("%s: node kind differs (file type %d)", where, ft),
			map[string]any{"path": where, "expected_kind": kindName(want.kind), "observed_kind": kindName(gotKind), "observed_filetype": int(ft)})
		return false
	}
	if want.kind == kindOther && ft != want.ftype {
		a.violate("fidelity local-special-file-type-mismatch op="+op, fmt.Sprintf("%s: file type %d, expected %d", where, ft, want.ftype), map[string]any{"path": where})
		return false
	}
	switch want.kind {
	case kindFile:
		if mask&virtual.AttributesMaskSizeBytes != 0 {
			sz, ok := at.GetSizeBytes()
			if !ok || sz != uint64(len(want.fileData())) {
				a.violate("fidelity size-mismatch op="+op, fmt.Sprintf("%s: size %d/%v, expected %d", where, sz, ok, len(want.fileData())),
					map[string]any{"path": where, "expected_size": len(want.fileData()), "observed_size": sz, "present": ok})
				return false
			}
		}
		if mask&virtual.AttributesMaskPermissions != 0 {
			perm, ok := at.GetPermissions()
			if want.isCASFile() {
				exp := virtual.PermissionsRead
				if want.exec {
					exp |= virtual.PermissionsExecute
				}
				if !ok || perm != exp {
					sig := "fidelity executable-bit-mismatch op=" + op
					if ok && perm&virtual.PermissionsWrite != 0 {
						sig = "immutability cas-file-reports-write-permission op=" + op
					}
					a.violate(sig, fmt.Sprintf("%s: permissions %d/%v, expected %d (exec=%v)", where, perm, ok, exp, want.exec),
						map[string]any{"path": where, "expected_permissions": int(exp), "observed_permissions": int(perm), "present": ok})
					return false
				}
			} else if ok && (perm&virtual.PermissionsExecute != 0) != want.exec {
				a.violate("fidelity local-executable-bit-mismatch op="+op, fmt.Sprintf("%s: permissions %d, expected exec=%v", where, perm, want.exec),
					map[string]any{"path": where})
				return false
			}
		}
	case kindSymlink:
		if mask&virtual.AttributesMaskSymlinkTarget != 0 {
			t, ok := at.GetSymlinkTarget()
			got := ""
			if ok {
				got = parserString(t)
			}
			if !ok || got != normTarget(want.target) {
				a.violate("fidelity symlink-target-mismatch op="+op, fmt.Sprintf("%s: target %q/%v, expected %q", where, got, ok, normTarget(want.target)),
					map[string]any{"path": where, "expected_target": normTarget(want.target), "observed_target": got, "present": ok})
				return false
			}
		}
	}
	return true
}

// readAll reads a leaf completely with PRNG-chosen chunk sizes.
func (a *action) readAll(leaf virtual.Leaf, size int) ([]byte, virtual.Status, string) {
	ctx := a.c.e.ctx
	out := make([]byte, 0, size)
	off := 0
	// Every VirtualRead of a CAS file is one (validated) CAS Get; bound the
	// number of chunks per file so that large blobs stay affordable.
	chunkMax := []int{1, 7, 64, 1000, 4096, 65536, 1 << 20}[a.rng.IntN(7)]
	if lo := size / 12; chunkMax < lo {
		chunkMax = lo
	}
	for {
		n := 1 + a.rng.IntN(chunkMax)
		buf := make([]byte, n)
		got, eof, s := leaf.VirtualRead(ctx, buf, uint64(off))
		if s != virtual.StatusOK {
			return out, s, ""
		}
		if got < 0 || got > n {
			return out, s, fmt.Sprintf("VirtualRead returned n=%d for a %d byte buffer", got, n)
		}
		out = append(out, buf[:got]...)
		off += got
		if eof {
			break
		}
		if got == 0 {
			return out, s, fmt.Sprintf("VirtualRead returned 0 bytes without eof at offset %d", off)
		}
		if len(out) > size+1<<20 {
			return out, s, "file keeps growing"
		}
	}
	// Past the end.
	buf := make([]byte, 16)
	got, eof, s := leaf.VirtualRead(ctx, buf, uint64(off+a.rng.IntN(100)))
	if s != virtual.StatusOK || got != 0 || !eof {
		return out, s, fmt.Sprintf("read past the end: n=%d eof=%v status=%s", got, eof, statusName(s))
	}
	return out, virtual.StatusOK, ""
}

// checkFileContent reads the file behind leaf and compares with the model.
func (a *action) checkFileContent(op string, where string, leaf virtual.Leaf, want *mnode) bool {
	data := want.fileData()
	if want.isCASFile() && !want.blob.readable() {
		buf := make([]byte, 1+a.rng.IntN(64))
		n, _, s := leaf.VirtualRead(a.c.e.ctx, buf, 0)
		a.h(op+"-broken-blob", statusName(s))
		if s == virtual.StatusOK {
			a.violate("malformed broken-file-blob-served op="+op,
				fmt.Sprintf("%s: read of a missing/corrupted CAS blob succeeded (n=%d)", where, n),
				map[string]any{"path": where, "blob": want.blob.digest.String(), "blob_state": want.blob.state})
			return false
		}
		a.c.situation("broken-file-blob-refused")
		return true
	}
	useOpen := want.isCASFile() && a.rng.IntN(2) == 0
	if useOpen {
		var at virtual.Attributes
		if s := leaf.VirtualOpenSelf(a.c.e.ctx, virtual.ShareMaskRead, &virtual.OpenExistingOptions{}, maskCompare, &at); s != virtual.StatusOK {
			a.violate("fidelity open-for-read-refused", fmt.Sprintf("%s: VirtualOpenSelf(read) = %s", where, statusName(s)), map[string]any{"path": where})
			return false
		}
		defer leaf.VirtualClose(virtual.ShareMaskRead)
	}
	got, s, problem := a.readAll(leaf, len(data))
	a.h(op+"-read", statusName(s))
	if s != virtual.StatusOK || problem != "" {
		a.violate("fidelity read-failed op="+op+" status="+statusName(s), fmt.Sprintf("%s: %s %s", where, statusName(s), problem),
			map[string]any{"path": where, "expected_size": len(data)})
		return false
	}
	if !bytes.Equal(got, data) {
		i := 0
		for i < len(got) && i < len(data) && got[i] == data[i] {
			i++
		}
		a.violate("fidelity content-mismatch op="+op, fmt.Sprintf("%s: %d bytes read, %d expected, first difference at %d", where, len(got), len(data), i),
			map[string]any{"path": where, "expected_size": len(data), "observed_size": len(got), "first_difference": i,
				"expected_head": fmt.Sprintf("%q", head(data, 40)), "observed_head": fmt.Sprintf("%q", head(got, 40))})
		return false
	}
	return true
}

func head(b []byte, n int) []byte {
	if len(b) > n {
		return b[:n]
	}
	return b
}
