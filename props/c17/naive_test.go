package c17

// Second driver, fidelity only: the generated DAGs are materialised on disk
// through builder.NewNaiveBuildDirectory with a HardlinkingFileFetcher over a
// BlobAccessFileFetcher, and compared with the reference tree using the os
// package. (Immutability of hard-linked inputs relies on OS permissions and
// cannot be judged as root; see DESIGN.md section 7.)

import (
	"bytes"
	"context"
	"fmt"
	"os"
	"path/filepath"
	"runtime"
	"sort"
	"sync"

	"github.com/buildbarn/bb-remote-execution/pkg/builder"
	"github.com/buildbarn/bb-remote-execution/pkg/cas"
	"github.com/buildbarn/bb-storage/pkg/digest"
	"github.com/buildbarn/bb-storage/pkg/eviction"
	"github.com/buildbarn/bb-storage/pkg/filesystem"
	"github.com/buildbarn/bb-storage/pkg/filesystem/path"

	"golang.org/x/sync/semaphore"

	"verif/internal/ev"
)

type naiveProfile struct {
	Case        int      `json:"case"`
	Naive       bool     `json:"naive"`
	Malformed   string   `json:"malformed,omitempty"`
	BrokenBlobs bool     `json:"broken_blobs,omitempty"`
	Budget      int      `json:"budget"`
	CacheFiles  int      `json:"cache_files"`
	Hardlinking bool     `json:"hardlinking"`
	Concurrency int64    `json:"concurrency"`
	Placed      []string `json:"placed,omitempty"`
	Digest      string   `json:"digest_function"`
	Scenario    string   `json:"scenario"`
}

func runNaiveCase(r *ev.Run, idx int) {
	rng := r.Rand(1717, uint64(idx))
	df, dfName := pickDigestFunction(rng)
	prof := naiveProfile{
		Case:        idx,
		Naive:       true,
		Budget:      []int{20, 60, 150}[rng.IntN(3)],
		CacheFiles:  []int{1, 3, 1000}[rng.IntN(3)],
		Hardlinking: rng.IntN(5) != 0,
		Concurrency: int64(1 + rng.IntN(8)),
		Digest:      dfName,
	}
	// Every fourth case is malformed; the kinds are cycled through, so that
	// each refusal arm of the naive driver is reached in every run.
	if idx%4 == 0 {
		if k := (idx / 4) % (len(malformedKinds) + 1); k == len(malformedKinds) {
			prof.BrokenBlobs = true
		} else {
			prof.Malformed = malformedKinds[k]
		}
	}
	prof.Scenario = []string{"plain", "transient-fault", "vanished-cache-file"}[idx%3]
	if idx%3 == 2 {
		prof.Hardlinking, prof.CacheFiles = true, 1000
	}
	g := &gen{rng: rng, df: df, malKind: prof.Malformed, deep: rng.IntN(5) == 0}
	if g.malKind != "" {
		g.malLeft = 1
	}
	g.makeBlobs(prof.BrokenBlobs)
	root := g.genRoot(prof.Budget, false)
	prof.Placed = g.malUsed
	r.Case("naive case=%d profile=%+v root=%s dirs=%d", idx, prof, root.digest, len(g.all))

	store := newFakeCAS()
	populate(store, g)
	hashBefore := store.contentHash()

	violate := func(sig, detail string, extra map[string]any) {
		w := map[string]any{"seed": r.Seed(), "case": idx, "naive": true, "profile": prof}
		for k, v := range extra {
			w[k] = v
		}
		r.Violation("C17 naive "+sig, fmt.Sprintf("naive case %d: %s", idx, detail), w)
	}

	tmp, err := os.MkdirTemp("", "verif-c17-")
	if err != nil {
		r.Inconclusive("cannot create temporary directory: %v", err)
		return
	}
	defer func() {
		// Directories of a failed merge may lack permissions; restore
		// them before removal.
		filepath.Walk(tmp, func(p string, fi os.FileInfo, err error) error {
			if err == nil && fi.IsDir() {
				os.Chmod(p, 0o777)
			}
			return nil
		})
		os.RemoveAll(tmp)
	}()
	for _, sub := range []string{"build", "cache"} {
		if err := os.Mkdir(filepath.Join(tmp, sub), 0o777); err != nil {
			r.Inconclusive("mkdir: %v", err)
			return
		}
	}
	buildDir, err := filesystem.NewLocalDirectory(path.LocalFormat.NewParser(filepath.Join(tmp, "build")))
	if err != nil {
		r.Inconclusive("open build directory: %v", err)
		return
	}
	defer buildDir.Close()
	cacheDir, err := filesystem.NewLocalDirectory(path.LocalFormat.NewParser(filepath.Join(tmp, "cache")))
	if err != nil {
		r.Inconclusive("open cache directory: %v", err)
		return
	}
	defer cacheDir.Close()

	dirFetcher := cas.NewCachingDirectoryFetcher(cas.NewBlobAccessDirectoryFetcher(store, 1<<22, 1<<22), digest.KeyWithoutInstance, 1000, 1<<24,
		eviction.NewLRUSet[cas.CachingDirectoryFetcherKey]())
	fileFetcher := cas.NewBlobAccessFileFetcher(store)
	if prof.Hardlinking {
		fileFetcher = cas.NewHardlinkingFileFetcher(fileFetcher, cacheDir, prof.CacheFiles, 1<<30, eviction.NewLRUSet[string]())
	}
	bd := builder.NewNaiveBuildDirectory(buildDir, dirFetcher, fileFetcher, semaphore.NewWeighted(prof.Concurrency), store)
	errLog := &recErrorLogger{}
	ctx := context.Background()

	expectFailure := false
	var walkRef func(d *refDir)
	seenRef := map[*refDir]bool{}
	walkRef = func(d *refDir) {
		if seenRef[d] {
			return
		}
		seenRef[d] = true
		if d.bad != "" {
			expectFailure = true
			return
		}
		for _, e := range d.entries {
			switch e.kind {
			case kindDir:
				walkRef(e.dir)
			case kindFile:
				if e.blob.state != blobOK {
					expectFailure = true
				}
			}
		}
	}
	walkRef(root)

	hist := []string{}
	nontrivial := false
	fileGets := func() int {
		n := 0
		for _, b := range g.blobs {
			n += store.getCount(b.digest)
		}
		return n
	}
	for round := 0; round < 3; round++ {
		name := fmt.Sprintf("action%d", round)
		if err := bd.Mkdir(comp(name), 0o777); err != nil {
			r.Inconclusive("mkdir action directory: %v", err)
			return
		}
		ad, err := bd.EnterBuildDirectory(comp(name))
		if err != nil {
			r.Inconclusive("enter action directory: %v", err)
			return
		}
		faulted := false
		if round == 0 && prof.Scenario == "transient-fault" && !expectFailure {
			// One storage error somewhere during the eager merge.
			store.armAny(1, faultErrors[rng.IntN(len(faultErrors))])
			faulted = true
		}
		if round == 1 && prof.Scenario == "vanished-cache-file" && !expectFailure {
			// Something outside the worker removed files from the
			// hardlinking cache: bookkeeping and disk disagree.
			ents, _ := os.ReadDir(filepath.Join(tmp, "cache"))
			removed := 0
			for i, en := range ents {
				if i%2 == 0 && os.Remove(filepath.Join(tmp, "cache", en.Name())) == nil {
					removed++
				}
			}
			hist = append(hist, fmt.Sprintf("vanished:%v", removed > 0))
			if removed > 0 {
				defer r.Situation("naive-vanished-cache-file-repaired")
			}
		}
		getsBefore := fileGets()
		err = ad.MergeDirectoryContents(ctx, errLog, root.digest, nil)
		fired := 0
		if faulted {
			fired = store.disarm()
		}
		hist = append(hist, fmt.Sprintf("merge:%v", err == nil))
		if expectFailure {
			ad.Close()
			if err == nil {
				violate("malformed accepted kind="+prof.Malformed, "MergeDirectoryContents of a tree with a malformed directory or broken blob succeeded",
					map[string]any{"placed": g.malUsed, "broken_blobs": prof.BrokenBlobs})
				return
			}
			r.Situation("naive-malformed-refused")
			nontrivial = true
			continue
		}
		if err != nil && fired > 0 {
			// The storage error surfaced; the next action (fresh
			// directory, no fault) has to get the right tree.
			ad.Close()
			r.Situation("naive-transient-fault-then-clean-merge")
			nontrivial = true
			continue
		}
		if err != nil {
			ad.Close()
			violate("fidelity merge-failed", fmt.Sprintf("round %d: MergeDirectoryContents of a well-formed tree failed: %v", round, err), nil)
			return
		}
		if problem, extra := compareOnDisk(filepath.Join(tmp, "build", name), root, 0); problem != "" {
			ad.Close()
			violate("fidelity "+problem, fmt.Sprintf("round %d: %v", round, extra), extra)
			return
		}
		r.Situation("naive-fidelity")
		nontrivial = true
		if round >= 1 && prof.Hardlinking && prof.CacheFiles >= 1000 && (round == 2 || prof.Scenario == "plain") {
			// With a large cache the second action needs no file blob.
			if fileGets() == getsBefore && root.expanded > 1 {
				r.Situation("naive-hardlink-cache-hit")
				hist = append(hist, "cache-hit")
			}
		}
		// Fetching a file onto a name that already exists has to fail
		// (this is what makes duplicate names surface as errors here),
		// whether the blob comes from the cache or from storage.
		if problem := existingDestinationRefused(ctx, r, fileFetcher, filepath.Join(tmp, "build", name), root, g); problem != "" {
			ad.Close()
			violate("malformed existing-destination-overwritten-or-accepted", fmt.Sprintf("round %d: %s", round, problem), nil)
			return
		}
		ad.Close()
	}
	if w := store.writes(); len(w) != 0 {
		violate("immutability cas-written", fmt.Sprintf("the CAS write log is not empty: %v", w), nil)
		return
	}
	if h := store.contentHash(); h != hashBefore {
		violate("immutability cas-content-changed", "the content hash of the fake CAS changed", nil)
		return
	}
	r.Hash(ev.HashOf("naive", prof.Malformed, prof.BrokenBlobs, prof.Hardlinking, prof.CacheFiles, len(g.all), root.expanded, hist), nontrivial)
	r.Count("naive_cases", 1)
}

// compareOnDisk compares a materialised directory with the reference.
func compareOnDisk(dir string, ref *refDir, depth int) (string, map[string]any) {
	ents, err := os.ReadDir(dir)
	if err != nil {
		return "readdir-failed", map[string]any{"path": dir, "error": err.Error()}
	}
	var got []string
	for _, e := range ents {
		got = append(got, e.Name())
	}
	var want []string
	for _, e := range ref.entries {
		want = append(want, e.name)
	}
	sort.Strings(got)
	sort.Strings(want)
	if fmt.Sprint(got) != fmt.Sprint(want) {
		return "names-mismatch", map[string]any{"path": dir, "expected_names": want, "observed_names": got}
	}
	for _, e := range ref.entries {
		p := filepath.Join(dir, e.name)
		fi, err := os.Lstat(p)
		if err != nil {
			return "lstat-failed", map[string]any{"path": p, "error": err.Error()}
		}
		switch e.kind {
		case kindDir:
			if !fi.IsDir() {
				return "kind-mismatch want=dir", map[string]any{"path": p, "mode": fi.Mode().String()}
			}
			if problem, extra := compareOnDisk(p, e.dir, depth+1); problem != "" {
				return problem, extra
			}
		case kindFile:
			if !fi.Mode().IsRegular() {
				return "kind-mismatch want=file", map[string]any{"path": p, "mode": fi.Mode().String()}
			}
			if (fi.Mode().Perm()&0o111 != 0) != e.exec {
				return "executable-bit-mismatch", map[string]any{"path": p, "mode": fi.Mode().String(), "expected_exec": e.exec}
			}
			if fi.Mode().Perm()&0o222 != 0 {
				return "input-file-writable-mode", map[string]any{"path": p, "mode": fi.Mode().String()}
			}
			data, err := os.ReadFile(p)
			if err != nil || !bytes.Equal(data, e.blob.data) {
				return "content-mismatch", map[string]any{"path": p, "expected_size": len(e.blob.data), "observed_size": len(data), "error": fmt.Sprint(err)}
			}
		case kindSymlink:
			if fi.Mode()&os.ModeSymlink == 0 {
				return "kind-mismatch want=symlink", map[string]any{"path": p, "mode": fi.Mode().String()}
			}
			t, err := os.Readlink(p)
			if err != nil || t != normTarget(e.target) {
				return "symlink-target-mismatch", map[string]any{"path": p, "expected_target": normTarget(e.target), "observed_target": t, "error": fmt.Sprint(err)}
			}
		}
	}
	return "", nil
}

// existingDestinationRefused calls the FileFetcher for names that already
// exist in the freshly merged root directory and checks that every call
// fails and leaves the existing entry alone.
func existingDestinationRefused(ctx context.Context, r *ev.Run, ff cas.FileFetcher, diskPath string, root *refDir, g *gen) string {
	dir, err := filesystem.NewLocalDirectory(path.LocalFormat.NewParser(diskPath))
	if err != nil {
		return ""
	}
	defer dir.Close()
	n := 0
	for _, e := range root.entries {
		if n >= 3 {
			break
		}
		if e.kind == kindDir {
			continue
		}
		for _, b := range g.blobs {
			if b.state != blobOK || (e.kind == kindFile && b == e.blob) {
				continue
			}
			before, _ := os.Lstat(filepath.Join(diskPath, e.name))
			err := ff.GetFile(ctx, b.digest, dir, comp(e.name), e.exec)
			after, _ := os.Lstat(filepath.Join(diskPath, e.name))
			if err == nil {
				return fmt.Sprintf("GetFile onto existing %q (%s) succeeded", e.name, kindName(e.kind))
			}
			if before == nil || after == nil || before.Mode() != after.Mode() || before.Size() != after.Size() || !os.SameFile(before, after) {
				return fmt.Sprintf("existing %q (%s) changed after a refused GetFile", e.name, kindName(e.kind))
			}
			if e.kind == kindFile {
				if data, rerr := os.ReadFile(filepath.Join(diskPath, e.name)); rerr != nil || !bytes.Equal(data, e.blob.data) {
					return fmt.Sprintf("contents of existing %q changed after a refused GetFile", e.name)
				}
			}
			r.Situation("hardlink-existing-destination-refused")
			n++
			break
		}
	}
	return ""
}

// runHardlinkStress drives the HardlinkingFileFetcher directly: several
// goroutines fetch a few blobs (both executable flavours) into their own
// directories through one fetcher with a tiny cache, so that evictions,
// concurrent downloads of one key and links from the cache overlap. Every
// successful GetFile has to leave exactly the requested bytes and mode at the
// destination; a GetFile onto an existing name has to fail and change
// nothing; at the end the cache holds at most maxFiles files and each of
// them is the blob its name says.
func runHardlinkStress(r *ev.Run, idx int) {
	rng := r.Rand(171717, uint64(idx))
	df, dfName := pickDigestFunction(rng)
	maxFiles := 1 + rng.IntN(3)
	maxSize := []int64{1 << 30, 3000, 300}[rng.IntN(3)]
	workers := 3 + rng.IntN(5)
	r.Case("hardlink-stress case=%d digest=%s maxFiles=%d maxSize=%d workers=%d", idx, dfName, maxFiles, maxSize, workers)
	g := &gen{rng: rng, df: df}
	g.makeBlobs(false)
	blobs := g.blobs
	if len(blobs) > 6 {
		blobs = blobs[:6]
	}
	store := newFakeCAS()
	populate(store, g)
	hashBefore := store.contentHash()
	violate := func(sig, detail string) {
		r.Violation("C17 naive "+sig, fmt.Sprintf("hardlink stress case %d: %s", idx, detail),
			map[string]any{"seed": r.Seed(), "case": idx, "naive": true, "stress": true, "max_files": maxFiles, "max_size": maxSize, "workers": workers})
	}
	tmp, err := os.MkdirTemp("", "verif-c17-hl-")
	if err != nil {
		r.Inconclusive("cannot create temporary directory: %v", err)
		return
	}
	defer os.RemoveAll(tmp)
	os.Mkdir(filepath.Join(tmp, "cache"), 0o777)
	cacheDir, err := filesystem.NewLocalDirectory(path.LocalFormat.NewParser(filepath.Join(tmp, "cache")))
	if err != nil {
		r.Inconclusive("open cache directory: %v", err)
		return
	}
	defer cacheDir.Close()
	ff := cas.NewHardlinkingFileFetcher(cas.NewBlobAccessFileFetcher(store), cacheDir, maxFiles, maxSize, eviction.NewLRUSet[string]())
	ctx := context.Background()

	type problem struct{ sig, detail string }
	problems := make(chan problem, workers)
	var wg sync.WaitGroup
	for w := 0; w < workers; w++ {
		wdir := filepath.Join(tmp, fmt.Sprintf("w%d", w))
		os.Mkdir(wdir, 0o777)
		wrng := r.Rand(171717, uint64(idx), uint64(w+1))
		wg.Add(1)
		go func() {
			defer wg.Done()
			dir, err := filesystem.NewLocalDirectory(path.LocalFormat.NewParser(wdir))
			if err != nil {
				return
			}
			defer dir.Close()
			type made struct {
				name string
				b    *blob
				exec bool
			}
			var have []made
			for op := 0; op < 40; op++ {
				b := blobs[wrng.IntN(len(blobs))]
				exec := wrng.IntN(2) == 0
				if len(have) > 0 && wrng.IntN(5) == 0 {
					ex := have[wrng.IntN(len(have))]
					if err := ff.GetFile(ctx, b.digest, dir, comp(ex.name), exec); err == nil {
						problems <- problem{"malformed existing-destination-overwritten-or-accepted", fmt.Sprintf("GetFile onto existing %s succeeded", ex.name)}
						return
					}
					data, rerr := os.ReadFile(filepath.Join(wdir, ex.name))
					fi, serr := os.Lstat(filepath.Join(wdir, ex.name))
					if rerr != nil || serr != nil || !bytes.Equal(data, ex.b.data) || (fi.Mode().Perm()&0o111 != 0) != ex.exec {
						problems <- problem{"malformed existing-destination-overwritten-or-accepted", fmt.Sprintf("existing %s changed after a refused GetFile", ex.name)}
						return
					}
					r.Situation("hardlink-existing-destination-refused")
					continue
				}
				name := fmt.Sprintf("f%d", op)
				if err := ff.GetFile(ctx, b.digest, dir, comp(name), exec); err != nil {
					problems <- problem{"fidelity getfile-failed", fmt.Sprintf("GetFile(%s, exec=%v) = %v", b.digest, exec, err)}
					return
				}
				data, rerr := os.ReadFile(filepath.Join(wdir, name))
				fi, serr := os.Lstat(filepath.Join(wdir, name))
				switch {
				case rerr != nil || serr != nil:
					problems <- problem{"fidelity lstat-failed", fmt.Sprintf("%s: %v %v", name, rerr, serr)}
					return
				case !bytes.Equal(data, b.data):
					problems <- problem{"fidelity content-mismatch", fmt.Sprintf("%s: %d bytes, expected %d (%s)", name, len(data), len(b.data), b.digest)}
					return
				case (fi.Mode().Perm()&0o111 != 0) != exec:
					problems <- problem{"fidelity executable-bit-mismatch", fmt.Sprintf("%s: mode %s, expected exec=%v", name, fi.Mode(), exec)}
					return
				case fi.Mode().Perm()&0o222 != 0:
					problems <- problem{"fidelity input-file-writable-mode", fmt.Sprintf("%s: mode %s", name, fi.Mode())}
					return
				}
				have = append(have, made{name, b, exec})
				if wrng.IntN(4) == 0 {
					runtime.Gosched()
				}
			}
		}()
	}
	wg.Wait()
	close(problems)
	for p := range problems {
		violate(p.sig, p.detail)
		return
	}
	// Quiescent: what the cache holds.
	want := map[string]*blob{}
	for _, b := range g.blobs {
		want[b.digest.GetKey(digest.KeyWithoutInstance)+"+x"] = b
		want[b.digest.GetKey(digest.KeyWithoutInstance)+"-x"] = b
	}
	ents, _ := os.ReadDir(filepath.Join(tmp, "cache"))
	if len(ents) > maxFiles {
		violate("cache hardlink-cache-exceeds-maximum-file-count", fmt.Sprintf("%d files cached, maximum %d", len(ents), maxFiles))
		return
	}
	for _, en := range ents {
		b, ok := want[en.Name()]
		data, rerr := os.ReadFile(filepath.Join(tmp, "cache", en.Name()))
		fi, _ := os.Lstat(filepath.Join(tmp, "cache", en.Name()))
		if !ok || rerr != nil || !bytes.Equal(data, b.data) || fi == nil || (fi.Mode().Perm()&0o111 != 0) != (en.Name()[len(en.Name())-2:] == "+x") {
			violate("cache hardlink-cache-entry-mismatch", fmt.Sprintf("cache file %q does not hold the blob (and mode) its name says", en.Name()))
			return
		}
	}
	if len(store.writes()) != 0 || store.contentHash() != hashBefore {
		violate("immutability cas-written", "the fake CAS changed")
		return
	}
	r.Situation("hardlink-fetcher-stress-rounds")
	r.Hash(ev.HashOf("hardlink-stress", maxFiles, maxSize, workers, len(ents)), true)
	r.Count("hardlink_stress_rounds", 1)
}
