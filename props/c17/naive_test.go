package c17

// Second driver, fidelity only: the generated DAGs are materialised on disk
// through builder.NewNaiveBuildDirectory with a HardlinkingFileFetcher over a
// BlobAccessFileFetcher, and compared with the reference tree using the os
// package. (Immutability of hard-linked inputs relies on OS permissions and
// cannot be judged as root; see DESIGN.md section 7.)

import (
	"bytes"
	"context"
	"fmt"
	"os"
	"path/filepath"
	"sort"

	"github.com/buildbarn/bb-remote-execution/pkg/builder"
	"github.com/buildbarn/bb-remote-execution/pkg/cas"
	"github.com/buildbarn/bb-storage/pkg/digest"
	"github.com/buildbarn/bb-storage/pkg/eviction"
	"github.com/buildbarn/bb-storage/pkg/filesystem"
	"github.com/buildbarn/bb-storage/pkg/filesystem/path"

	"golang.org/x/sync/semaphore"

	"verif/internal/ev"
)

type naiveProfile struct {
	Case        int      `json:"case"`
	Naive       bool     `json:"naive"`
	Malformed   string   `json:"malformed,omitempty"`
	BrokenBlobs bool     `json:"broken_blobs,omitempty"`
	Budget      int      `json:"budget"`
	CacheFiles  int      `json:"cache_files"`
	Hardlinking bool     `json:"hardlinking"`
	Concurrency int64    `json:"concurrency"`
	Placed      []string `json:"placed,omitempty"`
	Digest      string   `json:"digest_function"`
}

func runNaiveCase(r *ev.Run, idx int) {
	rng := r.Rand(1717, uint64(idx))
	df, dfName := pickDigestFunction(rng)
	prof := naiveProfile{
		Case:        idx,
		Naive:       true,
		Budget:      []int{20, 60, 150}[rng.IntN(3)],
		CacheFiles:  []int{1, 3, 1000}[rng.IntN(3)],
		Hardlinking: rng.IntN(5) != 0,
		Concurrency: int64(1 + rng.IntN(8)),
		Digest:      dfName,
	}
	if rng.IntN(10) < 3 {
		if rng.IntN(4) == 0 {
			prof.BrokenBlobs = true
		} else {
			prof.Malformed = malformedKinds[rng.IntN(len(malformedKinds))]
		}
	}
	g := &gen{rng: rng, df: df, malKind: prof.Malformed, deep: rng.IntN(5) == 0}
	if g.malKind != "" {
		g.malLeft = 1
	}
	g.makeBlobs(prof.BrokenBlobs)
	root := g.genRoot(prof.Budget, false)
	prof.Placed = g.malUsed
	r.Case("naive case=%d profile=%+v root=%s dirs=%d", idx, prof, root.digest, len(g.all))

	store := newFakeCAS()
	populate(store, g)
	hashBefore := store.contentHash()

	violate := func(sig, detail string, extra map[string]any) {
		w := map[string]any{"seed": r.Seed(), "case": idx, "naive": true, "profile": prof}
		for k, v := range extra {
			w[k] = v
		}
		r.Violation("C17 naive "+sig, fmt.Sprintf("naive case %d: %s", idx, detail), w)
	}

	tmp, err := os.MkdirTemp("", "verif-c17-")
	if err != nil {
		r.Inconclusive("cannot create temporary directory: %v", err)
		return
	}
	defer func() {
		// Directories of a failed merge may lack permissions; restore
		// them before removal.
		filepath.Walk(tmp, func(p string, fi os.FileInfo, err error) error {
			if err == nil && fi.IsDir() {
				os.Chmod(p, 0o777)
			}
			return nil
		})
		os.RemoveAll(tmp)
	}()
	for _, sub := range []string{"build", "cache"} {
		if err := os.Mkdir(filepath.Join(tmp, sub), 0o777); err != nil {
			r.Inconclusive("mkdir: %v", err)
			return
		}
	}
	buildDir, err := filesystem.NewLocalDirectory(path.LocalFormat.NewParser(filepath.Join(tmp, "build")))
	if err != nil {
		r.Inconclusive("open build directory: %v", err)
		return
	}
	defer buildDir.Close()
	cacheDir, err := filesystem.NewLocalDirectory(path.LocalFormat.NewParser(filepath.Join(tmp, "cache")))
	if err != nil {
		r.Inconclusive("open cache directory: %v", err)
		return
	}
	defer cacheDir.Close()

	dirFetcher := cas.NewCachingDirectoryFetcher(cas.NewBlobAccessDirectoryFetcher(store, 1<<22, 1<<22), digest.KeyWithoutInstance, 1000, 1<<24,
		eviction.NewLRUSet[cas.CachingDirectoryFetcherKey]())
	fileFetcher := cas.NewBlobAccessFileFetcher(store)
	if prof.Hardlinking {
		fileFetcher = cas.NewHardlinkingFileFetcher(fileFetcher, cacheDir, prof.CacheFiles, 1<<30, eviction.NewLRUSet[string]())
	}
	bd := builder.NewNaiveBuildDirectory(buildDir, dirFetcher, fileFetcher, semaphore.NewWeighted(prof.Concurrency), store)
	errLog := &recErrorLogger{}
	ctx := context.Background()

	expectFailure := false
	var walkRef func(d *refDir)
	seenRef := map[*refDir]bool{}
	walkRef = func(d *refDir) {
		if seenRef[d] {
			return
		}
		seenRef[d] = true
		if d.bad != "" {
			expectFailure = true
			return
		}
		for _, e := range d.entries {
			switch e.kind {
			case kindDir:
				walkRef(e.dir)
			case kindFile:
				if e.blob.state != blobOK {
					expectFailure = true
				}
			}
		}
	}
	walkRef(root)

	hist := []string{}
	nontrivial := false
	for round := 0; round < 2; round++ {
		name := fmt.Sprintf("action%d", round)
		if err := bd.Mkdir(comp(name), 0o777); err != nil {
			r.Inconclusive("mkdir action directory: %v", err)
			return
		}
		ad, err := bd.EnterBuildDirectory(comp(name))
		if err != nil {
			r.Inconclusive("enter action directory: %v", err)
			return
		}
		fileGets := func() int {
			n := 0
			for _, b := range g.blobs {
				n += store.getCount(b.digest)
			}
			return n
		}
		getsBefore := fileGets()
		err = ad.MergeDirectoryContents(ctx, errLog, root.digest, nil)
		ad.Close()
		hist = append(hist, fmt.Sprintf("merge:%v", err == nil))
		if expectFailure {
			if err == nil {
				violate("malformed accepted kind="+prof.Malformed, "MergeDirectoryContents of a tree with a malformed directory or broken blob succeeded",
					map[string]any{"placed": g.malUsed, "broken_blobs": prof.BrokenBlobs})
				return
			}
			r.Situation("naive-malformed-refused")
			nontrivial = true
			continue
		}
		if err != nil {
			violate("fidelity merge-failed", fmt.Sprintf("MergeDirectoryContents of a well-formed tree failed: %v", err), nil)
			return
		}
		if problem, extra := compareOnDisk(filepath.Join(tmp, "build", name), root, 0); problem != "" {
			violate("fidelity "+problem, fmt.Sprintf("round %d: %v", round, extra), extra)
			return
		}
		r.Situation("naive-fidelity")
		nontrivial = true
		if round == 1 && prof.Hardlinking && prof.CacheFiles >= 1000 {
			// With a large cache the second action needs no file blob.
			if fileGets() == getsBefore && root.expanded > 1 {
				r.Situation("naive-hardlink-cache-hit")
				hist = append(hist, "cache-hit")
			}
		}
	}
	if w := store.writes(); len(w) != 0 {
		violate("immutability cas-written", fmt.Sprintf("the CAS write log is not empty: %v", w), nil)
		return
	}
	if h := store.contentHash(); h != hashBefore {
		violate("immutability cas-content-changed", "the content hash of the fake CAS changed", nil)
		return
	}
	r.Hash(ev.HashOf("naive", prof.Malformed, prof.BrokenBlobs, prof.Hardlinking, prof.CacheFiles, len(g.all), root.expanded, hist), nontrivial)
	r.Count("naive_cases", 1)
}

// compareOnDisk compares a materialised directory with the reference.
func compareOnDisk(dir string, ref *refDir, depth int) (string, map[string]any) {
	ents, err := os.ReadDir(dir)
	if err != nil {
		return "readdir-failed", map[string]any{"path": dir, "error": err.Error()}
	}
	var got []string
	for _, e := range ents {
		got = append(got, e.Name())
	}
	var want []string
	for _, e := range ref.entries {
		want = append(want, e.name)
	}
	sort.Strings(got)
	sort.Strings(want)
	if fmt.Sprint(got) != fmt.Sprint(want) {
		return "names-mismatch", map[string]any{"path": dir, "expected_names": want, "observed_names": got}
	}
	for _, e := range ref.entries {
		p := filepath.Join(dir, e.name)
		fi, err := os.Lstat(p)
		if err != nil {
			return "lstat-failed", map[string]any{"path": p, "error": err.Error()}
		}
		switch e.kind {
		case kindDir:
			if !fi.IsDir() {
				return "kind-mismatch want=dir", map[string]any{"path": p, "mode": fi.Mode().String()}
			}
			if problem, extra := compareOnDisk(p, e.dir, depth+1); problem != "" {
				return problem, extra
			}
		case kindFile:
			if !fi.Mode().IsRegular() {
				return "kind-mismatch want=file", map[string]any{"path": p, "mode": fi.Mode().String()}
			}
			if (fi.Mode().Perm()&0o111 != 0) != e.exec {
				return "executable-bit-mismatch", map[string]any{"path": p, "mode": fi.Mode().String(), "expected_exec": e.exec}
			}
			if fi.Mode().Perm()&0o222 != 0 {
				return "input-file-writable-mode", map[string]any{"path": p, "mode": fi.Mode().String()}
			}
			data, err := os.ReadFile(p)
			if err != nil || !bytes.Equal(data, e.blob.data) {
				return "content-mismatch", map[string]any{"path": p, "expected_size": len(e.blob.data), "observed_size": len(data), "error": fmt.Sprint(err)}
			}
		case kindSymlink:
			if fi.Mode()&os.ModeSymlink == 0 {
				return "kind-mismatch want=symlink", map[string]any{"path": p, "mode": fi.Mode().String()}
			}
			t, err := os.Readlink(p)
			if err != nil || t != normTarget(e.target) {
				return "symlink-target-mismatch", map[string]any{"path": p, "expected_target": normTarget(e.target), "observed_target": t, "error": fmt.Sprint(err)}
			}
		}
	}
	return "", nil
}
