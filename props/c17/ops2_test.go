package c17

// Further modification entry points (CreateChildren with CAS directories,
// CreateAndEnterPrepopulatedDirectory, special files, FilterChildren) and the
// refusal arms of directory operations: wrong kind, existing name, absent
// name. All of them are ways in which an action changes, or fails to change,
// its own copy of the input root.

import (
	"fmt"
	"os"

	"github.com/buildbarn/bb-remote-execution/pkg/filesystem/virtual"
	"github.com/buildbarn/bb-storage/pkg/filesystem"
	"github.com/buildbarn/bb-storage/pkg/filesystem/path"
)

func (a *action) opModify2(variant int, p []string, m *mnode, d virtual.Directory, pd virtual.PrepopulatedDirectory) {
	e := a.c.e
	names := m.names()
	switch variant {
	case 11: // graft a lazily loaded CAS directory, as MergeDirectoryContents does
		if pd == nil {
			return
		}
		var cands []*refDir
		for _, r := range a.c.g.all {
			if r.height <= maxDepth-len(p)-1 {
				cands = append(cands, r)
			}
		}
		if len(cands) == 0 {
			return
		}
		ref := cands[a.rng.IntN(len(cands))]
		overwrite := a.rng.IntN(2) == 0
		n, existing := a.freshName(), false
		if len(names) > 0 && a.rng.IntN(2) == 0 {
			n, existing = names[a.rng.IntN(len(names))], true
		}
		lazySibling := hasLazyChild(m)
		err := pd.CreateChildren(map[path.Component]virtual.InitialChild{
			comp(n): virtual.InitialChild{}.FromDirectory(e.casFetcher(ref.digest)),
		}, overwrite)
		a.logf("CreateChildren %s %q <- CAS directory %s (bad=%q) existing=%v overwrite=%v -> %v", pathString(p), n, ref.digest, ref.bad, existing, overwrite, err)
		a.h("graft", fmt.Sprintf("%v/%v/%v", existing, overwrite, err == nil))
		a.noteLoaded(p, m)
		if existing && !overwrite {
			if err == nil {
				a.violate("modification create-over-existing-accepted op=CreateChildren", fmt.Sprintf("%s: CreateChildren(overwrite=false) replaced existing %q", pathString(p), n), map[string]any{"path": pathString(p), "name": n})
				return
			}
			a.verifyNames("CreateChildren-exists", p, m, d, n)
			return
		}
		if err != nil {
			a.violate("modification refused op=CreateChildren", fmt.Sprintf("%s: CreateChildren(%q, overwrite=%v) = %v", pathString(p), n, overwrite, err), map[string]any{"path": pathString(p), "name": n})
			return
		}
		m.children[n] = newLazyDir(ref)
		a.noteModified(m)
		if a.verifyNames("CreateChildren", p, m, d, n) {
			a.c.situation("graft-cas-directory")
			if existing {
				a.c.situation("graft-overwrites-entry")
			}
			if lazySibling {
				a.c.situation("create-next-to-lazy-directory")
			}
		}
	case 12: // CreateAndEnterPrepopulatedDirectory: what CreateParentDirectories uses
		if pd == nil {
			return
		}
		n := a.freshName()
		if len(names) > 0 && a.rng.IntN(100) < 60 {
			n = names[a.rng.IntN(len(names))]
		}
		c := m.children[n]
		child, err := pd.CreateAndEnterPrepopulatedDirectory(comp(n))
		a.logf("CreateAndEnterPrepopulatedDirectory %s %q (was %s) -> %v", pathString(p), n, describeNode(c), err)
		a.h("create-and-enter", err == nil)
		if err != nil || child == nil {
			a.violate("modification refused op=CreateAndEnterPrepopulatedDirectory", fmt.Sprintf("%s: %q: %v", pathString(p), n, err), map[string]any{"path": pathString(p), "name": n})
			return
		}
		a.noteLoaded(p, m)
		if c == nil || c.kind != kindDir {
			m.children[n] = newLocalDir()
			a.noteModified(m)
		}
		if a.verifyNames("CreateAndEnter", p, m, d, n) {
			switch {
			case c == nil:
			case c.kind != kindDir:
				a.c.situation("create-and-enter-replaces-leaf")
			case c.ref != nil && !c.realLoaded:
				a.c.situation("create-and-enter-keeps-lazy-directory")
			}
		}
	case 13: // FIFO / socket; device nodes must be refused
		n := a.freshName()
		ft := []filesystem.FileType{filesystem.FileTypeFIFO, filesystem.FileTypeSocket, filesystem.FileTypeBlockDevice, filesystem.FileTypeCharacterDevice}[a.rng.IntN(4)]
		var at virtual.Attributes
		_, _, s := d.VirtualMknod(e.ctx, comp(n), (&virtual.Attributes{}).SetFileType(ft), maskCompare, &at)
		a.logf("mknod %s %q type=%d -> %s", pathString(p), n, ft, statusName(s))
		a.h("mknod", fmt.Sprintf("%d/%s", ft, statusName(s)))
		a.noteLoaded(p, m)
		if ft == filesystem.FileTypeFIFO || ft == filesystem.FileTypeSocket {
			if s != virtual.StatusOK {
				a.violate("modification refused op=mknod status="+statusName(s), fmt.Sprintf("%s: mknod %q", pathString(p), n), map[string]any{"path": pathString(p)})
				return
			}
			m.children[n] = &mnode{kind: kindOther, ftype: ft}
			a.noteModified(m)
		}
		a.verifyNames("mknod", p, m, d, n)
	case 14: // character device through BuildDirectory.Mknod, as for /dev in the input root
		bdir, ok := a.enter(p)
		if !ok {
			return
		}
		a.noteLoaded(p, m)
		n, existing := a.freshName(), false
		if len(names) > 0 && a.rng.IntN(3) == 0 {
			n, existing = names[a.rng.IntN(len(names))], true
		}
		mode := os.ModeDevice | os.ModeCharDevice | 0o666
		wrongMode := a.rng.IntN(5) == 0
		if wrongMode {
			mode = 0o666
		}
		err := bdir.Mknod(comp(n), mode, filesystem.NewDeviceNumberFromMajorMinor(1, 3))
		a.logf("Mknod %s %q existing=%v wrongMode=%v -> %v", pathString(p), n, existing, wrongMode, err)
		a.h("Mknod", fmt.Sprintf("%v/%v/%v", existing, wrongMode, err == nil))
		if existing || wrongMode {
			if err == nil {
				a.violate("modification create-over-existing-accepted op=Mknod", fmt.Sprintf("%s: Mknod(%q) existing=%v wrongMode=%v succeeded", pathString(p), n, existing, wrongMode), map[string]any{"path": pathString(p), "name": n})
				return
			}
		} else {
			if err != nil {
				a.violate("modification refused op=Mknod", fmt.Sprintf("%s: Mknod(%q) = %v", pathString(p), n, err), map[string]any{"path": pathString(p)})
				return
			}
			m.children[n] = &mnode{kind: kindOther, ftype: filesystem.FileTypeCharacterDevice}
			a.noteModified(m)
		}
		a.verifyNames("Mknod", p, m, d, n)
	case 15: // FilterChildren without removing anything must change nothing
		if pd == nil {
			return
		}
		visited := 0
		err := pd.FilterChildren(func(node virtual.InitialChild, remove virtual.ChildRemover) bool {
			visited++
			return visited < 200
		})
		a.logf("FilterChildren %s -> visited %d err=%v", pathString(p), visited, err)
		a.h("FilterChildren", err == nil)
		if err != nil {
			a.violate("modification refused op=FilterChildren", fmt.Sprintf("%s: %v", pathString(p), err), map[string]any{"path": pathString(p)})
		}
	}
}

// opNegative drives refusal arms: every one of them has to leave the tree as
// it was; success would clobber an input entry or present a node of another
// kind.
func (a *action) opNegative(p []string, m *mnode, d virtual.Directory) {
	m.expand()
	// Every variant needs the contents of the (well-formed) directory.
	defer func() {
		if !a.dead {
			a.noteLoaded(p, m)
		}
	}()
	e := a.c.e
	names := m.names()
	pd, _ := d.(virtual.PrepopulatedDirectory)
	pick := func(kind int) string {
		c := m.namesOfKind(kind, nil)
		if len(c) == 0 {
			return ""
		}
		return c[a.rng.IntN(len(c))]
	}
	absent := fmt.Sprintf("zz-absent-%d", a.rng.IntN(5))
	fail := func(what, name string, got any) {
		a.violate("modification "+what, fmt.Sprintf("%s: %s on %q returned %v", pathString(p), what, name, got), map[string]any{"path": pathString(p), "name": name})
	}
	var at virtual.Attributes
	variant := a.rng.IntN(16)
	switch variant {
	case 0: // opening a directory as a file
		if n := pick(kindDir); n != "" {
			leaf, _, _, s := d.VirtualOpenChild(e.ctx, comp(n), virtual.ShareMaskRead, nil, &virtual.OpenExistingOptions{}, maskCompare, &at)
			a.h("neg-open-directory", statusName(s))
			if s == virtual.StatusOK {
				if leaf != nil {
					leaf.VirtualClose(virtual.ShareMaskRead)
				}
				fail("directory-opened-as-file", n, statusName(s))
				return
			}
			a.verifyNames("neg-open-directory", p, m, d, n)
		}
	case 1: // opening an absent name without O_CREAT
		_, _, _, s := d.VirtualOpenChild(e.ctx, comp(absent), virtual.ShareMaskRead, nil, &virtual.OpenExistingOptions{}, maskCompare, &at)
		a.h("neg-open-absent", statusName(s))
		if s == virtual.StatusOK {
			a.violate("fidelity phantom-entry op=open", fmt.Sprintf("%s: open of absent %q succeeded", pathString(p), absent), map[string]any{"path": pathString(p)})
			return
		}
		a.verifyNames("neg-open-absent", p, m, d, absent)
	case 2: // unlink() on a directory, rmdir() on a leaf
		if n := pick(kindDir); n != "" && a.rng.IntN(2) == 0 {
			_, s := d.VirtualRemove(e.ctx, comp(n), false, true)
			a.h("neg-unlink-directory", statusName(s))
			if s == virtual.StatusOK {
				fail("unlink-removed-directory", n, statusName(s))
				return
			}
			a.verifyNames("neg-unlink-directory", p, m, d, n)
		} else if n := pick(kindFile); n != "" {
			_, s := d.VirtualRemove(e.ctx, comp(n), true, false)
			a.h("neg-rmdir-file", statusName(s))
			if s == virtual.StatusOK {
				fail("rmdir-removed-file", n, statusName(s))
				return
			}
			a.verifyNames("neg-rmdir-file", p, m, d, n)
		}
	case 3: // removing an absent name through all three entry points
		_, s := d.VirtualRemove(e.ctx, comp(absent), true, true)
		ok := s != virtual.StatusOK
		if pd != nil {
			ok = ok && pd.Remove(comp(absent)) != nil && pd.RemoveAll(comp(absent)) != nil
		}
		a.h("neg-remove-absent", ok)
		if !ok {
			fail("remove-of-absent-name-succeeded", absent, statusName(s))
			return
		}
		if len(names) > 0 {
			a.verifyNames("neg-remove-absent", p, m, d, names[a.rng.IntN(len(names))])
		}
	case 4: // mkdir / mknod / symlink over an existing input entry
		if len(names) == 0 {
			return
		}
		n := names[a.rng.IntN(len(names))]
		var s virtual.Status
		switch a.rng.IntN(3) {
		case 0:
			_, _, s = d.VirtualMkdir(e.ctx, comp(n), &virtual.Attributes{}, maskCompare, &at)
		case 1:
			_, _, s = d.VirtualMknod(e.ctx, comp(n), (&virtual.Attributes{}).SetFileType(filesystem.FileTypeFIFO), maskCompare, &at)
		default:
			_, _, s = d.VirtualMknod(e.ctx, comp(n), (&virtual.Attributes{}).SetFileType(filesystem.FileTypeSymlink).SetSymlinkTarget(path.UNIXFormat.NewParser("x")), maskCompare, &at)
		}
		a.h("neg-create-over-existing", statusName(s))
		if s == virtual.StatusOK {
			fail("create-over-existing-accepted op=mkdir/mknod", n, statusName(s))
			return
		}
		if a.verifyNames("neg-create-over-existing", p, m, d, n) {
			a.c.situation("create-over-existing-entry-refused")
		}
	case 5: // hard link of an input file over an existing name
		src := pick(kindFile)
		if src == "" || len(names) == 0 {
			return
		}
		leaf, ok := a.lookupLeaf("neg-link", p, m, d, src)
		if !ok {
			return
		}
		n := names[a.rng.IntN(len(names))]
		_, s := d.VirtualLink(e.ctx, comp(n), leaf, maskCompare, &at)
		a.h("neg-link-over-existing", statusName(s))
		if s == virtual.StatusOK {
			fail("create-over-existing-accepted op=link", n, statusName(s))
			return
		}
		if a.verifyNames("neg-link-over-existing", p, m, d, n, src) {
			a.c.situation("create-over-existing-entry-refused")
		}
	case 6: // rename of an absent source
		dst := absent + "-dst"
		if len(names) > 0 && a.rng.IntN(2) == 0 {
			dst = names[a.rng.IntN(len(names))]
		}
		_, _, s := d.VirtualRename(e.ctx, comp(absent), d, comp(dst))
		a.h("neg-rename-absent", statusName(s))
		if s == virtual.StatusOK {
			fail("rename-of-absent-name-succeeded", absent, statusName(s))
			return
		}
		a.verifyNames("neg-rename-absent", p, m, d, dst, absent)
	case 7: // attributes of the directory itself
		d.VirtualGetAttributes(e.ctx, a.randomMask(), &at)
		if at.GetFileType() != filesystem.FileTypeDirectory {
			a.violate("fidelity kind-mismatch op=getattr want=dir got=none", pathString(p), map[string]any{"path": pathString(p)})
			return
		}
		var out virtual.Attributes
		a.h("neg-dir-setattr-size", statusName(d.VirtualSetAttributes(e.ctx, (&virtual.Attributes{}).SetSizeBytes(0), maskCompare, &out)))
		a.h("neg-dir-chown", statusName(d.VirtualSetAttributes(e.ctx, (&virtual.Attributes{}).SetOwnerUserID(1), maskCompare, &out)))
		a.h("neg-dir-chgrp", statusName(d.VirtualSetAttributes(e.ctx, (&virtual.Attributes{}).SetOwnerGroupID(1), maskCompare, &out)))
		a.h("neg-dir-chmod", statusName(d.VirtualSetAttributes(e.ctx, (&virtual.Attributes{}).SetPermissions(virtual.PermissionsRead), maskCompare, &out)))
		if len(names) > 0 {
			a.verifyNames("neg-dir-setattr", p, m, d, names[a.rng.IntN(len(names))])
		}
	case 8: // digest closure of a (possibly still lazy) child directory: read-only
		n := pick(kindDir)
		if n == "" {
			return
		}
		child, s := d.VirtualLookup(e.ctx, comp(n), maskCompare, &at)
		if s != virtual.StatusOK {
			return
		}
		a.noteLoaded(p, m)
		cd, _ := child.GetPair()
		ap := virtual.ApplyGetContainingDigests{Context: e.ctx}
		handled := cd.VirtualApply(&ap)
		a.logf("apply-containing-digests %s/%s -> handled=%v err=%v n=%d", pathString(p), n, handled, ap.Err, ap.ContainingDigests.Length())
		a.h("neg-apply-containing-digests", fmt.Sprintf("%v/%v", handled, ap.Err == nil))
		if w := e.store.writes(); len(w) != 0 {
			a.violate("immutability cas-written via=apply-directory", fmt.Sprintf("%v", w), map[string]any{"writes": w})
		}
	default: // BuildDirectory error arms
		bdir, ok := a.enter(p)
		if !ok {
			return
		}
		a.noteLoaded(p, m)
		switch variant {
		case 9:
			if _, err := bdir.Lstat(comp(absent)); err == nil {
				a.violate("fidelity phantom-entry op=Lstat", pathString(p), map[string]any{"path": pathString(p)})
			}
			if _, err := bdir.Readlink(comp(absent)); err == nil {
				a.violate("fidelity phantom-entry op=Readlink", pathString(p), map[string]any{"path": pathString(p)})
			}
			if _, err := bdir.UploadFile(e.ctx, comp(absent), a.c.g.df, nil); err == nil {
				a.violate("fidelity phantom-entry op=UploadFile", pathString(p), map[string]any{"path": pathString(p)})
			}
			if _, err := bdir.EnterBuildDirectory(comp(absent)); err == nil {
				a.violate("fidelity phantom-entry op=EnterBuildDirectory", pathString(p), map[string]any{"path": pathString(p)})
			}
			a.h("neg-builddir-absent", "ok")
		case 10:
			if n := pick(kindDir); n != "" {
				_, errR := bdir.Readlink(comp(n))
				_, errU := bdir.UploadFile(e.ctx, comp(n), a.c.g.df, nil)
				a.h("neg-builddir-directory", fmt.Sprintf("%v/%v", errR == nil, errU == nil))
				if errR == nil || errU == nil {
					a.violate("fidelity kind-mismatch op=Readlink/UploadFile want=dir got=leaf", fmt.Sprintf("%s/%s: Readlink err=%v UploadFile err=%v", pathString(p), n, errR, errU), map[string]any{"path": pathString(p), "name": n})
				}
			}
		case 11:
			if n := pick(kindFile); n != "" {
				_, errR := bdir.Readlink(comp(n))
				_, errE := bdir.EnterBuildDirectory(comp(n))
				a.h("neg-builddir-file", fmt.Sprintf("%v/%v", errR == nil, errE == nil))
				if errR == nil || errE == nil {
					a.violate("fidelity kind-mismatch op=Readlink/EnterBuildDirectory want=file", fmt.Sprintf("%s/%s: Readlink err=%v Enter err=%v", pathString(p), n, errR, errE), map[string]any{"path": pathString(p), "name": n})
				}
			}
		case 12:
			if n := pick(kindSymlink); n != "" {
				_, errE := bdir.EnterBuildDirectory(comp(n))
				a.h("neg-builddir-symlink", errE == nil)
				if errE == nil {
					a.violate("fidelity kind-mismatch op=EnterBuildDirectory want=symlink", pathString(p)+"/"+n, map[string]any{"path": pathString(p), "name": n})
				}
			}
		case 13:
			if pp, err := bdir.EnterParentPopulatableDirectory(comp(absent)); err == nil {
				pp.Close()
				a.violate("fidelity phantom-entry op=EnterParentPopulatableDirectory", pathString(p), map[string]any{"path": pathString(p)})
			}
			if n := pick(kindDir); n != "" {
				if ud, err := bdir.EnterUploadableDirectory(comp(n)); err != nil {
					a.violate("fidelity enter-build-directory-failed", fmt.Sprintf("%s/%s: %v", pathString(p), n, err), map[string]any{"path": pathString(p), "name": n})
				} else {
					ud.Close()
				}
			}
			a.h("neg-builddir-enter", "ok")
		default:
			bdir.Close()
		}
	}
}
