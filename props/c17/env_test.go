package c17

// Wiring of the system under test: InMemoryPrepopulatedDirectory root, virtual
// build directory, caching directory fetcher, handle allocators (wrapped by a
// leaf-accounting decorator), in-memory file pool and recording error logger.

import (
	"context"
	"fmt"
	"io"
	"sort"
	"sync"

	"github.com/buildbarn/bb-remote-execution/pkg/builder"
	"github.com/buildbarn/bb-remote-execution/pkg/cas"
	"github.com/buildbarn/bb-remote-execution/pkg/filesystem/access"
	"github.com/buildbarn/bb-remote-execution/pkg/filesystem/pool"
	"github.com/buildbarn/bb-remote-execution/pkg/filesystem/virtual"
	"github.com/buildbarn/bb-storage/pkg/digest"
	"github.com/buildbarn/bb-storage/pkg/eviction"
	"github.com/buildbarn/bb-storage/pkg/filesystem"
	"github.com/buildbarn/bb-storage/pkg/filesystem/path"
	"github.com/buildbarn/bb-storage/pkg/random"

	"google.golang.org/grpc/codes"
	"google.golang.org/grpc/status"

	"verif/internal/vclock"
)

// ---- leaf accounting -------------------------------------------------------

// leafStats counts references to the stateless leaves (CAS files, symlinks)
// that the code under test creates through the handle allocator: +1 per
// AsLinkableLeaf, +1 per successful Link, -1 per Unlink.
type leafStats struct {
	mu       sync.Mutex
	byBase   map[virtual.LinkableLeaf]*countedLeaf
	created  int
	unlinks  int
	negative int
}

func (st *leafStats) live() int {
	st.mu.Lock()
	defer st.mu.Unlock()
	n := 0
	for _, l := range st.byBase {
		n += l.refs
	}
	return n
}

func (st *leafStats) wrap(base virtual.LinkableLeaf) virtual.LinkableLeaf {
	st.mu.Lock()
	defer st.mu.Unlock()
	st.created++
	if l, ok := st.byBase[base]; ok {
		l.refs++
		return l
	}
	l := &countedLeaf{LinkableLeaf: base, st: st, refs: 1}
	st.byBase[base] = l
	return l
}

type countedLeaf struct {
	virtual.LinkableLeaf
	st   *leafStats
	refs int
}

func (l *countedLeaf) Link() virtual.Status {
	s := l.LinkableLeaf.Link()
	if s == virtual.StatusOK {
		l.st.mu.Lock()
		l.refs++
		l.st.byBase[l.LinkableLeaf] = l
		l.st.mu.Unlock()
	}
	return s
}

func (l *countedLeaf) Unlink() {
	l.st.mu.Lock()
	l.refs--
	l.st.unlinks++
	if l.refs < 0 {
		l.st.negative++
	}
	if l.refs <= 0 {
		delete(l.st.byBase, l.LinkableLeaf)
	}
	l.st.mu.Unlock()
	l.LinkableLeaf.Unlink()
}

type countingAllocator struct {
	base virtual.StatefulHandleAllocator
	st   *leafStats
}

func (a *countingAllocator) New() virtual.StatefulHandleAllocation {
	return &countingStatefulAllocation{base: a.base.New(), st: a.st}
}

type countingStatefulAllocation struct {
	base virtual.StatefulHandleAllocation
	st   *leafStats
}

func (a *countingStatefulAllocation) AsStatelessAllocator() virtual.StatelessHandleAllocator {
	return &countingStatelessAllocator{base: a.base.AsStatelessAllocator(), st: a.st}
}

func (a *countingStatefulAllocation) AsResolvableAllocator(resolver virtual.HandleResolver) virtual.ResolvableHandleAllocator {
	return a.base.AsResolvableAllocator(resolver)
}

func (a *countingStatefulAllocation) AsStatelessDirectory(d virtual.Directory) virtual.Directory {
	return a.base.AsStatelessDirectory(d)
}

func (a *countingStatefulAllocation) AsLinkableLeaf(l virtual.LinkableLeaf) virtual.LinkableLeaf {
	return a.base.AsLinkableLeaf(l)
}

func (a *countingStatefulAllocation) AsLeaf(l virtual.Leaf) virtual.Leaf { return a.base.AsLeaf(l) }

func (a *countingStatefulAllocation) AsStatefulDirectory(d virtual.Directory) virtual.StatefulDirectoryHandle {
	return a.base.AsStatefulDirectory(d)
}

type countingStatelessAllocator struct {
	base virtual.StatelessHandleAllocator
	st   *leafStats
}

func (a *countingStatelessAllocator) New(id io.WriterTo) virtual.StatelessHandleAllocation {
	return &countingStatelessAllocation{base: a.base.New(id), st: a.st}
}

type countingStatelessAllocation struct {
	base virtual.StatelessHandleAllocation
	st   *leafStats
}

func (a *countingStatelessAllocation) AsStatelessAllocator() virtual.StatelessHandleAllocator {
	return &countingStatelessAllocator{base: a.base.AsStatelessAllocator(), st: a.st}
}

func (a *countingStatelessAllocation) AsResolvableAllocator(resolver virtual.HandleResolver) virtual.ResolvableHandleAllocator {
	return a.base.AsResolvableAllocator(resolver)
}

func (a *countingStatelessAllocation) AsStatelessDirectory(d virtual.Directory) virtual.Directory {
	return a.base.AsStatelessDirectory(d)
}

func (a *countingStatelessAllocation) AsLinkableLeaf(l virtual.LinkableLeaf) virtual.LinkableLeaf {
	return a.st.wrap(a.base.AsLinkableLeaf(l))
}

func (a *countingStatelessAllocation) AsLeaf(l virtual.Leaf) virtual.Leaf { return a.base.AsLeaf(l) }

// ---- in-memory file pool ---------------------------------------------------

type memFilePool struct {
	mu     sync.Mutex
	opened int
	closed int
}

func (p *memFilePool) NewFile(holeSource pool.HoleSource, size uint64) (filesystem.FileReadWriter, error) {
	p.mu.Lock()
	p.opened++
	p.mu.Unlock()
	return &memFile{pool: p, data: make([]byte, size)}, nil
}

type memFile struct {
	pool *memFilePool
	mu   sync.Mutex
	data []byte
}

func (f *memFile) Close() error {
	f.pool.mu.Lock()
	f.pool.closed++
	f.pool.mu.Unlock()
	return nil
}

func (f *memFile) ReadAt(p []byte, off int64) (int, error) {
	f.mu.Lock()
	defer f.mu.Unlock()
	if off >= int64(len(f.data)) {
		return 0, io.EOF
	}
	n := copy(p, f.data[off:])
	if n < len(p) {
		return n, io.EOF
	}
	return n, nil
}

func (f *memFile) WriteAt(p []byte, off int64) (int, error) {
	f.mu.Lock()
	defer f.mu.Unlock()
	if end := off + int64(len(p)); end > int64(len(f.data)) {
		f.data = append(f.data, make([]byte, end-int64(len(f.data)))...)
	}
	return copy(f.data[off:], p), nil
}

func (f *memFile) Truncate(size int64) error {
	f.mu.Lock()
	defer f.mu.Unlock()
	if size <= int64(len(f.data)) {
		f.data = f.data[:size]
	} else {
		f.data = append(f.data, make([]byte, size-int64(len(f.data)))...)
	}
	return nil
}

func (f *memFile) Sync() error { return nil }

func (f *memFile) Len() (int64, error) {
	f.mu.Lock()
	defer f.mu.Unlock()
	return int64(len(f.data)), nil
}

func (f *memFile) GetNextRegionOffset(offset int64, regionType filesystem.RegionType) (int64, error) {
	f.mu.Lock()
	defer f.mu.Unlock()
	if offset >= int64(len(f.data)) {
		return 0, io.EOF
	}
	if regionType == filesystem.Data {
		return offset, nil
	}
	return int64(len(f.data)), nil
}

// ---- error logger / access monitor ----------------------------------------

type recErrorLogger struct {
	mu   sync.Mutex
	n    int
	last []string
}

func (l *recErrorLogger) Log(err error) {
	l.mu.Lock()
	l.n++
	if len(l.last) >= 8 {
		l.last = l.last[1:]
	}
	l.last = append(l.last, err.Error())
	l.mu.Unlock()
}

func (l *recErrorLogger) count() int {
	l.mu.Lock()
	defer l.mu.Unlock()
	return l.n
}

func (l *recErrorLogger) tail() []string {
	l.mu.Lock()
	defer l.mu.Unlock()
	return append([]string(nil), l.last...)
}

// fakeMonitor implements access.UnreadDirectoryMonitor; it only counts.
type fakeMonitor struct {
	mu        *sync.Mutex
	dirReads  *int
	fileReads *int
}

func newFakeMonitor() *fakeMonitor {
	return &fakeMonitor{mu: &sync.Mutex{}, dirReads: new(int), fileReads: new(int)}
}

func (m *fakeMonitor) ReadDirectory() access.ReadDirectoryMonitor {
	m.mu.Lock()
	*m.dirReads++
	m.mu.Unlock()
	return m
}

func (m *fakeMonitor) ResolvedDirectory(name path.Component) access.UnreadDirectoryMonitor { return m }

func (m *fakeMonitor) ReadFile(name path.Component) {
	m.mu.Lock()
	*m.fileReads++
	m.mu.Unlock()
}

// ---- environment -----------------------------------------------------------

type envCfg struct {
	NFS             bool   `json:"nfs"`
	CaseInsensitive bool   `json:"case_insensitive"`
	Shuffle         bool   `json:"shuffle"`
	CacheCount      int    `json:"cache_count"` // 0 = no CachingDirectoryFetcher in front
	CacheBytes      int64  `json:"cache_bytes"`
	Monitor         bool   `json:"monitor"`
	DigestFunction  string `json:"digest_function"`
}

type env struct {
	cfg       envCfg
	store     *fakeCAS
	df        cas.DirectoryFetcher
	rawDF     cas.DirectoryFetcher
	root      virtual.PrepopulatedDirectory
	bd        builder.BuildDirectory
	leaves    *leafStats
	filePool  *memFilePool
	errLog    *recErrorLogger
	clock     *vclock.Clock
	ctx       context.Context
	nfsAlloc  *virtual.NFSStatefulHandleAllocator
	nActions  int
	monitor   *fakeMonitor
	defaultAS virtual.DefaultAttributesSetter
	alloc     virtual.StatefulHandleAllocator
	symlinks  virtual.SymlinkFactory
}

func comp(name string) path.Component { return path.MustNewComponent(name) }

func newEnv(cfg envCfg, store *fakeCAS) *env {
	e := &env{
		cfg:      cfg,
		store:    store,
		leaves:   &leafStats{byBase: map[virtual.LinkableLeaf]*countedLeaf{}},
		filePool: &memFilePool{},
		errLog:   &recErrorLogger{},
		clock:    vclock.New(1700000000),
		ctx:      context.Background(),
	}
	var base virtual.StatefulHandleAllocator
	if cfg.NFS {
		e.nfsAlloc = virtual.NewNFSHandleAllocator(random.NewFastSingleThreadedGenerator())
		base = e.nfsAlloc
	} else {
		base = virtual.NewFUSEHandleAllocator(random.FastThreadSafeGenerator)
	}
	alloc := &countingAllocator{base: base, st: e.leaves}
	e.alloc = alloc

	e.rawDF = cas.NewBlobAccessDirectoryFetcher(store, 1<<22, 1<<22)
	e.df = e.rawDF
	if cfg.CacheCount > 0 {
		e.df = cas.NewCachingDirectoryFetcher(e.rawDF, digest.KeyWithoutInstance, cfg.CacheCount, cfg.CacheBytes,
			eviction.NewLRUSet[cas.CachingDirectoryFetcherKey]())
	}

	rootAS := func(requested virtual.AttributesMask, attributes *virtual.Attributes) {}
	e.defaultAS = func(requested virtual.AttributesMask, attributes *virtual.Attributes) {
		attributes.SetOwnerUserID(1000)
		attributes.SetOwnerGroupID(100)
	}
	var sorter virtual.Sorter = sort.Sort
	if cfg.Shuffle {
		sorter = virtual.Shuffle
	}
	normalizer := virtual.CaseSensitiveComponentNormalizer
	if cfg.CaseInsensitive {
		normalizer = virtual.CaseInsensitiveComponentNormalizer
	}
	e.root = virtual.NewInMemoryPrepopulatedDirectory(
		virtual.NewHandleAllocatingFileAllocator(
			virtual.NewPoolBackedFileAllocator(pool.EmptyFilePool, e.errLog, rootAS, virtual.NoNamedAttributesFactory),
			alloc,
		),
		virtual.NewErrorSymlinkFactory(status.Error(codes.PermissionDenied, "Symlink outside build directory")),
		e.errLog,
		alloc,
		sorter,
		func(string) bool { return false },
		e.clock,
		normalizer,
		rootAS,
		virtual.NoNamedAttributesFactory,
	)
	symlinkFactory := virtual.NewHandleAllocatingSymlinkFactory(
		virtual.NewBaseSymlinkFactory(e.defaultAS),
		alloc.New(),
		path.LocalFormat,
	)
	e.symlinks = symlinkFactory
	characterDeviceFactory := virtual.NewHandleAllocatingCharacterDeviceFactory(virtual.BaseCharacterDeviceFactory, alloc.New())
	e.bd = builder.NewVirtualBuildDirectory(e.root, e.df, store, symlinkFactory, characterDeviceFactory, alloc, e.defaultAS, e.clock)
	if cfg.Monitor {
		e.monitor = newFakeMonitor()
	}
	return e
}

// actionDirs creates the per-action directory and the input root inside it,
// the way RootBuildDirectoryCreator + LocalBuildExecutor do.
func (e *env) actionDirs(name string) (ir builder.BuildDirectory, irDir virtual.PrepopulatedDirectory, err error) {
	if err := e.bd.Mkdir(comp(name), 0o777); err != nil {
		return nil, nil, fmt.Errorf("mkdir action dir: %w", err)
	}
	ad, err := e.bd.EnterBuildDirectory(comp(name))
	if err != nil {
		return nil, nil, fmt.Errorf("enter action dir: %w", err)
	}
	ad.InstallHooks(e.filePool, e.errLog)
	if err := ad.Mkdir(comp("root"), 0o777); err != nil {
		return nil, nil, fmt.Errorf("mkdir input root: %w", err)
	}
	ir, err = ad.EnterBuildDirectory(comp("root"))
	if err != nil {
		return nil, nil, fmt.Errorf("enter input root: %w", err)
	}
	c1, err := e.root.LookupChild(comp(name))
	if err != nil {
		return nil, nil, err
	}
	d1, _ := c1.GetPair()
	c2, err := d1.LookupChild(comp("root"))
	if err != nil {
		return nil, nil, err
	}
	irDir, _ = c2.GetPair()
	if irDir == nil {
		return nil, nil, fmt.Errorf("input root is not a directory")
	}
	e.nActions++
	return ir, irDir, nil
}

func (e *env) merge(ir builder.BuildDirectory, rootDigest digest.Digest) error {
	var mon access.UnreadDirectoryMonitor
	if e.monitor != nil {
		mon = e.monitor
	}
	return ir.MergeDirectoryContents(e.ctx, e.errLog, rootDigest, mon)
}

// casFetcher builds the same lazily evaluated CAS directory that
// MergeDirectoryContents() attaches, for grafting through CreateChildren().
func (e *env) casFetcher(d digest.Digest) virtual.InitialContentsFetcher {
	return virtual.NewCASInitialContentsFetcher(
		e.ctx,
		cas.NewDecomposedDirectoryWalker(e.df, d),
		virtual.NewStatelessHandleAllocatingCASFileFactory(
			virtual.NewBlobAccessCASFileFactory(e.ctx, e.store, e.errLog),
			e.alloc.New(),
		),
		e.symlinks,
		d.GetDigestFunction(),
	)
}

func (e *env) digestOf(df digest.Function, data []byte) digest.Digest {
	g := df.NewGenerator(int64(len(data)))
	g.Write(data)
	return g.Sum()
}
