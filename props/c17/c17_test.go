// Package c17 monitors property C17: the lazily populated input root is
// exactly the tree named by the input root digest, malformed directories
// surface as errors, and CAS-backed input files cannot be altered.
//
// Driver 1 (virtual): generated Directory DAGs in a fake CAS are merged into
// per-action directories of an InMemoryPrepopulatedDirectory through
// builder.NewVirtualBuildDirectory (CachingDirectoryFetcher in front) and
// explored in PRNG-chosen orders, interleaved with local modifications and
// storage faults; every observation is compared with a reference model.
// Driver 2 (naive, fidelity only): the same DAGs are materialised on disk
// through builder.NewNaiveBuildDirectory + HardlinkingFileFetcher.
package c17

import (
	"encoding/json"
	"fmt"
	"math/rand/v2"
	"os"
	"regexp"
	"runtime/debug"
	"strings"
	"sync"
	"testing"

	remoteexecution "github.com/bazelbuild/remote-apis/build/bazel/remote/execution/v2"
	"github.com/buildbarn/bb-remote-execution/pkg/filesystem/virtual"
	"github.com/buildbarn/bb-storage/pkg/digest"

	"google.golang.org/protobuf/encoding/protowire"
	"google.golang.org/protobuf/proto"

	"verif/internal/ev"
)

func TestCheck(t *testing.T) {
	r := ev.Start("C17")
	defer r.Finish()
	r.SetRule("case = one generated REv2 Directory DAG (depth<=8, 0-20 entries/dir, shared subtrees, empty dirs, exec bits, symlinks; " +
		"40% with one malformed directory or broken blob) stored in a fake CAS and merged as input root of two actions sharing one " +
		"CachingDirectoryFetcher; 60-250 PRNG-chosen exploration/modification/fault operations per case, every observation compared with a " +
		"reference model; plus naive on-disk materialisation cases. non-trivial = the case hit >=1 counted situation; distinct = hash of the " +
		"observed (operation,status) history")
	r.Assume("bb-storage (digest, buffer, path, eviction, local filesystem) is trusted; symlink targets are compared after normalisation by bb-storage's path library")
	r.Assume("VirtualWrite on a CAS-backed file panics with 'should have been intercepted' by design (FUSE/NFS front ends check the open mode); the harness recovers exactly that call and counts it as a refusal")
	r.Assume("no hidden-files pattern is configured; in case-insensitive configurations generated names are unique after case folding")
	r.Assume("native (hard-linked) input roots are checked for fidelity only: immutability there relies on OS permissions, which do not bind root in this sandbox")
	r.Assume("two stateless leaves with equal digest+executable bit (or equal symlink target) may or may not be one node, depending on the handle allocator; renames between such pairs are not issued")

	for _, s := range []struct {
		name         string
		quick, thoro int
	}{
		{"shared-subtree-two-paths", 20, 200},
		{"lazy-directory-removed-before-first-access", 10, 100},
		{"lazy-directory-moved-before-first-access", 5, 50},
		{"duplicate-name-file-vs-directory", 3, 30},
		{"malformed-refused", 40, 400},
		{"malformed-invalid-name-refused", 5, 50},
		{"malformed-duplicate-name-refused", 5, 50},
		{"malformed-bad-digest-refused", 5, 50},
		{"malformed-unavailable-dir-blob-refused", 5, 50},
		{"case-colliding-names-directory-accessed", 3, 30},
		{"malformed-root-refused-by-merge", 3, 30},
		{"broken-file-blob-refused", 5, 50},
		{"fault-on-first-load-then-retry", 20, 200},
		{"fault-on-file-read-then-retry", 10, 100},
		{"fault-on-merge-then-retry", 5, 50},
		{"treeroot-key-separation", 10, 100},
		{"treeroot-key-separation-child-of-tree", 10, 100},
		{"immutability-probed-cas-file", 100, 1000},
		{"cross-action-compare-after-modify", 20, 200},
		{"create-next-to-lazy-directory", 20, 200},
		{"local-replace-input-leaf", 10, 100},
		{"depth-8-reached", 5, 50},
		{"fault-on-tree-fetch-then-retry", 20, 200},
		{"graft-cas-directory", 20, 200},
		{"graft-overwrites-entry", 5, 50},
		{"create-and-enter-replaces-leaf", 10, 100},
		{"create-and-enter-keeps-lazy-directory", 3, 30},
		{"create-over-existing-entry-refused", 20, 200},
		{"immutability-probed-symlink", 20, 200},
		{"immutability-probed-setattr-combination", 100, 1000},
		{"malformed-symlink-target-refused", 3, 30},
		{"naive-transient-fault-then-clean-merge", 3, 30},
		{"naive-vanished-cache-file-repaired", 3, 30},
		{"hardlink-fetcher-stress-rounds", 3, 30},
		{"hardlink-existing-destination-refused", 20, 200},
		{"resolvable-cas-file-checked", 20, 200},
		{"concurrent-actions", 5, 50},
		{"naive-fidelity", 10, 100},
		{"naive-malformed-refused", 5, 50},
		{"naive-hardlink-cache-hit", 3, 30},
	} {
		// Floors are meaningless when a single recorded case is re-run.
		if r.ReplayFile() == "" {
			r.Floor(s.name, r.Pick(s.quick, s.thoro))
		}
	}

	if rf := r.ReplayFile(); rf != "" {
		idx, naive, err := replayCase(rf, r.Seed())
		if err != nil {
			r.Inconclusive("cannot read replay file %s: %v", rf, err)
			return
		}
		if naive && idx < 0 {
			runHardlinkStress(r, -1-idx)
		} else if naive {
			runNaiveCase(r, idx)
		} else {
			runVirtualCase(r, idx)
		}
		return
	}

	nVirtual := r.Pick(500, 8000)
	nNaive := r.Pick(90, 1200)
	workers := 6
	var wg sync.WaitGroup
	next := make(chan int)
	for w := 0; w < workers; w++ {
		wg.Add(1)
		go func() {
			defer wg.Done()
			for i := range next {
				switch {
				case i < nVirtual:
					runVirtualCase(r, i)
				case i < nVirtual+nNaive:
					runNaiveCase(r, i-nVirtual)
				default:
					runHardlinkStress(r, i-nVirtual-nNaive)
				}
			}
		}()
	}
	nStress := r.Pick(10, 150)
	for i := 0; i < nVirtual+nNaive+nStress; i++ {
		next <- i
	}
	close(next)
	wg.Wait()
	if r.Violations() > 0 {
		t.Logf("%d violation(s) recorded", r.Violations())
	}
}

func replayCase(file string, seed uint64) (int, bool, error) {
	b, err := os.ReadFile(file)
	if err != nil {
		return 0, false, err
	}
	var w struct {
		Seed    uint64 `json:"seed"`
		Witness struct {
			Case   int  `json:"case"`
			Naive  bool `json:"naive"`
			Stress bool `json:"stress"`
		} `json:"witness"`
	}
	if err := json.Unmarshal(b, &w); err != nil {
		return 0, false, err
	}
	if w.Seed != seed {
		return 0, false, fmt.Errorf("witness was recorded with VERIF_SEED=%d, this run uses %d", w.Seed, seed)
	}
	if w.Witness.Stress {
		return -1 - w.Witness.Case, true, nil
	}
	return w.Witness.Case, w.Witness.Naive, nil
}

func pickDigestFunction(rng *rand.Rand) (digest.Function, string) {
	switch rng.IntN(6) {
	case 0:
		return digest.MustNewFunction("c17/md5", remoteexecution.DigestFunction_MD5), "MD5"
	case 1:
		return digest.MustNewFunction("", remoteexecution.DigestFunction_SHA1), "SHA1"
	default:
		return digest.MustNewFunction("c17", remoteexecution.DigestFunction_SHA256), "SHA256"
	}
}

// populate stores the generated blobs and directories in the fake CAS.
func populate(store *fakeCAS, g *gen) {
	for _, b := range g.blobs {
		switch b.state {
		case blobOK:
			store.putRaw(b.digest, b.data)
		case blobCorrupt:
			c := append([]byte(nil), b.data...)
			c[len(c)/2] ^= 0x20
			store.putRaw(b.digest, c)
		}
	}
	for _, d := range g.all {
		if !d.stored {
			continue
		}
		if d.storedData != nil {
			store.putRaw(d.digest, d.storedData)
			continue
		}
		dg := g.df.NewGenerator(int64(len(d.data)))
		dg.Write(d.data)
		store.putRaw(dg.Sum(), d.data)
	}
}

func runVirtualCase(r *ev.Run, idx int) {
	rng := r.Rand(17, uint64(idx))
	c := &caseRun{r: r, idx: idx, rng: rng, modified: map[string]int{}, sits: map[string]int{}}

	// ---- configuration ----
	df, dfName := pickDigestFunction(rng)
	c.cfg = envCfg{
		NFS:             rng.IntN(2) == 0,
		CaseInsensitive: rng.IntN(5) == 0,
		Shuffle:         rng.IntN(4) == 0,
		Monitor:         rng.IntN(4) == 0,
		DigestFunction:  dfName,
	}
	switch rng.IntN(10) {
	case 0:
		c.cfg.CacheCount = 0
	case 1, 2:
		c.cfg.CacheCount, c.cfg.CacheBytes = 1+rng.IntN(3), 1<<20
	case 3:
		c.cfg.CacheCount, c.cfg.CacheBytes = 1000, int64(200+rng.IntN(2000))
	default:
		c.cfg.CacheCount, c.cfg.CacheBytes = 1000, 1<<24
	}
	c.prof = caseProfile{
		Case:       idx,
		Deep:       rng.IntN(5) == 0,
		Budget:     []int{30, 80, 150, 300, 600}[rng.IntN(5)],
		Ops:        60 + rng.IntN(190),
		Concurrent: rng.IntN(8) == 0,
		SameRoot:   rng.IntN(2) == 0,
		Faults:     rng.IntN(10) < 6,
		FinalWalk:  rng.IntN(2) == 0,
	}
	if r.Thorough() && rng.IntN(10) == 0 {
		// A few larger trees and longer histories in the thorough tier.
		c.prof.Budget, c.prof.Ops = 1500, 300+rng.IntN(300)
	}
	if rng.IntN(10) < 4 {
		if rng.IntN(4) == 0 {
			c.prof.BrokenBlobs = true
		} else {
			c.prof.Malformed = malformedKinds[rng.IntN(len(malformedKinds))]
			if c.cfg.CaseInsensitive && rng.IntN(2) == 0 {
				c.prof.Malformed = "case-colliding-names"
			}
			c.prof.RootMalformed = rng.IntN(8) == 0
		}
	}
	if rng.IntN(10) < 3 {
		c.prof.Polyglot = true
		c.prof.PolyglotFirst = []string{"tree", "dir"}[rng.IntN(2)]
	}
	if c.prof.Concurrent {
		c.prof.Faults = false
	}

	// ---- generate ----
	g := &gen{rng: rng, df: df, ci: c.cfg.CaseInsensitive, malKind: c.prof.Malformed, polyglot: c.prof.Polyglot, deep: c.prof.Deep}
	if g.malKind != "" {
		g.malLeft = 1
	}
	g.makeBlobs(c.prof.BrokenBlobs)
	c.g = g
	rootA := g.genRoot(c.prof.Budget, c.prof.RootMalformed)
	rootB := rootA
	if !c.prof.SameRoot {
		// A second root drawing from the same pool: overlapping subtrees.
		g.malKind, g.malLeft, g.deep = "", 0, false
		rootB = g.genRoot(c.prof.Budget, false)
	}
	c.prof.Placed = g.malUsed

	r.Case("virtual case=%d cfg=%+v profile=%+v rootA=%s rootB=%s dirs=%d blobs=%d", idx, c.cfg, c.prof, rootA.digest, rootB.digest, len(g.all), len(g.blobs))

	store := newFakeCAS()
	populate(store, g)
	hashBefore := store.contentHash()
	c.e = newEnv(c.cfg, store)

	// The polyglot blob is fetched as a Tree before any action sees it as
	// a Directory (or afterwards, see finalChecks).
	if g.polyUsed != nil && c.prof.PolyglotFirst == "tree" {
		c.checkTreeRoot("before-actions")
	}

	// ---- actions ----
	for i, root := range []*refDir{rootA, rootB} {
		a := &action{c: c, idx: i, name: fmt.Sprintf("action-%d-%d", idx, i), rootRef: root, rng: r.Rand(17, uint64(idx), uint64(i+1)),
			pathsByDigest: map[string]map[string]bool{}}
		c.actions = append(c.actions, a)
		if !c.setupAction(a) {
			break
		}
	}

	if !c.isViolated() {
		live := c.liveActions()
		if c.prof.Concurrent && len(live) == 2 {
			var wg sync.WaitGroup
			for _, a := range live {
				wg.Add(1)
				go func(a *action) {
					defer wg.Done()
					a.run(c.prof.Ops / 2)
				}(a)
			}
			wg.Wait()
			c.situation("concurrent-actions")
		} else if len(live) > 0 {
			// Interleave the actions operation by operation.
			for i := 0; i < c.prof.Ops && !c.isViolated(); i++ {
				a := live[rng.IntN(len(live))]
				a.step()
			}
		}
	}
	if !c.isViolated() {
		func() {
			defer func() {
				if r := recover(); r != nil {
					if len(c.actions) == 0 {
						panic(r)
					}
					c.actions[0].handlePanic(r, string(debug.Stack()))
				}
			}()
			c.finalChecks(hashBefore)
		}()
	}

	// ---- evidence ----
	var hist []string
	for _, a := range c.actions {
		hist = append(hist, strings.Join(a.hist, ","))
	}
	c.mu.Lock()
	nontrivial := len(c.sits) > 0
	sits := map[string]int{}
	for k, v := range c.sits {
		sits[k] = v
	}
	c.mu.Unlock()
	r.Hash(ev.HashOf(c.cfg, c.prof.Malformed, strings.Join(hist, "|")), nontrivial)
	r.Count("virtual_cases", 1)
	r.Count("cas_gets", store.totalGets())
	for _, a := range c.actions {
		r.Count("operations", len(a.hist))
	}
	if r.WantSample() && nontrivial {
		var tail []string
		if len(c.actions) > 0 {
			tail = c.actions[0].log
			if len(tail) > 60 {
				tail = tail[:60]
			}
		}
		r.Sample(map[string]any{"case": idx, "config": c.cfg, "profile": c.prof, "situations": sits, "first_operations_of_action_0": tail})
	}
}

func (c *caseRun) isViolated() bool {
	c.mu.Lock()
	defer c.mu.Unlock()
	return c.violated
}

func (c *caseRun) liveActions() []*action {
	var out []*action
	for _, a := range c.actions {
		if a.model != nil && !a.dead {
			out = append(out, a)
		}
	}
	return out
}

// setupAction creates the action's directories and merges the input root,
// optionally with a storage fault on the first attempt.
func (c *caseRun) setupAction(a *action) bool {
	e := c.e
	ir, irDir, err := e.actionDirs(a.name)
	if err != nil {
		a.violate("setup action-directory-failed", err.Error(), nil)
		return false
	}
	a.ir, a.irDir = ir, irDir
	root := a.rootRef
	if c.prof.Faults && root.bad == "" && c.rng.IntN(4) == 0 {
		ferr := faultErrors[c.rng.IntN(len(faultErrors))]
		e.store.arm(root.digest, 1, ferr)
		err := e.merge(ir, root.digest)
		fired := e.store.disarm()
		a.logf("merge with fault fired=%d -> %v", fired, err)
		a.h("merge-fault", fmt.Sprintf("%d/%v", fired, err == nil))
		if fired > 0 && err != nil {
			fis, rerr := irDir.ReadDir()
			if rerr != nil || len(fis) != 0 {
				a.violate("fault partial-tree-after-failed-merge", fmt.Sprintf("input root lists %d entries (%v) after MergeDirectoryContents failed", len(fis), rerr), nil)
				return false
			}
			if err := e.merge(ir, root.digest); err != nil {
				a.violate("fault retry-failed op=merge", fmt.Sprintf("MergeDirectoryContents failed again without fault: %v", err), map[string]any{"fault": ferr.Error()})
				return false
			}
			c.situation("fault-on-merge-then-retry")
		} else if err != nil {
			a.violate("fidelity merge-failed", fmt.Sprintf("MergeDirectoryContents of a well-formed root failed: %v", err), nil)
			return false
		}
	} else {
		live := e.leaves.live()
		var err error
		if root.bad == "case-colliding-names" {
			c.situation("case-colliding-names-directory-accessed")
		}
		if msg := guarded(func() { err = e.merge(ir, root.digest) }); msg != "" {
			a.logf("merge root=%s bad=%q -> PANIC %s", root.digest, root.bad, msg)
			a.h("merge", "panic")
			kind := root.bad
			if kind == "" {
				kind = "none"
			}
			a.violate("malformed panic kind="+kind+" via=MergeDirectoryContents", "MergeDirectoryContents panicked instead of returning an error: "+msg,
				map[string]any{"malformation": root.bad, "directory_message": root.msg.String(), "panic": msg})
			return false
		}
		a.logf("merge root=%s bad=%q -> %v", root.digest, root.bad, err)
		a.h("merge", err == nil)
		if root.bad != "" {
			if err == nil && unspecifiedMalformation(root.bad) {
				c.situation("unspecified-malformation-presented")
				return true
			}
			if err == nil {
				a.violate("malformed accepted kind="+root.bad+" via=MergeDirectoryContents", "a malformed root directory was merged without error",
					map[string]any{"malformation": root.bad, "directory_message": root.msg.String()})
				return false
			}
			fis, rerr := irDir.ReadDir()
			if rerr != nil || len(fis) != 0 {
				a.violate("malformed partial-tree-after-failure kind="+root.bad, fmt.Sprintf("input root lists %d entries (%v) after the merge was refused", len(fis), rerr), nil)
				return false
			}
			if l := e.leaves.live(); l != live {
				a.violate("malformed leaf-leak kind="+root.bad, fmt.Sprintf("%d leaves stayed linked after the refused merge", l-live), nil)
				return false
			}
			c.situation("malformed-refused")
			c.situation("malformed-root-refused-by-merge")
			c.situation(malformedCategory(root.bad))
			return true // no model: nothing to explore
		}
		if err != nil {
			a.violate("fidelity merge-failed", fmt.Sprintf("MergeDirectoryContents of a well-formed root failed: %v", err), nil)
			return false
		}
	}
	a.model = newLazyDir(root)
	a.model.expand()
	a.model.realLoaded = true
	set := map[string]bool{"/": true}
	a.pathsByDigest[casKey(root.digest)] = set
	return true
}

var opWeights = []struct {
	name string
	w    int
}{
	{"lookup", 14}, {"readdir", 14}, {"prepop", 8}, {"readfile", 14}, {"symlink", 5}, {"builddir", 5},
	{"probe", 10}, {"modify", 20}, {"negative", 7}, {"faultload", 7}, {"faultread", 4}, {"walk", 1},
}

func (a *action) run(n int) {
	for i := 0; i < n && !a.dead; i++ {
		a.step()
	}
}

var digitsRE = regexp.MustCompile(`[0-9]+`)

// handlePanic converts a panic raised inside /repo code during a step into
// a violation and abandons the case (directory locks may have been left
// behind, so nothing of the case is touched again). Panics that do not
// involve /repo code are harness bugs and are re-raised.
func (a *action) handlePanic(r any, stack string) {
	fn := ""
	for _, line := range strings.Split(stack, "\n") {
		if strings.HasPrefix(line, "github.com/buildbarn/bb-remote-execution/pkg/") {
			fn = line
			if i := strings.LastIndex(fn, "("); i > 0 {
				fn = fn[:i]
			}
			fn = fn[strings.LastIndex(fn, "/")+1:]
			break
		}
	}
	if fn == "" {
		panic(r)
	}
	msg := fmt.Sprint(r)
	a.logf("PANIC in %s: %s", fn, msg)
	a.h("step", "panic")
	sig := "panic fn=" + fn + " msg=" + digitsRE.ReplaceAllString(head2(msg, 80), "N")
	if a.c.prof.Malformed == "case-colliding-names" && strings.Contains(msg, "may not be attached") {
		sig = "malformed panic kind=case-colliding-names via=step"
	}
	a.violate(sig, "panic inside /repo code: "+msg, map[string]any{"panic": msg, "stack": head2(stack, 4000)})
}

func head2(s string, n int) string {
	if len(s) > n {
		return s[:n]
	}
	return s
}

// step performs one PRNG-chosen operation.
func (a *action) step() {
	if a.dead {
		return
	}
	defer func() {
		if r := recover(); r != nil {
			a.handlePanic(r, string(debug.Stack()))
		}
	}()
	stop := []int{10, 30, 60}[a.rng.IntN(3)]
	p, m := a.pickDir(stop)
	if len(p) == maxDepth {
		a.c.situation("depth-8-reached")
	}
	d, ok := a.resolve(p)
	if !ok {
		return
	}
	if m.bad() {
		a.opBad(p, m, d)
		return
	}
	total := 0
	for _, w := range opWeights {
		total += w.w
	}
	x := a.rng.IntN(total)
	name := ""
	for _, w := range opWeights {
		if x < w.w {
			name = w.name
			break
		}
		x -= w.w
	}
	if !a.c.prof.Faults && (name == "faultload" || name == "faultread") {
		name = "readdir"
	}
	switch name {
	case "lookup":
		a.opLookup(p, m, d)
	case "readdir":
		a.opReadDir(p, m, d)
	case "prepop":
		a.opPrepop(p, m, d)
	case "readfile":
		a.opReadFile(p, m, d)
	case "symlink":
		a.opSymlink(p, m, d)
	case "builddir":
		a.opBuildDir(p, m, d)
	case "probe":
		a.opProbe(p, m, d)
	case "modify":
		a.opModify(p, m, d)
	case "negative":
		a.opNegative(p, m, d)
	case "faultload":
		a.opFaultLoad(p, m, d)
	case "faultread":
		a.opFaultRead(p, m, d)
	case "walk":
		budget := 150
		a.logf("walk %s", pathString(p))
		a.walk(p, m, d, &budget, a.rng.IntN(2) == 0)
	}
}

// checkTreeRoot fetches the polyglot blob as Tree root and as Directory
// through the shared (caching) fetcher; each view has to stay what it is.
func (c *caseRun) checkTreeRoot(when string) bool {
	e := c.e
	p := c.g.polyUsed
	fail := func(what string, got proto.Message, err error, want proto.Message) bool {
		c.mu.Lock()
		c.violated = true
		c.mu.Unlock()
		c.r.Violation("C17 cache tree-root-key-confusion call="+what,
			fmt.Sprintf("case %d (%s): %s on the polyglot digest returned a message of the other kind (err=%v)", c.idx, when, what, err),
			map[string]any{"seed": c.r.Seed(), "case": c.idx, "profile": c.prof, "config": c.cfg, "digest": p.digest.String(),
				"expected": fmt.Sprint(want), "observed": fmt.Sprint(got), "error": fmt.Sprint(err)})
		return false
	}
	// A wrapper Tree that holds the polyglot bytes verbatim as a child
	// directory: the same digest is then requested through all three
	// entry points of the fetcher (root of a Tree, child of a Tree, plain
	// Directory) and each has to keep its own view whatever was cached by
	// the others before.
	wrapRoot := &remoteexecution.Directory{Directories: []*remoteexecution.DirectoryNode{{Name: "p", Digest: p.digest.GetProto()}}}
	wb, err := proto.MarshalOptions{Deterministic: true}.Marshal(&remoteexecution.Tree{Root: wrapRoot})
	if err != nil {
		panic(err)
	}
	wb = protowire.AppendTag(wb, 2, protowire.BytesType)
	wb = protowire.AppendBytes(wb, p.data)
	wg := c.g.df.NewGenerator(int64(len(wb)))
	wg.Write(wb)
	wd := wg.Sum()
	e.store.putRaw(wd, wb)
	defer func() {
		e.store.mu.Lock()
		delete(e.store.blobs, casKey(wd))
		e.store.mu.Unlock()
	}()
	order := []string{"dir", "tree", "child", "tree", "dir", "tree", "child"}
	if c.idx%2 == 1 {
		order = []string{"child", "tree", "dir", "child", "tree"}
	}
	if when == "before-actions" {
		order = []string{"tree", "child", "tree"}
	}
	for _, o := range order {
		if o == "child" {
			got, err := e.df.GetTreeChildDirectory(e.ctx, wd, p.digest)
			if err != nil || !proto.Equal(got, p.msg) {
				return fail("GetTreeChildDirectory", got, err, p.msg)
			}
			if c.cfg.CacheCount > 0 {
				c.situation("treeroot-key-separation-child-of-tree")
			}
		} else if o == "tree" {
			got, err := e.df.GetTreeRootDirectory(e.ctx, p.digest)
			if err != nil || !proto.Equal(got, p.treeRoot) {
				return fail("GetTreeRootDirectory", got, err, p.treeRoot)
			}
		} else {
			got, err := e.df.GetDirectory(e.ctx, p.digest)
			if err != nil || !proto.Equal(got, p.msg) {
				return fail("GetDirectory", got, err, p.msg)
			}
		}
	}
	if c.cfg.CacheCount > 0 && when != "before-actions" {
		c.situation("treeroot-key-separation")
	}
	return true
}

// findRef finds a path to a directory with the given origin in the model.
func findRef(m *mnode, ref *refDir, p []string, depth int) ([]string, *mnode) {
	if m.kind != kindDir || m.bad() || depth > maxDepth+2 {
		return nil, nil
	}
	if m.ref == ref {
		return p, m
	}
	m.expand()
	for _, n := range m.names() {
		c := m.children[n]
		if c.kind != kindDir {
			continue
		}
		if rp, rm := findRef(c, ref, append(append([]string(nil), p...), n), depth+1); rm != nil {
			return rp, rm
		}
	}
	return nil, nil
}

func (c *caseRun) finalChecks(hashBefore string) {
	e := c.e
	live := c.liveActions()

	// The polyglot directory is visited explicitly, so that a confused
	// cache key shows up in the tree as well.
	if c.g.polyUsed != nil {
		for _, a := range live {
			if p, m := findRef(a.model, c.g.polyUsed, nil, 0); m != nil {
				if d, ok := a.resolve(p); ok {
					a.logf("visit polyglot %s", pathString(p))
					a.opReadDir(p, m, d)
				}
				break
			}
		}
		if c.isViolated() || !c.checkTreeRoot("after-actions") {
			return
		}
	}

	if len(live) > 0 && c.rng.IntN(3) == 0 {
		live[0].checkResolvable()
		if c.isViolated() {
			return
		}
	}

	if c.prof.FinalWalk {
		for _, a := range live {
			budget := 1500
			a.logf("final walk")
			if !a.walk(nil, a.model, a.irDir, &budget, a.rng.IntN(2) == 0) {
				return
			}
		}
	}
	if c.isViolated() {
		return
	}

	// What the shared directory cache / the CAS serve now must be what was
	// stored, whatever the actions did to their own trees.
	nchecked := 0
	for _, d := range c.g.all {
		if d.bad != "" || !d.stored || nchecked >= 60 {
			continue
		}
		nchecked++
		got, err := e.df.GetDirectory(e.ctx, d.digest)
		if err != nil || !proto.Equal(got, d.msg) {
			c.failCase("cache directory-message-changed", fmt.Sprintf("GetDirectory(%s) after the actions ran: err=%v, message differs from the stored one", d.digest, err),
				map[string]any{"digest": d.digest.String(), "expected": d.msg.String(), "observed": fmt.Sprint(got)})
			return
		}
	}
	c.checkTree(live)
	if w := e.store.writes(); len(w) != 0 {
		c.failCase("immutability cas-written via=any", fmt.Sprintf("the CAS write log is not empty: %v", w), map[string]any{"writes": w})
		return
	}
	if h := e.store.contentHash(); h != hashBefore {
		c.failCase("immutability cas-content-changed", "the content hash of the fake CAS changed during the case", map[string]any{"before": hashBefore, "after": h})
		return
	}

	// Cleaning the build directory releases every stateless leaf.
	if err := e.root.RemoveAllChildren(false); err != nil {
		c.failCase("cleanup remove-all-children-failed", err.Error(), nil)
		return
	}
	e.leaves.mu.Lock()
	negative := e.leaves.negative
	e.leaves.mu.Unlock()
	if n := e.leaves.live(); n != 0 || negative != 0 {
		c.failCase("cleanup stateless-leaves-still-linked", fmt.Sprintf("%d stateless leaves (CAS files, symlinks) still linked after the build directory was emptied; %d over-unlinked", n, negative),
			map[string]any{"live": n, "negative": negative})
	}
}

// checkTree exercises GetTreeRootDirectory/GetTreeChildDirectory on a real
// Tree built from an action's root, through the same fetcher.
func (c *caseRun) checkTree(live []*action) {
	if len(live) == 0 || c.rng.IntN(2) != 0 {
		return
	}
	e := c.e
	root := live[0].rootRef
	tree := &remoteexecution.Tree{Root: root.msg}
	var kids []*refDir
	seen := map[string]bool{}
	var collect func(d *refDir)
	collect = func(d *refDir) {
		for _, en := range d.entries {
			if en.kind != kindDir || en.dir.bad != "" || en.dir.treeRoot != nil || seen[casKey(en.dir.digest)] || len(kids) >= 12 {
				continue
			}
			seen[casKey(en.dir.digest)] = true
			kids = append(kids, en.dir)
			tree.Children = append(tree.Children, en.dir.msg)
			collect(en.dir)
		}
	}
	collect(root)
	tb, err := proto.MarshalOptions{Deterministic: true}.Marshal(tree)
	if err != nil {
		return
	}
	dg := c.g.df.NewGenerator(int64(len(tb)))
	dg.Write(tb)
	td := dg.Sum()
	e.store.putRaw(td, tb)
	defer func() {
		e.store.mu.Lock()
		delete(e.store.blobs, casKey(td))
		e.store.mu.Unlock()
	}()
	// A storage error while fetching the Tree must surface and must not
	// be remembered by the cache.
	if !c.prof.Concurrent {
		ferr := faultErrors[c.rng.IntN(len(faultErrors))]
		e.store.arm(td, 3, ferr)
		_, errRoot := e.df.GetTreeRootDirectory(e.ctx, td)
		var errChild error
		if len(kids) > 0 {
			_, errChild = e.rawDF.GetTreeChildDirectory(e.ctx, td, kids[0].digest)
			if c.cfg.CacheCount > 0 {
				// Through the cache only if the child is not cached yet;
				// use a digest the cache cannot know: the tree's own.
				_, errChild = e.df.GetTreeChildDirectory(e.ctx, td, td)
			}
		}
		fired := e.store.disarm()
		if fired > 0 && errRoot == nil {
			c.failCase("fault tree-root-served-despite-storage-error", "GetTreeRootDirectory succeeded although the CAS returned an error", nil)
			return
		}
		if fired > 1 && errChild == nil {
			c.failCase("fault tree-child-served-despite-storage-error", "GetTreeChildDirectory succeeded although the CAS returned an error", nil)
			return
		}
		if fired > 0 {
			c.situation("fault-on-tree-fetch-then-retry")
		}
	}
	got, err := e.df.GetTreeRootDirectory(e.ctx, td)
	if err != nil || !proto.Equal(got, root.msg) {
		c.failCase("cache tree-root-mismatch", fmt.Sprintf("GetTreeRootDirectory: err=%v", err), map[string]any{"expected": root.msg.String(), "observed": fmt.Sprint(got)})
		return
	}
	for _, k := range kids {
		got, err := e.df.GetTreeChildDirectory(e.ctx, td, k.digest)
		if err != nil || !proto.Equal(got, k.msg) {
			c.failCase("cache tree-child-mismatch", fmt.Sprintf("GetTreeChildDirectory(%s): err=%v", k.digest, err), map[string]any{"expected": k.msg.String(), "observed": fmt.Sprint(got)})
			return
		}
	}
	c.r.Count("tree_fetches", 1+len(kids))
}

func (c *caseRun) failCase(sig, detail string, extra map[string]any) {
	c.mu.Lock()
	c.violated = true
	c.mu.Unlock()
	w := map[string]any{"seed": c.r.Seed(), "case": c.idx, "profile": c.prof, "config": c.cfg, "errors": c.e.errLog.tail()}
	for i, a := range c.actions {
		tail := a.log
		if len(tail) > 80 {
			tail = tail[len(tail)-80:]
		}
		w[fmt.Sprintf("ops_tail_action_%d", i)] = tail
	}
	for k, v := range extra {
		w[k] = v
	}
	c.r.Violation("C17 "+sig, fmt.Sprintf("case %d: %s", c.idx, detail), w)
}

var _ = virtual.StatusOK
