package c17

// Exploration and local-modification operations of one action, each paired
// with the model update and the oracle comparison.

import (
	"bytes"
	"fmt"
	"sort"
	"syscall"

	"github.com/buildbarn/bb-remote-execution/pkg/builder"
	"github.com/buildbarn/bb-remote-execution/pkg/filesystem/virtual"
	"github.com/buildbarn/bb-remote-execution/pkg/proto/outputpathpersistency"
	"github.com/buildbarn/bb-storage/pkg/filesystem"
	"github.com/buildbarn/bb-storage/pkg/filesystem/path"

	"google.golang.org/grpc/codes"
	"google.golang.org/grpc/status"
	"google.golang.org/protobuf/proto"
)

// ---- bookkeeping -----------------------------------------------------------

// noteLoaded is called when the real directory behind m is known to have
// been populated (an access that needs its contents succeeded).
func (a *action) noteLoaded(p []string, m *mnode) {
	if m.realLoaded {
		return
	}
	m.realLoaded = true
	if m.ref == nil {
		return
	}
	k := casKey(m.ref.digest)
	set := a.pathsByDigest[k]
	if set == nil {
		set = map[string]bool{}
		a.pathsByDigest[k] = set
	}
	ps := pathString(p)
	if !set[ps] {
		set[ps] = true
		if len(set) == 2 {
			a.c.situation("shared-subtree-two-paths")
		}
	}
	a.c.mu.Lock()
	other, ok := a.c.modified[k]
	a.c.mu.Unlock()
	if ok && other != a.idx {
		a.c.situation("cross-action-load-after-modify")
	}
}

// noteModified records that this action changed its copy of directory m.
func (a *action) noteModified(m *mnode) {
	if m.ref == nil {
		return
	}
	a.c.mu.Lock()
	if _, ok := a.c.modified[casKey(m.ref.digest)]; !ok {
		a.c.modified[casKey(m.ref.digest)] = a.idx
	}
	a.c.mu.Unlock()
}

// pickDir performs a random descent in the model.
func (a *action) pickDir(stopPct int) ([]string, *mnode) {
	m := a.model
	var p []string
	for {
		if m.bad() {
			return p, m
		}
		m.expand()
		dirs := m.namesOfKind(kindDir, nil)
		if len(dirs) == 0 || a.rng.IntN(100) < stopPct {
			return p, m
		}
		n := dirs[a.rng.IntN(len(dirs))]
		p = append(p, n)
		m = m.children[n]
	}
}

// resolve walks the real tree along p with VirtualLookup, comparing every
// step with the model. All ancestors of the target are well-formed.
func (a *action) resolve(p []string) (virtual.Directory, bool) {
	var d virtual.Directory = a.irDir
	m := a.model
	for i, name := range p {
		m.expand()
		want := m.children[name]
		mask := a.randomMask()
		var at virtual.Attributes
		child, s := d.VirtualLookup(a.c.e.ctx, comp(name), mask, &at)
		if s != virtual.StatusOK {
			a.violate("fidelity lookup-failed op=resolve status="+statusName(s),
				fmt.Sprintf("%s: lookup of existing %s %q failed with %s", pathString(p[:i]), kindName(want.kind), name, statusName(s)),
				map[string]any{"path": pathString(p[:i+1])})
			return nil, false
		}
		a.noteLoaded(p[:i], m)
		if !a.checkNode("resolve", p[:i], name, child, &at, mask, want) {
			return nil, false
		}
		d, _ = child.GetPair()
		m = want
	}
	return d, true
}

func (a *action) enter(p []string) (builder.BuildDirectory, bool) {
	bdir := a.ir
	for i, name := range p {
		next, err := bdir.EnterBuildDirectory(comp(name))
		if err != nil {
			a.violate("fidelity enter-build-directory-failed", fmt.Sprintf("%s: %v", pathString(p[:i+1]), err), map[string]any{"path": pathString(p[:i+1])})
			return nil, false
		}
		bdir = next
	}
	return bdir, true
}

type dirEntry struct {
	name   string
	child  virtual.DirectoryChild
	attrs  virtual.Attributes
	cookie uint64
}

type collector struct {
	limit   int
	entries []dirEntry
}

func (c *collector) ReportEntry(nextCookie uint64, name path.Component, child virtual.DirectoryChild, attributes *virtual.Attributes) bool {
	if c.limit > 0 && len(c.entries) >= c.limit {
		return false
	}
	c.entries = append(c.entries, dirEntry{name: name.String(), child: child, attrs: *attributes, cookie: nextCookie})
	return true
}

// listDir lists d completely, in pages of pageSize entries (0 = one call).
func (a *action) listDir(d virtual.Directory, mask virtual.AttributesMask, pageSize int) ([]dirEntry, virtual.Status) {
	var all []dirEntry
	cookie := uint64(0)
	for {
		col := &collector{limit: pageSize}
		if s := d.VirtualReadDir(a.c.e.ctx, cookie, mask, col); s != virtual.StatusOK {
			return all, s
		}
		all = append(all, col.entries...)
		if pageSize == 0 || len(col.entries) < pageSize {
			return all, virtual.StatusOK
		}
		cookie = col.entries[len(col.entries)-1].cookie
		if len(all) > 10000 {
			return all, virtual.StatusOK
		}
	}
}

// compareListing checks a complete listing of a directory with the model.
func (a *action) compareListing(op string, p []string, m *mnode, entries []dirEntry, mask virtual.AttributesMask) bool {
	seen := map[string]bool{}
	for i := range entries {
		e := &entries[i]
		if seen[e.name] {
			a.violate("fidelity duplicate-entry op="+op, fmt.Sprintf("%s: entry %q listed twice", pathString(p), e.name), map[string]any{"path": pathString(p), "name": e.name})
			return false
		}
		seen[e.name] = true
		want, ok := m.children[e.name]
		if !ok {
			a.violate("fidelity extra-entry op="+op, fmt.Sprintf("%s: entry %q is not part of the requested tree", pathString(p), e.name),
				map[string]any{"path": pathString(p), "name": e.name, "expected_names": m.names()})
			return false
		}
		if !a.checkNode(op, p, e.name, e.child, &e.attrs, mask, want) {
			return false
		}
	}
	for _, n := range m.names() {
		if !seen[n] {
			a.violate("fidelity missing-entry op="+op, fmt.Sprintf("%s: entry %q (%s) is missing from the listing", pathString(p), n, kindName(m.children[n].kind)),
				map[string]any{"path": pathString(p), "name": n, "observed_count": len(entries), "expected_names": m.names()})
			return false
		}
	}
	if m.ref != nil {
		a.c.mu.Lock()
		other, ok := a.c.modified[casKey(m.ref.digest)]
		a.c.mu.Unlock()
		if ok && other != a.idx {
			a.c.situation("cross-action-compare-after-modify")
		}
	}
	return true
}

// ---- malformed directories -------------------------------------------------

func malformedCategory(kind string) string {
	switch {
	case len(kind) >= 12 && kind[:12] == "invalid-name":
		return "malformed-invalid-name-refused"
	case len(kind) >= 3 && kind[:3] == "dup":
		return "malformed-duplicate-name-refused"
	case kind == "case-colliding-names":
		return "malformed-case-colliding-names-refused"
	case kind == "symlink-target-nul":
		return "malformed-symlink-target-refused"
	case len(kind) >= 10 && kind[:10] == "bad-digest":
		return "malformed-bad-digest-refused"
	}
	return "malformed-unavailable-dir-blob-refused"
}

// opBad accesses a directory that must not load and checks that the access
// is refused, that nothing stays attached and that it keeps being refused.
func (a *action) opBad(p []string, m *mnode, d virtual.Directory) {
	e := a.c.e
	kind := m.ref.bad
	liveBefore := e.leaves.live()
	pd, isPD := d.(virtual.PrepopulatedDirectory)
	variant := a.rng.IntN(19)
	if !isPD && ((variant >= 4 && variant <= 6) || (variant >= 12 && variant <= 15)) {
		variant = 1
	}
	if (variant == 7 || variant == 16 || variant == 17) && len(p) == 0 {
		variant = 0
	}
	if variant == 18 {
		// Not judged: the digest closure of a directory that cannot be
		// loaded is outside the statement. Must not panic or write.
		ap := virtual.ApplyGetContainingDigests{Context: e.ctx}
		handled := d.VirtualApply(&ap)
		a.logf("apply-containing-digests on malformed %s -> handled=%v err=%v", pathString(p), handled, ap.Err)
		a.h("bad-apply-containing-digests", ap.Err != nil)
		variant = 1
	}
	refused := true
	via := ""
	var st any
	abort := false
	if kind == "case-colliding-names" {
		// Counted when reached, whatever the verdict, so that the floor
		// does not depend on the defect being fixed or listed.
		a.c.situation("case-colliding-names-directory-accessed")
	}
	if msg := guarded(func() { abort = a.badAccess(variant, p, d, pd, &via, &refused, &st) }); msg != "" {
		a.logf("bad-access %s kind=%s via=%s -> PANIC %s", pathString(p), kind, via, msg)
		a.h("bad-"+via, "panic")
		a.violate("malformed panic kind="+kind+" via="+via,
			fmt.Sprintf("%s: loading the directory (%s) panicked instead of returning an error: %s", pathString(p), kind, msg),
			map[string]any{"path": pathString(p), "malformation": kind, "directory_message": m.ref.msg.String(), "panic": msg})
		return
	}
	if abort {
		return
	}
	a.finishBad(p, m, d, kind, via, refused, st, liveBefore)
}

// guarded runs fn and returns the message of a panic raised by it, if any.
// It is used around accesses to directories that must be refused: the
// statement demands an error, so a panic is reported as a violation of its
// own (and the case is abandoned, because locks may have been left behind).
func guarded(fn func()) (msg string) {
	defer func() {
		if r := recover(); r != nil {
			msg = fmt.Sprint(r)
		}
	}()
	fn()
	return ""
}

func (a *action) badAccess(variant int, p []string, d virtual.Directory, pd virtual.PrepopulatedDirectory, viaOut *string, refusedOut *bool, stOut *any) (abort bool) {
	e := a.c.e
	refused := true
	via := ""
	var st any
	defer func() { *viaOut, *refusedOut, *stOut = via, refused, st }()
	switch variant {
	case 0:
		via = "VirtualLookup"
		var at virtual.Attributes
		_, s := d.VirtualLookup(e.ctx, comp("f0"), maskCompare, &at)
		refused, st = s != virtual.StatusOK, statusName(s)
	case 1:
		via = "VirtualReadDir"
		ents, s := a.listDir(d, maskCompare, 0)
		refused, st = s != virtual.StatusOK && len(ents) == 0, fmt.Sprintf("%s/%d entries", statusName(s), len(ents))
	case 2:
		via = "VirtualOpenChild"
		var at virtual.Attributes
		leaf, _, _, s := d.VirtualOpenChild(e.ctx, comp("f0"), virtual.ShareMaskRead, nil, &virtual.OpenExistingOptions{}, maskCompare, &at)
		if s == virtual.StatusOK && leaf != nil {
			leaf.VirtualClose(virtual.ShareMaskRead)
		}
		refused, st = s != virtual.StatusOK, statusName(s)
	case 3:
		via = "VirtualMkdir"
		var at virtual.Attributes
		_, _, s := d.VirtualMkdir(e.ctx, comp("zz-new"), &virtual.Attributes{}, maskCompare, &at)
		refused, st = s != virtual.StatusOK, statusName(s)
	case 4:
		via = "LookupChild"
		_, err := pd.LookupChild(comp("f0"))
		refused, st = err != nil, err
	case 5:
		via = "ReadDir"
		fis, err := pd.ReadDir()
		refused, st = err != nil && len(fis) == 0, err
	case 6:
		via = "LookupAllChildren"
		ds, ls, err := pd.LookupAllChildren()
		refused, st = err != nil && len(ds) == 0 && len(ls) == 0, err
	case 7:
		via = "parent.VirtualRemove"
		parent, ok := a.resolve(p[:len(p)-1])
		if !ok {
			return true
		}
		_, s := parent.VirtualRemove(e.ctx, comp(p[len(p)-1]), true, false)
		refused, st = s != virtual.StatusOK, statusName(s)
	case 8:
		via = "VirtualLink"
		leaf := a.anyRootLeaf()
		if leaf == nil {
			via = "VirtualLookup"
			var at virtual.Attributes
			_, s := d.VirtualLookup(e.ctx, comp("f0"), maskCompare, &at)
			refused, st = s != virtual.StatusOK, statusName(s)
			break
		}
		var at virtual.Attributes
		_, s := d.VirtualLink(e.ctx, comp("zz-linked"), leaf, maskCompare, &at)
		refused, st = s != virtual.StatusOK, statusName(s)
	case 9:
		via = "VirtualMknod"
		var at virtual.Attributes
		_, _, s := d.VirtualMknod(e.ctx, comp("zz-symlink"), (&virtual.Attributes{}).SetFileType(filesystem.FileTypeSymlink).SetSymlinkTarget(path.UNIXFormat.NewParser("t")), maskCompare, &at)
		refused, st = s != virtual.StatusOK, statusName(s)
	case 10:
		via = "VirtualRename-from"
		_, _, s := d.VirtualRename(e.ctx, comp("f0"), a.irDir, comp("zz-moved-out"))
		refused, st = s != virtual.StatusOK, statusName(s)
	case 11:
		via = "VirtualRemove-inside"
		_, s := d.VirtualRemove(e.ctx, comp("f0"), true, true)
		refused, st = s != virtual.StatusOK, statusName(s)
	case 12:
		via = "Remove-inside"
		err := pd.Remove(comp("f0"))
		refused, st = err != nil, err
	case 13:
		via = "RemoveAll-inside"
		err := pd.RemoveAll(comp("f0"))
		refused, st = err != nil, err
	case 14:
		via = "CreateChildren"
		err := pd.CreateChildren(map[path.Component]virtual.InitialChild{
			comp("zz-new"): virtual.InitialChild{}.FromDirectory(virtual.EmptyInitialContentsFetcher),
		}, a.rng.IntN(2) == 0)
		refused, st = err != nil, err
	case 15:
		via = "CreateAndEnterPrepopulatedDirectory"
		_, err := pd.CreateAndEnterPrepopulatedDirectory(comp("zz-new"))
		refused, st = err != nil, err
	case 16:
		via = "parent.Remove"
		parent, ok := a.resolve(p[:len(p)-1])
		if !ok {
			return true
		}
		ppd, isPD := parent.(virtual.PrepopulatedDirectory)
		if !isPD {
			return true
		}
		err := ppd.Remove(comp(p[len(p)-1]))
		refused, st = err != nil, err
	case 17:
		// Renaming another directory onto the malformed one needs its
		// contents (it has to be empty): refused, and both stay.
		via = "rename-directory-onto"
		pp := p[:len(p)-1]
		parent, ok := a.resolve(pp)
		if !ok {
			return true
		}
		pm := a.modelAt(pp)
		tmp := a.freshName()
		var at virtual.Attributes
		if _, _, s := parent.VirtualMkdir(e.ctx, comp(tmp), &virtual.Attributes{}, maskCompare, &at); s != virtual.StatusOK {
			a.violate("modification refused op=mkdir status="+statusName(s), fmt.Sprintf("%s: mkdir %q failed", pathString(pp), tmp), map[string]any{"path": pathString(pp)})
			return true
		}
		pm.children[tmp] = newLocalDir()
		a.noteModified(pm)
		_, _, s := parent.VirtualRename(e.ctx, comp(tmp), parent, comp(p[len(p)-1]))
		refused, st = s != virtual.StatusOK, statusName(s)
		if refused && !a.verifyNames("rename-onto-bad", pp, pm, parent, tmp, p[len(p)-1]) {
			return true
		}
	}
	return false
}

// modelAt returns the model node of the directory at path p.
func (a *action) modelAt(p []string) *mnode {
	m := a.model
	for _, n := range p {
		m.expand()
		m = m.children[n]
	}
	return m
}

// anyRootLeaf returns some leaf of the action's root directory (or nil).
func (a *action) anyRootLeaf() virtual.Leaf {
	a.model.expand()
	for _, n := range a.model.names() {
		if a.model.children[n].kind == kindDir {
			continue
		}
		var at virtual.Attributes
		child, s := a.irDir.VirtualLookup(a.c.e.ctx, comp(n), maskCompare, &at)
		if s != virtual.StatusOK {
			return nil
		}
		_, leaf := child.GetPair()
		return leaf
	}
	return nil
}

// unspecifiedMalformation names defects of a Directory message about which
// the statement says nothing; refusing them is what the code does, and then
// the usual no-leak/no-partial-tree rules apply, but presenting them is not
// judged.
func unspecifiedMalformation(kind string) bool { return kind == "symlink-target-nul" }

func (a *action) finishBad(p []string, m *mnode, d virtual.Directory, kind, via string, refused bool, st any, liveBefore int) {
	e := a.c.e
	a.logf("bad-access %s kind=%s via=%s -> %v", pathString(p), kind, via, st)
	a.h("bad-"+via, refused)
	if !refused && unspecifiedMalformation(kind) {
		a.c.situation("unspecified-malformation-presented")
		return
	}
	if !refused {
		a.violate("malformed accepted kind="+kind+" via="+via,
			fmt.Sprintf("%s: malformed directory (%s) was presented instead of an error (%v)", pathString(p), kind, st),
			map[string]any{"path": pathString(p), "malformation": kind, "directory_message": m.ref.msg.String(), "observed": fmt.Sprint(st)})
		return
	}
	if !a.c.prof.Concurrent {
		if live := e.leaves.live(); live != liveBefore {
			a.violate("malformed leaf-leak kind="+kind,
				fmt.Sprintf("%s: %d leaves created while loading the malformed directory (%s) stayed linked after the failure", pathString(p), live-liveBefore, kind),
				map[string]any{"path": pathString(p), "malformation": kind, "live_before": liveBefore, "live_after": live})
			return
		}
	}
	// The failure must be stable: nothing got attached.
	ents, s := a.listDir(d, maskCompare, 0)
	if s == virtual.StatusOK || len(ents) != 0 {
		a.violate("malformed partial-tree-after-failure kind="+kind,
			fmt.Sprintf("%s: after a refused load the directory lists %d entries with %s", pathString(p), len(ents), statusName(s)),
			map[string]any{"path": pathString(p), "malformation": kind})
		return
	}
	a.c.situation("malformed-refused")
	a.c.situation(malformedCategory(kind))
	if kind == "dup-dir-file" {
		a.c.situation("duplicate-name-file-vs-directory")
	}
}

// ---- exploration -----------------------------------------------------------

func (a *action) opLookup(p []string, m *mnode, d virtual.Directory) {
	m.expand()
	names := m.names()
	mask := a.randomMask()
	var at virtual.Attributes
	if len(names) > 0 && a.rng.IntN(100) < 85 {
		name := names[a.rng.IntN(len(names))]
		child, s := d.VirtualLookup(a.c.e.ctx, comp(name), mask, &at)
		a.logf("lookup %s %q mask=%#x -> %s", pathString(p), name, uint32(mask), statusName(s))
		a.h("lookup", statusName(s))
		if s != virtual.StatusOK {
			a.violate("fidelity lookup-failed op=lookup status="+statusName(s), fmt.Sprintf("%s: lookup of %q failed with %s", pathString(p), name, statusName(s)),
				map[string]any{"path": pathString(p), "name": name})
			return
		}
		a.noteLoaded(p, m)
		a.checkNode("lookup", p, name, child, &at, mask, m.children[name])
		return
	}
	name := fmt.Sprintf("zz-absent-%d", a.rng.IntN(5))
	child, s := d.VirtualLookup(a.c.e.ctx, comp(name), mask, &at)
	a.logf("lookup-absent %s %q -> %s", pathString(p), name, statusName(s))
	a.h("lookup-absent", statusName(s))
	if s == virtual.StatusOK || child.IsSet() {
		a.violate("fidelity phantom-entry op=lookup", fmt.Sprintf("%s: lookup of %q, which is not in the tree, returned %s", pathString(p), name, statusName(s)),
			map[string]any{"path": pathString(p), "name": name})
		return
	}
	if s != virtual.StatusErrNoEnt {
		a.violate("fidelity lookup-failed op=lookup-absent status="+statusName(s), fmt.Sprintf("%s: lookup of absent %q failed with %s", pathString(p), name, statusName(s)),
			map[string]any{"path": pathString(p)})
		return
	}
	a.noteLoaded(p, m)
}

func (a *action) opReadDir(p []string, m *mnode, d virtual.Directory) {
	m.expand()
	mask := a.randomMask()
	page := 0
	if a.rng.IntN(2) == 0 {
		page = 1 + a.rng.IntN(4)
	}
	ents, s := a.listDir(d, mask, page)
	a.logf("readdir %s page=%d mask=%#x -> %s, %d entries (model %d)", pathString(p), page, uint32(mask), statusName(s), len(ents), len(m.children))
	a.h("readdir", statusName(s))
	if s != virtual.StatusOK {
		a.violate("fidelity readdir-failed status="+statusName(s), fmt.Sprintf("%s: VirtualReadDir failed with %s", pathString(p), statusName(s)),
			map[string]any{"path": pathString(p)})
		return
	}
	a.noteLoaded(p, m)
	a.compareListing("readdir", p, m, ents, mask)
}

// opPrepop uses the worker-facing PrepopulatedDirectory methods.
func (a *action) opPrepop(p []string, m *mnode, d virtual.Directory) {
	pd, ok := d.(virtual.PrepopulatedDirectory)
	if !ok {
		return
	}
	m.expand()
	switch a.rng.IntN(3) {
	case 0:
		fis, err := pd.ReadDir()
		a.logf("ReadDir %s -> %d entries, err=%v", pathString(p), len(fis), err)
		a.h("ReadDir", err == nil)
		if err != nil {
			a.violate("fidelity ReadDir-failed", fmt.Sprintf("%s: %v", pathString(p), err), map[string]any{"path": pathString(p)})
			return
		}
		a.noteLoaded(p, m)
		seen := map[string]bool{}
		for _, fi := range fis {
			n := fi.Name().String()
			want, ok := m.children[n]
			if !ok || seen[n] {
				a.violate("fidelity extra-entry op=ReadDir", fmt.Sprintf("%s: unexpected or duplicate entry %q", pathString(p), n), map[string]any{"path": pathString(p), "name": n})
				return
			}
			seen[n] = true
			wantType := modelFileType(want)
			if fi.Type() != wantType {
				a.violate("fidelity kind-mismatch op=ReadDir want="+kindName(want.kind), fmt.Sprintf("%s/%s: type %d, expected %d", pathString(p), n, fi.Type(), wantType), map[string]any{"path": pathString(p), "name": n})
				return
			}
			if want.kind == kindFile && fi.IsExecutable() != want.exec {
				a.violate("fidelity executable-bit-mismatch op=ReadDir", fmt.Sprintf("%s/%s: executable=%v, expected %v", pathString(p), n, fi.IsExecutable(), want.exec), map[string]any{"path": pathString(p), "name": n})
				return
			}
		}
		if len(seen) != len(m.children) {
			a.violate("fidelity missing-entry op=ReadDir", fmt.Sprintf("%s: %d entries listed, %d expected", pathString(p), len(seen), len(m.children)), map[string]any{"path": pathString(p), "expected_names": m.names()})
		}
	case 1:
		ds, ls, err := pd.LookupAllChildren()
		a.logf("LookupAllChildren %s -> %d dirs %d leaves err=%v", pathString(p), len(ds), len(ls), err)
		a.h("LookupAllChildren", err == nil)
		if err != nil {
			a.violate("fidelity LookupAllChildren-failed", fmt.Sprintf("%s: %v", pathString(p), err), map[string]any{"path": pathString(p)})
			return
		}
		a.noteLoaded(p, m)
		nd, nl := 0, 0
		for _, c := range m.children {
			if c.kind == kindDir {
				nd++
			} else {
				nl++
			}
		}
		ok := len(ds) == nd && len(ls) == nl
		for _, x := range ds {
			if c, found := m.children[x.Name.String()]; !found || c.kind != kindDir {
				ok = false
			}
		}
		for _, x := range ls {
			if c, found := m.children[x.Name.String()]; !found || c.kind == kindDir {
				ok = false
			}
		}
		if !ok {
			a.violate("fidelity listing-mismatch op=LookupAllChildren", fmt.Sprintf("%s: %d directories and %d leaves, expected %d and %d", pathString(p), len(ds), len(ls), nd, nl),
				map[string]any{"path": pathString(p), "expected_names": m.names()})
		}
	case 2:
		names := m.names()
		if len(names) == 0 {
			_, err := pd.LookupChild(comp("zz-absent"))
			a.h("LookupChild-absent", err)
			if err != syscall.ENOENT {
				a.violate("fidelity phantom-entry op=LookupChild", fmt.Sprintf("%s: LookupChild of absent name returned %v", pathString(p), err), map[string]any{"path": pathString(p)})
			}
			return
		}
		n := names[a.rng.IntN(len(names))]
		child, err := pd.LookupChild(comp(n))
		a.logf("LookupChild %s %q -> err=%v", pathString(p), n, err)
		a.h("LookupChild", err == nil)
		if err != nil {
			a.violate("fidelity lookup-failed op=LookupChild", fmt.Sprintf("%s: LookupChild(%q) = %v", pathString(p), n, err), map[string]any{"path": pathString(p), "name": n})
			return
		}
		a.noteLoaded(p, m)
		cd, _ := child.GetPair()
		if (cd != nil) != (m.children[n].kind == kindDir) {
			a.violate("fidelity kind-mismatch op=LookupChild want="+kindName(m.children[n].kind), fmt.Sprintf("%s/%s", pathString(p), n), map[string]any{"path": pathString(p), "name": n})
		}
	}
}

func modelFileType(m *mnode) filesystem.FileType {
	switch m.kind {
	case kindDir:
		return filesystem.FileTypeDirectory
	case kindFile:
		return filesystem.FileTypeRegularFile
	case kindSymlink:
		return filesystem.FileTypeSymlink
	}
	return m.ftype
}

// lookupLeaf resolves a leaf child of d.
func (a *action) lookupLeaf(op string, p []string, m *mnode, d virtual.Directory, name string) (virtual.Leaf, bool) {
	var at virtual.Attributes
	mask := a.randomMask()
	child, s := d.VirtualLookup(a.c.e.ctx, comp(name), mask, &at)
	if s != virtual.StatusOK {
		a.violate("fidelity lookup-failed op="+op+" status="+statusName(s), fmt.Sprintf("%s: lookup of %q failed with %s", pathString(p), name, statusName(s)),
			map[string]any{"path": pathString(p), "name": name})
		return nil, false
	}
	a.noteLoaded(p, m)
	if !a.checkNode(op, p, name, child, &at, mask, m.children[name]) {
		return nil, false
	}
	_, leaf := child.GetPair()
	return leaf, true
}

func (a *action) opReadFile(p []string, m *mnode, d virtual.Directory) {
	m.expand()
	files := m.namesOfKind(kindFile, nil)
	if len(files) == 0 {
		a.opLookup(p, m, d)
		return
	}
	name := files[a.rng.IntN(len(files))]
	want := m.children[name]
	where := pathString(append(append([]string(nil), p...), name))
	if a.rng.IntN(3) == 0 {
		// Through VirtualOpenChild, as FUSE/NFS OPEN would.
		var at virtual.Attributes
		leaf, _, _, s := d.VirtualOpenChild(a.c.e.ctx, comp(name), virtual.ShareMaskRead, nil, &virtual.OpenExistingOptions{}, maskCompare, &at)
		a.logf("open-read %s -> %s", where, statusName(s))
		if s != virtual.StatusOK {
			a.violate("fidelity open-for-read-refused", fmt.Sprintf("%s: VirtualOpenChild(read) = %s", where, statusName(s)), map[string]any{"path": where})
			return
		}
		a.noteLoaded(p, m)
		defer leaf.VirtualClose(virtual.ShareMaskRead)
		if !a.checkNode("open-read", p, name, virtual.DirectoryChild{}.FromLeaf(leaf), &at, maskCompare, want) {
			return
		}
		a.checkFileContent("open-read", where, leaf, want)
		return
	}
	leaf, ok := a.lookupLeaf("read", p, m, d, name)
	if !ok {
		return
	}
	a.logf("read %s (%d bytes, cas=%v)", where, len(want.fileData()), want.isCASFile())
	a.checkFileContent("read", where, leaf, want)
}

func (a *action) opSymlink(p []string, m *mnode, d virtual.Directory) {
	m.expand()
	links := m.namesOfKind(kindSymlink, nil)
	if len(links) == 0 {
		a.opReadDir(p, m, d)
		return
	}
	name := links[a.rng.IntN(len(links))]
	want := m.children[name]
	where := pathString(append(append([]string(nil), p...), name))
	if a.rng.IntN(3) == 0 {
		a.logf("probe-symlink %s", where)
		a.probeSymlink(p, m, d, name)
		return
	}
	if a.rng.IntN(2) == 0 {
		var at virtual.Attributes
		mask := maskCompare | virtual.AttributesMaskSymlinkTarget
		child, s := d.VirtualLookup(a.c.e.ctx, comp(name), mask, &at)
		a.logf("readlink %s -> %s", where, statusName(s))
		a.h("readlink", statusName(s))
		if s != virtual.StatusOK {
			a.violate("fidelity lookup-failed op=readlink status="+statusName(s), where, map[string]any{"path": where})
			return
		}
		a.noteLoaded(p, m)
		a.checkNode("readlink", p, name, child, &at, mask, want)
		return
	}
	bdir, ok := a.enter(p)
	if !ok {
		return
	}
	t, err := bdir.Readlink(comp(name))
	a.logf("Readlink %s -> err=%v", where, err)
	a.h("Readlink", err == nil)
	if err != nil {
		a.violate("fidelity Readlink-failed", fmt.Sprintf("%s: %v", where, err), map[string]any{"path": where})
		return
	}
	a.noteLoaded(p, m)
	if got := parserString(t); got != normTarget(want.target) {
		a.violate("fidelity symlink-target-mismatch op=Readlink", fmt.Sprintf("%s: %q, expected %q", where, got, normTarget(want.target)),
			map[string]any{"path": where, "expected_target": normTarget(want.target), "observed_target": got})
	}
}

// opBuildDir uses BuildDirectory.Lstat / UploadFile on input files.
func (a *action) opBuildDir(p []string, m *mnode, d virtual.Directory) {
	m.expand()
	names := m.names()
	if len(names) == 0 {
		return
	}
	bdir, ok := a.enter(p)
	if !ok {
		return
	}
	a.noteLoaded(p, m)
	name := names[a.rng.IntN(len(names))]
	want := m.children[name]
	where := pathString(append(append([]string(nil), p...), name))
	fi, err := bdir.Lstat(comp(name))
	a.logf("Lstat %s -> type=%d exec=%v err=%v", where, fi.Type(), fi.IsExecutable(), err)
	a.h("Lstat", err == nil)
	if err != nil {
		a.violate("fidelity Lstat-failed", fmt.Sprintf("%s: %v", where, err), map[string]any{"path": where})
		return
	}
	wantType := modelFileType(want)
	if fi.Type() != wantType {
		a.violate("fidelity kind-mismatch op=Lstat want="+kindName(want.kind), fmt.Sprintf("%s: type %d, expected %d", where, fi.Type(), wantType), map[string]any{"path": where})
		return
	}
	if want.kind == kindFile && fi.IsExecutable() != want.exec {
		a.violate("fidelity executable-bit-mismatch op=Lstat", fmt.Sprintf("%s: executable=%v, expected %v", where, fi.IsExecutable(), want.exec), map[string]any{"path": where})
		return
	}
	if want.isCASFile() {
		// Uploading an input file must yield its digest and must not
		// write to the CAS.
		dg, err := bdir.UploadFile(a.c.e.ctx, comp(name), a.c.g.df, nil)
		a.logf("UploadFile %s -> %s err=%v", where, dg, err)
		if err != nil || dg != want.blob.digest {
			a.violate("fidelity upload-digest-mismatch", fmt.Sprintf("%s: UploadFile = %s, %v; expected %s", where, dg, err, want.blob.digest),
				map[string]any{"path": where})
			return
		}
		if w := a.c.e.store.writes(); len(w) != 0 {
			a.violate("immutability cas-written via=UploadFile", fmt.Sprintf("%s: uploading an input file wrote %v to the CAS", where, w), map[string]any{"path": where, "writes": w})
		}
	}
}

// ---- immutability probes ---------------------------------------------------

type leafSnapshot struct {
	attrs string
	data  []byte
	ok    bool
}

func (a *action) snapshotLeaf(leaf virtual.Leaf, size int) leafSnapshot {
	var at virtual.Attributes
	leaf.VirtualGetAttributes(a.c.e.ctx, maskCompare, &at)
	sn := leafSnapshot{attrs: attrSummary(&at, maskCompare)}
	buf := make([]byte, size+8)
	n, eof, s := leaf.VirtualRead(a.c.e.ctx, buf, 0)
	sn.ok = s == virtual.StatusOK && eof
	sn.data = buf[:n]
	return sn
}

// writeRecovering calls VirtualWrite. The CAS file implementation documents
// that writes "should have been intercepted" by the protocol front end and
// panics; that panic is a refusal, not a crash of interest.
func writeRecovering(leaf virtual.Leaf, a *action, buf []byte, off uint64) (n int, s virtual.Status, panicked string) {
	defer func() {
		if r := recover(); r != nil {
			panicked = fmt.Sprint(r)
			s = virtual.StatusErrAccess
		}
	}()
	n, s = leaf.VirtualWrite(a.c.e.ctx, buf, off)
	return
}

func (a *action) opProbe(p []string, m *mnode, d virtual.Directory) {
	m.expand()
	files := m.namesOfKind(kindFile, func(c *mnode) bool { return c.isCASFile() && c.blob.readable() })
	if len(files) == 0 {
		a.opReadFile(p, m, d)
		return
	}
	e := a.c.e
	name := files[a.rng.IntN(len(files))]
	want := m.children[name]
	where := pathString(append(append([]string(nil), p...), name))
	leaf, ok := a.lookupLeaf("probe", p, m, d, name)
	if !ok {
		return
	}
	size := len(want.blob.data)
	before := a.snapshotLeaf(leaf, size)
	a.logf("probe %s (%d bytes exec=%v)", where, size, want.exec)
	var at virtual.Attributes
	for _, t := range []struct {
		name   string
		share  virtual.ShareMask
		trunc  bool
		create bool
	}{
		{"open-child-write", virtual.ShareMaskWrite, false, false},
		{"open-child-read-write", virtual.ShareMaskRead | virtual.ShareMaskWrite, false, false},
		{"open-child-truncate", virtual.ShareMaskRead, true, false},
		{"open-child-create-write", virtual.ShareMaskWrite, false, true},
	} {
		var create *virtual.Attributes
		if t.create {
			create = (&virtual.Attributes{}).SetPermissions(virtual.PermissionsRead | virtual.PermissionsWrite)
		}
		l2, _, _, s := d.VirtualOpenChild(e.ctx, comp(name), t.share, create, &virtual.OpenExistingOptions{Truncate: t.trunc}, maskCompare, &at)
		if s == virtual.StatusOK && l2 != nil {
			l2.VirtualClose(t.share)
		}
		a.h("probe-"+t.name, statusName(s))
		if s == virtual.StatusOK {
			a.violate("immutability cas-file-accepted attempt="+t.name, fmt.Sprintf("%s: %s on a CAS-backed input file succeeded", where, t.name),
				map[string]any{"path": where, "attempt": t.name, "blob": want.blob.digest.String()})
			return
		}
	}
	ok, panicked := a.probeLeaf(where, leaf, want.blob.data)
	if !ok {
		return
	}
	after := a.snapshotLeaf(leaf, size)
	if !before.ok || !after.ok || before.attrs != after.attrs || string(before.data) != string(after.data) || string(after.data) != string(want.blob.data) {
		a.violate("immutability cas-file-changed-after-probes", fmt.Sprintf("%s: attributes/content differ after refused mutations: before {%s, %d bytes} after {%s, %d bytes}", where, before.attrs, len(before.data), after.attrs, len(after.data)),
			map[string]any{"path": where, "before": before.attrs, "after": after.attrs})
		return
	}
	// Fresh lookup: same attributes as the reference tree.
	if _, ok := a.lookupLeaf("probe-after", p, m, d, name); !ok {
		return
	}
	if w := e.store.writes(); len(w) != 0 {
		a.violate("immutability cas-written via=probe", fmt.Sprintf("%s: the CAS received writes %v", where, w), map[string]any{"path": where, "writes": w})
		return
	}
	a.c.situation("immutability-probed-cas-file")
	if panicked != "" {
		a.c.situation("write-refused-by-documented-panic")
	}
}

// probeLeaf tries every mutation the Leaf interface offers on a CAS-backed
// file and checks that each is refused and that attributes and contents stay
// what they were.
func (a *action) probeLeaf(where string, leaf virtual.Leaf, data []byte) (bool, string) {
	e := a.c.e
	size := len(data)
	before := a.snapshotLeaf(leaf, size)
	accepted := func(attempt string, s virtual.Status) bool {
		a.h("probe-"+attempt, statusName(s))
		if s == virtual.StatusOK {
			a.violate("immutability cas-file-accepted attempt="+attempt,
				fmt.Sprintf("%s: %s on a CAS-backed file succeeded", where, attempt),
				map[string]any{"path": where, "attempt": attempt})
			return true
		}
		return false
	}
	var at virtual.Attributes
	for _, t := range []struct {
		name  string
		share virtual.ShareMask
		trunc bool
	}{
		{"open-self-write", virtual.ShareMaskWrite, false},
		{"open-self-read-write", virtual.ShareMaskRead | virtual.ShareMaskWrite, false},
		{"open-self-truncate", virtual.ShareMaskRead, true},
		{"open-self-write-truncate", virtual.ShareMaskWrite, true},
	} {
		s := leaf.VirtualOpenSelf(e.ctx, t.share, &virtual.OpenExistingOptions{Truncate: t.trunc}, maskCompare, &at)
		if s == virtual.StatusOK {
			leaf.VirtualClose(t.share)
		}
		if accepted(t.name, s) {
			return false, ""
		}
	}
	for _, sz := range []uint64{0, uint64(size) + 10, uint64(size / 2)} {
		if sz == uint64(size) {
			continue
		}
		var out virtual.Attributes
		s := leaf.VirtualSetAttributes(e.ctx, (&virtual.Attributes{}).SetSizeBytes(sz), maskCompare, &out)
		if accepted("setattr-size", s) {
			return false, ""
		}
	}
	if accepted("allocate", leaf.VirtualAllocate(e.ctx, 0, uint64(size)+4096)) {
		return false, ""
	}
	n, s, panicked := writeRecovering(leaf, a, []byte("overwrite!"), 0)
	if panicked == "" && (s == virtual.StatusOK || n > 0) {
		a.h("probe-write", statusName(s))
		a.violate("immutability cas-file-accepted attempt=write", fmt.Sprintf("%s: VirtualWrite wrote %d bytes (%s)", where, n, statusName(s)),
			map[string]any{"path": where, "attempt": "write"})
		return false, ""
	}
	a.h("probe-write", "refused")
	// chmod is tolerated by the implementation; whatever it answers, the
	// attributes other users see must not change.
	var out virtual.Attributes
	chmod := leaf.VirtualSetAttributes(e.ctx, (&virtual.Attributes{}).SetPermissions(virtual.PermissionsRead|virtual.PermissionsWrite|virtual.PermissionsExecute), maskCompare, &out)
	a.h("probe-chmod", statusName(chmod))
	// chown, named attributes and the VirtualApply() operations: whatever
	// they answer, the file has to stay what it is.
	var out2 virtual.Attributes
	a.h("probe-chown", statusName(leaf.VirtualSetAttributes(e.ctx, (&virtual.Attributes{}).SetOwnerUserID(0).SetOwnerGroupID(0), maskCompare, &out2)))
	var out3 virtual.Attributes
	a.h("probe-chgrp", statusName(leaf.VirtualSetAttributes(e.ctx, (&virtual.Attributes{}).SetOwnerGroupID(7), maskCompare, &out3)))
	if !a.probeSetattrCombinations(where, leaf, size) {
		return false, ""
	}
	for _, create := range []bool{false, true} {
		var nat virtual.Attributes
		nd, s := leaf.VirtualOpenNamedAttributes(e.ctx, create, maskCompare, &nat)
		a.h(fmt.Sprintf("probe-named-attributes-%v", create), statusName(s))
		if s == virtual.StatusOK && nd == nil {
			a.violate("fidelity named-attributes-ok-without-directory", where, map[string]any{"path": where})
			return false, ""
		}
	}
	if !a.probeApply(where, leaf, data) || !a.probeSeek(where, leaf, data) {
		return false, ""
	}
	// A read-only open keeps working.
	if s := leaf.VirtualOpenSelf(e.ctx, virtual.ShareMaskRead, &virtual.OpenExistingOptions{}, maskCompare, &at); s != virtual.StatusOK {
		a.violate("fidelity open-for-read-refused", fmt.Sprintf("%s: VirtualOpenSelf(read) = %s", where, statusName(s)), map[string]any{"path": where})
		return false, ""
	}
	leaf.VirtualClose(virtual.ShareMaskRead)

	after := a.snapshotLeaf(leaf, size)
	if !before.ok || !after.ok || before.attrs != after.attrs || string(before.data) != string(after.data) || string(after.data) != string(data) {
		a.violate("immutability cas-file-changed-after-probes", fmt.Sprintf("%s: attributes/content differ after refused mutations: before {%s, %d bytes} after {%s, %d bytes}", where, before.attrs, len(before.data), after.attrs, len(after.data)),
			map[string]any{"path": where, "before": before.attrs, "after": after.attrs, "chmod_status": statusName(chmod)})
		return false, ""
	}
	return true, panicked
}

// probeSetattrCombinations issues single SETATTR requests that carry several
// attributes at once, as FUSE (FATTR_MODE|FATTR_SIZE|...) and NFSv4 SETATTR
// do: every combination of {permissions, size 0/smaller/equal/larger, owner,
// group} with modification/access times mixed in. A request that contains a
// size other than the current one is a truncate/extend and has to be refused
// whatever else it carries; so has one that changes the owner or group of
// the shared, stateless file. Permissions alone (tolerated chmod) and a size
// equal to the current one are not judged. Contents and attributes are
// compared by the caller afterwards.
func (a *action) probeSetattrCombinations(where string, leaf virtual.Leaf, size int) bool {
	e := a.c.e
	type sizeOpt struct {
		name string
		set  bool
		v    uint64
	}
	sizes := []sizeOpt{{"zero", true, 0}, {"smaller", true, uint64(size / 2)}, {"larger", true, uint64(size) + 1 + uint64(a.rng.IntN(5000))}, {"equal", true, uint64(size)}, {"none", false, 0}}
	stamp := e.clock.Now()
	n := 0
	for _, withPerm := range []bool{false, true} {
		for _, so := range sizes {
			for _, withOwner := range []bool{false, true} {
				for _, withGroup := range []bool{false, true} {
					if !withPerm && !so.set && !withOwner && !withGroup {
						continue
					}
					in := &virtual.Attributes{}
					fields := ""
					if withPerm {
						perm := virtual.PermissionsRead
						if a.rng.IntN(2) == 0 {
							perm |= virtual.PermissionsWrite
						}
						if a.rng.IntN(2) == 0 {
							perm |= virtual.PermissionsExecute
						}
						in.SetPermissions(perm)
						fields += "+permissions"
					}
					if so.set {
						in.SetSizeBytes(so.v)
						fields += "+size-" + so.name
					}
					if withOwner {
						in.SetOwnerUserID(uint32(a.rng.IntN(3)))
						fields += "+owner"
					}
					if withGroup {
						in.SetOwnerGroupID(uint32(a.rng.IntN(3)))
						fields += "+group"
					}
					// Times ride along without being part of the verdict.
					if a.rng.IntN(3) == 0 {
						in.SetLastDataModificationTime(stamp)
					}
					if a.rng.IntN(3) == 0 {
						in.SetLastAccessTime(stamp)
					}
					var out virtual.Attributes
					s := leaf.VirtualSetAttributes(e.ctx, in, maskCompare, &out)
					n++
					changesSize := so.set && so.v != uint64(size)
					if s == virtual.StatusOK && (changesSize || withOwner || withGroup) {
						what := "size"
						if !changesSize {
							what = "ownership"
						}
						a.h("probe-setattr-combination", fields+":"+statusName(s))
						a.violate("immutability cas-file-accepted attempt=setattr-combination changes="+what+" fields="+fields,
							fmt.Sprintf("%s: one VirtualSetAttributes carrying {%s} on a CAS-backed file (%d bytes) returned OK", where, fields[1:], size),
							map[string]any{"path": where, "attempt": "setattr-combination", "fields": fields[1:], "requested_size": so.v, "current_size": size})
						return false
					}
				}
			}
		}
	}
	a.h("probe-setattr-combinations", n)
	a.c.situation("immutability-probed-setattr-combination")
	return true
}

// probeApply drives every VirtualApply() operation against a CAS-backed
// file. Operations that report the file's identity must report the one of
// the requested tree; none may write to the CAS.
func (a *action) probeApply(where string, leaf virtual.Leaf, data []byte) bool {
	e := a.c.e
	dg := e.digestOf(a.c.g.df, data)
	var at virtual.Attributes
	leaf.VirtualGetAttributes(e.ctx, virtual.AttributesMaskPermissions, &at)
	perm, _ := at.GetPermissions()
	exec := perm&virtual.PermissionsExecute != 0

	cd := virtual.ApplyGetContainingDigests{Context: e.ctx}
	if !leaf.VirtualApply(&cd) || cd.Err != nil || cd.ContainingDigests.Length() != 1 || cd.ContainingDigests.Items()[0] != dg {
		a.violate("fidelity apply-containing-digests-mismatch", fmt.Sprintf("%s: ApplyGetContainingDigests = %v (err %v), expected {%s}", where, cd.ContainingDigests.Items(), cd.Err, dg),
			map[string]any{"path": where})
		return false
	}
	pn := virtual.ApplyAppendOutputPathPersistencyDirectoryNode{Directory: &outputpathpersistency.Directory{}, Name: comp("probe")}
	if !leaf.VirtualApply(&pn) || len(pn.Directory.Files) != 1 || len(pn.Directory.Symlinks) != 0 || len(pn.Directory.Directories) != 0 ||
		pn.Directory.Files[0].Name != "probe" || !proto.Equal(pn.Directory.Files[0].Digest, dg.GetProto()) || pn.Directory.Files[0].IsExecutable != exec {
		a.violate("fidelity apply-persistency-node-mismatch", fmt.Sprintf("%s: persistency node %v, expected digest %s exec=%v", where, pn.Directory, dg, exec),
			map[string]any{"path": where})
		return false
	}
	df := a.c.g.df
	st := virtual.ApplyGetBazelOutputServiceStat{DigestFunction: &df}
	handled := leaf.VirtualApply(&st)
	a.h("probe-apply-bazel-stat", fmt.Sprintf("%v/%v", handled, st.Err == nil))
	if handled && st.Err == nil && st.Stat.GetFile() == nil {
		a.violate("fidelity apply-bazel-stat-not-a-file", where, map[string]any{"path": where})
		return false
	}
	up := virtual.ApplyUploadFile{Context: e.ctx, ContentAddressableStorage: e.store, DigestFunction: df}
	if !leaf.VirtualApply(&up) || up.Err != nil || up.Digest != dg {
		a.violate("fidelity upload-digest-mismatch", fmt.Sprintf("%s: ApplyUploadFile = %s, %v; expected %s", where, up.Digest, up.Err, dg), map[string]any{"path": where})
		return false
	}
	fr := virtual.ApplyOpenReadFrozen{}
	if leaf.VirtualApply(&fr) && fr.Err == nil && fr.Reader != nil {
		// Not offered by CAS files today; if it ever is, the bytes count.
		buf := make([]byte, len(data)+1)
		n, _ := fr.Reader.ReadAt(buf, 0)
		fr.Reader.Close()
		if string(buf[:n]) != string(data) {
			a.violate("fidelity content-mismatch op=open-read-frozen", where, map[string]any{"path": where})
			return false
		}
	}
	type unknownApply struct{}
	a.h("probe-apply-unknown", leaf.VirtualApply(&unknownApply{}))
	if w := e.store.writes(); len(w) != 0 {
		a.violate("immutability cas-written via=apply", fmt.Sprintf("%s: the CAS received writes %v", where, w), map[string]any{"path": where, "writes": w})
		return false
	}
	return true
}

// probeSeek checks that data/hole answers are consistent with the bytes: a
// region reported as a hole may only cover zero bytes, and ENXIO for data
// may only be answered if nothing but zero bytes (or nothing) follows.
func (a *action) probeSeek(where string, leaf virtual.Leaf, data []byte) bool {
	e := a.c.e
	size := uint64(len(data))
	allZero := func(from, to uint64) bool {
		for i := from; i < to && i < size; i++ {
			if data[i] != 0 {
				return false
			}
		}
		return true
	}
	offs := []uint64{0, size / 2, size, size + 5}
	if size > 0 {
		offs = append(offs, size-1, uint64(a.rng.IntN(len(data))))
	}
	for _, off := range offs {
		r, s := leaf.VirtualSeek(e.ctx, off, filesystem.Data)
		bad := ""
		switch {
		case s == virtual.StatusOK && r != nil:
			if *r < off || *r >= size || !allZero(off, *r) {
				bad = fmt.Sprintf("SEEK_DATA(%d) = %d for a %d byte file", off, *r, size)
			}
		case s == virtual.StatusErrNXIO:
			if !allZero(off, size) {
				bad = fmt.Sprintf("SEEK_DATA(%d) = ENXIO although data follows", off)
			}
		case s == virtual.StatusOK && r == nil:
			// "no more data": same as ENXIO.
			if !allZero(off, size) {
				bad = fmt.Sprintf("SEEK_DATA(%d) = end although data follows", off)
			}
		default:
			bad = fmt.Sprintf("SEEK_DATA(%d) failed with %s", off, statusName(s))
		}
		if bad == "" {
			r, s = leaf.VirtualSeek(e.ctx, off, filesystem.Hole)
			switch {
			case s == virtual.StatusOK && r != nil:
				if *r < off || *r > size || (*r < size && data[*r] != 0) {
					bad = fmt.Sprintf("SEEK_HOLE(%d) = %d for a %d byte file", off, *r, size)
				}
			case s == virtual.StatusErrNXIO:
				if off < size {
					bad = fmt.Sprintf("SEEK_HOLE(%d) = ENXIO inside a %d byte file", off, size)
				}
			case s == virtual.StatusOK && r == nil:
			default:
				bad = fmt.Sprintf("SEEK_HOLE(%d) failed with %s", off, statusName(s))
			}
		}
		if bad != "" {
			a.violate("fidelity seek-inconsistent-with-contents", where+": "+bad, map[string]any{"path": where})
			return false
		}
	}
	a.h("probe-seek", "ok")
	return true
}

// probeSymlink drives the mutation entry points of a symbolic link of the
// input root; the target has to stay what the Directory message says.
func (a *action) probeSymlink(p []string, m *mnode, d virtual.Directory, name string) {
	e := a.c.e
	want := m.children[name]
	where := pathString(append(append([]string(nil), p...), name))
	leaf, ok := a.lookupLeaf("probe-symlink", p, m, d, name)
	if !ok {
		return
	}
	var at virtual.Attributes
	for _, sh := range []virtual.ShareMask{virtual.ShareMaskRead, virtual.ShareMaskWrite} {
		s := leaf.VirtualOpenSelf(e.ctx, sh, &virtual.OpenExistingOptions{Truncate: sh == virtual.ShareMaskWrite}, maskCompare, &at)
		if s == virtual.StatusOK {
			leaf.VirtualClose(sh)
		}
		a.h("symlink-open", statusName(s))
	}
	var out virtual.Attributes
	a.h("symlink-setattr-size", statusName(leaf.VirtualSetAttributes(e.ctx, (&virtual.Attributes{}).SetSizeBytes(0), maskCompare, &out)))
	a.h("symlink-chown", statusName(leaf.VirtualSetAttributes(e.ctx, (&virtual.Attributes{}).SetOwnerUserID(0), maskCompare, &out)))
	a.h("symlink-chgrp", statusName(leaf.VirtualSetAttributes(e.ctx, (&virtual.Attributes{}).SetOwnerGroupID(0), maskCompare, &out)))
	a.h("symlink-chmod", statusName(leaf.VirtualSetAttributes(e.ctx, (&virtual.Attributes{}).SetPermissions(virtual.PermissionsRead), maskCompare, &out)))
	a.h("symlink-allocate", statusName(leaf.VirtualAllocate(e.ctx, 0, 10)))
	for _, create := range []bool{false, true} {
		var nat virtual.Attributes
		_, s := leaf.VirtualOpenNamedAttributes(e.ctx, create, maskCompare, &nat)
		a.h("symlink-named-attributes", statusName(s))
	}
	df := a.c.g.df
	st := virtual.ApplyGetBazelOutputServiceStat{DigestFunction: &df}
	if leaf.VirtualApply(&st) && st.Err == nil && (st.Stat.GetSymlink() == nil || st.Stat.GetSymlink().Target != normTarget(want.target)) {
		a.violate("fidelity symlink-target-mismatch op=apply-bazel-stat", fmt.Sprintf("%s: %v, expected %q", where, st.Stat, normTarget(want.target)), map[string]any{"path": where})
		return
	}
	pn := virtual.ApplyAppendOutputPathPersistencyDirectoryNode{Directory: &outputpathpersistency.Directory{}, Name: comp("probe")}
	if leaf.VirtualApply(&pn) && len(pn.Directory.Symlinks) == 1 && pn.Directory.Symlinks[0].Target != normTarget(want.target) {
		a.violate("fidelity symlink-target-mismatch op=apply-persistency-node", fmt.Sprintf("%s: %v, expected %q", where, pn.Directory.Symlinks[0], normTarget(want.target)), map[string]any{"path": where})
		return
	}
	up := virtual.ApplyUploadFile{Context: e.ctx, ContentAddressableStorage: e.store, DigestFunction: df}
	a.h("symlink-apply-upload", fmt.Sprintf("%v/%v", leaf.VirtualApply(&up), up.Err == nil))
	cd := virtual.ApplyGetContainingDigests{Context: e.ctx}
	a.h("symlink-apply-containing-digests", leaf.VirtualApply(&cd))
	if w := e.store.writes(); len(w) != 0 {
		a.violate("immutability cas-written via=symlink-probe", fmt.Sprintf("%s: the CAS received writes %v", where, w), map[string]any{"path": where, "writes": w})
		return
	}
	// Whatever the answers were: same node, same target.
	if _, ok := a.lookupLeaf("probe-symlink-after", p, m, d, name); ok {
		a.c.situation("immutability-probed-symlink")
	}
}

// checkResolvable exercises the other CAS file flavour (resolvable handles,
// as used for files with an indefinite lifetime): same contents, same
// refusals, and a handle that resolves to an equal file.
func (a *action) checkResolvable() {
	e := a.c.e
	factory := virtual.NewResolvableHandleAllocatingCASFileFactory(
		virtual.NewBlobAccessCASFileFactory(e.ctx, e.store, e.errLog),
		e.alloc.New())
	n := 0
	for _, b := range a.c.g.blobs {
		if b.state != blobOK || n >= 4 {
			continue
		}
		n++
		exec := a.rng.IntN(2) == 0
		leaf := factory.LookupFile(b.digest, exec, nil)
		want := &mnode{kind: kindFile, blob: b, exec: exec}
		where := fmt.Sprintf("<resolvable %s exec=%v>", b.digest, exec)
		var at virtual.Attributes
		mask := maskCompare | virtual.AttributesMaskFileHandle
		leaf.VirtualGetAttributes(e.ctx, mask, &at)
		if !a.checkNode("resolvable", nil, where, virtual.DirectoryChild{}.FromLeaf(leaf), &at, maskCompare, want) {
			return
		}
		if !a.checkFileContent("resolvable", where, leaf, want) {
			return
		}
		if ok, _ := a.probeLeaf(where, leaf, b.data); !ok {
			return
		}
		if e.nfsAlloc != nil {
			fh := at.GetFileHandle()
			child, s := e.nfsAlloc.ResolveHandle(bytes.NewBuffer(append([]byte(nil), fh...)))
			_, l2 := child.GetPair()
			if s != virtual.StatusOK || l2 == nil {
				a.violate("fidelity resolvable-handle-does-not-resolve status="+statusName(s), where, map[string]any{"file": where})
				return
			}
			var at2 virtual.Attributes
			l2.VirtualGetAttributes(e.ctx, maskCompare, &at2)
			if !a.checkNode("resolved-handle", nil, where, virtual.DirectoryChild{}.FromLeaf(l2), &at2, maskCompare, want) {
				return
			}
			if !a.checkFileContent("resolved-handle", where, l2, want) {
				return
			}
			// Damaged handles: refused, or still this blob's bytes.
			for _, dmg := range [][]byte{fh[:len(fh)-1], append(append([]byte(nil), fh[:len(fh)-1]...), 7)} {
				child, s := e.nfsAlloc.ResolveHandle(bytes.NewBuffer(append([]byte(nil), dmg...)))
				a.h("resolve-damaged-handle", statusName(s))
				if _, l3 := child.GetPair(); s == virtual.StatusOK && l3 != nil {
					if !a.checkFileContent("resolved-damaged-handle", where, l3, want) {
						return
					}
				}
			}
		}
		a.c.situation("resolvable-cas-file-checked")
	}
}

// ---- storage faults --------------------------------------------------------

var faultErrors = []error{
	status.Error(codes.Unavailable, "Injected storage fault: backend unavailable"),
	status.Error(codes.Internal, "Injected storage fault: internal"),
	status.Error(codes.DeadlineExceeded, "Injected storage fault: deadline exceeded"),
	status.Error(codes.NotFound, "Injected storage fault: transiently not found"),
}

// opFaultLoad injects a storage error into the lazy load of a directory and
// then retries without fault.
func (a *action) opFaultLoad(p []string, m *mnode, d virtual.Directory) {
	if m.ref == nil || m.realLoaded {
		// Look for an unloaded child instead.
		m.expand()
		cands := m.namesOfKind(kindDir, func(c *mnode) bool { return c.ref != nil && !c.realLoaded && !c.bad() })
		if len(cands) == 0 {
			a.opReadDir(p, m, d)
			return
		}
		name := cands[a.rng.IntN(len(cands))]
		p = append(append([]string(nil), p...), name)
		var ok bool
		if d, ok = a.resolve(p); !ok {
			return
		}
		m = m.children[name]
	}
	e := a.c.e
	ferr := faultErrors[a.rng.IntN(len(faultErrors))]
	e.store.arm(m.ref.digest, 1, ferr)
	mask := a.randomMask()
	ents, s := a.listDir(d, mask, 0)
	fired := e.store.disarm()
	a.logf("fault-load %s digest=%s fired=%d -> %s (%d entries)", pathString(p), m.ref.digest, fired, statusName(s), len(ents))
	a.h("fault-load", fmt.Sprintf("%d/%s", fired, statusName(s)))
	if fired == 0 || s == virtual.StatusOK {
		// No storage access was needed (cache hit), or the code coped;
		// either way the contents must be right.
		if s != virtual.StatusOK {
			a.violate("fidelity readdir-failed status="+statusName(s), fmt.Sprintf("%s: VirtualReadDir failed with %s although no fault fired", pathString(p), statusName(s)), map[string]any{"path": pathString(p)})
			return
		}
		m.expand()
		a.noteLoaded(p, m)
		a.compareListing("readdir", p, m, ents, mask)
		return
	}
	if len(ents) != 0 {
		a.violate("fault partial-listing-after-storage-error", fmt.Sprintf("%s: %d entries reported together with %s", pathString(p), len(ents), statusName(s)), map[string]any{"path": pathString(p)})
		return
	}
	// Retry without fault: the correct contents have to appear.
	ents, s = a.listDir(d, mask, 0)
	a.logf("fault-load retry %s -> %s (%d entries)", pathString(p), statusName(s), len(ents))
	a.h("fault-load-retry", statusName(s))
	if s != virtual.StatusOK {
		a.violate("fault retry-failed op=readdir status="+statusName(s), fmt.Sprintf("%s: after a transient storage error (%v) the fault-free retry failed with %s", pathString(p), ferr, statusName(s)),
			map[string]any{"path": pathString(p), "fault": ferr.Error()})
		return
	}
	m.expand()
	a.noteLoaded(p, m)
	if a.compareListing("readdir-after-fault", p, m, ents, mask) {
		a.c.situation("fault-on-first-load-then-retry")
	}
}

func (a *action) opFaultRead(p []string, m *mnode, d virtual.Directory) {
	m.expand()
	files := m.namesOfKind(kindFile, func(c *mnode) bool { return c.isCASFile() && c.blob.state == blobOK && len(c.blob.data) > 0 })
	if len(files) == 0 {
		a.opFaultLoad(p, m, d)
		return
	}
	e := a.c.e
	name := files[a.rng.IntN(len(files))]
	want := m.children[name]
	where := pathString(append(append([]string(nil), p...), name))
	leaf, ok := a.lookupLeaf("fault-read", p, m, d, name)
	if !ok {
		return
	}
	ferr := faultErrors[a.rng.IntN(len(faultErrors))]
	e.store.arm(want.blob.digest, 1, ferr)
	off := a.rng.IntN(len(want.blob.data))
	buf := make([]byte, 1+a.rng.IntN(200))
	n, _, s := leaf.VirtualRead(e.ctx, buf, uint64(off))
	fired := e.store.disarm()
	a.logf("fault-read %s off=%d fired=%d -> %s n=%d", where, off, fired, statusName(s), n)
	a.h("fault-read", fmt.Sprintf("%d/%s", fired, statusName(s)))
	if s == virtual.StatusOK {
		exp := want.blob.data[off:]
		if len(exp) > len(buf) {
			exp = exp[:len(buf)]
		}
		if n != len(exp) || string(buf[:n]) != string(exp) {
			a.violate("fault wrong-bytes-under-storage-error", fmt.Sprintf("%s: read under injected fault returned %d bytes that differ from the blob", where, n), map[string]any{"path": where})
		}
		return
	}
	if fired == 0 {
		a.violate("fidelity read-failed op=fault-read status="+statusName(s), fmt.Sprintf("%s: read failed with %s although no fault fired", where, statusName(s)), map[string]any{"path": where})
		return
	}
	if a.checkFileContent("read-after-fault", where, leaf, want) {
		a.c.situation("fault-on-file-read-then-retry")
	}
}

// ---- local modifications ---------------------------------------------------

func (a *action) freshName() string {
	a.nlocal++
	return fmt.Sprintf("loc%d-%d", a.idx, a.nlocal)
}

// verifyNames re-checks a few names of a directory after a modification.
func (a *action) verifyNames(op string, p []string, m *mnode, d virtual.Directory, names ...string) bool {
	for _, n := range names {
		var at virtual.Attributes
		child, s := d.VirtualLookup(a.c.e.ctx, comp(n), maskCompare, &at)
		want, exists := m.children[n]
		if !exists {
			if s != virtual.StatusErrNoEnt {
				a.violate("modification stale-entry op="+op, fmt.Sprintf("%s: %q should be gone after %s, lookup = %s", pathString(p), n, op, statusName(s)), map[string]any{"path": pathString(p), "name": n})
				return false
			}
			continue
		}
		if s != virtual.StatusOK {
			a.violate("modification entry-lost op="+op+" status="+statusName(s), fmt.Sprintf("%s: %q should exist after %s, lookup = %s", pathString(p), n, op, statusName(s)), map[string]any{"path": pathString(p), "name": n})
			return false
		}
		if !a.checkNode("after-"+op, p, n, child, &at, maskCompare, want) {
			return false
		}
	}
	return true
}

func hasLazyChild(m *mnode) bool {
	for _, c := range m.children {
		if c.kind == kindDir && c.ref != nil && !c.realLoaded {
			return true
		}
	}
	return false
}

func (a *action) opModify(p []string, m *mnode, d virtual.Directory) {
	m.expand()
	e := a.c.e
	pd, _ := d.(virtual.PrepopulatedDirectory)
	names := m.names()
	variant := a.rng.IntN(16)
	expectOK := func(op string, s virtual.Status) bool {
		a.h(op, statusName(s))
		if s != virtual.StatusOK {
			a.violate("modification refused op="+op+" status="+statusName(s), fmt.Sprintf("%s: %s on the action's own tree failed with %s", pathString(p), op, statusName(s)), map[string]any{"path": pathString(p)})
			return false
		}
		a.noteLoaded(p, m)
		a.noteModified(m)
		return true
	}
	switch variant {
	case 0: // remove a leaf
		leaves := append(append(m.namesOfKind(kindFile, nil), m.namesOfKind(kindSymlink, nil)...), m.namesOfKind(kindOther, nil)...)
		if len(leaves) == 0 {
			return
		}
		n := leaves[a.rng.IntN(len(leaves))]
		if pd != nil && a.rng.IntN(2) == 0 {
			err := pd.Remove(comp(n))
			a.logf("Remove %s %q -> %v", pathString(p), n, err)
			if err != nil {
				expectOK("Remove", virtual.StatusErrIO)
				return
			}
			expectOK("Remove", virtual.StatusOK)
		} else {
			_, s := d.VirtualRemove(e.ctx, comp(n), false, true)
			a.logf("unlink %s %q -> %s", pathString(p), n, statusName(s))
			if !expectOK("unlink", s) {
				return
			}
		}
		delete(m.children, n)
		a.verifyNames("unlink", p, m, d, n)
		a.c.situation("local-remove-input-file")
	case 1: // rmdir
		dirs := m.namesOfKind(kindDir, nil)
		if len(dirs) == 0 {
			return
		}
		n := dirs[a.rng.IntN(len(dirs))]
		c := m.children[n]
		var s virtual.Status
		if pd != nil && a.rng.IntN(2) == 0 {
			switch err := pd.Remove(comp(n)); {
			case err == nil:
				s = virtual.StatusOK
			case err == syscall.ENOTEMPTY:
				s = virtual.StatusErrNotEmpty
			default:
				s = virtual.StatusErrIO
			}
		} else {
			_, s = d.VirtualRemove(e.ctx, comp(n), true, false)
		}
		a.logf("rmdir %s %q (bad=%v) -> %s", pathString(p), n, c.bad(), statusName(s))
		a.h("rmdir", statusName(s))
		a.noteLoaded(p, m)
		switch {
		case c.bad():
			if s == virtual.StatusOK {
				a.violate("malformed accepted kind="+c.ref.bad+" via=rmdir", fmt.Sprintf("%s/%s: rmdir of a directory that cannot be loaded succeeded", pathString(p), n), map[string]any{"path": pathString(p), "name": n})
			}
		default:
			c.expand()
			if len(c.children) > 0 {
				if s != virtual.StatusErrNotEmpty {
					a.violate("modification rmdir-nonempty status="+statusName(s), fmt.Sprintf("%s/%s: rmdir of a directory with %d entries returned %s", pathString(p), n, len(c.children), statusName(s)),
						map[string]any{"path": pathString(p), "name": n})
					return
				}
				a.noteLoaded(append(append([]string(nil), p...), n), c)
			} else {
				if s != virtual.StatusOK {
					a.violate("modification refused op=rmdir status="+statusName(s), fmt.Sprintf("%s/%s: rmdir of an empty directory returned %s", pathString(p), n, statusName(s)), map[string]any{"path": pathString(p), "name": n})
					return
				}
				delete(m.children, n)
				a.noteModified(m)
			}
		}
		a.verifyNames("rmdir", p, m, d, n)
	case 2: // RemoveAll of anything, without loading it
		if pd == nil || len(names) == 0 {
			return
		}
		n := names[a.rng.IntN(len(names))]
		if lazyDirs := m.namesOfKind(kindDir, func(c *mnode) bool { return c.ref != nil && !c.realLoaded }); len(lazyDirs) > 0 && a.rng.IntN(2) == 0 {
			n = lazyDirs[a.rng.IntN(len(lazyDirs))]
		}
		c := m.children[n]
		lazy := c.kind == kindDir && c.ref != nil && !c.realLoaded
		err := pd.RemoveAll(comp(n))
		a.logf("RemoveAll %s %q (kind=%s lazy=%v) -> %v", pathString(p), n, kindName(c.kind), lazy, err)
		if err != nil {
			expectOK("RemoveAll", virtual.StatusErrIO)
			return
		}
		expectOK("RemoveAll", virtual.StatusOK)
		delete(m.children, n)
		if a.verifyNames("RemoveAll", p, m, d, n) && lazy {
			a.c.situation("lazy-directory-removed-before-first-access")
		}
	case 3: // mkdir
		n := a.freshName()
		lazySibling := hasLazyChild(m)
		if a.rng.IntN(2) == 0 {
			var at virtual.Attributes
			_, _, s := d.VirtualMkdir(e.ctx, comp(n), &virtual.Attributes{}, maskCompare, &at)
			a.logf("mkdir %s %q -> %s", pathString(p), n, statusName(s))
			if !expectOK("mkdir", s) {
				return
			}
		} else {
			bdir, ok := a.enter(p)
			if !ok {
				return
			}
			err := bdir.Mkdir(comp(n), 0o777)
			a.logf("Mkdir %s %q -> %v", pathString(p), n, err)
			if err != nil {
				expectOK("Mkdir", virtual.StatusErrIO)
				return
			}
			expectOK("Mkdir", virtual.StatusOK)
		}
		m.children[n] = newLocalDir()
		if a.verifyNames("mkdir", p, m, d, n) && lazySibling {
			a.c.situation("create-next-to-lazy-directory")
		}
	case 4, 5: // create a file (new name, or replacing an input leaf)
		n := a.freshName()
		replaced := false
		leaves := append(m.namesOfKind(kindFile, nil), m.namesOfKind(kindSymlink, nil)...)
		if variant == 5 && len(leaves) > 0 {
			n = leaves[a.rng.IntN(len(leaves))]
			// O_CREAT|O_EXCL on the existing name must fail and change nothing.
			var at virtual.Attributes
			_, _, _, s := d.VirtualOpenChild(e.ctx, comp(n), virtual.ShareMaskWrite, (&virtual.Attributes{}).SetPermissions(virtual.PermissionsRead|virtual.PermissionsWrite), nil, maskCompare, &at)
			if s != virtual.StatusErrExist {
				a.violate("modification exclusive-create-over-existing status="+statusName(s), fmt.Sprintf("%s: exclusive create of existing %q returned %s", pathString(p), n, statusName(s)), map[string]any{"path": pathString(p), "name": n})
				return
			}
			_, s = d.VirtualRemove(e.ctx, comp(n), false, true)
			if !expectOK("unlink-for-replace", s) {
				return
			}
			delete(m.children, n)
			replaced = true
		}
		lazySibling := hasLazyChild(m)
		data := []byte(fmt.Sprintf("local content of %s written by %s #%d", n, a.name, a.nlocal))
		exec := a.rng.IntN(2) == 0
		perm := virtual.PermissionsRead | virtual.PermissionsWrite
		if exec {
			perm |= virtual.PermissionsExecute
		}
		var at virtual.Attributes
		leaf, _, _, s := d.VirtualOpenChild(e.ctx, comp(n), virtual.ShareMaskWrite, (&virtual.Attributes{}).SetPermissions(perm), nil, maskCompare, &at)
		a.logf("create %s %q replace=%v -> %s", pathString(p), n, replaced, statusName(s))
		if !expectOK("create", s) {
			return
		}
		nw, ws := leaf.VirtualWrite(e.ctx, data, 0)
		leaf.VirtualClose(virtual.ShareMaskWrite)
		if ws != virtual.StatusOK || nw != len(data) {
			a.violate("modification write-to-own-file-failed status="+statusName(ws), fmt.Sprintf("%s/%s: wrote %d of %d bytes", pathString(p), n, nw, len(data)), map[string]any{"path": pathString(p), "name": n})
			return
		}
		m.children[n] = &mnode{kind: kindFile, local: &localFile{data: data}, exec: exec}
		if a.verifyNames("create", p, m, d, n) {
			if replaced {
				a.c.situation("local-replace-input-leaf")
			}
			if lazySibling {
				a.c.situation("create-next-to-lazy-directory")
			}
		}
	case 6: // symlink
		n := a.freshName()
		t := symlinkTargets[a.rng.IntN(len(symlinkTargets))]
		var at virtual.Attributes
		_, _, s := d.VirtualMknod(e.ctx, comp(n), (&virtual.Attributes{}).SetFileType(filesystem.FileTypeSymlink).SetSymlinkTarget(path.UNIXFormat.NewParser(t)), maskCompare, &at)
		a.logf("symlink %s %q -> %q: %s", pathString(p), n, t, statusName(s))
		if !expectOK("symlink", s) {
			return
		}
		m.children[n] = &mnode{kind: kindSymlink, target: t}
		a.verifyNames("symlink", p, m, d, n)
	case 7, 8: // rename
		a.opRename(p, m, d)
	case 9: // hard link of an input file
		srcs := m.namesOfKind(kindFile, func(c *mnode) bool { return c.isCASFile() })
		if len(srcs) == 0 {
			return
		}
		n := srcs[a.rng.IntN(len(srcs))]
		leaf, ok := a.lookupLeaf("link", p, m, d, n)
		if !ok {
			return
		}
		nn := a.freshName()
		var at virtual.Attributes
		_, s := d.VirtualLink(e.ctx, comp(nn), leaf, maskCompare, &at)
		a.logf("link %s %q -> %q: %s", pathString(p), n, nn, statusName(s))
		if !expectOK("link", s) {
			return
		}
		src := m.children[n]
		m.children[nn] = &mnode{kind: kindFile, blob: src.blob, exec: src.exec}
		a.verifyNames("link", p, m, d, n, nn)
	case 10: // overwrite one of the action's own files
		own := m.namesOfKind(kindFile, func(c *mnode) bool { return c.local != nil })
		if len(own) == 0 {
			return
		}
		n := own[a.rng.IntN(len(own))]
		c := m.children[n]
		var at virtual.Attributes
		leaf, _, _, s := d.VirtualOpenChild(e.ctx, comp(n), virtual.ShareMaskWrite, nil, &virtual.OpenExistingOptions{}, maskCompare, &at)
		if !expectOK("open-own-file-write", s) {
			return
		}
		off := a.rng.IntN(len(c.local.data) + 1)
		patch := []byte(fmt.Sprintf("<patch %d>", a.nlocal))
		nw, ws := leaf.VirtualWrite(e.ctx, patch, uint64(off))
		leaf.VirtualClose(virtual.ShareMaskWrite)
		a.logf("overwrite %s %q off=%d -> %s", pathString(p), n, off, statusName(ws))
		if ws != virtual.StatusOK || nw != len(patch) {
			a.violate("modification write-to-own-file-failed status="+statusName(ws), fmt.Sprintf("%s/%s", pathString(p), n), map[string]any{"path": pathString(p), "name": n})
			return
		}
		nd := append([]byte(nil), c.local.data...)
		if off+len(patch) > len(nd) {
			nd = append(nd, make([]byte, off+len(patch)-len(nd))...)
		}
		copy(nd[off:], patch)
		c.local.data = nd
		a.verifyNames("overwrite", p, m, d, n)
	default:
		a.opModify2(variant, p, m, d, pd)
	}
}

func describeNode(m *mnode) string {
	switch {
	case m == nil:
		return "absent"
	case m.kind == kindDir:
		return fmt.Sprintf("dir cas=%v loaded=%v", m.ref != nil, m.realLoaded)
	case m.kind == kindSymlink:
		return fmt.Sprintf("symlink %q", m.target)
	case m.kind == kindOther:
		return fmt.Sprintf("special type=%d", m.ftype)
	case m.isCASFile():
		return fmt.Sprintf("casfile %s exec=%v", m.blob.digest, m.exec)
	}
	return fmt.Sprintf("localfile %d bytes", len(m.local.data))
}

func sameContentLeaf(x, y *mnode) bool {
	if x == y {
		return true
	}
	if x.kind == kindFile && y.kind == kindFile && x.isCASFile() && y.isCASFile() {
		return x.blob.digest == y.blob.digest && x.exec == y.exec
	}
	if x.kind == kindSymlink && y.kind == kindSymlink {
		// Symbolic links with equal targets may share one node.
		return normTarget(x.target) == normTarget(y.target)
	}
	return false
}

func (a *action) opRename(p []string, m *mnode, d virtual.Directory) {
	e := a.c.e
	names := m.names()
	if len(names) == 0 {
		return
	}
	srcName := names[a.rng.IntN(len(names))]
	src := m.children[srcName]
	p2, m2, d2 := p, m, d
	if a.rng.IntN(100) < 45 {
		p2, m2 = a.pickDir(40)
		if src.kind == kindDir && src.contains(m2) {
			return
		}
		var ok bool
		if d2, ok = a.resolve(p2); !ok {
			return
		}
	}
	if m2.bad() {
		_, _, s := d.VirtualRename(e.ctx, comp(srcName), d2, comp("zz-moved"))
		a.logf("rename %s %q -> malformed %s: %s", pathString(p), srcName, pathString(p2), statusName(s))
		a.h("rename-into-bad", statusName(s))
		if s == virtual.StatusOK {
			a.violate("malformed accepted kind="+m2.ref.bad+" via=rename-into", fmt.Sprintf("%s: rename into a directory that cannot be loaded succeeded", pathString(p2)), map[string]any{"path": pathString(p2)})
			return
		}
		a.noteLoaded(p, m)
		a.verifyNames("rename-into-bad", p, m, d, srcName)
		return
	}
	m2.expand()
	dstName := a.freshName()
	if names2 := m2.names(); len(names2) > 0 && a.rng.IntN(100) < 40 {
		dstName = names2[a.rng.IntN(len(names2))]
	}
	dst, dstExists := m2.children[dstName]
	if dstExists && dst != src && dst.kind != kindDir && src.kind != kindDir && sameContentLeaf(src, dst) {
		// Whether two equal stateless leaves are "the same file" (and the
		// rename therefore a no-op) depends on the handle allocator.
		return
	}
	lazyMove := src.kind == kindDir && src.ref != nil && !src.realLoaded
	_, _, s := d.VirtualRename(e.ctx, comp(srcName), d2, comp(dstName))
	a.logf("rename %s %q (%s) -> %s %q (dst %s) : %s", pathString(p), srcName, describeNode(src), pathString(p2), dstName, describeNode(dst), statusName(s))
	a.h("rename", statusName(s))
	a.noteLoaded(p, m)
	a.noteLoaded(p2, m2)
	expect := virtual.StatusOK
	apply := true
	switch {
	case !dstExists:
	case dst == src:
		apply = false
	case dst.kind == kindDir:
		switch {
		case src.kind != kindDir:
			expect, apply = virtual.StatusErrIsDir, false
		case dst.bad():
			expect, apply = virtual.StatusErrIO, false
		default:
			dst.expand()
			if len(dst.children) > 0 {
				expect, apply = virtual.StatusErrNotEmpty, false
				a.noteLoaded(append(append([]string(nil), p2...), dstName), dst)
			}
		}
	default:
		if src.kind == kindDir {
			expect, apply = virtual.StatusErrNotDir, false
		}
	}
	if s != expect {
		if expect == virtual.StatusErrIO && s != virtual.StatusOK {
			// Any refusal is fine for a directory that cannot be loaded.
		} else {
			a.violate("modification rename-status want="+statusName(expect)+" got="+statusName(s),
				fmt.Sprintf("rename %s/%s -> %s/%s returned %s, expected %s", pathString(p), srcName, pathString(p2), dstName, statusName(s), statusName(expect)),
				map[string]any{"from": pathString(p) + "/" + srcName, "to": pathString(p2) + "/" + dstName})
			return
		}
	}
	if apply && s == virtual.StatusOK {
		delete(m.children, srcName)
		m2.children[dstName] = src
		a.noteModified(m)
		a.noteModified(m2)
	}
	if !a.verifyNames("rename", p, m, d, srcName) || !a.verifyNames("rename", p2, m2, d2, dstName) {
		return
	}
	if apply && s == virtual.StatusOK {
		if lazyMove {
			a.c.situation("lazy-directory-moved-before-first-access")
		}
		if dstExists && dst.kind != kindDir && (dst.isCASFile() || dst.kind == kindSymlink) {
			a.c.situation("rename-over-input-leaf")
		}
	}
}

// ---- walks -----------------------------------------------------------------

// walk compares a whole subtree (bounded by *budget nodes).
func (a *action) walk(p []string, m *mnode, d virtual.Directory, budget *int, bfs bool) bool {
	type item struct {
		p []string
		m *mnode
		d virtual.Directory
	}
	queue := []item{{p, m, d}}
	for len(queue) > 0 && *budget > 0 && !a.dead {
		var it item
		if bfs {
			it, queue = queue[0], queue[1:]
		} else {
			it, queue = queue[len(queue)-1], queue[:len(queue)-1]
		}
		if it.m.bad() {
			a.opBad(it.p, it.m, it.d)
			continue
		}
		it.m.expand()
		mask := maskCompare
		ents, s := a.listDir(it.d, mask, 0)
		if s != virtual.StatusOK {
			a.violate("fidelity readdir-failed status="+statusName(s), fmt.Sprintf("%s: VirtualReadDir failed with %s", pathString(it.p), statusName(s)), map[string]any{"path": pathString(it.p)})
			return false
		}
		a.noteLoaded(it.p, it.m)
		if !a.compareListing("walk", it.p, it.m, ents, mask) {
			return false
		}
		sort.Slice(ents, func(i, j int) bool { return ents[i].name < ents[j].name })
		for i := range ents {
			en := &ents[i]
			*budget--
			want := it.m.children[en.name]
			cp := append(append([]string(nil), it.p...), en.name)
			cd, leaf := en.child.GetPair()
			switch want.kind {
			case kindDir:
				queue = append(queue, item{cp, want, cd})
			case kindFile:
				if len(want.fileData()) <= 8192 || a.rng.IntN(4) == 0 {
					if !a.checkFileContent("walk", pathString(cp), leaf, want) {
						return false
					}
				}
			}
		}
	}
	return !a.dead
}
