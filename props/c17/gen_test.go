package c17

// Generator of REv2 Directory DAGs plus malformed variants, and the reference
// tree ("what the Directory messages say") that the oracle compares against.

import (
	"fmt"
	"math/rand/v2"
	"sort"
	"strings"

	remoteexecution "github.com/bazelbuild/remote-apis/build/bazel/remote/execution/v2"
	"github.com/buildbarn/bb-storage/pkg/digest"
	"github.com/buildbarn/bb-storage/pkg/filesystem/path"

	"google.golang.org/protobuf/proto"
	"google.golang.org/protobuf/types/known/wrapperspb"
)

const (
	kindDir = iota + 1
	kindFile
	kindSymlink
	kindOther // locally created special files (FIFO, socket, character device)
)

func kindName(k int) string {
	switch k {
	case kindDir:
		return "dir"
	case kindFile:
		return "file"
	case kindSymlink:
		return "symlink"
	case kindOther:
		return "special"
	}
	return "none"
}

const maxDepth = 8

// Blob states in the fake CAS.
const (
	blobOK = iota
	blobMissing
	blobCorrupt
)

type blob struct {
	data   []byte
	digest digest.Digest
	state  int
}

func (b *blob) readable() bool { return b.state == blobOK || len(b.data) == 0 }

type refEntry struct {
	name   string
	kind   int
	dir    *refDir
	blob   *blob
	exec   bool
	target string
}

// refDir is one Directory message of the DAG.
type refDir struct {
	id       int
	msg      *remoteexecution.Directory
	data     []byte
	digest   digest.Digest
	entries  []*refEntry
	height   int
	expanded int
	// bad is non-empty if every attempt to load this directory has to
	// fail; the value names the malformation.
	bad string
	// stored says whether data is placed in the CAS; storedData allows
	// placing other bytes under the digest (corruption).
	stored     bool
	storedData []byte
	// treeRoot is set for the polyglot blob: the same bytes are a valid
	// Tree whose root is this message.
	treeRoot *remoteexecution.Directory
}

func (d *refDir) lookup(name string) *refEntry {
	for _, e := range d.entries {
		if e.name == name {
			return e
		}
	}
	return nil
}

type gen struct {
	rng     *rand.Rand
	df      digest.Function
	ci      bool
	blobs   []*blob
	empty   *blob
	pool    []*refDir
	all     []*refDir
	nextID  int
	malLeft int
	malKind string
	// malUsed lists the malformations actually placed.
	malUsed  []string
	polyglot bool
	polyUsed *refDir
	deep     bool
}

var nameAlphabet = []string{
	"a", "b", "c", "d", "e", "f", "g", "lib", "src", "bin", "x.txt", "README", "Makefile",
	"with space", "ünï", "日本語", ".hidden", "..x", "a.b.c", "-dash", "~tilde", "file.o", "main.go", "1", "2", "3",
	"tab\there", "quote\"s", "back\\slash", "new\nline",
	strings.Repeat("long", 50),
}

var nameCaseVariants = []string{"Foo", "foo", "FOO", "Lib", "SRC", "A", "B"}

var invalidNames = []string{"", ".", "..", "a/b", "/", "x\x00y", "../up", "dir/"}

var symlinkTargets = []string{
	"a", "b/c", "../x", "../../..", "/abs/path", "x.txt", ".", "..", "/", "lib/../lib", "a//b", "a/./b", "trail/", "", "with space/ü",
	strings.Repeat("deep/", 40) + "end",
}

// normTarget gives the canonical string form of a symlink target as produced
// by the bb-storage path library (trusted; it is not part of /repo).
func normTarget(t string) string {
	return parserString(path.UNIXFormat.NewParser(t))
}

func parserString(p path.Parser) string {
	b, sw := path.EmptyBuilder.Join(path.VoidScopeWalker)
	if err := path.Resolve(p, sw); err != nil {
		return "<unresolvable:" + err.Error() + ">"
	}
	return b.GetUNIXString()
}

func (g *gen) newBlob(data []byte, state int) *blob {
	dg := g.df.NewGenerator(int64(len(data)))
	dg.Write(data)
	sum := dg.Sum()
	for _, b := range g.blobs {
		// Equal contents are one blob (small generated blobs collide).
		if b.digest == sum {
			return b
		}
	}
	b := &blob{data: data, digest: sum, state: state}
	g.blobs = append(g.blobs, b)
	return b
}

func (g *gen) makeBlobs(withBroken bool) {
	g.empty = g.newBlob([]byte{}, blobOK)
	sizes := []int{1, 2, 5, 17, 100, 255, 256, 1000, 4096, 4097, 20000}
	n := 4 + g.rng.IntN(8)
	for i := 0; i < n; i++ {
		sz := sizes[g.rng.IntN(len(sizes))]
		if g.rng.IntN(12) == 0 {
			sz = 65536 + g.rng.IntN(70000)
		}
		data := make([]byte, sz)
		for j := range data {
			data[j] = byte(g.rng.Uint32())
		}
		// A recognisable header makes witnesses readable.
		copy(data, fmt.Sprintf("blob%d:", i))
		g.newBlob(data, blobOK)
	}
	if withBroken {
		for i := 0; i < 1+g.rng.IntN(2); i++ {
			data := []byte(fmt.Sprintf("broken-blob-%d-%d", i, g.rng.Uint32()))
			st := blobMissing
			if g.rng.IntN(2) == 0 {
				st = blobCorrupt
			}
			g.newBlob(data, st)
		}
	}
}

func (g *gen) uniqueNames(n int) []string {
	seen := map[string]bool{}
	var out []string
	for len(out) < n {
		var nm string
		switch r := g.rng.IntN(10); {
		case r < 6:
			nm = nameAlphabet[g.rng.IntN(len(nameAlphabet))]
		case r < 8 && !g.ci:
			nm = nameCaseVariants[g.rng.IntN(len(nameCaseVariants))]
		default:
			nm = fmt.Sprintf("n%d", g.rng.IntN(40))
		}
		key := nm
		if g.ci {
			key = strings.ToLower(nm)
		}
		if seen[key] {
			continue
		}
		seen[key] = true
		out = append(out, nm)
	}
	return out
}

func (g *gen) pickCount() int {
	switch r := g.rng.IntN(100); {
	case r < 10:
		return 0
	case r < 60:
		return 1 + g.rng.IntN(5)
	case r < 88:
		return 6 + g.rng.IntN(7)
	default:
		return 13 + g.rng.IntN(8)
	}
}

func (g *gen) pickFileBlob() *blob {
	if g.rng.IntN(8) == 0 {
		return g.empty
	}
	return g.blobs[g.rng.IntN(len(g.blobs))]
}

// finish computes message, bytes and digest of a well-formed directory.
func (g *gen) finish(d *refDir) *refDir {
	sort.Slice(d.entries, func(i, j int) bool { return d.entries[i].name < d.entries[j].name })
	m := &remoteexecution.Directory{}
	d.height = 0
	d.expanded = 1
	for _, e := range d.entries {
		switch e.kind {
		case kindDir:
			m.Directories = append(m.Directories, &remoteexecution.DirectoryNode{Name: e.name, Digest: e.dir.digest.GetProto()})
			if e.dir.height+1 > d.height {
				d.height = e.dir.height + 1
			}
			d.expanded += e.dir.expanded
		case kindFile:
			m.Files = append(m.Files, &remoteexecution.FileNode{Name: e.name, Digest: e.blob.digest.GetProto(), IsExecutable: e.exec})
			d.expanded++
		case kindSymlink:
			m.Symlinks = append(m.Symlinks, &remoteexecution.SymlinkNode{Name: e.name, Target: e.target})
			d.expanded++
		}
	}
	if g.rng.IntN(6) == 0 {
		mode := uint32(0o755)
		m.NodeProperties = &remoteexecution.NodeProperties{UnixMode: wrapperspb.UInt32(mode)}
	}
	d.msg = m
	g.seal(d)
	return d
}

func (g *gen) seal(d *refDir) {
	data, err := proto.MarshalOptions{Deterministic: true}.Marshal(d.msg)
	if err != nil {
		panic(err)
	}
	d.data = data
	dg := g.df.NewGenerator(int64(len(data)))
	dg.Write(data)
	d.digest = dg.Sum()
	d.stored = true
	d.id = g.nextID
	g.nextID++
	g.all = append(g.all, d)
}

// genDir generates (or reuses) a directory that may be placed at the given
// depth and whose expanded size does not exceed budget.
func (g *gen) genDir(depth, budget int) *refDir {
	if depth > 0 && len(g.pool) > 0 && g.rng.IntN(100) < 30 {
		var cands []*refDir
		for _, p := range g.pool {
			if p.height <= maxDepth-depth && p.expanded <= budget {
				cands = append(cands, p)
			}
		}
		if len(cands) > 0 {
			return cands[g.rng.IntN(len(cands))]
		}
	}
	d := &refDir{}
	n := g.pickCount()
	if n > budget-1 {
		n = budget - 1
	}
	if n < 0 {
		n = 0
	}
	mustDir := g.deep && depth < maxDepth && budget > maxDepth-depth
	if mustDir && n == 0 {
		n = 1
	}
	remaining := budget - 1 - n
	names := g.uniqueNames(n)
	for i, nm := range names {
		e := &refEntry{name: nm}
		pDir := 38 - 3*depth
		isDir := depth < maxDepth && g.rng.IntN(100) < pDir
		if mustDir && i == 0 {
			isDir = true
		}
		switch {
		case isDir:
			e.kind = kindDir
			childBudget := 1
			if remaining > 0 {
				childBudget += g.rng.IntN(remaining + 1)
			}
			if mustDir && i == 0 && childBudget < maxDepth-depth {
				childBudget = maxDepth - depth
			}
			e.dir = g.genChild(depth+1, childBudget)
			remaining -= e.dir.expanded - 1
			if remaining < 0 {
				remaining = 0
			}
		case g.rng.IntN(100) < 22:
			e.kind = kindSymlink
			e.target = symlinkTargets[g.rng.IntN(len(symlinkTargets))]
		default:
			e.kind = kindFile
			e.blob = g.pickFileBlob()
			e.exec = g.rng.IntN(3) == 0
		}
		d.entries = append(d.entries, e)
	}
	g.finish(d)
	g.pool = append(g.pool, d)
	return d
}

// genChild is genDir plus the chance of placing a malformed directory or the
// polyglot blob.
func (g *gen) genChild(depth, budget int) *refDir {
	if g.malLeft > 0 && g.rng.IntN(100) < 35 {
		g.malLeft--
		return g.genMalformed(depth, g.malKind)
	}
	if g.polyglot && g.polyUsed == nil && g.rng.IntN(100) < 40 {
		if p := g.genPolyglot(); p != nil {
			return p
		}
	}
	if g.polyglot && g.polyUsed != nil && g.rng.IntN(100) < 10 {
		return g.polyUsed
	}
	return g.genDir(depth, budget)
}

var malformedKinds = []string{
	"invalid-name-dir", "invalid-name-file", "invalid-name-symlink",
	"dup-dir-dir", "dup-dir-file", "dup-dir-symlink", "dup-file-file", "dup-file-symlink", "dup-symlink-symlink",
	"bad-digest-dir", "bad-digest-file",
	"missing-dir-blob", "corrupt-dir-blob", "garbage-dir-blob", "size-mismatch-dir",
	"symlink-target-nul",
}

func (g *gen) badDigest() *remoteexecution.Digest {
	good := g.blobs[g.rng.IntN(len(g.blobs))].digest.GetProto()
	switch g.rng.IntN(6) {
	case 0:
		return nil
	case 1:
		return &remoteexecution.Digest{Hash: good.Hash[:len(good.Hash)-2], SizeBytes: good.SizeBytes}
	case 2:
		return &remoteexecution.Digest{Hash: "zz" + good.Hash[2:], SizeBytes: good.SizeBytes}
	case 3:
		return &remoteexecution.Digest{Hash: strings.ToUpper(good.Hash[:1]) + "F" + good.Hash[2:], SizeBytes: good.SizeBytes}
	case 4:
		return &remoteexecution.Digest{Hash: good.Hash, SizeBytes: -1 - int64(g.rng.IntN(5))}
	default:
		return &remoteexecution.Digest{Hash: "", SizeBytes: 0}
	}
}

// genMalformed builds a directory that must be refused. It starts from a
// small well-formed directory (so that leaves get created before the defect
// is noticed) and then injects the defect.
func (g *gen) genMalformed(depth int, kind string) *refDir {
	d := &refDir{bad: kind}
	g.malUsed = append(g.malUsed, kind)
	m := &remoteexecution.Directory{}
	// Well-formed prefix: a..c files, d..e symlinks, optionally a directory.
	nf := 1 + g.rng.IntN(3)
	for i := 0; i < nf; i++ {
		b := g.pickFileBlob()
		m.Files = append(m.Files, &remoteexecution.FileNode{Name: fmt.Sprintf("f%d", i), Digest: b.digest.GetProto(), IsExecutable: g.rng.IntN(2) == 0})
	}
	ns := g.rng.IntN(3)
	for i := 0; i < ns; i++ {
		m.Symlinks = append(m.Symlinks, &remoteexecution.SymlinkNode{Name: fmt.Sprintf("s%d", i), Target: "f0"})
	}
	var sub *refDir
	if len(g.pool) > 0 {
		for _, p := range g.pool {
			if p.height <= maxDepth-depth-1 && p.expanded < 30 {
				sub = p
				break
			}
		}
	}
	if sub != nil && depth < maxDepth {
		m.Directories = append(m.Directories, &remoteexecution.DirectoryNode{Name: "d0", Digest: sub.digest.GetProto()})
	}
	anyDigest := g.blobs[g.rng.IntN(len(g.blobs))].digest.GetProto()
	inv := invalidNames[g.rng.IntN(len(invalidNames))]
	addDir := func(name string, dg *remoteexecution.Digest) {
		m.Directories = append(m.Directories, &remoteexecution.DirectoryNode{Name: name, Digest: dg})
	}
	addFile := func(name string, dg *remoteexecution.Digest) {
		m.Files = append(m.Files, &remoteexecution.FileNode{Name: name, Digest: dg})
	}
	addSymlink := func(name string) {
		m.Symlinks = append(m.Symlinks, &remoteexecution.SymlinkNode{Name: name, Target: "t"})
	}
	emptyDirDigest := g.emptyDir().digest.GetProto()
	switch kind {
	case "invalid-name-dir":
		addDir(inv, emptyDirDigest)
	case "invalid-name-file":
		addFile(inv, anyDigest)
	case "invalid-name-symlink":
		addSymlink(inv)
	case "dup-dir-dir":
		addDir("dup", emptyDirDigest)
		addDir("dup", emptyDirDigest)
	case "dup-dir-file":
		addDir("dup", emptyDirDigest)
		addFile("dup", anyDigest)
	case "dup-dir-symlink":
		addDir("dup", emptyDirDigest)
		addSymlink("dup")
	case "dup-file-file":
		addFile("dup", anyDigest)
		addFile("dup", g.empty.digest.GetProto())
	case "dup-file-symlink":
		addFile("dup", anyDigest)
		addSymlink("dup")
	case "dup-symlink-symlink":
		addSymlink("dup")
		addSymlink("dup")
	case "case-colliding-names":
		// Valid REv2, but not representable on a case-insensitive file
		// system: must be refused there, like any other duplicate.
		switch g.rng.IntN(4) {
		case 0:
			addFile("Readme", anyDigest)
			addFile("README", g.empty.digest.GetProto())
		case 1:
			addDir("Sub", emptyDirDigest)
			addFile("sub", anyDigest)
		case 2:
			addFile("link", anyDigest)
			addSymlink("LINK")
		default:
			addDir("Dir", emptyDirDigest)
			addDir("dIR", emptyDirDigest)
		}
	case "symlink-target-nul":
		// Rejected by the symlink factory after the files and the
		// earlier symlinks of the directory have been created.
		m.Symlinks = append(m.Symlinks, &remoteexecution.SymlinkNode{Name: "znul", Target: "a\x00b"})
	case "bad-digest-dir":
		addDir("baddigest", g.badDigest())
	case "bad-digest-file":
		addFile("zbaddigest", g.badDigest())
	case "missing-dir-blob", "corrupt-dir-blob", "garbage-dir-blob", "size-mismatch-dir":
		// The message itself is fine.
	default:
		panic("unknown malformation " + kind)
	}
	d.msg = m
	g.seal(d)
	switch kind {
	case "missing-dir-blob":
		d.stored = false
	case "corrupt-dir-blob":
		c := append([]byte(nil), d.data...)
		c[g.rng.IntN(len(c))] ^= 0x41
		d.storedData = c
	case "garbage-dir-blob":
		// Bytes that hash to the digest the parent names, but that are no
		// Directory message (length-delimited field with truncated body).
		d.data = []byte{0x0a, 0xff, 0x01, byte(g.rng.Uint32())}
		dg := g.df.NewGenerator(int64(len(d.data)))
		dg.Write(d.data)
		d.digest = dg.Sum()
	case "size-mismatch-dir":
		// The parent will name the right hash with a wrong size.
		p := d.digest.GetProto()
		wrong, err := g.df.NewDigest(p.Hash, p.SizeBytes+1)
		if err != nil {
			panic(err)
		}
		d.digest = wrong
	}
	return d
}

func (g *gen) emptyDir() *refDir {
	for _, p := range g.pool {
		if len(p.entries) == 0 && p.msg.NodeProperties == nil {
			return p
		}
	}
	d := &refDir{}
	d.msg = &remoteexecution.Directory{}
	d.expanded = 1
	g.seal(d)
	g.pool = append(g.pool, d)
	return d
}

// genPolyglot builds a blob that is at the same time a valid REv2 Tree (with
// root R) and a valid REv2 Directory D' that describes a different tree. It
// is placed in the input root as directory D'; GetTreeRootDirectory on the
// same digest has to keep returning R.
func (g *gen) genPolyglot() *refDir {
	var small *blob
	for _, b := range g.blobs {
		if n := len(b.data); n >= 1 && n <= 120 && n != '/' && b.state == blobOK {
			small = b
			break
		}
	}
	if small == nil {
		small = g.newBlob([]byte("polyglot-content"), blobOK)
	}
	emptyHash := g.empty.digest.GetProto().Hash
	root := &remoteexecution.Directory{
		Files:       []*remoteexecution.FileNode{{Name: "a", Digest: small.digest.GetProto()}},
		Directories: []*remoteexecution.DirectoryNode{{Name: emptyHash, Digest: g.emptyDir().digest.GetProto()}},
	}
	tb, err := proto.MarshalOptions{Deterministic: true}.Marshal(&remoteexecution.Tree{Root: root})
	if err != nil {
		panic(err)
	}
	var asDir remoteexecution.Directory
	if err := proto.Unmarshal(tb, &asDir); err != nil {
		panic(err)
	}
	if len(asDir.Files) != 1 || len(asDir.Directories) != 0 || len(asDir.Symlinks) != 0 ||
		asDir.Files[0].GetDigest().GetHash() != emptyHash || asDir.Files[0].GetDigest().GetSizeBytes() != 0 {
		return nil
	}
	if _, ok := path.NewComponent(asDir.Files[0].Name); !ok {
		return nil
	}
	d := &refDir{msg: &asDir, treeRoot: root}
	d.entries = []*refEntry{{name: asDir.Files[0].Name, kind: kindFile, blob: g.empty}}
	d.height = 0
	d.expanded = 2
	d.data = tb
	dg := g.df.NewGenerator(int64(len(tb)))
	dg.Write(tb)
	d.digest = dg.Sum()
	d.stored = true
	d.id = g.nextID
	g.nextID++
	g.all = append(g.all, d)
	g.polyUsed = d
	return d
}

// genRoot generates a root directory.
func (g *gen) genRoot(budget int, rootMalformed bool) *refDir {
	if rootMalformed {
		g.malLeft = 0
		return g.genMalformed(0, g.malKind)
	}
	d := g.genDir(0, budget)
	// Make sure the requested special directories are really part of the
	// tree, so that situation floors do not depend on luck.
	var extra []*refEntry
	if g.malKind != "" && len(g.malUsed) == 0 {
		g.malLeft = 0
		extra = append(extra, &refEntry{name: "zz-malformed", kind: kindDir, dir: g.genMalformed(1, g.malKind)})
	}
	if g.polyglot && g.polyUsed == nil {
		if p := g.genPolyglot(); p != nil {
			extra = append(extra, &refEntry{name: "zz-polyglot", kind: kindDir, dir: p})
		}
	}
	if len(extra) == 0 {
		return d
	}
	nd := &refDir{}
	nd.entries = append(nd.entries, d.entries...)
	nd.entries = append(nd.entries, extra...)
	g.finish(nd)
	g.pool = append(g.pool, nd)
	return nd
}
