package c12

import (
	"context"
	"fmt"
	"os"
	"path/filepath"
	"sync/atomic"
	"syscall"

	"github.com/buildbarn/bb-remote-execution/pkg/cleaner"
	runner_pb "github.com/buildbarn/bb-remote-execution/pkg/proto/runner"
	"github.com/buildbarn/bb-remote-execution/pkg/runner"
	"github.com/buildbarn/bb-storage/pkg/filesystem"
	"github.com/buildbarn/bb-storage/pkg/filesystem/path"

	"google.golang.org/grpc/codes"
	"google.golang.org/grpc/status"
	"google.golang.org/protobuf/types/known/emptypb"

	"verif/internal/ev"
)

// The cleaners bb_runner chains behind its clean runner: process table
// cleaner, temporary directory cleaner and (here) the instrumented cleaner,
// combined by cleaner.NewChainedCleaner. Whichever of them fails, the action
// behind the failed cleaning must not start, and a temporary directory that
// was cleaned without failure is empty when the action starts and after it
// ended.

// emptyProcessTable never lists a process (nothing is ever killed, whatever
// the code under test does with the list); it can fail.
type emptyProcessTable struct{ fail func() bool }

func (t emptyProcessTable) GetProcesses() ([]cleaner.Process, error) {
	if t.fail() {
		return nil, status.Error(codes.Internal, "scripted failure to read the process table")
	}
	return nil, nil
}

type failingCleanDir struct {
	filesystem.Directory
	fail func() bool
}

func (d failingCleanDir) RemoveAllChildren() error {
	if d.fail() {
		return syscall.EIO
	}
	return d.Directory.RemoveAllChildren()
}

type chainCfg struct {
	Case      int    `json:"case"`
	Runs      int    `json:"runs"`
	FaultKind string `json:"fault_kind"` // process-table, temporary-directory, instrumented
	FaultAt   int    `json:"fault_at"`   // index of the chained cleaning that fails, -1 none
}

type chainBase struct {
	enter func(what string)
}

func (b chainBase) Run(ctx context.Context, request *runner_pb.RunRequest) (*runner_pb.RunResponse, error) {
	b.enter("run")
	return theRunResponse, nil
}

func (b chainBase) CheckReadiness(ctx context.Context, request *runner_pb.CheckReadinessRequest) (*emptypb.Empty, error) {
	b.enter("readiness")
	return &emptypb.Empty{}, nil
}

// cleanerChainCase runs a sequence of calls through the clean runner over the
// chained cleaners; it returns the number of chained cleanings.
func cleanerChainCase(r *ev.Run, cfg chainCfg) int {
	r.Case("cleaner-chain %+v", cfg)
	tmp, err := os.MkdirTemp("", "verif-c12-tmp-")
	if err != nil {
		r.Inconclusive("cannot set up temp dir: %v", err)
		return 0
	}
	defer os.RemoveAll(tmp)
	d, err := filesystem.NewLocalDirectory(path.LocalFormat.NewParser(tmp))
	if err != nil {
		r.Inconclusive("cannot open temp dir: %v", err)
		return 0
	}
	defer d.Close()

	var cleanings, injected atomic.Int64
	var faultAt atomic.Int64
	faultAt.Store(int64(cfg.FaultAt))
	cur := func() int64 { return cleanings.Load() - 1 }
	failNow := func(kind string) func() bool {
		return func() bool {
			if cfg.FaultKind == kind && cur() == faultAt.Load() {
				injected.Add(1)
				return true
			}
			return false
		}
	}
	instrumentedFails := failNow("instrumented")
	m := newMonitor(r, scn{"cleaner-chain", cfg}, func(int) cleanPlan { return cleanPlan{Yields: 1, Fail: instrumentedFails()} })
	head := func(ctx context.Context) error { cleanings.Add(1); return nil }
	chain := []cleaner.Cleaner{
		head,
		cleaner.NewProcessTableCleaner(cleaner.NewFilteringProcessTable(emptyProcessTable{failNow("process-table")}, func(*cleaner.Process) bool { return false })),
		cleaner.NewDirectoryCleaner(failingCleanDir{d, failNow("temporary-directory")}, tmp),
		m.clean,
	}
	if cfg.Case%2 == 1 {
		chain[1], chain[3] = chain[3], chain[1]
	}
	inv := cleaner.NewIdleInvoker(cleaner.NewChainedCleaner(chain))

	listTmp := func() []string {
		ents, _ := os.ReadDir(tmp)
		var names []string
		for _, e := range ents {
			names = append(names, e.Name())
		}
		return names
	}
	var baseCalled bool
	var inj0, injectedAtBase int64
	var run int
	cr := runner.NewCleanRunner(chainBase{enter: func(what string) {
		m.enterUse("chain-" + what)
		baseCalled = true
		injectedAtBase = injected.Load()
		if names := listTmp(); len(names) != 0 && injectedAtBase == inj0 {
			m.violation("temporary-directory-not-clean-at-start", fmt.Sprintf("%s #%d starts with %v in the temporary directory although the cleaning before it did not fail", what, run, names))
		} else if len(names) == 0 {
			r.Situation("temporary-directory-emptied-by-clean")
		}
		os.WriteFile(filepath.Join(tmp, fmt.Sprintf("left-by-%d", run)), []byte("x"), 0o644)
		os.MkdirAll(filepath.Join(tmp, fmt.Sprintf("dir-of-%d", run), "deep"), 0o755)
		m.duringUse("chain-" + what)
		m.leaveUse()
	}}, inv)

	for run = 0; run < cfg.Runs; run++ {
		os.WriteFile(filepath.Join(tmp, fmt.Sprintf("stale-%d", run)), []byte("left by an earlier crash"), 0o644)
		kind := "run"
		if (run+cfg.Case)%3 == 2 {
			kind = "check"
		}
		op, ctx := m.begin(kind, 0)
		baseCalled = false
		inj0 = injected.Load()
		if kind == "run" {
			_, err = cr.Run(ctx, &runner_pb.RunRequest{})
		} else {
			_, err = cr.CheckReadiness(ctx, &runner_pb.CheckReadinessRequest{})
		}
		inj1 := injected.Load()
		what := fmt.Sprintf("%s #%d (fault %s at cleaning %d)", kind, run, cfg.FaultKind, cfg.FaultAt)
		switch {
		case !baseCalled && inj1 == inj0:
			m.violation("runner-not-invoked", what+": the base runner was not called although no cleaning failed")
		case !baseCalled:
			r.Situation("cleaner-chain-failure-before-action")
			r.Situation("cleaner-chain-fault-" + cfg.FaultKind)
			if err == nil {
				m.violation("run-succeeded-after-failed-clean", what+": nil returned although the cleaning before the action failed")
			}
		case injectedAtBase > inj0:
			m.violation("action-started-after-failed-clean chained="+cfg.FaultKind, what+": the base runner was called although one of the chained cleaners failed in the cleaning before it")
		case inj1 > injectedAtBase:
			r.Situation("cleaner-chain-failure-after-action")
			r.Situation("cleaner-chain-fault-" + cfg.FaultKind)
			if err == nil {
				m.violation("release-clean-error-swallowed chained="+cfg.FaultKind, what+": nil returned although one of the chained cleaners failed after the action")
			}
		default:
			if err != nil {
				m.violation("run-failed-without-cause", fmt.Sprintf("%s: %v although neither a cleaner nor the runner failed", what, err))
			}
			if names := listTmp(); len(names) != 0 {
				m.violation("temporary-directory-not-clean-after-action", fmt.Sprintf("%s: %v left in the temporary directory after the action ended", what, names))
			}
		}
		m.end(op, err)
		op.cancel()
	}
	n := int(cleanings.Load())
	faultAt.Store(-1)
	m.probeIdle(inv, "cleaner-chain")
	if names := listTmp(); len(names) != 0 {
		m.violation("temporary-directory-not-clean-after-idle-clean", fmt.Sprintf("%v left in the temporary directory after a cleaning without failure", names))
	}
	r.Count("cleaner_calls", int(m.calls.Load()))
	r.Hash(ev.HashOf("cleaner-chain", cfg.Case%2, cfg.Runs, cfg.FaultKind, cfg.FaultAt, n, injected.Load()), cfg.FaultAt >= 0)
	return n
}
