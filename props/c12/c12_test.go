// Package c12 monitors property C12: every action runs in a build directory
// of its own that is empty at the start and gone at the end, and cleaning of
// shared state happens exactly at the idle<->busy transitions, never while an
// action runs, never twice at once, and an action does not start after a
// failed clean.
//
// (a) cleaner.IdleInvoker with an instrumented cleaner: concurrent stress
// rounds under the race detector, stepped scenarios with fault enumeration
// over the cleaner's outcomes (incl. a cleaner held at a gate with waiters and
// cancelled waiters), the same through runner.NewCleanRunner; overlap counters
// inside the cleaner, cause rules for failed acquisitions, a porcupine model
// of the invoker. (b) the creator stack Shared(Clean(Root(naive directory in a
// temporary directory))) used by concurrent fake executors and by the real
// LocalBuildExecutor, with a fault-injecting directory wrapper and a directory
// monitor. Level: fault_enumeration.
package c12

import (
	"encoding/json"
	"os"
	"testing"

	"verif/internal/ev"
)

func TestCheck(t *testing.T) {
	r := ev.Start("C12")
	defer r.Finish()
	r.SetRule("cases: (1) invoker stress rounds: 3-32 goroutines x 3-6 Acquire/use/Release with PRNG cleaner delays, failures and context cancellations, GOMAXPROCS in {2,4,16}; " +
		"(2) 24 (quick) generated Acquire/Release scripts over 4 threads, each replayed once per (cleaner call index x fault kind in {fail, block-ok, block-fail, block-cancel-waiter}) with 0-3 waiters arriving while the cleaner is held; " +
		"(3) clean-runner rounds, and sequences through the clean runner over NewChainedCleaner(process table cleaner, temporary directory cleaner, instrumented cleaner) replayed once per (cleaning index x failing cleaner); (4) creator-stack stress with cacheable and do_not_cache digests; (5) scripted creator sequences replayed once per failing directory-call index and per failing cleaner-call index, " +
		"with/without a long-lived holder action and with the real DirectoryCleaner or a no-op cleaner; (6) LocalBuildExecutor runs ending ok / by runner error / by cancellation / before the run. " +
		"non-trivial = a fault was injected or a counted situation occurred; distinct = hash of the per-call outcomes (who cleaned, who failed) resp. of the fault position and resulting call counts")
	r.Assume("the harness never runs one cacheable digest twice at once (the scheduler's de-duplication guarantees that to the worker)")
	r.Assume("'users' is incremented after Acquire/GetBuildDirectory returns and decremented before Release/Close is called; transient states inside those calls are not judged")
	r.Assume("with an injected RemoveAll failure the per-action directory may stay until the next idle clean; Close must then report an error")
	if f := r.ReplayFile(); f != "" {
		replay(r, f)
		return
	}
	for _, a := range executeArms {
		r.Floor("executor-arm-"+a.name, 4)
	}
	for _, a := range readinessArms {
		r.Floor("executor-arm-"+a.name, 5)
	}
	r.Floor("clean-creator-base-close-fails", 5)
	for _, s := range []string{"cleaner-chain-fault-process-table", "cleaner-chain-fault-temporary-directory", "cleaner-chain-fault-instrumented",
		"cleaner-chain-failure-before-action", "cleaner-chain-failure-after-action", "temporary-directory-emptied-by-clean"} {
		r.Floor(s, 5)
	}
	for _, s := range []string{"waiter-cancelled-during-clean", "clean-failure-on-acquire", "clean-failure-on-release", "acquirers-racing-after-release-clean",
		"directory-creation-failure", "concurrent-actions-in-distinct-directories", "through-clean-runner",
		"executor-ends-ok", "executor-ends-runner-error", "executor-ends-cancelled", "executor-ends-missing-command", "concurrent-executors",
		"base-creator-failure-under-clean-creator", "directory-fault-Mkdir", "directory-fault-EnterBuildDirectory", "directory-fault-RemoveAll", "directory-fault-Close", "cleaner-fault-in-creator-stack"} {
		r.Floor(s, 5)
	}

	// (1) invoker stress. GOMAXPROCS is process wide, so these rounds run
	// one after the other and before everything else.
	rounds := r.Pick(300, 6000)
	for i := 0; i < rounds; i++ {
		rng := r.Rand(20, uint64(i))
		cfg := stressCfg{Round: i, FailPct: []int{0, 10, 30}[rng.IntN(3)], CancelPct: []int{0, 20, 50}[rng.IntN(3)], Procs: []int{2, 4, 16}[rng.IntN(3)]}
		if i%2 == 0 {
			cfg.Goroutines, cfg.OpsEach, cfg.Porcupine = 3+rng.IntN(4), 3+rng.IntN(3), true
		} else {
			cfg.Goroutines, cfg.OpsEach = 8+rng.IntN(25), 4+rng.IntN(3)
		}
		stressRound(r, cfg)
	}

	// (2) stepped scenarios, all fault positions.
	scripts := r.Pick(24, 400)
	for s := 0; s < scripts; s++ {
		rng := r.Rand(23, uint64(s))
		steps := genScript(rng)
		n := runStepped(r, steppedCfg{Script: s, Steps: steps, FaultAt: -1})
		for p := 0; p < n; p++ {
			for _, f := range []string{"fail", "block-ok", "block-fail", "block-cancel-waiter"} {
				w := 0
				if f != "fail" {
					w = rng.IntN(4)
					if f == "block-cancel-waiter" && w == 0 {
						w = 1
					}
				}
				runStepped(r, steppedCfg{Script: s, Steps: steps, FaultAt: p, Fault: f, Waiters: w})
			}
		}
	}

	// (3) clean runner.
	for i := 0; i < r.Pick(60, 800); i++ {
		rng := r.Rand(30, uint64(i))
		cleanRunnerRound(r, runnerCfg{Round: i, Goroutines: 2 + rng.IntN(10), OpsEach: 3 + rng.IntN(5), FailPct: []int{0, 15, 40}[rng.IntN(3)]})
	}

	// (3b) the cleaners bb_runner chains (process table, temporary
	// directory, instrumented), every cleaning failing once per kind.
	for i := 0; i < r.Pick(4, 60); i++ {
		base := chainCfg{Case: i, Runs: 2 + i%3, FaultAt: -1}
		n := cleanerChainCase(r, base)
		for _, k := range []string{"process-table", "temporary-directory", "instrumented"} {
			for p := 0; p < n; p++ {
				c := base
				c.FaultKind, c.FaultAt = k, p
				cleanerChainCase(r, c)
			}
		}
	}

	// (4) creator stack under concurrency.
	for i := 0; i < r.Pick(40, 600); i++ {
		rng := r.Rand(40, uint64(i))
		creatorStress(r, stackCfg{Case: i, Mode: "stress", RealCleaner: i%2 == 0, Goroutines: 2 + rng.IntN(10), Actions: 3 + rng.IntN(5), DirFaultAt: -1, CleanFaultAt: -1})
	}

	// (5) scripted creator sequences, all fault positions.
	for i := 0; i < r.Pick(8, 150); i++ {
		for variant := 0; variant < 4; variant++ {
			base := stackCfg{Case: i, Mode: "scripted", RealCleaner: variant&1 == 0, Holder: variant&2 != 0, Actions: 3 + i%4, DirFaultAt: -1, CleanFaultAt: -1}
			nd, nc := creatorScripted(r, base)
			for p := 0; p < nd; p++ {
				c := base
				c.DirFaultAt = p
				creatorScripted(r, c)
			}
			for p := 0; p < nc; p++ {
				c := base
				c.CleanFaultAt = p
				creatorScripted(r, c)
			}
		}
	}

	// (5b) the clean creator's own failure path (base creator fails).
	for i := 0; i < r.Pick(6, 60); i++ {
		calls := 2 + i%4
		for f := 0; f <= calls; f++ {
			cleanCreatorOverFailingBase(r, failingBaseCfg{Case: i, Calls: calls, FailAt: f, FailCloseAt: -1, Holder: false})
			cleanCreatorOverFailingBase(r, failingBaseCfg{Case: i, Calls: calls, FailAt: f, FailCloseAt: -1, Holder: true})
			cleanCreatorOverFailingBase(r, failingBaseCfg{Case: i, Calls: calls, FailAt: -1, FailCloseAt: f, Holder: false})
			cleanCreatorOverFailingBase(r, failingBaseCfg{Case: i, Calls: calls, FailAt: -1, FailCloseAt: f, Holder: true})
		}
	}

	// (5c) every exit path of LocalBuildExecutor.Execute / CheckReadiness.
	for i := 0; i < r.Pick(12, 200); i++ {
		executorArms(r, armsCfg{Case: i, Executors: 1 + (i+i/3)%3, RealCleaner: i%2 == 0, CharDevices: i%3 == 0})
	}

	// (6) LocalBuildExecutor.
	outcomes := []string{"ok", "runner-error", "cancelled", "missing-command"}
	for i := 0; i < r.Pick(30, 400); i++ {
		rng := r.Rand(50, uint64(i))
		var seq []string
		for k := 0; k < 3+rng.IntN(3); k++ {
			seq = append(seq, outcomes[rng.IntN(len(outcomes))])
		}
		seq = append(seq, outcomes[i%len(outcomes)])
		executorRuns(r, execCfg{Case: i, Executors: 1 + rng.IntN(4), Outcomes: seq, RealCleaner: i%3 != 0})
	}
}

// replay re-runs the scenario recorded in a witness file.
func replay(r *ev.Run, file string) {
	var w struct {
		Witness struct {
			Scenario struct {
				Type string          `json:"type"`
				Cfg  json.RawMessage `json:"cfg"`
			} `json:"scenario"`
		} `json:"witness"`
	}
	b, err := os.ReadFile(file)
	if err != nil || json.Unmarshal(b, &w) != nil {
		r.Inconclusive("cannot read replay file %s", file)
		return
	}
	raw := w.Witness.Scenario.Cfg
	bad := func(err error) bool {
		if err != nil {
			r.Inconclusive("cannot decode scenario of %s: %v", file, err)
		}
		return err != nil
	}
	switch w.Witness.Scenario.Type {
	case "invoker-stress":
		var c stressCfg
		if !bad(json.Unmarshal(raw, &c)) {
			for i := 0; i < 20; i++ { // scheduling dependent
				stressRound(r, c)
			}
		}
	case "invoker-stepped":
		var c steppedCfg
		if !bad(json.Unmarshal(raw, &c)) {
			runStepped(r, c)
		}
	case "clean-runner":
		var c runnerCfg
		if !bad(json.Unmarshal(raw, &c)) {
			cleanRunnerRound(r, c)
		}
	case "cleaner-chain":
		var c chainCfg
		if !bad(json.Unmarshal(raw, &c)) {
			cleanerChainCase(r, c)
		}
	case "failing-base":
		var c failingBaseCfg
		if !bad(json.Unmarshal(raw, &c)) {
			cleanCreatorOverFailingBase(r, c)
		}
	case "creators-stress":
		var c stackCfg
		if !bad(json.Unmarshal(raw, &c)) {
			creatorStress(r, c)
		}
	case "creators-scripted":
		var c stackCfg
		if !bad(json.Unmarshal(raw, &c)) {
			creatorScripted(r, c)
		}
	case "executor-arms":
		var c armsCfg
		if !bad(json.Unmarshal(raw, &c)) {
			executorArms(r, c)
		}
	case "executor":
		var c execCfg
		if !bad(json.Unmarshal(raw, &c)) {
			executorRuns(r, c)
		}
	default:
		r.Inconclusive("replay file %s has no replayable scenario", file)
	}
}
