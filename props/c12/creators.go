package c12

import (
	"context"
	"fmt"
	"os"
	"path/filepath"
	"runtime"
	"sort"
	"strings"
	"sync"
	"sync/atomic"
	"syscall"
	"time"

	remoteexecution "github.com/bazelbuild/remote-apis/build/bazel/remote/execution/v2"
	"github.com/buildbarn/bb-remote-execution/pkg/builder"
	"github.com/buildbarn/bb-remote-execution/pkg/cleaner"
	"github.com/buildbarn/bb-remote-execution/pkg/filesystem/pool"
	"github.com/buildbarn/bb-remote-execution/pkg/proto/remoteworker"
	runner_pb "github.com/buildbarn/bb-remote-execution/pkg/proto/runner"
	"github.com/buildbarn/bb-remote-execution/pkg/runner"
	"github.com/buildbarn/bb-storage/pkg/digest"
	"github.com/buildbarn/bb-storage/pkg/filesystem"
	"github.com/buildbarn/bb-storage/pkg/filesystem/path"
	"github.com/buildbarn/bb-storage/pkg/util"

	"google.golang.org/grpc/codes"
	"google.golang.org/grpc/status"
	"google.golang.org/protobuf/types/known/durationpb"
	"google.golang.org/protobuf/types/known/emptypb"

	"verif/internal/ev"
	"verif/internal/vclock"
	"verif/internal/wexec"
)

// ---------------------------------------------------------------------
// Clean runner: the same overlap oracle, through runner.NewCleanRunner.

type baseRunner struct {
	m       *monitor
	failPct int
}

func (b *baseRunner) use(ctx context.Context, what string) error {
	op, _ := ctx.Value(opKey{}).(*opRec)
	b.m.enterUse("runner-" + what)
	for y := int(op.Call % 5); y > 0; y-- {
		runtime.Gosched()
		b.m.duringUse("runner-" + what)
	}
	b.m.leaveUse()
	if int(op.Call%100) < b.failPct {
		op.Trace = append(op.Trace, "base:fail")
		return status.Error(codes.Internal, "scripted runner failure")
	}
	op.Trace = append(op.Trace, "base:ok")
	return nil
}

var theRunResponse = &runner_pb.RunResponse{ExitCode: 42}

func (b *baseRunner) Run(ctx context.Context, request *runner_pb.RunRequest) (*runner_pb.RunResponse, error) {
	if err := b.use(ctx, "run"); err != nil {
		return nil, err
	}
	return theRunResponse, nil
}

func (b *baseRunner) CheckReadiness(ctx context.Context, request *runner_pb.CheckReadinessRequest) (*emptypb.Empty, error) {
	if err := b.use(ctx, "readiness"); err != nil {
		return nil, err
	}
	return &emptypb.Empty{}, nil
}

type runnerCfg struct {
	Round      int `json:"round"`
	Goroutines int `json:"goroutines"`
	OpsEach    int `json:"ops_each"`
	FailPct    int `json:"clean_fail_pct"`
}

func cleanRunnerRound(r *ev.Run, cfg runnerCfg) {
	r.Case("clean-runner %+v", cfg)
	var planMu sync.Mutex
	prng := r.Rand(31, uint64(cfg.Round))
	m := newMonitor(r, scn{"clean-runner", cfg}, func(idx int) cleanPlan {
		planMu.Lock()
		defer planMu.Unlock()
		return cleanPlan{Yields: prng.IntN(6), Fail: prng.IntN(100) < cfg.FailPct}
	})
	inv := cleaner.NewIdleInvoker(m.clean)
	cr := runner.NewCleanRunner(&baseRunner{m: m, failPct: 10}, inv)
	var wg sync.WaitGroup
	var interesting atomic.Int64
	for g := 0; g < cfg.Goroutines; g++ {
		wg.Add(1)
		go func(g int) {
			defer wg.Done()
			for i := 0; i < cfg.OpsEach; i++ {
				kind := "run"
				if (g+i)%4 == 0 {
					kind = "check"
				}
				op, ctx := m.begin(kind, g)
				var err error
				var resp *runner_pb.RunResponse
				if kind == "run" {
					resp, err = cr.Run(ctx, &runner_pb.RunRequest{})
				} else {
					_, err = cr.CheckReadiness(ctx, &runner_pb.CheckReadinessRequest{})
				}
				// Judge the call against its own trace.
				tr := strings.Join(op.Trace, " ")
				baseCalled := strings.Contains(tr, "base:")
				switch {
				case strings.HasPrefix(tr, "clean:fail"):
					interesting.Add(1)
					if baseCalled {
						m.violation("runner-invoked-after-failed-clean", "the base runner was called although the cleaning before it failed: "+tr)
					}
					if err == nil {
						m.violation("run-succeeded-after-failed-clean", "the call returned nil although the cleaning before it failed: "+tr)
					}
				case !baseCalled:
					m.violation("runner-not-invoked", "the base runner was not called although nothing failed before it: "+tr)
				case strings.Contains(tr, "base:fail"):
					if err == nil {
						m.violation("runner-error-swallowed", "the base runner failed but the call returned nil: "+tr)
					}
				case strings.HasSuffix(tr, "clean:fail"):
					interesting.Add(1)
					if err == nil {
						m.violation("release-clean-error-swallowed", "cleaning after the run failed but the call returned nil: "+tr)
					}
				default:
					if err != nil {
						m.violation("run-failed-without-cause", fmt.Sprintf("the call returned %v although neither cleaning nor the runner failed: %s", err, tr))
					} else if kind == "run" && resp != theRunResponse {
						m.violation("run-response-replaced", "Run did not return the base runner's response")
					}
				}
				m.end(op, err)
				op.cancel()
			}
		}(g)
	}
	done := make(chan struct{})
	go func() { wg.Wait(); close(done) }()
	select {
	case <-done:
	case <-time.After(watchdog):
		r.Inconclusive("clean runner round %d did not finish", cfg.Round)
		return
	}
	m.planFn = func(int) cleanPlan { return cleanPlan{} }
	m.probeIdle(inv, "clean-runner")
	r.Count("runner_calls", len(m.ops))
	r.Count("cleaner_calls", int(m.calls.Load()))
	r.SituationN("through-clean-runner", len(m.ops))
	m.mu.Lock()
	parts := make([]any, 0, len(m.ops))
	for _, o := range m.ops {
		parts = append(parts, strings.Join(o.Trace, ","))
	}
	m.mu.Unlock()
	r.Hash(ev.HashOf(parts...), interesting.Load() > 0)
}

// ---------------------------------------------------------------------
// Build directory creators over a naive build directory in a temp dir.

// faultDir injects failures into the directory operations the creators
// perform on the root directory and on the per-action directory.
type faultDir struct {
	builder.BuildDirectory
	st    *stack
	child bool
}

func (d *faultDir) fault(opName string) error {
	idx := int(d.st.dirCalls.Add(1)) - 1
	if idx == d.st.cfg.DirFaultAt {
		d.st.faultHit.Store(opName)
		return syscall.EIO
	}
	return nil
}

func (d *faultDir) Mkdir(name path.Component, perm os.FileMode) error {
	if !d.child {
		if err := d.fault("Mkdir"); err != nil {
			return err
		}
	}
	return d.BuildDirectory.Mkdir(name, perm)
}

func (d *faultDir) EnterBuildDirectory(name path.Component) (builder.BuildDirectory, error) {
	if d.child {
		return d.BuildDirectory.EnterBuildDirectory(name)
	}
	if err := d.fault("EnterBuildDirectory"); err != nil {
		return nil, err
	}
	c, err := d.BuildDirectory.EnterBuildDirectory(name)
	if err != nil {
		return nil, err
	}
	return &faultDir{BuildDirectory: c, st: d.st, child: true}, nil
}

func (d *faultDir) RemoveAll(name path.Component) error {
	if !d.child {
		if err := d.fault("RemoveAll"); err != nil {
			return err
		}
	}
	return d.BuildDirectory.RemoveAll(name)
}

func (d *faultDir) Remove(name path.Component) error {
	if !d.child {
		if err := d.fault("Remove"); err != nil {
			return err
		}
	}
	return d.BuildDirectory.Remove(name)
}

func (d *faultDir) Close() error {
	if d.child {
		err := d.fault("Close")
		if err2 := d.BuildDirectory.Close(); err == nil {
			err = err2
		}
		return err
	}
	return d.BuildDirectory.Close()
}

type stackCfg struct {
	Case         int    `json:"case"`
	Mode         string `json:"mode"` // stress, scripted, executor
	RealCleaner  bool   `json:"real_directory_cleaner"`
	Goroutines   int    `json:"goroutines"`
	Actions      int    `json:"actions_each"`
	DirFaultAt   int    `json:"dir_fault_at"`   // index of the directory call that fails, -1 none
	CleanFaultAt int    `json:"clean_fault_at"` // index of the cleaner call that fails, -1 none
	Holder       bool   `json:"holder"`         // one action stays open throughout
}

// stack is Shared(Clean(Root(naive dir)))) with monitors around it.
type stack struct {
	r        *ev.Run
	cfg      stackCfg
	scenario scn
	m        *monitor
	dir      string
	inv      *cleaner.IdleInvoker
	creator  builder.BuildDirectoryCreator
	store    *wexec.CAS
	dirCalls atomic.Int64
	faultHit atomic.Value // name of the directory op that got the fault
	closeFn  func()

	mu   sync.Mutex
	live map[string]int // directory name -> action id
	log  []string
	// per-action bookkeeping of the executor scenarios
	handed      map[int]int              // successful GetBuildDirectory calls per action id
	actionFault map[int]string           // "get-dir", "close", "mkdir:<name>", "enter:<name>"
	loggers     map[int]util.ErrorLogger // I/O error logger installed by the executor
}

func newStack(r *ev.Run, cfg stackCfg, scenario scn) (*stack, error) {
	dir, err := os.MkdirTemp("", "verif-c12-")
	if err != nil {
		return nil, err
	}
	st := &stack{r: r, cfg: cfg, scenario: scenario, dir: dir, store: wexec.NewCAS(), live: map[string]int{},
		handed: map[int]int{}, actionFault: map[int]string{}, loggers: map[int]util.ErrorLogger{}}
	st.faultHit.Store("")
	naive, closer, err := wexec.NewNaiveRoot(dir, st.store)
	if err != nil {
		os.RemoveAll(dir)
		return nil, err
	}
	st.closeFn = func() { closer.Close(); os.RemoveAll(dir) }
	st.m = newMonitor(r, scenario, func(idx int) cleanPlan {
		return cleanPlan{Yields: idx % 4, Fail: idx == cfg.CleanFaultAt}
	})
	if cfg.RealCleaner {
		st.m.inner = cleaner.NewDirectoryCleaner(closer, dir)
	}
	st.inv = cleaner.NewIdleInvoker(st.m.clean)
	var counter atomic.Uint64
	st.creator = builder.NewSharedBuildDirectoryCreator(
		builder.NewCleanBuildDirectoryCreator(
			builder.NewRootBuildDirectoryCreator(&faultDir{BuildDirectory: naive, st: st}),
			st.inv),
		&counter)
	return st, nil
}

func (st *stack) logf(format string, args ...any) {
	st.mu.Lock()
	if len(st.log) < 300 {
		st.log = append(st.log, fmt.Sprintf(format, args...))
	}
	st.mu.Unlock()
}

func (st *stack) violation(sig, detail string) {
	st.mu.Lock()
	lg := append([]string(nil), st.log...)
	st.mu.Unlock()
	st.r.Violation("C12 "+sig, detail, map[string]any{"scenario": st.scenario, "detail": detail, "log": lg, "root_listing": st.listRoot()})
}

func (st *stack) listRoot() []string {
	ents, _ := os.ReadDir(st.dir)
	var names []string
	for _, e := range ents {
		names = append(names, e.Name())
	}
	sort.Strings(names)
	return names
}

// GetBuildDirectory makes stack a monitoring BuildDirectoryCreator.
func (st *stack) GetBuildDirectory(ctx context.Context, actionDigestIfNotRunInParallel *digest.Digest) (builder.BuildDirectory, *path.Trace, error) {
	id, _ := ctx.Value(actionKey{}).(int)
	if st.fault(id) == "get-dir" {
		st.logf("action %d: GetBuildDirectory fails by injection", id)
		return nil, nil, status.Error(codes.Internal, "scripted failure to acquire a build directory")
	}
	callsBefore := st.dirCalls.Load()
	cleansBefore := st.m.calls.Load()
	bd, tr, err := st.creator.GetBuildDirectory(ctx, actionDigestIfNotRunInParallel)
	faulted := st.cfg.DirFaultAt >= int(callsBefore) && st.cfg.DirFaultAt < int(st.dirCalls.Load())
	cleanFaulted := st.cfg.CleanFaultAt >= int(cleansBefore) && st.cfg.CleanFaultAt < int(st.m.calls.Load())
	if err != nil {
		st.logf("action %d: GetBuildDirectory fails: %v", id, err)
		// A directory left behind by an injected RemoveAll failure makes a
		// later action with the same cacheable digest fail (rather than
		// start in a dirty directory) until the next idle clean.
		leftover, _ := st.faultHit.Load().(string)
		if !faulted && !cleanFaulted && ctx.Err() == nil && leftover != "RemoveAll" {
			st.violation("no-build-directory-without-any-failure", fmt.Sprintf("action %d got no build directory although no directory operation, cleaning or context failed: %v", id, err))
		}
		if faulted {
			st.r.Situation("directory-creation-failure")
		}
		return nil, nil, err
	}
	name := tr.GetUNIXString()
	st.m.enterUse("build-directory-handed-out")
	st.mu.Lock()
	other, shared := st.live[name]
	st.live[name] = id
	st.handed[id]++
	st.mu.Unlock()
	st.logf("action %d: gets directory %q", id, name)
	if shared {
		st.violation("two-actions-share-a-directory", fmt.Sprintf("directory %q handed to action %d while action %d still uses it", name, id, other))
	}
	if ents, rerr := bd.ReadDir(); rerr != nil || len(ents) != 0 {
		st.violation("build-directory-not-empty-at-start", fmt.Sprintf("directory %q handed to action %d: ReadDir -> %d entries, err=%v", name, id, len(ents), rerr))
	}
	if fi, serr := os.Lstat(filepath.Join(st.dir, name)); serr != nil || !fi.IsDir() {
		st.violation("build-directory-missing-at-start", fmt.Sprintf("directory %q handed to action %d does not exist below the root: %v", name, id, serr))
	}
	return &monDir{BuildDirectory: bd, st: st, name: name, id: id}, tr, nil
}

type actionKey struct{}

// monDir watches the end of an action.
type monDir struct {
	builder.BuildDirectory
	st     *stack
	name   string
	id     int
	closed atomic.Bool
}

func (st *stack) fault(id int) string {
	st.mu.Lock()
	defer st.mu.Unlock()
	return st.actionFault[id]
}

func (d *monDir) Mkdir(name path.Component, perm os.FileMode) error {
	if d.st.fault(d.id) == "mkdir:"+name.String() {
		return syscall.EIO
	}
	return d.BuildDirectory.Mkdir(name, perm)
}

func (d *monDir) EnterBuildDirectory(name path.Component) (builder.BuildDirectory, error) {
	if d.st.fault(d.id) == "enter:"+name.String() {
		return nil, syscall.EIO
	}
	c, err := d.BuildDirectory.EnterBuildDirectory(name)
	if err != nil {
		return nil, err
	}
	return &monChild{BuildDirectory: c, st: d.st, id: d.id}, nil
}

// monChild carries the per-action fault injection into subdirectories of
// the build directory (input root, /dev).
type monChild struct {
	builder.BuildDirectory
	st *stack
	id int
}

func (d *monChild) Mkdir(name path.Component, perm os.FileMode) error {
	if d.st.fault(d.id) == "mkdir:"+name.String() {
		return syscall.EIO
	}
	return d.BuildDirectory.Mkdir(name, perm)
}

func (d *monChild) EnterBuildDirectory(name path.Component) (builder.BuildDirectory, error) {
	if d.st.fault(d.id) == "enter:"+name.String() {
		return nil, syscall.EIO
	}
	c, err := d.BuildDirectory.EnterBuildDirectory(name)
	if err != nil {
		return nil, err
	}
	return &monChild{BuildDirectory: c, st: d.st, id: d.id}, nil
}

func (d *monChild) Mknod(name path.Component, perm os.FileMode, deviceNumber filesystem.DeviceNumber) error {
	if d.st.fault(d.id) == "mknod:"+name.String() {
		return syscall.EPERM
	}
	return d.BuildDirectory.Mknod(name, perm, deviceNumber)
}

func (d *monDir) InstallHooks(filePool pool.FilePool, errorLogger util.ErrorLogger) {
	d.st.mu.Lock()
	d.st.loggers[d.id] = errorLogger
	d.st.mu.Unlock()
	d.BuildDirectory.InstallHooks(filePool, errorLogger)
}

func (d *monDir) Close() error {
	st := d.st
	if d.closed.Swap(true) {
		st.violation("build-directory-closed-twice", fmt.Sprintf("action %d", d.id))
	}
	callsBefore := st.dirCalls.Load()
	cleansBefore := st.m.calls.Load()
	st.mu.Lock()
	delete(st.live, d.name)
	st.mu.Unlock()
	st.m.leaveUse()
	err := d.BuildDirectory.Close()
	faulted := st.cfg.DirFaultAt >= int(callsBefore) && st.cfg.DirFaultAt < int(st.dirCalls.Load())
	cleanFaulted := st.cfg.CleanFaultAt >= int(cleansBefore) && st.cfg.CleanFaultAt < int(st.m.calls.Load())
	st.logf("action %d: closes directory %q: err=%v", d.id, d.name, err)
	_, serr := os.Lstat(filepath.Join(st.dir, d.name))
	left := serr == nil
	switch {
	case faulted || cleanFaulted:
		if err == nil {
			st.violation("failure-at-end-of-action-not-reported", fmt.Sprintf("closing %q: a directory operation or cleaning failed (%v) but Close returned nil", d.name, st.faultHit.Load()))
		}
	case err != nil:
		st.violation("close-failed-without-any-failure", fmt.Sprintf("closing %q returned %v although nothing failed", d.name, err))
	}
	if left && !(faulted && st.faultHit.Load() == "RemoveAll") {
		st.violation("build-directory-left-behind", fmt.Sprintf("directory %q of action %d still exists after its Close returned (err=%v)", d.name, d.id, err))
	}
	if err == nil && st.fault(d.id) == "close" {
		return status.Error(codes.Internal, "scripted failure to close the build directory")
	}
	return err
}

// checkNoStray (sequential modes only): every entry of the root belongs to a
// live action, or is the leftover of an injected RemoveAll failure.
func (st *stack) checkNoStray(where string) {
	if st.cfg.Mode != "scripted" {
		return
	}
	hit, _ := st.faultHit.Load().(string)
	st.mu.Lock()
	var stray []string
	for _, n := range st.listRoot() {
		if _, ok := st.live[n]; !ok {
			stray = append(stray, n)
		}
	}
	st.mu.Unlock()
	if len(stray) > 0 && hit != "RemoveAll" {
		st.violation("stray-directory-in-root where="+where, fmt.Sprintf("entries %v in the build directory root belong to no running action", stray))
	}
}

// populate creates files as an action would.
func (st *stack) populate(bd builder.BuildDirectory, name string, id int) {
	bd.Mkdir(path.MustNewComponent("sub"), 0o777)
	base := filepath.Join(st.dir, name)
	os.WriteFile(filepath.Join(base, "sub", "file"), []byte(fmt.Sprintf("action %d", id)), 0o644)
	os.MkdirAll(filepath.Join(base, "deep", "er", "dir"), 0o755)
	os.WriteFile(filepath.Join(base, "deep", "er", "dir", "ro"), []byte("x"), 0o444)
	os.Symlink("../sub/file", filepath.Join(base, "deep", "link"))
}

var cacheableDigests = func() []digest.Digest {
	var ds []digest.Digest
	for i := 0; i < 3; i++ {
		ds = append(ds, wexec.DigestOf([]byte(fmt.Sprintf("cacheable action %d", i))))
	}
	return ds
}()

// oneAction plays a fake executor using a build directory.
func (st *stack) oneAction(id int, cacheable int, digestLocks []sync.Mutex, hold func()) {
	ctx := context.WithValue(context.Background(), actionKey{}, id)
	var dg *digest.Digest
	if cacheable >= 0 {
		// The scheduler never runs one cacheable action twice at once.
		digestLocks[cacheable].Lock()
		defer digestLocks[cacheable].Unlock()
		dg = &cacheableDigests[cacheable]
	}
	bd, tr, err := st.GetBuildDirectory(ctx, dg)
	if err != nil {
		st.checkNoStray("after-failed-creation")
		return
	}
	st.populate(bd, tr.GetUNIXString(), id)
	if hold != nil {
		hold()
	}
	st.m.duringUse("action")
	bd.Close()
	st.checkNoStray("after-close")
}

// finish checks the state after all actions have ended and removes the
// temporary directory.
func (st *stack) finish(expectClean bool) {
	defer st.closeFn()
	st.m.planFn = func(int) cleanPlan { return cleanPlan{} }
	st.mu.Lock()
	nlive := len(st.live)
	st.mu.Unlock()
	if nlive != 0 {
		st.violation("harness-bookkeeping", "live set not empty at the end")
	}
	if expectClean {
		if names := st.listRoot(); len(names) != 0 {
			st.violation("root-not-empty-after-all-actions", fmt.Sprintf("entries left in the build directory root after all actions ended: %v", names))
		}
	}
	st.m.probeIdle(st.inv, "creators")
	if st.cfg.RealCleaner {
		if names := st.listRoot(); len(names) != 0 {
			st.violation("root-not-empty-after-idle-clean", fmt.Sprintf("entries left in the build directory root after an idle clean: %v", names))
		}
	}
	st.r.Count("directory_calls", int(st.dirCalls.Load()))
	st.r.Count("cleaner_calls", int(st.m.calls.Load()))
}

func creatorStress(r *ev.Run, cfg stackCfg) {
	r.Case("creators %+v", cfg)
	st, err := newStack(r, cfg, scn{"creators-stress", cfg})
	if err != nil {
		r.Inconclusive("cannot set up temp dir: %v", err)
		return
	}
	locks := make([]sync.Mutex, len(cacheableDigests))
	var wg sync.WaitGroup
	var overlaps atomic.Int64
	var inFlight atomic.Int64
	for g := 0; g < cfg.Goroutines; g++ {
		wg.Add(1)
		go func(g int) {
			defer wg.Done()
			rng := r.Rand(41, uint64(cfg.Case), uint64(g))
			for i := 0; i < cfg.Actions; i++ {
				cacheable := -1
				if rng.IntN(2) == 0 {
					cacheable = rng.IntN(len(cacheableDigests))
				}
				yields := 3 + rng.IntN(25)
				st.oneAction(g*1000+i, cacheable, locks, func() {
					if inFlight.Add(1) > 1 {
						overlaps.Add(1)
					}
					for y := 0; y < yields; y++ {
						runtime.Gosched()
					}
					inFlight.Add(-1)
				})
			}
		}(g)
	}
	done := make(chan struct{})
	go func() { wg.Wait(); close(done) }()
	select {
	case <-done:
	case <-time.After(watchdog):
		r.Inconclusive("creator stress case %d did not finish", cfg.Case)
		return
	}
	st.finish(true)
	r.SituationN("concurrent-actions-in-distinct-directories", int(overlaps.Load()))
	r.Hash(ev.HashOf("stress", cfg.Goroutines, cfg.Actions, cfg.RealCleaner, overlaps.Load(), st.m.calls.Load()), overlaps.Load() > 0)
}

// creatorScripted runs a fixed sequential script (with an optional
// long-lived holder action) and returns the number of directory calls and
// cleaner calls, so that faults can be enumerated over them.
func creatorScripted(r *ev.Run, cfg stackCfg) (int, int) {
	r.Case("creators %+v", cfg)
	st, err := newStack(r, cfg, scn{"creators-scripted", cfg})
	if err != nil {
		r.Inconclusive("cannot set up temp dir: %v", err)
		return 0, 0
	}
	locks := make([]sync.Mutex, len(cacheableDigests))
	var holderDone, holderRelease chan struct{}
	if cfg.Holder {
		holderDone, holderRelease = make(chan struct{}), make(chan struct{})
		started := make(chan struct{})
		go func() {
			defer close(holderDone)
			first := true
			st.oneAction(9000, -1, locks, func() { first = false; close(started); <-holderRelease })
			if first {
				close(started) // the holder itself got no directory
			}
		}()
		<-started
	}
	rng := r.Rand(42, uint64(cfg.Case))
	for i := 0; i < cfg.Actions; i++ {
		cacheable := -1
		if rng.IntN(2) == 0 {
			cacheable = rng.IntN(len(cacheableDigests))
		}
		st.oneAction(i, cacheable, locks, nil)
	}
	if cfg.Holder {
		close(holderRelease)
		<-holderDone
	}
	dirCalls, cleanCalls := int(st.dirCalls.Load()), int(st.m.calls.Load())
	hit, _ := st.faultHit.Load().(string)
	// Without a cleaner that empties the root, a failed RemoveAll leaves
	// its directory behind legitimately.
	st.finish(cfg.RealCleaner || hit != "RemoveAll")
	nontrivial := cfg.DirFaultAt >= 0 || cfg.CleanFaultAt >= 0
	if hit != "" {
		r.Situation("directory-fault-" + hit)
	}
	if cfg.CleanFaultAt >= 0 && cfg.CleanFaultAt < cleanCalls {
		r.Situation("cleaner-fault-in-creator-stack")
	}
	r.Hash(ev.HashOf("scripted", cfg.Case, cfg.Holder, cfg.RealCleaner, cfg.DirFaultAt, cfg.CleanFaultAt, hit, dirCalls, cleanCalls), nontrivial)
	return dirCalls, cleanCalls
}

// ---------------------------------------------------------------------
// NewCleanBuildDirectoryCreator over a base creator that can fail (in the
// stack wired by bb_worker its base, the root creator, never does).

type failingCreator struct {
	base        builder.BuildDirectoryCreator
	failAt      int
	failCloseAt int // the directory handed out by this call fails to close
	calls       atomic.Int64
}

func (c *failingCreator) GetBuildDirectory(ctx context.Context, d *digest.Digest) (builder.BuildDirectory, *path.Trace, error) {
	idx := int(c.calls.Add(1)) - 1
	if idx == c.failAt {
		return nil, nil, status.Error(codes.Internal, "scripted failure of the base creator")
	}
	bd, tr, err := c.base.GetBuildDirectory(ctx, d)
	if err == nil && idx == c.failCloseAt {
		bd = failingCloseDir{bd}
	}
	return bd, tr, err
}

type failingCloseDir struct{ builder.BuildDirectory }

func (d failingCloseDir) Close() error {
	d.BuildDirectory.Close()
	return status.Error(codes.Internal, "scripted failure to close the base directory")
}

type failingBaseCfg struct {
	Case        int  `json:"case"`
	Calls       int  `json:"calls"`
	FailAt      int  `json:"fail_at"`
	FailCloseAt int  `json:"fail_close_at"` // -1 none
	Holder      bool `json:"holder"`
}

func cleanCreatorOverFailingBase(r *ev.Run, cfg failingBaseCfg) {
	r.Case("clean-creator-over-failing-base %+v", cfg)
	dir, err := os.MkdirTemp("", "verif-c12-")
	if err != nil {
		r.Inconclusive("cannot set up temp dir: %v", err)
		return
	}
	defer os.RemoveAll(dir)
	naive, closer, err := wexec.NewNaiveRoot(dir, wexec.NewCAS())
	if err != nil {
		r.Inconclusive("cannot open temp dir: %v", err)
		return
	}
	defer closer.Close()
	m := newMonitor(r, scn{"failing-base", cfg}, func(idx int) cleanPlan { return cleanPlan{Yields: idx % 3} })
	inv := cleaner.NewIdleInvoker(m.clean)
	creator := builder.NewCleanBuildDirectoryCreator(&failingCreator{base: builder.NewRootBuildDirectoryCreator(naive), failAt: cfg.FailAt, failCloseAt: cfg.FailCloseAt}, inv)
	ctx := context.Background()
	var holder builder.BuildDirectory
	if cfg.Holder {
		if holder, _, err = creator.GetBuildDirectory(ctx, nil); err == nil {
			m.enterUse("holder")
		} else {
			holder = nil
		}
	}
	for i := 0; i < cfg.Calls; i++ {
		bd, _, err := creator.GetBuildDirectory(ctx, nil)
		if err != nil {
			r.Situation("base-creator-failure-under-clean-creator")
			if holder == nil {
				m.probeIdle(inv, "after-failed-base-creator")
			}
			continue
		}
		m.enterUse("action")
		m.duringUse("action")
		m.leaveUse()
		callIdx := i
		if cfg.Holder {
			callIdx = i + 1
		}
		err = bd.Close()
		switch {
		case callIdx == cfg.FailCloseAt:
			// The base directory failed to close: the error has to
			// surface and the invoker must be released all the same.
			r.Situation("clean-creator-base-close-fails")
			if err == nil {
				m.violation("failure-at-end-of-action-not-reported", "the base directory's Close failed but the clean creator's Close returned nil")
			}
			if holder == nil {
				m.probeIdle(inv, "after-failed-base-close")
			}
		case err != nil:
			m.violation("close-failed-without-any-failure", fmt.Sprintf("clean creator: %v", err))
		}
	}
	if holder != nil {
		before := m.calls.Load()
		m.leaveUse()
		holder.Close()
		if m.calls.Load() != before+1 {
			m.violation("no-clean-when-last-action-ended", fmt.Sprintf("closing the last build directory invoked the cleaner %d times: a failed creation left the invoker acquired (or released it twice)", m.calls.Load()-before))
		}
	}
	m.probeIdle(inv, "clean-creator-end")
	r.Count("cleaner_calls", int(m.calls.Load()))
	r.Hash(ev.HashOf("failing-base", cfg.Calls, cfg.FailAt, cfg.FailCloseAt, cfg.Holder, m.calls.Load()), cfg.FailAt < cfg.Calls+1)
}

// ---------------------------------------------------------------------
// LocalBuildExecutor on top of the monitored creator stack.

type execCfg struct {
	Case        int      `json:"case"`
	Executors   int      `json:"executors"`
	Outcomes    []string `json:"outcomes"`
	RealCleaner bool     `json:"real_directory_cleaner"`
}

func executorRuns(r *ev.Run, cfg execCfg) {
	r.Case("executor %+v", cfg)
	st, err := newStack(r, stackCfg{Case: cfg.Case, Mode: "executor", RealCleaner: cfg.RealCleaner, DirFaultAt: -1, CleanFaultAt: -1}, scn{"executor", cfg})
	if err != nil {
		r.Inconclusive("cannot set up temp dir: %v", err)
		return
	}
	type running struct {
		ctx     context.Context
		outcome string
		release chan struct{}
	}
	var rmu sync.Mutex
	byAction := map[string]*running{}
	var concurrent atomic.Int64
	var maxConcurrent atomic.Int64
	run := &wexec.Runner{RunFunc: func(ctx context.Context, req *runner_pb.RunRequest) (*runner_pb.RunResponse, error) {
		rmu.Lock()
		ru := byAction[req.Arguments[0]]
		rmu.Unlock()
		root := filepath.Join(st.dir, req.InputRootDirectory)
		for _, p := range []string{root, filepath.Join(st.dir, req.TemporaryDirectory), filepath.Join(st.dir, req.ServerLogsDirectory)} {
			if fi, err := os.Stat(p); err != nil || !fi.IsDir() {
				st.violation("runner-sees-incomplete-build-directory", fmt.Sprintf("%s: %v", p, err))
			}
		}
		// The action's input root is empty; the only entry the executor
		// creates is the parent directory of the declared output.
		if ents, _ := os.ReadDir(root); len(ents) != 1 || ents[0].Name() != "nested" {
			st.violation("input-root-not-as-requested-at-start", fmt.Sprintf("input root of %s has %d entries, expected only the output parent directory", req.Arguments[0], len(ents)))
		}
		if n := concurrent.Add(1); n > maxConcurrent.Load() {
			maxConcurrent.Store(n)
		}
		defer concurrent.Add(-1)
		st.m.duringUse("runner")
		os.WriteFile(filepath.Join(st.dir, req.StdoutPath), []byte("out of "+req.Arguments[0]), 0o644)
		os.WriteFile(filepath.Join(st.dir, req.StderrPath), nil, 0o644)
		os.WriteFile(filepath.Join(root, "output"), []byte("data"), 0o644)
		os.MkdirAll(filepath.Join(st.dir, req.TemporaryDirectory, "scratch", "deep"), 0o755)
		os.WriteFile(filepath.Join(st.dir, req.ServerLogsDirectory, "log"), []byte("log"), 0o644)
		switch ru.outcome {
		case "runner-error":
			return nil, status.Error(codes.Internal, "scripted runner failure")
		case "cancelled":
			close(ru.release)
			<-ctx.Done()
			return nil, wexec.ContextError(ctx)
		}
		for y := 0; y < 5; y++ {
			runtime.Gosched()
		}
		return &runner_pb.RunResponse{ExitCode: 0}, nil
	}}
	executor := builder.NewLocalBuildExecutor(st.store, st, run, vclock.New(1000), time.Hour, nil, 1<<20, nil, false)
	emptyRoot := st.store.PutProto(&remoteexecution.Directory{})
	var wg sync.WaitGroup
	for e := 0; e < cfg.Executors; e++ {
		wg.Add(1)
		go func(e int) {
			defer wg.Done()
			for i, outcome := range cfg.Outcomes {
				id := fmt.Sprintf("c%d-e%d-a%d", cfg.Case, e, i)
				cmd := &remoteexecution.Command{Arguments: []string{id}, OutputPaths: []string{"output", "nested/dir/out"}}
				action := &remoteexecution.Action{
					CommandDigest:   st.store.PutProto(cmd).GetProto(),
					InputRootDigest: emptyRoot.GetProto(),
					Timeout:         durationpb.New(time.Hour),
					DoNotCache:      (e+i)%2 == 0,
				}
				if outcome == "missing-command" {
					action.CommandDigest = wexec.DigestOf([]byte("absent " + id)).GetProto()
				}
				ctx, cancel := context.WithCancel(context.WithValue(context.Background(), actionKey{}, e*1000+i))
				ru := &running{ctx: ctx, outcome: outcome, release: make(chan struct{})}
				rmu.Lock()
				byAction[id] = ru
				rmu.Unlock()
				if outcome == "cancelled" {
					go func() { <-ru.release; cancel() }()
				}
				updates := make(chan *remoteworker.CurrentState_Executing, 10)
				go func() {
					for range updates {
					}
				}()
				resp := executor.Execute(ctx, nil, nil, wexec.DigestFunction, &remoteworker.DesiredState_Executing{ActionDigest: st.store.PutProto(action).GetProto(), Action: action}, updates)
				close(updates)
				cancel()
				code := codes.Code(resp.GetStatus().GetCode())
				want := map[string]codes.Code{"ok": codes.OK, "runner-error": codes.Internal, "cancelled": codes.Canceled, "missing-command": codes.NotFound}[outcome]
				st.logf("execution %s (%s) ends with %v", id, outcome, code)
				if code != want {
					st.violation("executor-outcome-unexpected outcome="+outcome, fmt.Sprintf("execution %s: status %v %q, expected %v", id, code, resp.GetStatus().GetMessage(), want))
				}
				st.r.Situation("executor-ends-" + outcome)
			}
		}(e)
	}
	done := make(chan struct{})
	go func() { wg.Wait(); close(done) }()
	select {
	case <-done:
	case <-time.After(watchdog):
		r.Inconclusive("executor case %d did not finish", cfg.Case)
		return
	}
	st.finish(true)
	if maxConcurrent.Load() > 1 {
		st.r.Situation("concurrent-executors")
	}
	r.Hash(ev.HashOf("executor", cfg.Executors, strings.Join(cfg.Outcomes, ","), cfg.RealCleaner, st.m.calls.Load()), true)
}
